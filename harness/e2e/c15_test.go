package e2e

import (
	"fmt"
	"math/rand/v2"
	"net/http"
	"net/url"
	"reflect"
	"sort"
	"strings"
	"sync"
	"testing"

	"github.com/dadrus/heimdall/internal/config"
	rconfig "github.com/dadrus/heimdall/internal/rules/config"
	"github.com/dadrus/heimdall/internal/verif/vkit/app"
	"github.com/dadrus/heimdall/internal/verif/vkit/core"
)

type c15Rewrite struct {
	ID      string   `json:"rule"`
	Slashes string   `json:"allow_encoded_slashes,omitempty"`
	Scheme  string   `json:"scheme,omitempty"`
	Strip   string   `json:"strip_path_prefix,omitempty"`
	Add     string   `json:"add_path_prefix,omitempty"`
	DelQ    []string `json:"strip_query_parameters,omitempty"`
}

var c15Rewrites = []c15Rewrite{
	{ID: "p0"},
	{ID: "p1", Strip: "/p1"},
	{ID: "p2", Add: "/added"},
	{ID: "p3", Strip: "/p3/api", Add: "/v2"},
	{ID: "p4", DelQ: []string{"token", "debug"}},
	{ID: "p5", Strip: "/p5", Add: "/svc/x", DelQ: []string{"token"}},
	{ID: "p6", Slashes: "no_decode", Strip: "/p6"},
	{ID: "p7", Slashes: "on", Add: "/on"},
	{ID: "p8", Strip: "/p8/%7Euser"}, // prefix containing an escape
	{ID: "p9", Strip: "/nomatch", Add: "/a~b"},
}

// pipeline headers (header finalizer) which collide with client headers
var c15PipelineHeaders = map[string]string{
	"X-User":        "{{ .Subject.ID }}",
	"Authorization": "Bearer from-pipeline",
	"X-Mixed-Case":  "pipeline",
	"X-Api-Key":     "k-{{ .Request.Method }}",
	"X-Groups":      "{{ if false }}never{{ end }}", // a pipeline header whose value is empty for this subject
	// names written the way YAML authors write them: not in canonical form
	"x-lower-name": "pipeline-lower",
	"X-UPPER-NAME": "pipeline-upper",
}

func c15RuleSets(up string) []*rconfig.RuleSet {
	rs := &rconfig.RuleSet{Version: "1alpha4", Name: "c15", MetaData: rconfig.MetaData{Source: "c15", Hash: []byte("c15")}}
	for i, rw := range c15Rewrites {
		be := &rconfig.Backend{Host: up}
		if rw.Strip != "" || rw.Add != "" || len(rw.DelQ) > 0 || rw.Scheme != "" {
			be.URLRewriter = &rconfig.URLRewriter{Scheme: rw.Scheme, PathPrefixToCut: rconfig.PrefixCutter(rw.Strip), PathPrefixToAdd: rconfig.PrefixAdder(rw.Add), QueryParamsToRemove: rw.DelQ}
		}
		rs.Rules = append(rs.Rules, rconfig.Rule{ID: rw.ID, EncodedSlashesHandling: rconfig.EncodedSlashesHandling(rw.Slashes),
			Matcher: rconfig.Matcher{Routes: []rconfig.Route{{Path: "/" + rw.ID + "/**"}}}, Backend: be,
			Execute: []config.MechanismConfig{{"authenticator": "anon"}, {"finalizer": "hdrs"}, {"finalizer": "roles2"}}})
		if i%3 == 2 {
			// every third rule has a pipeline that produces one of the forwarding headers itself
			rl := &rs.Rules[len(rs.Rules)-1]
			rl.Execute = append(rl.Execute, config.MechanismConfig{"finalizer": "fwdproto"})
		}
		if i%2 == 1 {
			// every second rule has a pipeline which reads the request body (heimdall then buffers it instead of streaming it)
			rl := &rs.Rules[len(rs.Rules)-1]
			rl.Execute = append(rl.Execute, config.MechanismConfig{"finalizer": "bodyreader"})
		}
	}
	return []*rconfig.RuleSet{rs}
}

// ---- reference rewrite -------------------------------------------------------------------------------

func refRewritePath(rw c15Rewrite, escaped string) string {
	p := escaped
	if rw.Strip != "" {
		p = strings.TrimPrefix(p, rw.Strip)
	}
	if rw.Add+p == "" {
		return "/" // an empty path cannot be sent; origin-form requires at least "/"
	}
	return rw.Add + p
}

// c15EscapeInvalid escapes exactly the bytes RFC 3986 does not allow in a path; everything else stays as it is
func c15EscapeInvalid(p string) string {
	var b strings.Builder
	for i := 0; i < len(p); i++ {
		c := p[i]
		if 'a' <= c && c <= 'z' || 'A' <= c && c <= 'Z' || '0' <= c && c <= '9' || strings.IndexByte("-_.~/%!$&'()*+,;=:@", c) >= 0 {
			b.WriteByte(c)
		} else {
			b.WriteString(fmt.Sprintf("%%%02X", c))
		}
	}
	return b.String()
}

type qparam struct{ k, v string }

func parseQueryOrdered(raw string) (map[string][]string, bool) {
	out := map[string][]string{}
	if raw == "" {
		return out, true
	}
	for _, part := range strings.Split(raw, "&") {
		if part == "" {
			continue
		}
		k, v, _ := strings.Cut(part, "=")
		dk, err1 := url.QueryUnescape(k)
		dv, err2 := url.QueryUnescape(v)
		if err1 != nil || err2 != nil {
			return nil, false
		}
		out[dk] = append(out[dk], dv)
	}
	return out, true
}

// ---- generators ------------------------------------------------------------------------------------------

var c15Segs = []string{"a", "users", "A.b-c_d~e", "a%20b", "%C3%BC", "x;y=1", "a:b@c", "a+b", "%3Fq", "%23frag", "%25", "%2B", "$&'()*,", "!", "caf%c3%a9", "%41%42", "l%6fwer", "api", "v1",
	// characters net/url does not accept unescaped in a path (the received form is not a valid encoding), next to ones it does
	"a|b", "x^y:z", "{id}@host", "u:p@h|x", "<v>", "q\"t;k=v:1", "a%2Bb|c@d:e"}

func c15Path(rng *rand.Rand, rw c15Rewrite) string {
	var parts []string
	if rw.ID == "p3" && rng.IntN(3) != 0 {
		parts = append(parts, "api")
	}
	if rw.ID == "p8" && rng.IntN(3) != 0 {
		parts = append(parts, []string{"%7Euser", "~user", "%7euser"}[rng.IntN(3)])
	}
	for n := rng.IntN(4); n > 0; n-- {
		parts = append(parts, c15Segs[rng.IntN(len(c15Segs))])
	}
	if (rw.Slashes == "no_decode" || rw.Slashes == "on") && rng.IntN(3) == 0 {
		parts = append(parts, []string{"x%2Fy", "%2F", "a%2fb"}[rng.IntN(3)])
	}
	if len(parts) == 0 {
		parts = append(parts, "first") // a free wildcard needs a non-empty remainder
	}
	if rng.IntN(6) == 0 {
		parts = append(parts, "") // trailing slash
	}
	return "/" + rw.ID + "/" + strings.Join(parts, "/")
}

var c15QParts = []string{"%74oken=enc", "tok%65n=enc2", "debu%67=1", "de+bug=x", "tok=1", "tokens=x", "d=2", "Token=upper", "a=1", "a=2", "b=x%20y", "b=x+y", "token=secret", "token=s2", "debug", "debug=", "c=%26%3D", "empty=", "flag", "k%20ey=v", "z=%C3%BC", "a=3"}

// queries net/url cannot parse completely; none of them names a parameter any rule strips
var c15OddQueries = []string{"q=100%&page=2", "filter=a;b&x=1", "r=%zz&keep=1", "a=1&b=%&c=3", "x=1;y=2",
	// names that cannot be decoded, with and without a value
	"100%=q&page=2", "ab%zzcd=v&keep=1", "a=1&50%&c=3", "%=x", "p=1&%zz"}

func c15Query(rng *rand.Rand) string {
	if rng.IntN(8) == 0 {
		return c15OddQueries[rng.IntN(len(c15OddQueries))]
	}
	n := rng.IntN(5)
	var parts []string
	for i := 0; i < n; i++ {
		parts = append(parts, c15QParts[rng.IntN(len(c15QParts))])
	}
	return strings.Join(parts, "&")
}

func randCase(rng *rand.Rand, s string) string {
	b := []byte(s)
	for i := range b {
		if rng.IntN(2) == 0 {
			b[i] = byte(strings.ToUpper(string(b[i]))[0])
		} else {
			b[i] = byte(strings.ToLower(string(b[i]))[0])
		}
	}
	return string(b)
}

type c15Case struct {
	Trusted  bool             `json:"peer_is_trusted_proxy"`
	Rewrite  c15Rewrite       `json:"rule"`
	Method   string           `json:"method"`
	Target   string           `json:"request_target"`
	Headers  []app.Hdr        `json:"client_headers"`
	BodyLen  int              `json:"body_length"`
	Expected map[string]any   `json:"expected"`
	Status   int              `json:"status"`
	Upstream *app.UpstreamHit `json:"upstream_received"`
}

func TestC15(t *testing.T) {
	r := core.Begin("C15", "exploration")
	r.Rule("two fx-assembled proxy services (peer untrusted / peer in trusted_proxies) with 10 rules covering every rewrite option (none, strip, add, strip+add, removed query parameters, combinations, " +
		"no_decode, on, prefix containing an escape, non-matching prefix); seeded requests: RFC 3986 pchar paths with arbitrary percent-encoding (reserved characters, UTF-8, either hex case, %2F where " +
		"permitted), queries with repeated/encoded/valueless parameters, all methods, bodies up to 1 MiB, client headers colliding with pipeline headers in random casing and repetition, " +
		"X-Forwarded-Method/-Uri/-Path/-For/-Proto/-Host and Forwarded. Observed: request line, Host, headers, body at the upstream echo server. Additionally Backend.CreateURL is driven directly " +
		"incl. scheme rewrite. Non-trivial: the rule rewrites something or the request carries colliding/forwarding headers.")
	r.Assume("paths use RFC 3986 pchar characters only (others are legitimately normalised by net/url)",
		"when query parameters are removed the query is compared as multimap with per-key value order (url.Values.Encode sorts keys); otherwise byte-identical",
		"with allow_encoded_slashes: on the forwarded path is compared after percent-decoding (the setting asks for decoding)")
	type inst struct {
		trusted bool
		a       *app.App
		peer    string // the address heimdall sees the client under
	}
	up := app.NewUpstream()
	defer up.Close()
	var insts []inst
	for k, trusted := range []bool{false, true, true} {
		host, peer := "127.0.0.1", "127.0.0.1"
		if k == 2 {
			host, peer = "::1", "::1" // a trusted proxy connecting over IPv6
		}
		a, err := app.New(app.Options{Service: app.SvcProxy, Host: host, Mutate: func(c *config.Configuration) {
			hs := map[string]any{}
			for k, v := range c15PipelineHeaders {
				hs[k] = v
			}
			// X-Roles is produced by two steps of the pipeline (how several values reach the upstream is C13's subject;
			// here: whatever arrives comes from the pipeline, nothing from the client)
			hs["X-Roles"] = "pipeline-first"
			c.Prototypes.Finalizers = append(c.Prototypes.Finalizers, config.Mechanism{ID: "hdrs", Type: "header", Config: config.MechanismConfig{"headers": hs}})
			c.Prototypes.Finalizers = append(c.Prototypes.Finalizers, config.Mechanism{ID: "roles2", Type: "header", Config: config.MechanismConfig{"headers": map[string]any{"X-Roles": "pipeline-second"}}})
			c.Prototypes.Finalizers = append(c.Prototypes.Finalizers, config.Mechanism{ID: "fwdproto", Type: "header",
				Config: config.MechanismConfig{"headers": map[string]any{"X-Forwarded-Proto": "pipeline-proto"}}})
			c.Prototypes.Finalizers = append(c.Prototypes.Finalizers, config.Mechanism{ID: "bodyreader", Type: "header",
				Config: config.MechanismConfig{"headers": map[string]any{"X-Verif-Body-Read": "{{ if .Request.Body }}non-empty{{ else }}empty{{ end }}"}}})
			if trusted {
				c.Serve.Proxy.TrustedProxies = &[]string{"127.0.0.0/8", "::1"}
			}
		}})
		if err != nil && k == 2 {
			r.Set("ipv6_loopback", "not available: "+err.Error())
			continue
		}
		if err != nil {
			r.Inconclusive("cannot start proxy: " + err.Error())
			r.End()
		}
		defer a.Stop()
		for _, rs := range c15RuleSets(up.HostPort()) {
			if err := a.Proc.OnCreated(rs); err != nil {
				r.Inconclusive("rule set rejected: " + err.Error())
				r.End()
			}
		}
		insts = append(insts, inst{trusted, a, peer})
	}
	rng := r.Stream("c15")
	n := r.Pick(3000, 100000)
	// the method is a case-sensitive token (RFC 9110, 9.1) and reaches the upstream as sent
	methods := []string{"GET", "POST", "PUT", "DELETE", "PATCH", "OPTIONS", "HEAD", "get", "Patch", "PURGE", "query", "M-SEARCH"}
	bigBody := strings.Repeat("0123456789abcdef", 65536) // 1 MiB
	for i := 0; i < n && r.Violations() < 60; i++ {
		in := insts[rng.IntN(len(insts))]
		if in.peer != "127.0.0.1" {
			r.Count("requests_from_an_ipv6_peer", 1)
		}
		rwIdx := rng.IntN(len(c15Rewrites))
		rw := c15Rewrites[rwIdx]
		path := c15Path(rng, rw)
		query := c15Query(rng)
		target := path
		if query != "" {
			target += "?" + query
		}
		method := methods[rng.IntN(len(methods))]
		var body []byte
		if method == "POST" || method == "PUT" || method == "PATCH" {
			switch rng.IntN(6) {
			case 0:
			case 1:
				body = []byte(bigBody)
			case 2:
				// beyond any "reasonable" buffer size: 1 MiB + 1 byte ... 3 MiB, ending in a recognisable tail
				body = []byte(strings.Repeat(bigBody, 3)[:len(bigBody)+1+rng.IntN(2*len(bigBody)-1)] + "<tail>")
			default:
				body = []byte(strings.Repeat("b", 1+rng.IntN(3000)))
			}
		}
		reqID := nextReqID("c15")
		hdrs := []app.Hdr{{Name: app.HdrReq, Value: reqID}}
		if ct := []string{"", "text/plain", "application/octet-stream", "application/json", "application/x-www-form-urlencoded", "multipart/form-data; boundary=x"}[rng.IntN(6)]; ct != "" && body != nil {
			hdrs = append(hdrs, app.Hdr{Name: "Content-Type", Value: ct})
		}
		collide := false
		names := []string{"X-Roles"}
		for name := range c15PipelineHeaders {
			names = append(names, name)
		}
		sort.Strings(names)
		for _, name := range names {
			if rng.IntN(3) == 0 {
				collide = true
				for k := 1 + rng.IntN(2); k > 0; k-- {
					hdrs = append(hdrs, app.Hdr{Name: randCase(rng, name), Value: "from-client-" + fmt.Sprint(k)})
				}
			}
		}
		if rng.IntN(6) == 0 {
			// the client declares pipeline header names hop-by-hop (with or without sending such a header)
			var tokens []string
			for k := 1 + rng.IntN(2); k > 0; k-- {
				tokens = append(tokens, randCase(rng, names[rng.IntN(len(names))]))
			}
			if rng.IntN(2) == 0 {
				tokens = append(tokens, "keep-alive")
			}
			hdrs = append(hdrs, app.Hdr{Name: "Connection", Value: strings.Join(tokens, ", ")})
			r.Count("requests_declaring_pipeline_headers_hop_by_hop", 1)
		}
		if len(body) > 0 && rng.IntN(4) == 0 {
			hdrs = append(hdrs, app.Hdr{Name: app.HdrChunked, Value: "1"}) // same body, no announced length
			r.Count("chunked_request_bodies", 1)
		}
		fwd := map[string]string{}
		for _, h := range []struct{ n, v string }{{"X-Forwarded-Method", "DELETE"}, {"X-Forwarded-Uri", "/p0/evil?x=1"}, {"X-Forwarded-Path", "/p0/evil"},
			{"X-Forwarded-For", "1.2.3.4"}, {"X-Forwarded-Proto", "https"}, {"X-Forwarded-Host", "evil.example.com"}, {"Forwarded", "for=9.9.9.9;proto=https"}} {
			if rng.IntN(6) == 0 {
				name := randCase(rng, h.n)
				hdrs = append(hdrs, app.Hdr{Name: name, Value: h.v})
				fwd[h.n] = h.v
			}
		}
		// a trusted peer's X-Forwarded-Method/-Uri/-Host/-Proto change what is matched and forwarded by design (C09); this check
		// is about the rewrite of the *effective* request, so the trusted peer sends values equal to the actual request
		if in.trusted {
			for i := range hdrs {
				switch http.CanonicalHeaderKey(hdrs[i].Name) {
				case "X-Forwarded-Method":
					hdrs[i].Value = method
				case "X-Forwarded-Uri":
					hdrs[i].Value = target
				case "X-Forwarded-Host":
					hdrs[i].Value = "client.example.com"
				case "X-Forwarded-Proto":
					hdrs[i].Value = "http"
				}
			}
		}
		resp, err := app.RawDo(in.a.Addr(), method, target, "client.example.com", hdrs, body)
		hits := up.Take(reqID)
		nontrivial := rw.Strip != "" || rw.Add != "" || len(rw.DelQ) > 0 || collide || len(fwd) > 0
		r.Case(fmt.Sprintf("%v|%s|%s|%v|%d", in.trusted, method, target, hdrs[1:], len(body)), nontrivial)
		cs := c15Case{Trusted: in.trusted, Rewrite: rw, Method: method, Target: target, Headers: hdrs, BodyLen: len(body), Expected: map[string]any{}}
		if err != nil {
			r.Count("transport_errors", 1)
			continue
		}
		cs.Status = resp.Status
		// encoded slashes are only accepted by p6/p7
		hasEncSlash := strings.Contains(strings.ToUpper(path), "%2F")
		if len(hits) != 1 {
			if resp.Status == 200 || len(hits) > 1 {
				r.Violation("accepted-but-upstream-hits-"+fmt.Sprint(len(hits)), fmt.Sprintf("status %d with %d upstream hits for %s %s", resp.Status, len(hits), method, target), cs)
			} else if !hasEncSlash {
				r.Violation("request-not-forwarded", fmt.Sprintf("status %d, nothing forwarded for %s %s", resp.Status, method, target), cs)
			}
			continue
		}
		h := hits[0]
		cs.Upstream = &h
		r.Count("forwarded", 1)
		if i < 3 {
			r.Sample(cs)
		}
		// --- request line ---
		gotPath, gotQuery, _ := strings.Cut(h.RequestURI, "?")
		// characters which may not appear unescaped in a path may arrive escaped (a valid encoding of the very same path)
		expPath := c15EscapeInvalid(refRewritePath(rw, path))
		gotPath = c15EscapeInvalid(gotPath)
		cs.Expected["raw_path"] = expPath
		switch {
		case rw.Slashes == "on":
			d1, _ := url.PathUnescape(gotPath)
			d2, _ := url.PathUnescape(expPath)
			if d1 != d2 {
				r.Violation("forwarded-path-differs:on", fmt.Sprintf("forwarded path %q, expected (decoded) %q", gotPath, d2), cs)
			}
		case gotPath != expPath:
			sig := "forwarded-path-differs"
			if d1, _ := url.PathUnescape(gotPath); d1 == mustUnescape(expPath) {
				sig = "forwarded-path-encoding-changed"
			}
			r.Violation(sig, fmt.Sprintf("forwarded path %q, expected %q for client path %q", gotPath, expPath, path), cs)
		}
		if len(rw.DelQ) == 0 {
			cs.Expected["query"] = query
			if gotQuery != query {
				r.Violation("forwarded-query-differs", fmt.Sprintf("forwarded query %q, client sent %q and nothing is to be removed", gotQuery, query), cs)
			}
		} else {
			// the query is changed by the removal only: the other pairs stay as they were sent, in their order and encoding
			var keep []string
			for _, part := range strings.Split(query, "&") {
				k, _, _ := strings.Cut(part, "=")
				name, err := url.QueryUnescape(k)
				if err != nil {
					name = k
				}
				strip := false
				for _, d := range rw.DelQ {
					strip = strip || d == name
				}
				if !strip {
					keep = append(keep, part)
				}
			}
			if want := strings.Join(keep, "&"); gotQuery != want {
				cs.Expected["query"] = want
				r.Violation("forwarded-query-rewritten-beyond-removal", fmt.Sprintf("forwarded query %q, expected %q (client sent %q, to strip: %v)", gotQuery, want, query, rw.DelQ), cs)
			}
			exp, ok := parseQueryOrdered(query)
			got, ok2 := parseQueryOrdered(gotQuery)
			if !ok {
				// not parsable as a whole and free of the parameters to strip: nothing is to be removed, nothing else may change
				cs.Expected["query"] = query
				r.Count("unparsable_queries_through_a_stripping_rule", 1)
				if gotQuery != query {
					r.Violation("forwarded-query-differs", fmt.Sprintf("forwarded query %q, client sent %q which contains none of the parameters to strip", gotQuery, query), cs)
				}
			}
			if ok && ok2 {
				for _, d := range rw.DelQ {
					delete(exp, d)
				}
				cs.Expected["query_multimap"] = exp
				if !reflect.DeepEqual(exp, got) {
					r.Violation("forwarded-query-differs:removed-parameters", fmt.Sprintf("forwarded query %q, expected %v", gotQuery, exp), cs)
				}
				r.Count("query_removal_checked", 1)
			}
		}
		// --- method, body, host ---
		if h.Method != method {
			r.Violation("method-changed", fmt.Sprintf("upstream saw %s, client sent %s", h.Method, method), cs)
		}
		if h.Body != string(body) {
			r.Violation("body-changed", fmt.Sprintf("upstream body has %d bytes, client sent %d", len(h.Body), len(body)), cs)
		}
		if len(body) >= 1<<20 {
			r.Count("one_mib_bodies", 1)
		}
		if len(body) > 0 && len(h.Header["X-Verif-Body-Read"]) > 0 {
			r.Count("bodies_read_by_the_pipeline_and_forwarded", 1)
		}
		if h.Host != up.HostPort() {
			r.Violation("host-not-forward-to-host", fmt.Sprintf("upstream Host %q, forward_to.host %q", h.Host, up.HostPort()), cs)
		}
		// --- pipeline headers win ---
		for name, tmpl := range c15PipelineHeaders {
			want := tmpl
			want = strings.ReplaceAll(want, "{{ .Subject.ID }}", "anonymous")
			want = strings.ReplaceAll(want, "{{ .Request.Method }}", method)
			want = strings.ReplaceAll(want, "{{ if false }}never{{ end }}", "")
			got := h.Header[http.CanonicalHeaderKey(name)]
			if len(got) != 1 || got[0] != want {
				r.Violation("pipeline-header-not-winning:"+name, fmt.Sprintf("upstream %s = %q, pipeline value %q", name, got, want), cs)
			}
		}
		for _, v := range h.Header["X-Roles"] {
			if !strings.HasPrefix(v, "pipeline-") {
				r.Violation("pipeline-header-not-winning:X-Roles", fmt.Sprintf("upstream X-Roles = %q: only the values produced by the pipeline may arrive", h.Header["X-Roles"]), cs)
				break
			}
		}
		if len(h.Header["X-Roles"]) == 0 {
			r.Violation("pipeline-header-not-winning:X-Roles", "the header produced by two pipeline steps did not arrive at all", cs)
		}
		if collide {
			r.Count("colliding_header_requests", 1)
		}
		if rwIdx%3 == 2 {
			// the pipeline of this rule produces X-Forwarded-Proto itself
			r.Count("requests_through_a_pipeline_producing_a_forwarding_header", 1)
			if got := h.Header["X-Forwarded-Proto"]; len(got) != 1 || got[0] != "pipeline-proto" {
				r.Violation("pipeline-header-not-winning:X-Forwarded-Proto", fmt.Sprintf("upstream X-Forwarded-Proto = %q, pipeline value %q (client sent %q)", got, "pipeline-proto", fwd["X-Forwarded-Proto"]), cs)
			}
		}
		// --- forwarding headers ---
		for _, name := range []string{"X-Forwarded-Method", "X-Forwarded-Uri", "X-Forwarded-Path"} {
			if v := h.Header[name]; len(v) != 0 {
				r.Violation("client-passed-through:"+name, fmt.Sprintf("upstream received %s: %q", name, v), cs)
			}
		}
		xff, fw := strings.Join(h.Header["X-Forwarded-For"], ","), strings.Join(h.Header["Forwarded"], ",")
		peer := in.peer
		switch {
		case xff == "" && fw == "":
			r.Violation("peer-address-not-added", "neither X-Forwarded-For nor Forwarded carries the peer address", cs)
		case xff != "":
			parts := strings.Split(xff, ",")
			if strings.TrimSpace(parts[len(parts)-1]) != peer {
				r.Violation("peer-address-not-added", fmt.Sprintf("X-Forwarded-For %q does not end with the peer address", xff), cs)
			}
			if in.trusted && fwd["X-Forwarded-For"] != "" && !strings.HasPrefix(xff, fwd["X-Forwarded-For"]) {
				r.Violation("forwarded-for-not-extended", fmt.Sprintf("X-Forwarded-For %q does not extend the received %q", xff, fwd["X-Forwarded-For"]), cs)
			}
			if !in.trusted && strings.Contains(xff, "1.2.3.4") {
				r.Violation("untrusted-forwarded-for-kept", fmt.Sprintf("X-Forwarded-For %q contains the value sent by an untrusted client", xff), cs)
			}
		default:
			parts := strings.Split(fw, ",")
			// an IPv6 address is quoted and bracketed in this header (RFC 7239 section 6): for="[::1]"
			if last := parts[len(parts)-1]; !strings.Contains(last, "for="+peer) && !strings.Contains(last, `for="[`+peer+`]"`) {
				r.Violation("peer-address-not-added", fmt.Sprintf("Forwarded %q does not end with the peer address", fw), cs)
			}
			if in.trusted && fwd["Forwarded"] != "" && !strings.HasPrefix(fw, fwd["Forwarded"]) {
				r.Violation("forwarded-not-extended", fmt.Sprintf("Forwarded %q does not extend the received %q", fw, fwd["Forwarded"]), cs)
			}
			if !in.trusted && strings.Contains(fw, "9.9.9.9") {
				r.Violation("untrusted-forwarded-kept", fmt.Sprintf("Forwarded %q contains the value sent by an untrusted client", fw), cs)
			}
		}
		if len(fwd) > 0 {
			r.Count("requests_with_forwarding_headers", 1)
		}
	}
	// concurrent requests whose bodies are read by the pipeline (rules p1, p3: odd index): each upstream request carries
	// exactly the body of its own client request
	{
		var wg sync.WaitGroup
		const workers, perWorker = 8, 120
		for w := 0; w < workers; w++ {
			wg.Add(1)
			go func(w int) {
				defer wg.Done()
				for k := 0; k < perWorker; k++ {
					reqID := nextReqID("c15c")
					marker := fmt.Sprintf("<w%d-k%d>", w, k)
					body := []byte(strings.Repeat(marker, 200+(w*37+k*11)%1800))
					rule := []string{"p1", "p3/api"}[k%2]
					hdrs := []app.Hdr{{Name: app.HdrReq, Value: reqID}, {Name: "Content-Type", Value: []string{"text/plain", "application/json"}[k%2]}}
					if k%5 == 0 {
						hdrs = append(hdrs, app.Hdr{Name: app.HdrChunked, Value: "1"})
					}
					resp, err := app.RawDo(insts[0].a.Addr(), "POST", "/"+rule+"/conc", "client.example.com", hdrs, body)
					hits := up.Take(reqID)
					r.Eval(1)
					if err != nil || len(hits) != 1 {
						if err == nil && resp.Status == 200 {
							r.Violation("accepted-but-upstream-hits-"+fmt.Sprint(len(hits)), fmt.Sprintf("concurrent phase: status 200 with %d upstream hits", len(hits)), map[string]any{"rule": rule, "marker": marker})
						}
						r.Count("concurrent_requests_not_forwarded", 1)
						continue
					}
					r.Count("concurrent_requests_with_bodies_read_by_the_pipeline", 1)
					if hits[0].Body != string(body) {
						other := ""
						if i := strings.Index(hits[0].Body, "<w"); i >= 0 && i+12 <= len(hits[0].Body) {
							other = hits[0].Body[i : i+12]
						}
						r.Violation("body-changed", fmt.Sprintf("concurrent phase: upstream body of request %s has %d bytes (starts with %q), client sent %d bytes of %q", reqID, len(hits[0].Body), other, len(body), marker),
							map[string]any{"rule": rule, "marker": marker, "upstream_body_length": len(hits[0].Body), "client_body_length": len(body)})
					}
				}
			}(w)
		}
		wg.Wait()
	}
	c15CreateURL(r)
	r.Require("forwarded", r.Counter("forwarded"), int64(n/2))
	r.Require("colliding_header_requests", r.Counter("colliding_header_requests"), int64(n/10))
	r.Require("query_removal_checked", r.Counter("query_removal_checked"), int64(n/40))
	r.Require("one_mib_bodies", r.Counter("one_mib_bodies"), 5)
	r.End()
}

func mustUnescape(s string) string { u, _ := url.PathUnescape(s); return u }

// c15CreateURL drives Backend.CreateURL directly (scheme rewrite cannot be observed through a plain-text upstream).
func c15CreateURL(r *core.Run) {
	rng := r.Stream("c15-createurl")
	n := r.Pick(3000, 60000)
	for i := 0; i < n; i++ {
		rw := c15Rewrites[rng.IntN(len(c15Rewrites))]
		rw.Scheme = []string{"", "http", "https"}[rng.IntN(3)]
		// the request contexts carry a valid encoding of the received path (requestcontext escapes what may not appear unescaped)
		path, query := c15EscapeInvalid(c15Path(rng, rw)), c15Query(rng)
		in, err := url.ParseRequestURI(path)
		if err != nil {
			continue
		}
		in.Scheme, in.Host, in.RawQuery = []string{"http", "https"}[rng.IntN(2)], "client.example.com", query
		if in.RawPath == "" { // the request contexts always carry the escaped path
			in.RawPath = in.EscapedPath()
		}
		be := &rconfig.Backend{Host: "up.example.com:8080", URLRewriter: &rconfig.URLRewriter{Scheme: rw.Scheme, PathPrefixToCut: rconfig.PrefixCutter(rw.Strip), PathPrefixToAdd: rconfig.PrefixAdder(rw.Add), QueryParamsToRemove: rw.DelQ}}
		orig := *in
		out := be.CreateURL(in)
		r.Case("createurl|"+core.Hash(rw)+path+"?"+query+in.Scheme, true)
		expScheme := orig.Scheme
		if rw.Scheme != "" {
			expScheme = rw.Scheme
		}
		cs := map[string]any{"rewrite": rw, "input": orig.String(), "output": out.String()}
		if out.Scheme != expScheme {
			r.Violation("createurl-scheme", fmt.Sprintf("scheme %q, expected %q", out.Scheme, expScheme), cs)
		}
		if out.Host != be.Host {
			r.Violation("createurl-host", fmt.Sprintf("host %q, expected %q", out.Host, be.Host), cs)
		}
		if exp := refRewritePath(rw, path); out.EscapedPath() != exp && !(exp == "/" && out.EscapedPath() == "") {
			r.Violation("createurl-path", fmt.Sprintf("escaped path %q, expected %q", out.EscapedPath(), exp), cs)
		}
		if len(rw.DelQ) == 0 && out.RawQuery != query {
			r.Violation("createurl-query", fmt.Sprintf("query %q, expected %q", out.RawQuery, query), cs)
		}
		if *in != orig && in.String() != orig.String() {
			r.Violation("createurl-mutates-input", "the request URL was modified by CreateURL", cs)
		}
	}
	r.Count("createurl_cases", n)
}

var _ = sort.Strings
