package e2e

import (
	"fmt"
	"net/url"
	"strings"

	"github.com/dadrus/heimdall/internal/config"
	rconfig "github.com/dadrus/heimdall/internal/rules/config"
	"github.com/dadrus/heimdall/internal/verif/vkit/app"
	"github.com/dadrus/heimdall/internal/verif/vkit/core"
)

// c03HostLists: rules whose host list has two or three expressions, at least two of them of type regex, some of which carry
// inline flags at their top level or within a group; the request hosts are the names the expressions talk about in several
// spellings (letter case). Reference: the host condition holds iff any one of the listed expressions, taken on its own,
// accepts the host (refHostHolds).
var c03FlagRegexHosts = []string{
	`(?i)^api\.example\.com$`, `^admin\.example\.com$`, `(?i)^www\.`, `^static\.example\.(com|org)$`, `(?s)^a.min\.example\.com$`,
	`(?i:^img\.)example\.com$`, `^cdn\.example\.com$`, `(?U)^.+\.example\.net$`, `(?i)\.example\.org$`, `^(?i)cdn\.example\.org$`,
	`^[a-z]+\.example\.net$`, `(?-i)^img\.example\.org$`,
}

var c03FlagOtherHosts = []rconfig.HostMatcher{
	{Type: "exact", Value: "static.example.com"}, {Type: "exact", Value: "api.example.net"}, {Type: "glob", Value: "*.example.org"},
	{Type: "glob", Value: "{www,admin}.example.net"},
}

func c03SpellHost(h string, how int) string {
	switch how {
	case 1: // first label in upper case
		i := strings.IndexByte(h, '.')
		return strings.ToUpper(h[:i]) + h[i:]
	case 2: // every label capitalised
		ls := strings.Split(h, ".")
		for i, l := range ls {
			ls[i] = strings.ToUpper(l[:1]) + l[1:]
		}
		return strings.Join(ls, ".")
	case 3:
		return strings.ToUpper(h)
	}
	return h
}

func c03HostLists(r *core.Run) {
	rng := r.Stream("c03-host-lists")
	const nRules = 36
	var rules []rconfig.Rule
	for i := 0; i < nRules; i++ {
		id := fmt.Sprintf("hl%d", i)
		rl := c03EdgeRule(id, "/"+id+"/:x", nil, "")
		nRegex := 2 + rng.IntN(2)
		var hosts []rconfig.HostMatcher
		for _, k := range rng.Perm(len(c03FlagRegexHosts))[:nRegex] {
			hosts = append(hosts, rconfig.HostMatcher{Type: "regex", Value: c03FlagRegexHosts[k]})
		}
		if nRegex == 2 && rng.IntN(2) == 0 { // mixed with an expression of another type at a random position
			o, at := c03FlagOtherHosts[rng.IntN(len(c03FlagOtherHosts))], rng.IntN(3)
			hosts = append(hosts[:at], append([]rconfig.HostMatcher{o}, hosts[at:]...)...)
		}
		rl.Matcher.Hosts = hosts
		rules = append(rules, rl)
	}
	a, err := app.New(app.Options{Mutate: func(c *config.Configuration) {
		c.Prototypes.Finalizers = append(c.Prototypes.Finalizers, config.Mechanism{ID: "echo", Type: "header", Config: config.MechanismConfig{"headers": map[string]any{"X-Rule": "unset"}}})
		c.Default = &config.DefaultRule{Execute: []config.MechanismConfig{{"authenticator": "anon"}, {"finalizer": "echo", "config": map[string]any{"headers": map[string]any{"X-Rule": "default"}}}}}
	}})
	if err != nil {
		r.Inconclusive("app start: " + err.Error())
		return
	}
	defer func() { _ = a.Stop() }()
	rs := &rconfig.RuleSet{Version: "1alpha4", Name: "c03-host-lists", MetaData: rconfig.MetaData{Source: "c03-host-lists", Hash: []byte("c03-host-lists")}, Rules: rules}
	if lerr := a.Proc.OnCreated(rs); lerr != nil {
		r.Violation("wellformed-rule-set-rejected", fmt.Sprintf("rule set with several host expressions per rule was rejected: %v", lerr), map[string]any{"rules": rules})
		return
	}
	r.Count("host_list_rules", nRules)
	for _, rl := range rules {
		hosts := rl.Matcher.Hosts
		for _, name := range []string{"api", "admin", "www", "static", "img", "cdn", "foo"} {
			for _, tld := range []string{"com", "org", "net"} {
				for how := 0; how < 4; how++ {
					host := c03SpellHost(name+".example."+tld, how)
					u, _ := url.ParseRequestURI("/" + rl.ID + "/v")
					ctx := newExecCtxURL("GET", host, u, map[string]string{"X-Forwarded-Proto": "http"})
					xerr := safeExecute(a, ctx)
					obs := ctx.UpstreamHeaders().Get("X-Rule")
					exp := "default"
					if refHostHolds(hosts, host) {
						exp = rl.ID
						r.Count("host_list_expected_match", 1)
						if how != 0 {
							r.Count("host_list_expected_match_other_spelling", 1)
						}
					} else {
						r.Count("host_list_expected_no_match", 1)
					}
					r.Eval(1)
					r.Case(fmt.Sprintf("host-list|%d|%v|%d", len(hosts), exp != "default", how), true)
					cs := map[string]any{"rule": rl.ID, "hosts": hosts, "request_host": host, "expected_rule": exp, "observed_rule": obs, "error": fmt.Sprint(xerr)}
					switch {
					case obs == exp:
					case exp == "default":
						r.Violation("matched-although-conditions-not-met:host-list", fmt.Sprintf("host %q answered by %q, none of the listed host expressions %v accepts it", host, obs, hosts), cs)
					default:
						r.Violation("not-matched-although-conditions-met:host-list", fmt.Sprintf("host %q answered by %q, expected %q: one of the listed host expressions %v accepts it", host, obs, exp, hosts), cs)
					}
				}
			}
		}
	}
}
