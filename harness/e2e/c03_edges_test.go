package e2e

import (
	"encoding/json"
	"fmt"
	"net/url"
	"reflect"
	"strings"

	"github.com/dadrus/heimdall/internal/config"
	rconfig "github.com/dadrus/heimdall/internal/rules/config"
	"github.com/dadrus/heimdall/internal/verif/vkit/app"
	"github.com/dadrus/heimdall/internal/verif/vkit/core"
)

// c03Edges: directed rule sets for corners the generated ones do not reach by construction (one rule per first path
// segment): rules of one set that meet at a tree node, method lists that exclude everything, path text that collides with
// helper strings of the implementation. Every rule set is loaded into an instance of its own; a rule set may be rejected at
// load time where the statement leaves that open (marked mayReject) - if it is accepted, the statement applies.
type c03EdgeReq struct {
	Method, Path string
	Rule         string            // expected rule id ("default" = no rule of the set applies)
	Caps         map[string]string // expected captures (nil: not judged)
}

type c03EdgeSet struct {
	Name      string
	Rules     []rconfig.Rule
	MayReject bool
	Reqs      []c03EdgeReq
}

func c03EdgeRule(id, path string, methods []string, slashes string, params ...rconfig.ParameterMatcher) rconfig.Rule {
	return rconfig.Rule{ID: id, EncodedSlashesHandling: rconfig.EncodedSlashesHandling(slashes),
		Matcher: rconfig.Matcher{Routes: []rconfig.Route{{Path: path, PathParams: params}}, Methods: append([]string(nil), methods...)},
		Execute: []config.MechanismConfig{{"authenticator": "anon"}, {"finalizer": "echo", "config": map[string]any{"headers": map[string]any{"X-Rule": id, "X-Cap": "{{ .Request.URL.Captures | toJson }}"}}}}}
}

func c03EdgeSets() []c03EdgeSet {
	exact := func(name, v string) rconfig.ParameterMatcher {
		return rconfig.ParameterMatcher{Name: name, Type: "exact", Value: v}
	}
	return []c03EdgeSet{
		{Name: "two rules meet at a free wildcard node under different names for the single wildcard before it", MayReject: true,
			Rules: []rconfig.Rule{c03EdgeRule("team", "/fw/:team/*rest", nil, "", exact("team", "a")), c03EdgeRule("group", "/fw/:group/*rest", nil, "")},
			Reqs:  []c03EdgeReq{{"GET", "/fw/a/b/c", "team", map[string]string{"team": "a", "rest": "b/c"}}, {"GET", "/fw/z/q", "group", map[string]string{"group": "z", "rest": "q"}}}},
		{Name: "the same with unnamed free wildcards", MayReject: true,
			Rules: []rconfig.Rule{c03EdgeRule("team", "/fu/:team/**", nil, "", exact("team", "a")), c03EdgeRule("group", "/fu/:group/**", nil, "")},
			Reqs:  []c03EdgeReq{{"GET", "/fu/a/b", "team", map[string]string{"team": "a"}}, {"GET", "/fu/z/q", "group", map[string]string{"group": "z"}}}},
		{Name: "a method list whose exclusions leave nothing", MayReject: true,
			Rules: []rconfig.Rule{c03EdgeRule("none1", "/m1/:x", []string{"GET", "!GET"}, ""), c03EdgeRule("none2", "/m2/:x", []string{"!POST"}, ""),
				c03EdgeRule("none3", "/m3/:x", []string{"ALL", "!GET", "!HEAD", "!POST", "!PUT", "!PATCH", "!DELETE", "!CONNECT", "!OPTIONS", "!TRACE"}, "")},
			Reqs: []c03EdgeReq{{"GET", "/m1/v", "default", nil}, {"POST", "/m1/v", "default", nil}, {"POST", "/m2/v", "default", nil}, {"GET", "/m2/v", "default", nil},
				{"GET", "/m3/v", "default", nil}, {"PROPFIND", "/m3/v", "default", nil}}},
		{Name: "one rule lists the same path expression twice with different path_params (alternatives)",
			Rules: func() []rconfig.Rule {
				rl := c03EdgeRule("alt", "/tw/:team/:name", nil, "", exact("team", "team1"))
				rl.Matcher.Routes = append(rl.Matcher.Routes, rconfig.Route{Path: "/tw/:team/:name", PathParams: []rconfig.ParameterMatcher{{Name: "team", Type: "regex", Value: "^team[23]$"}}},
					rconfig.Route{Path: "/tw/:team/:name", PathParams: []rconfig.ParameterMatcher{{Name: "name", Type: "exact", Value: "any-team"}}})
				return []rconfig.Rule{rl}
			}(),
			Reqs: []c03EdgeReq{{"GET", "/tw/team1/x", "alt", map[string]string{"team": "team1", "name": "x"}}, {"GET", "/tw/team3/y", "alt", map[string]string{"team": "team3", "name": "y"}},
				{"GET", "/tw/team9/any-team", "alt", map[string]string{"team": "team9", "name": "any-team"}}, {"GET", "/tw/team9/z", "default", nil}}},
		{Name: "path text equal to a helper string of the implementation",
			Rules: []rconfig.Rule{c03EdgeRule("off", "/po/:v", nil, "off"), c03EdgeRule("nd", "/pn/:v", nil, "no_decode"), c03EdgeRule("ndp", "/pp/:v", nil, "no_decode", exact("v", "%2F"))},
			Reqs: []c03EdgeReq{{"GET", "/po/a$$$escaped-slash$$$b", "off", map[string]string{"v": "a$$$escaped-slash$$$b"}},
				{"GET", "/pn/$$$escaped-slash$$$", "nd", map[string]string{"v": "$$$escaped-slash$$$"}},
				{"GET", "/pn/x%2Fy", "nd", map[string]string{"v": "x%2Fy"}},
				{"GET", "/pp/$$$escaped-slash$$$", "default", nil}, {"GET", "/pp/%2F", "ndp", map[string]string{"v": "%2F"}}}},
	}
}

func c03Edges(r *core.Run) {
	for _, set := range c03EdgeSets() {
		a, err := app.New(app.Options{Mutate: func(c *config.Configuration) {
			c.Prototypes.Finalizers = append(c.Prototypes.Finalizers, config.Mechanism{ID: "echo", Type: "header", Config: config.MechanismConfig{"headers": map[string]any{"X-Rule": "unset"}}})
			c.Default = &config.DefaultRule{Execute: []config.MechanismConfig{{"authenticator": "anon"}, {"finalizer": "echo", "config": map[string]any{"headers": map[string]any{"X-Rule": "default"}}}}}
		}})
		if err != nil {
			r.Inconclusive("app start: " + err.Error())
			return
		}
		rs := &rconfig.RuleSet{Version: "1alpha4", Name: "c03-edge", MetaData: rconfig.MetaData{Source: "c03-edge", Hash: []byte(set.Name)}, Rules: set.Rules}
		lerr := a.Proc.OnCreated(rs)
		r.Case("edge|"+set.Name, true)
		r.Count("directed_rule_sets", 1)
		switch {
		case lerr != nil && set.MayReject:
			r.Count("directed_rule_sets_rejected_at_load", 1)
		case lerr != nil:
			r.Violation("wellformed-rule-set-rejected", fmt.Sprintf("directed rule set %q was rejected: %v", set.Name, lerr), map[string]any{"rule_set": set.Name, "rules": set.Rules})
		default:
			for _, rq := range set.Reqs {
				u, perr := url.ParseRequestURI(rq.Path)
				if perr != nil {
					continue
				}
				ctx := newExecCtxURL(rq.Method, "svc.test", u, map[string]string{"X-Forwarded-Proto": "http"})
				xerr := safeExecute(a, ctx)
				obs := ctx.UpstreamHeaders().Get("X-Rule")
				if xerr != nil && obs == "" && strings.Contains(xerr.Error(), "encoded slash") {
					obs = "default"
				}
				var caps map[string]string
				if c := ctx.UpstreamHeaders().Get("X-Cap"); c != "" {
					_ = json.Unmarshal([]byte(c), &caps)
				}
				r.Eval(1)
				r.Count("directed_requests", 1)
				cs := map[string]any{"rule_set": set.Name, "rules": set.Rules, "request": rq.Method + " " + rq.Path, "expected_rule": rq.Rule, "expected_captures": rq.Caps,
					"observed_rule": obs, "observed_captures": caps, "error": fmt.Sprint(xerr)}
				switch {
				case obs != rq.Rule && rq.Rule == "default":
					r.Violation("matched-although-conditions-not-met:edge", fmt.Sprintf("%s: %s %s answered by %q, no rule of the set applies", set.Name, rq.Method, rq.Path, obs), cs)
				case obs != rq.Rule:
					r.Violation("wrong-rule:edge", fmt.Sprintf("%s: %s %s answered by %q, expected %q", set.Name, rq.Method, rq.Path, obs, rq.Rule), cs)
				case rq.Caps != nil && !reflect.DeepEqual(rq.Caps, nonNil(caps)):
					r.Violation("captures-mismatch:edge", fmt.Sprintf("%s: %s %s captured %v, expected %v", set.Name, rq.Method, rq.Path, caps, rq.Caps), cs)
				}
			}
		}
		_ = a.Stop()
	}
}
