package e2e

import (
	"fmt"
	"math/rand/v2"
	"net/http"
	"os"
	"strings"
	"sync"
	"testing"

	"github.com/dadrus/heimdall/internal/config"
	rconfig "github.com/dadrus/heimdall/internal/rules/config"
	"github.com/dadrus/heimdall/internal/verif/vkit/app"
	"github.com/dadrus/heimdall/internal/verif/vkit/core"
)

// ---- pipeline description --------------------------------------------------------------------

type step struct {
	Kind string `json:"kind"` // authenticator | authorizer | contextualizer | finalizer | error_handler
	ID   string `json:"id"`   // mechanism id as referenced from the rule
	Name string `json:"name"` // unique name inside the rule (plan / condition header key)
	Cont bool   `json:"continue_on_error,omitempty"`
	FB   bool   `json:"fallback_on_error,omitempty"`
	Cond string `json:"if,omitempty"`   // "" | "hdr" | CEL on Error for error handlers
	Real string `json:"real,omitempty"` // behaviour class of a real mechanism
}

type pipeline struct {
	RuleID string `json:"rule"`
	Exec   []step `json:"execute"`
	OnErr  []step `json:"on_error"`
}

func condExpr(name string) string {
	// canonical header name: the Envoy request context looks headers up by exact (canonical) key,
	// which is C13's business, not C01's
	return fmt.Sprintf(`{"true": true, "false": false}[Request.Header("%s")]`, http.CanonicalHeaderKey("X-Cond-"+name))
}

func (s step) config() config.MechanismConfig {
	m := config.MechanismConfig{s.Kind: s.ID}
	switch s.Cond {
	case "":
	case "hdr":
		m["if"] = condExpr(s.Name)
	default:
		m["if"] = s.Cond
	}
	return m
}

func (p pipeline) rule(upstream string) rconfig.Rule {
	r := rconfig.Rule{
		ID:      p.RuleID,
		Matcher: rconfig.Matcher{Routes: []rconfig.Route{{Path: "/" + p.RuleID + "/:x"}}},
		Backend: &rconfig.Backend{Host: upstream},
	}
	for _, s := range p.Exec {
		r.Execute = append(r.Execute, s.config())
	}
	for _, s := range p.OnErr {
		r.ErrorHandler = append(r.ErrorHandler, s.config())
	}
	return r
}

// plan: outcome per probe name and condition input per conditional step
type plan struct {
	Out  map[string]string `json:"outcomes,omitempty"`
	Cond map[string]string `json:"conditions,omitempty"` // true | false | err
	Cel  string            `json:"x_cel,omitempty"`      // input of the real cel authorizer
}

func (pl plan) headers() map[string]string {
	h := map[string]string{}
	var parts []string
	for _, k := range sortedKeys(pl.Out) {
		parts = append(parts, k+"="+pl.Out[k])
	}
	if len(parts) > 0 {
		h[app.HdrPlan] = strings.Join(parts, ";")
	}
	for k, v := range pl.Cond {
		h[http.CanonicalHeaderKey("X-Cond-"+k)] = v
	}
	if pl.Cel != "" {
		h["X-Cel"] = pl.Cel
	}
	return h
}

// outcome of a step under a plan as the independent model predicts it
func (s step) outcome(pl plan) string {
	switch s.Real {
	case "":
		if o, ok := pl.Out[s.Name]; ok {
			return o
		}
		return "ok"
	case "ok":
		return "ok"
	case "authn":
		return "authn"
	case "authz":
		return "authz"
	case "cel":
		if pl.Cel == "yes" {
			return "ok"
		}
		return "authz"
	}
	return "ok"
}

func (s step) cond(pl plan) string {
	if s.Cond != "hdr" {
		return "true"
	}
	if c, ok := pl.Cond[s.Name]; ok {
		return c
	}
	return "err" // header missing -> no such key
}

// modelAllows is the independent reading of the statement: does the execute pipeline complete?
func modelAllows(p pipeline, pl plan) (bool, string) {
	gotSubject := false
	sawAuthn := false
	for _, s := range p.Exec {
		if s.Kind != "authenticator" {
			continue
		}
		sawAuthn = true
		o := s.outcome(pl)
		if o == "ok" || strings.HasPrefix(o, "sub:") {
			gotSubject = true
			break
		}
		if o == "panic" {
			return false, "authenticator " + s.Name + " panicked"
		}
		if o == "arg" || s.FB {
			continue
		}
		return false, "authenticator " + s.Name + " failed with " + o
	}
	if !sawAuthn || !gotSubject {
		return false, "no authenticator produced a subject"
	}
	for _, s := range p.Exec {
		if s.Kind == "authenticator" {
			continue
		}
		switch s.cond(pl) {
		case "false":
			continue
		case "err":
			if s.Cont {
				continue
			}
			return false, "condition of " + s.Name + " cannot be evaluated"
		}
		o := s.outcome(pl)
		if o == "ok" {
			continue
		}
		if o == "panic" {
			return false, s.Name + " panicked"
		}
		if !s.Cont {
			return false, s.Name + " failed with " + o
		}
	}
	return true, ""
}

// ---- generation --------------------------------------------------------------------------------

type gen struct {
	rng *rand.Rand
}

func (g *gen) authn(i int) step {
	switch g.rng.IntN(8) {
	case 0:
		return step{Kind: "authenticator", ID: "anon", Name: fmt.Sprintf("a%d", i), Real: "ok"}
	case 1:
		return step{Kind: "authenticator", ID: "unauth", Name: fmt.Sprintf("a%d", i), Real: "authn"}
	case 2, 3:
		n := fmt.Sprintf("a%d", i)
		return step{Kind: "authenticator", ID: "probe:" + n + ":f", Name: n, FB: true}
	}
	n := fmt.Sprintf("a%d", i)
	return step{Kind: "authenticator", ID: "probe:" + n, Name: n}
}

func (g *gen) handler(kind, prefix string, i int) step {
	n := fmt.Sprintf("%s%d", prefix, i)
	s := step{Kind: kind, Name: n}
	real := g.rng.IntN(6) == 0
	switch {
	case real && kind == "authorizer":
		switch g.rng.IntN(3) {
		case 0:
			s.ID, s.Real = "allow", "ok"
		case 1:
			s.ID, s.Real = "deny", "authz"
		default:
			s.ID, s.Real = "celz", "cel"
		}
	case real && kind == "finalizer":
		s.ID, s.Real = "hdrfin", "ok"
	default:
		s.ID = "probe:" + n
		if g.rng.IntN(3) == 0 {
			s.ID += ":c"
			s.Cont = true
		}
	}
	if g.rng.IntN(3) == 0 {
		s.Cond = "hdr"
	}
	return s
}

var ehPool = [][]step{
	nil,
	{{Kind: "error_handler", ID: "def", Name: "e1", Real: "ok"}},
	{{Kind: "error_handler", ID: "redir", Name: "e1", Real: "ok"}},
	{{Kind: "error_handler", ID: "www", Name: "e1", Real: "ok"}},
	{{Kind: "error_handler", ID: "probe:e1", Name: "e1"}},
	{{Kind: "error_handler", ID: "def", Name: "e1", Real: "ok", Cond: "type(Error) == authentication_error"}, {Kind: "error_handler", ID: "probe:e2", Name: "e2"}},
	{{Kind: "error_handler", ID: "redir", Name: "e1", Real: "ok", Cond: "hdr"}, {Kind: "error_handler", ID: "def", Name: "e2", Real: "ok"}},
	{{Kind: "error_handler", ID: "www", Name: "e1", Real: "ok", Cond: "type(Error) == authorization_error"}},
	{{Kind: "error_handler", ID: "redirfail", Name: "e1", Real: "ok"}},
	{{Kind: "error_handler", ID: "redirfail", Name: "e1", Real: "ok", Cond: "type(Error) in [authorization_error, communication_error]"}, {Kind: "error_handler", ID: "redir", Name: "e2", Real: "ok"}},
	{{Kind: "error_handler", ID: "probe:e1", Name: "e1", Cond: "hdr"}, {Kind: "error_handler", ID: "probe:e2", Name: "e2", Cond: "hdr"}, {Kind: "error_handler", ID: "www", Name: "e3", Real: "ok"}},
	// redirects whose target is the very location the failing request was made for (relative and absolute)
	{{Kind: "error_handler", ID: "redirself", Name: "e1", Real: "ok"}},
	{{Kind: "error_handler", ID: "redirselfabs", Name: "e1", Real: "ok", Cond: "type(Error) != precondition_error"}, {Kind: "error_handler", ID: "redirself", Name: "e2", Real: "ok"}},
}

func (g *gen) pipeline(id string) pipeline {
	p := pipeline{RuleID: id}
	for i, n := 1, 1+g.rng.IntN(3); i <= n; i++ {
		p.Exec = append(p.Exec, g.authn(i))
	}
	for i, n := 1, g.rng.IntN(4); i <= n; i++ {
		if g.rng.IntN(2) == 0 {
			p.Exec = append(p.Exec, g.handler("authorizer", "z", i))
		} else {
			p.Exec = append(p.Exec, g.handler("contextualizer", "c", i))
		}
	}
	for i, n := 1, g.rng.IntN(3); i <= n; i++ {
		p.Exec = append(p.Exec, g.handler("finalizer", "f", i))
	}
	p.OnErr = ehPool[g.rng.IntN(len(ehPool))]
	return p
}

// plans for a pipeline: all ok; one deviating step (every outcome); every condition state; random
func (g *gen) plans(p pipeline, nRandom int) []plan {
	base := func() plan {
		pl := plan{Out: map[string]string{}, Cond: map[string]string{}, Cel: "yes"}
		for _, s := range append(append([]step{}, p.Exec...), p.OnErr...) {
			if s.Cond == "hdr" {
				pl.Cond[s.Name] = "true"
			}
		}
		return pl
	}
	out := []plan{base()}
	for _, s := range append(append([]step{}, p.Exec...), p.OnErr...) {
		if s.Real == "" {
			for _, o := range app.Outcomes[1:] {
				pl := base()
				pl.Out[s.Name] = o
				out = append(out, pl)
			}
		}
		if s.Real == "cel" {
			pl := base()
			pl.Cel = "no"
			out = append(out, pl)
		}
		if s.Cond == "hdr" {
			for _, c := range []string{"false", "err"} {
				pl := base()
				pl.Cond[s.Name] = c
				out = append(out, pl)
				if s.Real == "" {
					pl2 := base()
					pl2.Cond[s.Name] = c
					pl2.Out[s.Name] = "authz"
					out = append(out, pl2)
				}
			}
		}
	}
	// failing pipeline combined with every state of the error pipeline
	var firstProbe string
	for _, s := range p.Exec {
		if s.Real == "" && s.Kind != "authenticator" && !s.Cont {
			firstProbe = s.Name
			break
		}
	}
	if firstProbe == "" {
		for _, s := range p.Exec {
			if s.Real == "" && !s.FB {
				firstProbe = s.Name
			}
		}
	}
	if firstProbe != "" {
		for _, cause := range []string{"authn", "authz", "comm", "foreign", "internal"} {
			for _, e := range p.OnErr {
				variants := []plan{}
				if e.Real == "" {
					for _, o := range []string{"internal", "foreign", "panic", "authn"} {
						pl := base()
						pl.Out[e.Name] = o
						variants = append(variants, pl)
					}
				}
				if e.Cond == "hdr" {
					for _, c := range []string{"false", "err"} {
						pl := base()
						pl.Cond[e.Name] = c
						variants = append(variants, pl)
					}
				}
				pl := base()
				variants = append(variants, pl)
				for _, v := range variants {
					v.Out[firstProbe] = cause
					out = append(out, v)
				}
			}
			if len(p.OnErr) == 0 {
				pl := base()
				pl.Out[firstProbe] = cause
				out = append(out, pl)
			}
		}
	}
	for i := 0; i < nRandom; i++ {
		pl := base()
		for _, s := range append(append([]step{}, p.Exec...), p.OnErr...) {
			if s.Real == "" && g.rng.IntN(3) == 0 {
				pl.Out[s.Name] = app.Outcomes[g.rng.IntN(len(app.Outcomes))]
			}
			if s.Cond == "hdr" {
				pl.Cond[s.Name] = []string{"true", "true", "false", "err"}[g.rng.IntN(4)]
			}
		}
		if g.rng.IntN(4) == 0 {
			pl.Cel = "no"
		}
		out = append(out, pl)
	}
	return out
}

// ---- the check -----------------------------------------------------------------------------------

type c01Case struct {
	Pipeline    pipeline `json:"pipeline"`
	DefaultRule bool     `json:"default_rule_configured"`
	Plan        plan     `json:"plan"`
	Path        string   `json:"path"`
	ModelAllows bool     `json:"model_allows"`
	ModelReason string   `json:"model_reason,omitempty"`
	Observed    result   `json:"observed"`
}

func c01Prototypes(c *config.Configuration) {
	p := c.Prototypes
	p.Authenticators = append(p.Authenticators, config.Mechanism{ID: "unauth", Type: "unauthorized"})
	p.Authorizers = append(p.Authorizers,
		config.Mechanism{ID: "allow", Type: "allow"},
		config.Mechanism{ID: "deny", Type: "deny"},
		config.Mechanism{ID: "celz", Type: "cel", Config: config.MechanismConfig{"expressions": []any{map[string]any{"expression": `Request.Header("X-Cel") == "yes"`}}}},
	)
	p.Finalizers = append(p.Finalizers, config.Mechanism{ID: "hdrfin", Type: "header", Config: config.MechanismConfig{"headers": map[string]any{"X-Sub": "{{ .Subject.ID }}"}}})
	p.ErrorHandlers = append(p.ErrorHandlers,
		config.Mechanism{ID: "def", Type: "default"},
		config.Mechanism{ID: "redir", Type: "redirect", Config: config.MechanismConfig{"to": "http://login.test/in?o={{ .Request.URL.Path | urlenc }}", "code": 303}},
		config.Mechanism{ID: "redirself", Type: "redirect", Config: config.MechanismConfig{"to": "{{ .Request.URL.Path }}"}},
		config.Mechanism{ID: "redirselfabs", Type: "redirect", Config: config.MechanismConfig{"to": "{{ .Request.URL.Scheme }}://{{ .Request.URL.Host }}{{ .Request.URL.Path }}", "code": 307}},
		config.Mechanism{ID: "redirfail", Type: "redirect", Config: config.MechanismConfig{"to": `http://login.test/{{ fail "render error" }}`}},
		config.Mechanism{ID: "www", Type: "www_authenticate", Config: config.MechanismConfig{"realm": "verif"}},
	)
}

func TestC01(t *testing.T) {
	r := core.Begin("C01", "exploration")
	r.Rule("generated rules (1-3 authenticators incl. real anonymous/unauthorized, 0-3 authorizers/contextualizers incl. real allow/deny/cel, 0-2 finalizers, `if` conditions " +
		"driven to true/false/evaluation-error by a request header, continue-on-error and fallback flags, 13 error-pipeline shapes incl. conditional, non-applicable, failing and " +
		"panicking handlers, redirect, www-authenticate), with and without default rule and partial rules inheriting from it, each on its own route in the three assembled services. " +
		"Plans per rule: all-ok, exhaustive one-deviating-step (every step x every outcome x every condition state), failing step x every error-pipeline state, plus random plans. " +
		"Ground truth of what ran comes from the probe/recording-wrapper trace. A case is non-trivial when at least one step deviates from ok/true.")
	r.Assume("probe error handlers honour the error-handler contract (register the cause as pipeline error when they return nil)",
		"Envoy CheckRequest mapping follows the repository's tests (lower-case header keys, path and query in `path`)")
	r.Rule("the verbose variant additionally runs with tracing enabled (SDK tracer provider, recording spans, no exporter)")
	nRules := r.Pick(60, 400)
	nRandomPlans := r.Pick(6, 40)
	// the last variant runs with OpenTelemetry tracing switched on as a default deployment has it (a real SDK tracer provider, so
	// that every request carries a recording span), only without a span exporter
	os.Setenv("OTEL_TRACES_EXPORTER", "none")

	for _, variant := range []struct {
		name     string
		def      bool
		accepted int
		verbose  bool
	}{{"no-default-rule", false, 200, false}, {"default-rule+accepted-202", true, 202, false}, {"verbose-responses+accept-headers", false, 200, true}} {
		g := &gen{rng: r.Stream("c01-" + variant.name)}
		var pipes []pipeline
		for i := 0; i < nRules; i++ {
			pipes = append(pipes, g.pipeline(fmt.Sprintf("r%d", i)))
		}
		// default rule: probe authenticator, probe authorizer (continue), probe finalizer, default handler
		defPipe := pipeline{RuleID: "default", Exec: []step{
			{Kind: "authenticator", ID: "probe:da1", Name: "da1"},
			{Kind: "authorizer", ID: "probe:dz1", Name: "dz1"},
			{Kind: "finalizer", ID: "probe:df1", Name: "df1"},
		}, OnErr: []step{{Kind: "error_handler", ID: "probe:de1", Name: "de1"}}}
		// partial rules (only with default rule): a stage that is not defined is inherited
		partial := map[string]pipeline{}
		if variant.def {
			for i := 0; i < nRules/5; i++ {
				id := fmt.Sprintf("p%d", i)
				full := g.pipeline(id)
				var own []step
				eff := pipeline{RuleID: id}
				keepAuthn, keepSH, keepFin, keepEH := g.rng.IntN(2) == 0, g.rng.IntN(2) == 0, g.rng.IntN(2) == 0, g.rng.IntN(2) == 0
				stageOf := func(s step) string {
					switch s.Kind {
					case "authenticator":
						return "a"
					case "finalizer":
						return "f"
					}
					return "s"
				}
				has := map[string]bool{}
				for _, s := range full.Exec {
					st := stageOf(s)
					if (st == "a" && keepAuthn) || (st == "s" && keepSH) || (st == "f" && keepFin) {
						own = append(own, s)
						has[st] = true
					}
				}
				if len(own) == 0 { // a rule needs a non-empty execute list
					own = append(own, full.Exec[0])
					has["a"] = true
				}
				for _, st := range []string{"a", "s", "f"} {
					if has[st] {
						for _, s := range own {
							if stageOf(s) == st {
								eff.Exec = append(eff.Exec, s)
							}
						}
					} else {
						for _, s := range defPipe.Exec {
							if stageOf(s) == st {
								eff.Exec = append(eff.Exec, s)
							}
						}
					}
				}
				ownP := pipeline{RuleID: id, Exec: own}
				if keepEH && len(full.OnErr) > 0 {
					ownP.OnErr = full.OnErr
					eff.OnErr = full.OnErr
				} else {
					eff.OnErr = defPipe.OnErr
				}
				pipes = append(pipes, ownP) // loaded as defined
				partial[id] = eff           // judged by its effective pipeline
			}
		}
		tr, err := newTrio(trioOptions{
			Trace: variant.verbose, // one variant runs with trace logging switched on
			Mutate: func(ep string, c *config.Configuration) {
				c01Prototypes(c)
				if variant.def {
					dr := &config.DefaultRule{}
					for _, s := range defPipe.Exec {
						dr.Execute = append(dr.Execute, s.config())
					}
					for _, s := range defPipe.OnErr {
						dr.ErrorHandler = append(dr.ErrorHandler, s.config())
					}
					c.Default = dr
				}
				c.Serve.Decision.Respond.With.Accepted.Code = variant.accepted
				// verbose error responses negotiate a body type with the client's Accept header
				c.Serve.Decision.Respond.Verbose = variant.verbose
				c.Tracing.Enabled = variant.verbose
				c.Serve.Proxy.Respond.Verbose = variant.verbose
			},
			RuleSets: func(up string) []*rconfig.RuleSet {
				rs := &rconfig.RuleSet{Version: "1alpha4", Name: "c01", MetaData: rconfig.MetaData{Source: "c01", Hash: []byte("c01")}}
				for _, p := range pipes {
					rs.Rules = append(rs.Rules, p.rule(up))
				}
				return []*rconfig.RuleSet{rs}
			},
		})
		if err != nil {
			r.Inconclusive("cannot assemble services: " + err.Error())
			break
		}
		type job struct {
			p    pipeline // effective pipeline
			pl   plan
			path string
		}
		var jobs []job
		for _, p := range pipes {
			eff := p
			if e, ok := partial[p.RuleID]; ok {
				eff = e
			}
			for _, pl := range g.plans(eff, nRandomPlans) {
				jobs = append(jobs, job{eff, pl, "/" + p.RuleID + "/v"})
			}
		}
		// requests that match no rule
		for i := 0; i < 30; i++ {
			if variant.def {
				for _, pl := range g.plans(defPipe, 2) {
					jobs = append(jobs, job{defPipe, pl, fmt.Sprintf("/nomatch%d/x/y", i)})
				}
			} else {
				jobs = append(jobs, job{pipeline{RuleID: "<none>"}, plan{}, fmt.Sprintf("/nomatch%d/x/y", i)})
			}
		}
		if len(pipes) > 0 {
			r.Sample(map[string]any{"variant": variant.name, "pipeline": pipes[0], "plan": jobs[1].pl})
		}
		ch := make(chan job, 256)
		var wg sync.WaitGroup
		for w := 0; w < 12; w++ {
			wg.Add(1)
			go func() {
				defer wg.Done()
				for jb := range ch {
					allow, reason := false, "no rule applies"
					if jb.p.RuleID != "<none>" {
						allow, reason = modelAllows(jb.p, jb.pl)
					}
					nontrivial := !allow
					for _, c := range jb.pl.Cond {
						if c != "true" {
							nontrivial = true
						}
					}
					hdrs := jb.pl.headers()
					if variant.verbose {
						// Accept headers incl. ones no supported body type satisfies
						if acc := []string{"", "image/png", "*/*;q=0", "application/json", "text/html;q=0, application/xml"}[int(core.HashKey(jb.path+fmt.Sprint(jb.pl.Out, jb.pl.Cond))%5)]; acc != "" {
							hdrs["Accept"] = acc
						}
					}
					for _, ep := range entryPoints {
						res := tr.send(ep, lreq{Method: "GET", Path: jb.path, Headers: hdrs}, variant.accepted)
						key := fmt.Sprintf("%s|%s|%s|%v|%v", variant.name, ep, core.Hash(jb.p), jb.pl.Out, jb.pl.Cond)
						r.Case(key, nontrivial)
						allowEP, reasonEP := allow, reason
						if ep == "proxy" && jb.p.RuleID == "default" && allow {
							// the default rule cannot name an upstream, so in proxy mode it can only deny
							allowEP, reasonEP = false, "default rule has no forward_to in proxy mode"
						}
						cs := c01Case{jb.p, variant.def, jb.pl, jb.path, allowEP, reasonEP, res}
						c01Judge(r, cs, ep, allowEP, reasonEP, res, jb.p)
					}
				}
			}()
		}
		for _, jb := range jobs {
			ch <- jb
		}
		close(ch)
		wg.Wait()
		tr.Close()
	}
	total := r.Counter("positive") + r.Counter("non_positive")
	r.Require("positive_answers", r.Counter("positive"), total/20)
	r.Require("non_positive_answers", r.Counter("non_positive"), total/4)
	for _, ep := range entryPoints {
		r.Require("positive_"+ep, r.Counter("positive_"+ep), 20)
		r.Require("panic_plans_"+ep, r.Counter("observed_panic_"+ep), 5)
	}
	if m := r.Counter("model_allows_but_denied"); m > 0 {
		r.Inconclusive(fmt.Sprintf("%d requests were denied although the model expects the pipeline to complete (harness/model fault or a regression that denies too much; not a C01 violation)", m))
	}
	r.End()
}

func contFlag(mechID string) bool {
	parts := strings.Split(mechID, ":")
	return len(parts) > 2 && strings.Contains(parts[2], "c")
}

func c01Judge(r *core.Run, cs c01Case, ep string, allow bool, reason string, res result, p pipeline) {
	hasPanic, authnOK, ehRan := false, false, false
	badStep := ""
	for _, e := range res.Trace {
		if e.Outcome == "panic" {
			hasPanic = true
			r.Count("observed_panic_"+ep, 1)
		}
		switch e.Stage {
		case "authn":
			if e.Outcome == "ok" || strings.HasPrefix(e.Outcome, "sub:") {
				authnOK = true
			}
		case "authz", "ctx", "fin":
			if e.Outcome != "ok" && !contFlag(e.Mech) {
				badStep = e.Mech + "=" + e.Outcome
			}
		case "eh":
			ehRan = true
		}
		r.Count("trace_"+e.Stage+"_"+strings.SplitN(e.Outcome, ":", 2)[0], 1)
	}
	if res.Positive {
		r.Count("positive", 1)
		r.Count("positive_"+ep, 1)
		switch {
		case hasPanic:
			r.Violation("positive-after-panic", ep+": positive answer although a step panicked", cs)
		case !authnOK:
			r.Violation("positive-without-subject", ep+": positive answer although no authenticator succeeded", cs)
		case badStep != "":
			r.Violation("positive-after-failed-step", ep+": positive answer although "+badStep+" failed and is not continue-on-error", cs)
		case ehRan:
			r.Violation("positive-after-error-pipeline", ep+": positive answer although the error pipeline ran", cs)
		case !allow:
			r.Violation("positive-against-model", ep+": positive answer although: "+reason, cs)
		}
		return
	}
	r.Count("non_positive", 1)
	if res.Transport != "" && ep != "grpc" {
		r.Count("transport_errors", 1)
	}
	if len(res.Upstream) > 0 {
		r.Violation("upstream-reached-without-positive-answer", ep+": the upstream received the request although the answer was not positive", cs)
	}
	if res.Status >= 200 && res.Status < 300 {
		r.Violation("success-status-for-failed-pipeline", fmt.Sprintf("%s: status %d for a request whose pipeline did not complete", ep, res.Status), cs)
	}
	if allow {
		r.Count("model_allows_but_denied", 1)
		if r.Counter("model_allows_but_denied") <= 3 {
			fmt.Printf("[verif] C01 note: model allows but %s denied: %s\n", ep, core.JSON(cs))
		}
	}
}
