package e2e

import (
	"context"
	"fmt"
	"net/http/httptest"
	"net/url"
	"strings"
	"testing"

	"github.com/rs/zerolog"

	"github.com/dadrus/heimdall/internal/config"
	"github.com/dadrus/heimdall/internal/handler/requestcontext"
	rconfig "github.com/dadrus/heimdall/internal/rules/config"
	"github.com/dadrus/heimdall/internal/rules/rule"
	"github.com/dadrus/heimdall/internal/verif/vkit/app"
	"github.com/dadrus/heimdall/internal/verif/vkit/core"
)

type execCtx struct{ *requestcontext.RequestContext }

func (c *execCtx) Finalize(rule.Backend) error { return c.PipelineError() }

func newExecCtx(method, path string, hdr map[string]string) *execCtx {
	req := httptest.NewRequest(method, "http://host.test"+path, nil)
	for k, v := range hdr {
		req.Header.Set(k, v)
	}
	req = req.WithContext(zerolog.Nop().WithContext(context.Background()))
	return &execCtx{requestcontext.New(req)}
}

// newExecCtxURL builds a context whose request carries host and (raw) path verbatim.
func newExecCtxURL(method, host string, u *url.URL, hdr map[string]string) *execCtx {
	req := httptest.NewRequest(method, "http://placeholder.test/", nil)
	req.URL.Path, req.URL.RawPath, req.URL.RawQuery = u.Path, u.RawPath, u.RawQuery
	req.URL.Host, req.Host = host, host
	for k, v := range hdr {
		req.Header.Set(k, v)
	}
	req = req.WithContext(zerolog.Nop().WithContext(context.Background()))
	return &execCtx{requestcontext.New(req)}
}

// stage bit masks
const (
	stA = 1 << iota // authentication
	stS             // authorization / contextualization
	stF             // finalization
	stE             // error handling
)

func stageSteps(prefix string, mask int, conditionalOnly bool) (exec, onErr []config.MechanismConfig) {
	cond := func(m config.MechanismConfig) config.MechanismConfig {
		if conditionalOnly {
			m["if"] = `Request.Method == "GET"`
		}
		return m
	}
	if mask&stA != 0 {
		exec = append(exec, config.MechanismConfig{"authenticator": "probe:" + prefix + "a"})
	}
	if mask&stS != 0 {
		exec = append(exec, cond(config.MechanismConfig{"authorizer": "probe:" + prefix + "z"}), config.MechanismConfig{"contextualizer": "probe:" + prefix + "c"})
	}
	if mask&stF != 0 {
		exec = append(exec, cond(config.MechanismConfig{"finalizer": "probe:" + prefix + "f"}))
	}
	if mask&stE != 0 {
		onErr = append(onErr, cond(config.MechanismConfig{"error_handler": "probe:" + prefix + "e"}))
	}
	return
}

// stageNames returns, per stage, whether the stage is defined (non-nil slice) and which of its
// mechanisms are expected to run for a POST request (conditional steps carry `Request.Method == "GET"`
// and are therefore skipped at run time, while still defining their stage).
func stageNames(prefix string, mask int, conditionalOnly bool) (a, s, f, e []string) {
	if mask&stA != 0 {
		a = []string{"probe:" + prefix + "a"}
	}
	if mask&stS != 0 {
		s = []string{"probe:" + prefix + "z", "probe:" + prefix + "c"}
		if conditionalOnly {
			s = []string{"probe:" + prefix + "c"}
		}
	}
	if mask&stF != 0 {
		f = []string{"probe:" + prefix + "f"}
		if conditionalOnly {
			f = []string{}
		}
	}
	if mask&stE != 0 {
		e = []string{"probe:" + prefix + "e"}
		if conditionalOnly {
			e = []string{}
		}
	}
	return
}

type c14Case struct {
	Mode        string        `json:"mode"`
	DefaultRule any           `json:"default_rule"`
	Rule        *rconfig.Rule `json:"rule"`
	What        string        `json:"what"`
	Expected    any           `json:"expected"`
	Observed    any           `json:"observed"`
}

func traceIDs(tr []app.TraceEvent, stages ...string) []string {
	var out []string
	for _, e := range tr {
		for _, s := range stages {
			if e.Stage == s {
				out = append(out, e.Mech)
			}
		}
	}
	return out
}

func TestC14(t *testing.T) {
	r := core.Begin("C14", "exploration")
	r.Rule("exhaustive: default rule in {absent, authentication only + every subset of the other three stages} x backtracking_enabled {unset,true} x operation mode {decision, proxy}; " +
		"for each: rules defining every subset of the four stages (also with a stage defined only by a conditional step) x backtracking_enabled {unset,true,false} x forward_to {present,absent}; " +
		"plus every ordering of step kinds (<=4 steps), unknown mechanism ids, bad overrides. Each rule is loaded as its own rule set through the real processor/factory; accepted rules are " +
		"executed twice through the real executor (all ok / first authenticator fails) and the probe trace shows which mechanisms ran; backtracking is observed against a less specific " +
		"companion rule. Non-trivial: the rule inherits at least one stage or the backtracking flag, or must be rejected.")
	r.Assume("a rule with an empty execute list is rejected earlier by rule-set validation and is not generated")
	r.Exhaustive(true)

	type defVariant struct {
		present bool
		mask    int // stages besides authentication
		bt      bool
	}
	defs := []defVariant{{}}
	for m := 0; m < 8; m++ {
		for _, bt := range []bool{false, true} {
			defs = append(defs, defVariant{true, stA | m<<1, bt})
		}
	}
	n := 0
	for _, mode := range []string{"decision", "proxy"} {
		for _, dv := range defs {
			probes := app.NewProbes()
			svc := app.SvcNone
			if mode == "proxy" {
				svc = app.SvcProxy
			}
			a, err := app.New(app.Options{Service: svc, Probes: probes, Mutate: func(c *config.Configuration) {
				c.Prototypes.Authorizers = append(c.Prototypes.Authorizers, config.Mechanism{ID: "realallow", Type: "allow"},
					config.Mechanism{ID: "realcel", Type: "cel", Config: config.MechanismConfig{"expressions": []any{map[string]any{"expression": "true == true"}}}})
				c.Prototypes.ErrorHandlers = append(c.Prototypes.ErrorHandlers, config.Mechanism{ID: "realdef", Type: "default"})
				// ids are unique per kind only: "shared" is an authorizer and a finalizer, but not a contextualizer
				c.Prototypes.Authorizers = append(c.Prototypes.Authorizers, config.Mechanism{ID: "shared", Type: "allow"})
				c.Prototypes.Finalizers = append(c.Prototypes.Finalizers, config.Mechanism{ID: "shared", Type: "noop"})
				if dv.present {
					ex, oe := stageSteps("d", dv.mask, false)
					c.Default = &config.DefaultRule{Execute: ex, ErrorHandler: oe, BacktrackingEnabled: dv.bt}
				}
			}})
			if err != nil {
				r.Inconclusive("app start: " + err.Error())
				r.End()
			}
			dA, dS, dF, dE := stageNames("d", dv.mask, false)
			defDesc := map[string]any{"present": dv.present, "stages_mask": dv.mask, "backtracking_enabled": dv.bt}

			load := func(rl rconfig.Rule) error {
				return a.Proc.OnCreated(&rconfig.RuleSet{Version: "1alpha4", Name: rl.ID, MetaData: rconfig.MetaData{Source: "src-" + rl.ID, Hash: []byte(rl.ID)}, Rules: []rconfig.Rule{rl}})
			}
			// ---- stage subsets -------------------------------------------------------------
			for mask := 1; mask < 16; mask++ {
				for _, condOnly := range []bool{false, true} {
					for _, bt := range []*bool{nil, boolp(true), boolp(false)} {
						for _, fwd := range []bool{true, false} {
							if mask&^stE == 0 { // only error handlers: empty execute list (not generated)
								continue
							}
							n++
							id := fmt.Sprintf("r%d", n)
							ex, oe := stageSteps(id, mask, condOnly)
							rl := rconfig.Rule{ID: id, Execute: ex, ErrorHandler: oe,
								// the rule under test is the most specific expression and only applies to POST
								Matcher: rconfig.Matcher{Routes: []rconfig.Route{{Path: "/" + id + "/a"}}, Methods: []string{"POST"}, BacktrackingEnabled: bt}}
							if fwd {
								rl.Backend = &rconfig.Backend{Host: "127.0.0.1:1"}
							}
							if mask&stE == 0 && n%2 == 0 {
								// `on_error: []` written out: a list without steps defines no error handling stage either
								rl.ErrorHandler = []config.MechanismConfig{}
								r.Count("rules_with_an_explicitly_empty_on_error", 1)
							}
							expectReject, why := false, ""
							if mask&stA == 0 && !dv.present {
								expectReject, why = true, "ends up without an authenticator"
							}
							if mode == "proxy" && !fwd {
								expectReject, why = true, "proxy mode without forward_to"
							}
							err := load(rl)
							nontrivial := expectReject || (dv.present && (mask != 15 || bt == nil))
							r.Case(fmt.Sprintf("%s|%v|%d|%v|%v|%v", mode, dv, mask, condOnly, bt != nil && *bt, fwd)+fmt.Sprint(bt == nil), nontrivial)
							cs := c14Case{mode, defDesc, &rl, "", nil, nil}
							if expectReject {
								r.Count("expected_rejections", 1)
								if err == nil {
									cs.What, cs.Expected, cs.Observed = "load result", "rejected: "+why, "accepted"
									r.Violation("malformed-rule-accepted", "a rule that "+why+" was accepted", cs)
								}
								continue
							}
							if err != nil {
								cs.What, cs.Expected, cs.Observed = "load result", "accepted", err.Error()
								r.Violation("wellformed-rule-rejected", "a well-formed rule was rejected: "+err.Error(), cs)
								continue
							}
							r.Count("accepted_rules", 1)
							// effective pipeline per the statement
							oA, oS, oF, oE := stageNames(id, mask, condOnly)
							pick := func(own, def []string) []string {
								if own != nil { // stage defined by the rule (possibly only by a conditional step)
									return own
								}
								return def
							}
							eA, eS, eF, eE := pick(oA, dA), pick(oS, dS), pick(oF, dF), pick(oE, dE)
							// request 1: everything ok
							rid := nextReqID("c14")
							ctx := newExecCtx("POST", "/"+id+"/a", map[string]string{app.HdrReq: rid})
							_, xerr := a.Exec.Execute(ctx)
							tr := probes.Take(rid)
							want := strings.Join(append(append(append([]string{}, eA...), eS...), eF...), ",")
							got := strings.Join(traceIDs(tr, "authn", "authz", "ctx", "fin"), ",")
							if mask != 15 && dv.present && r.Counter("sampled") < 4 {
								r.Count("sampled", 1)
								r.Sample(map[string]any{"mode": mode, "default_rule": defDesc, "rule": rl, "expected_executed": want, "observed_executed": got})
							}
							if got != want || xerr != nil {
								cs.What, cs.Expected, cs.Observed = "mechanisms executed (all ok)", want, fmt.Sprintf("%s err=%v", got, xerr)
								r.Violation("effective-pipeline-mismatch", "executed mechanisms differ from stage-wise inheritance", cs)
							}
							// request 2: the first effective authenticator fails -> error stage
							rid = nextReqID("c14")
							first := strings.TrimPrefix(eA[0], "probe:")
							ctx = newExecCtx("POST", "/"+id+"/a", map[string]string{app.HdrReq: rid, app.HdrPlan: first + "=authn"})
							_, _ = a.Exec.Execute(ctx)
							tr = probes.Take(rid)
							wantE := strings.Join(eE, ",")
							gotE := strings.Join(traceIDs(tr, "eh"), ",")
							if gotE != wantE {
								cs.What, cs.Expected, cs.Observed = "error handlers executed", wantE, gotE
								r.Violation("effective-error-pipeline-mismatch", "executed error handlers differ from stage-wise inheritance", cs)
							}
							// backtracking: own, else default's, else off. Companion: less specific expression, any method.
							comp := rconfig.Rule{ID: id + "-companion", Execute: []config.MechanismConfig{{"authenticator": "anon"}},
								Matcher: rconfig.Matcher{Routes: []rconfig.Route{{Path: "/" + id + "/:x"}}}, Backend: &rconfig.Backend{Host: "127.0.0.1:1"}}
							if err := load(comp); err != nil {
								r.Inconclusive("companion rule rejected: " + err.Error())
								continue
							}
							effBT := dv.present && dv.bt
							if bt != nil {
								effBT = *bt
							}
							ctx = newExecCtx("GET", "/"+id+"/a", nil)
							found := "<none>"
							if fr, err := a.Repo.FindRule(ctx); err == nil && fr != nil {
								found = fr.ID()
							}
							wantRule := "<none>"
							switch {
							case effBT:
								wantRule = comp.ID
							case dv.present:
								wantRule = "default"
							}
							r.Count("backtracking_observations", 1)
							if found != wantRule {
								cs.What, cs.Expected, cs.Observed = "rule chosen when the most specific rule's conditions fail", wantRule, found
								r.Violation("effective-backtracking-mismatch", "backtracking setting is not own, else default's, else off", cs)
							}
						}
					}
				}
			}
			// ---- orderings of step kinds ------------------------------------------------------
			kinds := []string{"authenticator", "authorizer", "contextualizer", "finalizer"}
			rank := map[string]int{"authenticator": 0, "authorizer": 1, "contextualizer": 1, "finalizer": 2}
			var seqs [][]string
			var rec func(cur []string)
			rec = func(cur []string) {
				if len(cur) > 0 {
					seqs = append(seqs, append([]string{}, cur...))
				}
				if len(cur) == 4 {
					return
				}
				for _, k := range kinds {
					rec(append(cur, k))
				}
			}
			rec(nil)
			conditional := 0
			for _, seq := range seqs {
				n++
				id := fmt.Sprintf("o%d", n)
				rl := rconfig.Rule{ID: id, Matcher: rconfig.Matcher{Routes: []rconfig.Route{{Path: "/" + id}}}, Backend: &rconfig.Backend{Host: "127.0.0.1:1"}}
				ordered, hasA := true, false
				for i, k := range seq {
					step := config.MechanismConfig{k: fmt.Sprintf("probe:%s%d", id, i)}
					// every second ordering with conditional steps: a condition changes when a step runs, not where it may stand
					if k != "authenticator" && (n%2 == 1 || (n%4 == 2 && i == len(seq)-1)) {
						step["if"] = "Request.Method != 'BREW'"
						conditional++
					}
					rl.Execute = append(rl.Execute, step)
					if i > 0 && rank[seq[i-1]] > rank[k] {
						ordered = false
					}
					if k == "authenticator" {
						hasA = true
					}
				}
				if n%3 == 0 {
					rl.ErrorHandler = []config.MechanismConfig{{"error_handler": "realdef"}}
				}
				expectReject := !ordered || (!hasA && !dv.present)
				err := load(rl)
				r.Case(fmt.Sprintf("%s|%v|order|%v", mode, dv, seq), true)
				cs := c14Case{mode, defDesc, &rl, "load result", nil, nil}
				if expectReject {
					r.Count("expected_rejections", 1)
				}
				if expectReject && err == nil {
					cs.Expected, cs.Observed = "rejected (step order / no authenticator)", "accepted"
					r.Violation("malformed-rule-accepted", fmt.Sprintf("execute order %v was accepted", seq), cs)
				} else if !expectReject && err != nil {
					cs.Expected, cs.Observed = "accepted", err.Error()
					r.Violation("wellformed-rule-rejected", fmt.Sprintf("execute order %v was rejected: %v", seq, err), cs)
				}
			}
			r.Count("orderings_with_conditional_steps", conditional)
			// ---- unknown ids, bad overrides, unsupported keys ---------------------------------------
			bad := []struct {
				name string
				ex   []config.MechanismConfig
				oe   []config.MechanismConfig
			}{
				{"unknown authenticator", []config.MechanismConfig{{"authenticator": "nope"}}, nil},
				{"unknown authorizer", []config.MechanismConfig{{"authenticator": "anon"}, {"authorizer": "nope"}}, nil},
				{"unknown contextualizer", []config.MechanismConfig{{"authenticator": "anon"}, {"contextualizer": "nope"}}, nil},
				{"unknown finalizer", []config.MechanismConfig{{"authenticator": "anon"}, {"finalizer": "nope"}}, nil},
				{"unknown error handler", []config.MechanismConfig{{"authenticator": "anon"}}, []config.MechanismConfig{{"error_handler": "nope"}}},
				{"bad override for cel authorizer (expression does not compile)", []config.MechanismConfig{{"authenticator": "anon"}, {"authorizer": "realcel", "config": map[string]any{"expressions": []any{map[string]any{"expression": "1 +"}}}}}, nil},
				{"bad override for cel authorizer (unknown property)", []config.MechanismConfig{{"authenticator": "anon"}, {"authorizer": "realcel", "config": map[string]any{"foo": "bar"}}}, nil},
				{"bad override for default error handler", []config.MechanismConfig{{"authenticator": "anon"}}, []config.MechanismConfig{{"error_handler": "realdef", "config": map[string]any{"foo": "bar"}}}},
				{"authenticator step with a config that is not an object (string)", []config.MechanismConfig{{"authenticator": "anon", "config": "nope"}}, nil},
				{"authenticator step with a config that is not an object (list)", []config.MechanismConfig{{"authenticator": "anon", "config": []any{"a", "b"}}}, nil},
				{"authenticator step with a config that is not an object (number)", []config.MechanismConfig{{"authenticator": "anon", "config": 42}}, nil},
				{"authorizer step with a config that is not an object", []config.MechanismConfig{{"authenticator": "anon"}, {"authorizer": "realallow", "config": "nope"}}, nil},
				{"finalizer step with a config that is not an object", []config.MechanismConfig{{"authenticator": "anon"}, {"finalizer": "noop", "config": []any{1}}}, nil},
				{"error handler step with a config that is not an object", []config.MechanismConfig{{"authenticator": "anon"}}, []config.MechanismConfig{{"error_handler": "realdef", "config": "nope"}}},
				{"mechanism reference that is not a string", []config.MechanismConfig{{"authenticator": 7}}, nil},
				{"authorizer reference that is not a string", []config.MechanismConfig{{"authenticator": "anon"}, {"authorizer": []any{"realallow"}}}, nil},
				{"unsupported step key", []config.MechanismConfig{{"authenticator": "anon"}, {"frobnicator": "x"}}, nil},
				{"unsupported on_error key", []config.MechanismConfig{{"authenticator": "anon"}}, []config.MechanismConfig{{"authorizer": "realallow"}}},
				{"condition that does not compile", []config.MechanismConfig{{"authenticator": "anon"}, {"authorizer": "realallow", "if": "this is not cel ("}}, nil},
				{"condition that is not boolean", []config.MechanismConfig{{"authenticator": "anon"}, {"authorizer": "realallow", "if": "1 + 1"}}, nil},
				{"authorizer reference with a trailing blank", []config.MechanismConfig{{"authenticator": "anon"}, {"authorizer": "realallow "}}, nil},
				{"authenticator reference with a trailing newline", []config.MechanismConfig{{"authenticator": "anon\n"}}, nil},
				{"finalizer reference with a leading blank", []config.MechanismConfig{{"authenticator": "anon"}, {"finalizer": " noop"}}, nil},
				{"error handler reference with a trailing tab", []config.MechanismConfig{{"authenticator": "anon"}}, []config.MechanismConfig{{"error_handler": "realdef\t"}}},
				{"reference in another letter case", []config.MechanismConfig{{"authenticator": "Anon"}}, nil},
				{"condition of dynamic type", []config.MechanismConfig{{"authenticator": "anon"}, {"authorizer": "realallow", "if": "Subject.Attributes.suspended"}}, nil},
				{"condition that is a string", []config.MechanismConfig{{"authenticator": "anon"}, {"finalizer": "noop", "if": `Request.Header("X-A")`}}, nil},
				{"condition that is a list", []config.MechanismConfig{{"authenticator": "anon"}, {"contextualizer": "probe:ctxbad", "if": "[true]"}}, nil},
				{"error handler condition of dynamic type", []config.MechanismConfig{{"authenticator": "anon"}}, []config.MechanismConfig{{"error_handler": "realdef", "if": "Request.URL.Captures.x"}}},
			}
			for _, b := range bad {
				// each malformed execute list also together with a well-formed error pipeline of the rule's own
				for _, ownOE := range []bool{false, true} {
					oe, name := b.oe, b.name
					if ownOE {
						if b.oe != nil {
							continue
						}
						oe, name = []config.MechanismConfig{{"error_handler": "realdef"}}, b.name+" (rule has a valid on_error)"
					}
					n++
					id := fmt.Sprintf("b%d", n)
					rl := rconfig.Rule{ID: id, Matcher: rconfig.Matcher{Routes: []rconfig.Route{{Path: "/" + id}}}, Backend: &rconfig.Backend{Host: "127.0.0.1:1"}, Execute: b.ex, ErrorHandler: oe}
					err := load(rl)
					r.Case(fmt.Sprintf("%s|%v|bad|%s", mode, dv, name), true)
					r.Count("expected_rejections", 1)
					if err == nil {
						r.Violation("malformed-rule-accepted", name+" was accepted", c14Case{mode, defDesc, &rl, "load result", "rejected: " + name, "accepted"})
					}
					// the same rule inside a rule set whose other rules are fine, in front of them and between them
					if !ownOE {
						good := func(k int) rconfig.Rule {
							gid := fmt.Sprintf("%s-good%d", id, k)
							return rconfig.Rule{ID: gid, Matcher: rconfig.Matcher{Routes: []rconfig.Route{{Path: "/" + gid}}}, Backend: &rconfig.Backend{Host: "127.0.0.1:1"},
								Execute: []config.MechanismConfig{{"authenticator": "anon"}, {"finalizer": "noop"}}}
						}
						bad2 := rl
						bad2.ID = id + "-in-set"
						bad2.Matcher = rconfig.Matcher{Routes: []rconfig.Route{{Path: "/" + bad2.ID}}}
						for k, rules := range [][]rconfig.Rule{{bad2, good(1)}, {good(2), bad2, good(3)}} {
							src := fmt.Sprintf("src-%s-set%d", id, k)
							err := a.Proc.OnCreated(&rconfig.RuleSet{Version: "1alpha4", Name: src, MetaData: rconfig.MetaData{Source: src, Hash: []byte(src)}, Rules: rules})
							r.Case(fmt.Sprintf("%s|%v|bad-in-set|%s|%d", mode, dv, name, k), true)
							r.Count("expected_rejections", 1)
							if err == nil {
								r.Violation("malformed-rule-accepted", "a rule set containing the malformed rule ("+name+") besides well-formed ones was accepted",
									c14Case{mode, defDesc, &bad2, "load result of a rule set with " + fmt.Sprint(len(rules)) + " rules", "rejected: " + name, "accepted"})
							}
						}
					}
				}
			}
			// ---- one id, several kinds: what a step refers to depends on its kind, not on what was loaded before ----
			kindsOrder := [][2]string{{"authorizer", "authz"}, {"finalizer", "fin"}}
			if n%2 == 1 {
				kindsOrder[0], kindsOrder[1] = kindsOrder[1], kindsOrder[0]
			}
			for _, ref := range []string{"shared", "probe:same"} {
				for _, ks := range kindsOrder {
					n++
					id := fmt.Sprintf("k%d", n)
					rl := rconfig.Rule{ID: id, Matcher: rconfig.Matcher{Routes: []rconfig.Route{{Path: "/" + id}}}, Backend: &rconfig.Backend{Host: "127.0.0.1:1"},
						Execute: []config.MechanismConfig{{"authenticator": "probe:" + id + "a"}, {ks[0]: ref}}}
					err := load(rl)
					r.Case(fmt.Sprintf("%s|%v|same-id|%s|%s", mode, dv, ref, ks[0]), true)
					cs := c14Case{mode, defDesc, &rl, "load result", "accepted", nil}
					if err != nil {
						cs.Observed = err.Error()
						r.Violation("wellformed-rule-rejected", fmt.Sprintf("%s %q (the id also names a mechanism of another kind) was rejected: %v", ks[0], ref, err), cs)
						continue
					}
					r.Count("accepted_rules", 1)
					rid := nextReqID("c14")
					_, xerr := a.Exec.Execute(newExecCtx("GET", "/"+id, map[string]string{app.HdrReq: rid}))
					var got []string
					for _, e := range probes.Take(rid) {
						if e.Mech == ref {
							got = append(got, e.Stage+":"+e.Mech)
						}
					}
					want := ks[1] + ":" + ref
					r.Count("same_id_other_kind_executions", 1)
					if strings.Join(got, ",") != want || xerr != nil {
						cs.What, cs.Expected, cs.Observed = "stage in which the referenced mechanism ran", want, fmt.Sprintf("%v err=%v", got, xerr)
						r.Violation("effective-pipeline-mismatch", fmt.Sprintf("step {%s: %s} executed %v", ks[0], ref, got), cs)
					}
				}
				if ref == "shared" {
					n++
					id := fmt.Sprintf("k%d", n)
					rl := rconfig.Rule{ID: id, Matcher: rconfig.Matcher{Routes: []rconfig.Route{{Path: "/" + id}}}, Backend: &rconfig.Backend{Host: "127.0.0.1:1"},
						Execute: []config.MechanismConfig{{"authenticator": "anon"}, {"contextualizer": ref}}}
					err := load(rl)
					r.Case(fmt.Sprintf("%s|%v|same-id-unknown-kind", mode, dv), true)
					r.Count("expected_rejections", 1)
					if err == nil {
						r.Violation("malformed-rule-accepted", "contextualizer \"shared\" does not exist (only an authorizer and a finalizer of that id), the rule was accepted",
							c14Case{mode, defDesc, &rl, "load result", "rejected: unknown contextualizer", "accepted"})
					}
				}
			}
			_ = a.Stop()
		}
	}
	r.Require("accepted_rules", r.Counter("accepted_rules"), 1000)
	r.Require("expected_rejections", r.Counter("expected_rejections"), 1000)
	r.End()
}

func boolp(b bool) *bool { return &b }
