package e2e

import (
	"bytes"
	"fmt"
	"github.com/rs/zerolog"
	"io"
	"net"
	"net/http"
	"sort"
	"strings"
	"sync/atomic"
	"time"

	"github.com/dadrus/heimdall/internal/config"
	rconfig "github.com/dadrus/heimdall/internal/rules/config"
	"github.com/dadrus/heimdall/internal/verif/vkit/app"
)

// trio: the three entry points assembled from the same configuration and rule sets.
type trio struct {
	Dec, GRPC, Prx *app.App
	Up             *app.Upstream
	Probes         *app.Probes
	Envoy          *app.Envoy
	HTTP           *http.Client
}

var entryPoints = []string{"decision", "grpc", "proxy"}

type trioOptions struct {
	Mutate   func(ep string, c *config.Configuration)
	RuleSets func(upstreamHost string) []*rconfig.RuleSet
	Only     []string // subset of entry points; nil = all
	NoProbes bool
	// Trace: heimdall logs on trace level (into the void): code paths that only run when tracing is on are executed
	Trace bool
}

func has(list []string, s string) bool {
	if list == nil {
		return true
	}
	for _, x := range list {
		if x == s {
			return true
		}
	}
	return false
}

func newTrio(o trioOptions) (*trio, error) {
	t := &trio{Up: app.NewUpstream(), Probes: app.NewProbes()}
	t.HTTP = &http.Client{
		Timeout:       20 * time.Second,
		CheckRedirect: func(*http.Request, []*http.Request) error { return http.ErrUseLastResponse },
		Transport: &http.Transport{MaxIdleConnsPerHost: 32, DisableCompression: true,
			DialContext: (&net.Dialer{Timeout: 3 * time.Second}).DialContext},
	}
	mk := func(ep, svc string) (*app.App, error) {
		opts := app.Options{Service: svc, Mutate: func(c *config.Configuration) {
			if o.Mutate != nil {
				o.Mutate(ep, c)
			}
		}}
		if !o.NoProbes {
			opts.Probes = t.Probes
		}
		if o.Trace {
			lg := zerolog.New(io.Discard).Level(zerolog.TraceLevel)
			opts.Logger = &lg
		}
		a, err := app.New(opts)
		if err != nil {
			return nil, fmt.Errorf("%s: %w", ep, err)
		}
		if o.RuleSets != nil {
			for _, rs := range o.RuleSets(t.Up.HostPort()) {
				if err := a.Proc.OnCreated(rs); err != nil {
					_ = a.Stop()
					return nil, fmt.Errorf("%s: loading rule set %s: %w", ep, rs.Source, err)
				}
			}
		}
		return a, nil
	}
	var err error
	if has(o.Only, "decision") {
		if t.Dec, err = mk("decision", app.SvcDecision); err != nil {
			t.Close()
			return nil, err
		}
	}
	if has(o.Only, "grpc") {
		if t.GRPC, err = mk("grpc", app.SvcGRPC); err != nil {
			t.Close()
			return nil, err
		}
		if t.Envoy, err = app.NewEnvoy(t.GRPC.Addr()); err != nil {
			t.Close()
			return nil, err
		}
	}
	if has(o.Only, "proxy") {
		if t.Prx, err = mk("proxy", app.SvcProxy); err != nil {
			t.Close()
			return nil, err
		}
	}
	return t, nil
}

func (t *trio) Close() {
	if t.Envoy != nil {
		t.Envoy.Close()
	}
	for _, a := range []*app.App{t.Dec, t.GRPC, t.Prx} {
		if a != nil {
			_ = a.Stop()
		}
	}
	t.Up.Close()
	t.HTTP.CloseIdleConnections()
}

// lreq is a logical request.
type lreq struct {
	Method  string            `json:"method"`
	Host    string            `json:"host,omitempty"`
	Path    string            `json:"path"` // raw (escaped) path
	Query   string            `json:"query,omitempty"`
	Headers map[string]string `json:"headers,omitempty"`
	Body    string            `json:"body,omitempty"`
}

// result is the observable answer of one entry point.
type result struct {
	EP        string              `json:"entry_point"`
	Positive  bool                `json:"positive"`
	Status    int                 `json:"status"`
	Headers   map[string]string   `json:"headers,omitempty"`
	Body      string              `json:"body,omitempty"`
	Upstream  []app.UpstreamHit   `json:"upstream_hits,omitempty"`
	Trace     []app.TraceEvent    `json:"trace,omitempty"`
	Transport string              `json:"transport_error,omitempty"`
	Cookies   map[string]string   `json:"-"`
	RawHeader map[string][]string `json:"-"`
}

var reqCounter atomic.Int64

func nextReqID(ep string) string { return fmt.Sprintf("%s-%d", ep, reqCounter.Add(1)) }

// send issues the logical request at one entry point and gathers everything observable.
func (t *trio) send(ep string, lr lreq, acceptedStatus int) result {
	id := nextReqID(ep)
	res := result{EP: ep}
	hdr := map[string]string{}
	for k, v := range lr.Headers {
		hdr[k] = v
	}
	hdr[app.HdrReq] = id
	host := lr.Host
	if host == "" {
		host = "svc.test"
	}
	target := lr.Path
	if lr.Query != "" {
		target += "?" + lr.Query
	}
	switch ep {
	case "grpc":
		body, raw := lr.Body, []byte(nil)
		delete(hdr, "X-Verif-Chunked")
		if hdr["X-Verif-Rawbody"] != "" { // harness-only marker: use the raw_body field instead of body
			delete(hdr, "X-Verif-Rawbody")
			body, raw = "", []byte(lr.Body)
		}
		for k, v := range hdr { // envoy hands repeated header lines over as one comma separated value
			hdr[k] = strings.ReplaceAll(v, "\n", ",")
		}
		er := t.Envoy.Check(lr.Method, "http", host, target, hdr, body, raw)
		if er.RPCErr != "" {
			res.Transport = er.RPCErr
			// a gRPC error status is a non-success answer of the service
			res.Status = -1
		} else {
			res.Positive = er.OK
			res.Status = er.Status
			res.Body = er.Body
			res.Headers = map[string]string{}
			for _, h := range er.Headers {
				res.Headers[http.CanonicalHeaderKey(h[0])] = h[1]
			}
		}
	default:
		a := t.Dec
		if ep == "proxy" {
			a = t.Prx
		}
		if strings.HasPrefix(target, "//") {
			// net/http's client turns such a target into the absolute form "http://..."; the origin-form request line
			// has to be written by hand
			var hl []app.Hdr
			if hdr["X-Verif-Chunked"] != "" && lr.Body != "" {
				hl = append(hl, app.Hdr{Name: app.HdrChunked, Value: "1"})
			}
			delete(hdr, "X-Verif-Chunked")
			names := make([]string, 0, len(hdr))
			for k := range hdr {
				names = append(names, k)
			}
			sort.Strings(names)
			for _, k := range names {
				for _, line := range strings.Split(hdr[k], "\n") {
					hl = append(hl, app.Hdr{Name: k, Value: line})
				}
			}
			rr, err := app.RawDo(a.Addr(), lr.Method, target, host, hl, []byte(lr.Body))
			if err != nil {
				res.Transport = err.Error()
				res.Status = -1
				break
			}
			res.Status, res.Body, res.RawHeader, res.Headers = rr.Status, string(rr.Body), rr.Header, map[string]string{}
			for k, v := range rr.Header {
				res.Headers[k] = strings.Join(v, ",")
			}
			if ep == "decision" {
				res.Positive = rr.Status == acceptedStatus
			}
			break
		}
		var body io.Reader
		if lr.Body != "" {
			body = bytes.NewReader([]byte(lr.Body))
			if hdr["X-Verif-Chunked"] != "" { // harness-only marker: body of unknown length (chunked transfer encoding)
				body = struct{ io.Reader }{body}
			}
		}
		delete(hdr, "X-Verif-Chunked")
		req, err := http.NewRequest(lr.Method, "http://"+a.Addr()+"/", body)
		if err != nil {
			res.Transport = err.Error()
			break
		}
		req.URL.Opaque = target // origin-form request target, sent byte-exact; Host header = logical host
		req.Host = host
		for k, v := range hdr {
			// "\n" separates the values of a header sent as several header lines
			for _, line := range strings.Split(v, "\n") {
				req.Header.Add(k, line)
			}
		}
		resp, err := t.HTTP.Do(req)
		if err != nil {
			res.Transport = err.Error()
			res.Status = -1
			break
		}
		b, _ := io.ReadAll(resp.Body)
		resp.Body.Close()
		res.Status = resp.StatusCode
		res.Body = string(b)
		res.Headers = map[string]string{}
		res.RawHeader = resp.Header
		for k, v := range resp.Header {
			res.Headers[k] = strings.Join(v, ",")
		}
		if ep == "decision" {
			res.Positive = resp.StatusCode == acceptedStatus
		}
	}
	res.Upstream = t.Up.Take(id)
	if ep == "proxy" {
		res.Positive = len(res.Upstream) > 0 && res.Status >= 200 && res.Status < 300
	}
	res.Trace = t.Probes.Take(id)
	return res
}

func sortedKeys[V any](m map[string]V) []string {
	ks := make([]string, 0, len(m))
	for k := range m {
		ks = append(ks, k)
	}
	sort.Strings(ks)
	return ks
}

func mech(kind, id string, extra map[string]any) config.MechanismConfig {
	m := config.MechanismConfig{kind: id}
	for k, v := range extra {
		m[k] = v
	}
	return m
}
