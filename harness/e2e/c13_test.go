package e2e

import (
	"encoding/json"
	"fmt"
	"math/rand/v2"
	"net/http"
	"reflect"
	"sort"
	"strings"
	"testing"

	"github.com/dadrus/heimdall/internal/config"
	rconfig "github.com/dadrus/heimdall/internal/rules/config"
	"github.com/dadrus/heimdall/internal/verif/vkit/app"
	"github.com/dadrus/heimdall/internal/verif/vkit/core"
)

// The request view is echoed by header finalizers (templates) and read by CEL authorizers; the
// pipeline output for the upstream side consists of the X-View-* / X-Out-* headers and the cookies
// set by a cookie finalizer.

var c13ViewHeaders = map[string]any{
	"X-View-Method": `{{ .Request.Method }}`,
	"X-View-Url":    `{{ .Request.URL.Scheme }}|{{ .Request.URL.Host }}|{{ .Request.URL.Path }}|{{ .Request.URL.RawQuery }}`,
	"X-View-Q":      `{{ .Request.URL.Query.Get "q" }}|{{ index .Request.URL.Query "multi" | toJson }}`,
	"X-View-Caps":   `{{ .Request.URL.Captures | toJson }}`,
	"X-View-Hdr":    `{{ .Request.Header "X-Custom" }}|{{ .Request.Header "x-custom" }}|{{ .Request.Header "X-CUSTOM" }}|{{ .Request.Header "X-Multi" }}|{{ .Request.Header "Content-Type" }}`,
	"X-View-Hdrs":   `{{ index .Request.Headers "X-Custom" }}|{{ index .Request.Headers "X-Multi" }}`,
	"X-View-Cookie": `{{ .Request.Cookie "sess" }}|{{ .Request.Cookie "other" }}|{{ .Request.Cookie "missing" }}`,
	"X-View-Body":   `{{ .Request.Body | toJson }}`,
	// forwarding headers heimdall does not interpret itself are ordinary request headers at every entry point
	"X-View-Fwd": `{{ .Request.Header "X-Forwarded-Port" }}|{{ .Request.Header "X-Forwarded-Prefix" }}|{{ .Request.Header "X-Forwarded-User" }}`,
	"X-Out-Sub":  `{{ .Subject.ID }}`,
	// a pipeline header whose value is empty for most requests: it is handed over (empty) all the same, so that a
	// value sent by the client under that name never counts
	"X-Out-Opt": `{{ if eq (.Request.Header "X-Role") "admin" }}admin-group{{ end }}`,
	// a pipeline header named like one the proxy itself produces for the upstream side: the pipeline's value is the one handed over
	"Forwarded": `for=192.0.2.1;host=pipeline.{{ .Subject.ID }}.example`,
}

// c13IsOut tells whether a (canonical) header name belongs to the pipeline output for the upstream side
func c13IsOut(ck string) bool {
	return strings.HasPrefix(ck, "X-View-") || strings.HasPrefix(ck, "X-Out-") || ck == "Forwarded"
}

func c13Rules(up string) []*rconfig.RuleSet {
	rs := &rconfig.RuleSet{Version: "1alpha4", Name: "c13", MetaData: rconfig.MetaData{Source: "c13", Hash: []byte("c13")}}
	view := config.MechanismConfig{"finalizer": "view"}
	cookies := config.MechanismConfig{"finalizer": "cookies"}
	add := func(id, path string, methods []string, extra ...config.MechanismConfig) {
		ex := []config.MechanismConfig{{"authenticator": "anon"}}
		ex = append(ex, extra...)
		ex = append(ex, view, cookies)
		rs.Rules = append(rs.Rules, rconfig.Rule{ID: id, EncodedSlashesHandling: "on",
			Matcher: rconfig.Matcher{Routes: []rconfig.Route{{Path: path}}, Methods: methods},
			Backend: &rconfig.Backend{Host: up}, Execute: ex,
			ErrorHandler: []config.MechanismConfig{{"error_handler": "def"}}})
	}
	celz := func(expr string) config.MechanismConfig {
		return config.MechanismConfig{"authorizer": "celz", "config": map[string]any{"expressions": []any{map[string]any{"expression": expr}}}}
	}
	add("view", "/view/:a/:b", nil)
	add("free", "/free/*rest", nil)
	add("hdr-cel", "/cel/hdr/:x", nil, celz(`Request.Header("X-Role") == "admin"`))
	add("hdr-cel-lc", "/cel/hdrlc/:x", nil, celz(`Request.Header("x-role") == "admin"`))
	add("cookie-cel", "/cel/cookie/:x", nil, celz(`Request.Cookie("sess") == "s3cr3t"`))
	add("body-cel", "/cel/body/:x", nil, celz(`type(Request.Body()) == map && Request.Body().user == "alice"`))
	add("caps-cel", "/cel/caps/:x", nil, celz(`Request.URL.Captures.x == "yes"`))
	add("query-cel", "/cel/query/:x", nil, celz(`Request.URL.Query().q == ["1"]`))
	add("method-cel", "/cel/method/:x", nil, celz(`Request.Method in ["POST", "PUT"]`))
	add("post-only", "/m/:x", []string{"POST"})
	add("if-hdr", "/if/:x", nil, config.MechanismConfig{"authorizer": "deny", "if": `Request.Header("X-Deny") == "1"`})
	// two finalizers adding the same upstream header
	add("multi-out", "/multi/:x", nil, config.MechanismConfig{"finalizer": "outa"}, config.MechanismConfig{"finalizer": "outb"})
	return []*rconfig.RuleSet{rs}
}

type c13View struct {
	Positive bool              `json:"positive"`
	Status   int               `json:"status_class"`
	Headers  map[string]string `json:"pipeline_headers"`
	Cookies  map[string]string `json:"pipeline_cookies"`
}

func parseCookieHeader(v string) map[string]string {
	out := map[string]string{}
	for _, p := range strings.Split(v, ";") {
		if k, val, ok := strings.Cut(strings.TrimSpace(p), "="); ok {
			out[k] = val
		}
	}
	return out
}

func (t *trio) c13Send(ep string, lr lreq) c13View {
	res := t.send(ep, lr, 200)
	v := c13View{Positive: res.Positive, Headers: map[string]string{}, Cookies: map[string]string{}}
	if !res.Positive {
		v.Status = res.Status
		return v
	}
	take := func(h map[string][]string) {
		for k, vals := range h {
			ck := http.CanonicalHeaderKey(k)
			if c13IsOut(ck) {
				v.Headers[ck] = strings.Join(vals, "\x1f")
			}
		}
	}
	switch ep {
	case "decision":
		take(res.RawHeader)
		for _, c := range (&http.Response{Header: res.RawHeader}).Cookies() {
			v.Cookies[c.Name] = c.Value
		}
	case "grpc":
		h := map[string][]string{}
		for k, val := range res.Headers {
			h[k] = []string{val}
		}
		take(h)
		v.Cookies = parseCookieHeader(res.Headers["Cookie"])
	case "proxy":
		if len(res.Upstream) > 0 {
			take(res.Upstream[0].Header)
			all := parseCookieHeader(strings.Join(res.Upstream[0].Header["Cookie"], ";"))
			for k, val := range all {
				if strings.HasPrefix(k, "out_") {
					v.Cookies[k] = val
				}
			}
		}
	}
	if ep != "proxy" {
		// decision service and Envoy answer with the headers the fronting proxy sets on the request it forwards: a header
		// that is NOT in the answer is not touched there, so what the client sent under that name reaches the upstream
		for name, val := range lr.Headers {
			ck := http.CanonicalHeaderKey(name)
			if c13IsOut(ck) {
				if _, ok := v.Headers[ck]; !ok {
					v.Headers[ck] = "client-value-passes:" + val
				}
			}
		}
	}
	return v
}

type c13Case struct {
	Request lreq                `json:"logical_request"`
	Views   map[string]c13View  `json:"views"`
	Diff    map[string][]string `json:"differences"`
}

var c13Bodies = []struct{ ct, body string }{
	{"", ""},
	{"application/json", `{"user":"alice","n":1,"l":[1,2]}`},
	{"application/json", `{"user":"bob"}`},
	{"application/json; charset=utf-8", `{"user":"alice"}`},
	{"application/x-www-form-urlencoded", `user=alice&x=1&x=2`},
	{"application/yaml", "user: alice\nlist:\n  - a\n  - b\n"},
	{"text/plain", "just text"},
	{"application/json", `not json {`},
	{"", `{"user":"alice"}`},
}

func c13Request(rng *rand.Rand) lreq {
	paths := []string{"/view/a/b", "/view/A.b/c%20d", "/view/%C3%BC/x", "/free/x/y/z", "/free/a%2Fb", "/cel/hdr/1", "/cel/hdrlc/1", "/cel/cookie/1", "/cel/body/1", "/cel/caps/yes", "/cel/caps/no",
		"/cel/query/1", "/cel/method/1", "/m/1", "/if/1", "/multi/1", "/nomatch/1",
		// characters which mean something else in a query string, in a path they are plain
		"/view/a+b/c+", "/free/a+b%2Fc.txt", "/view/x%2By/z&w", "/view/semi;p=1/eq=2", "/free/at@x/col:on/c,d/$e/!f/(g)/*h",
		// empty segments: a request target that starts with two slashes is a path, not an authority
		"//view/view/a/b", "//free/free/x", "/view//b", "/free/a//b/", "//",
		// escapes of the escape character, and escapes Go's default path encoding would not produce
		"/view/100%25/x", "/view/%2541/z", "/free/50%25%20off/a", "/view/%7Euser/%41",
		// characters net/url does not accept unescaped in an encoded path
		"/view/a|b/c^d", "/free/{x}/a%2Fb/`y`", "/view/%7Bid%7D/<z>"}
	lr := lreq{Method: []string{"GET", "POST", "PUT", "DELETE", "PATCH", "OPTIONS"}[rng.IntN(6)], Path: paths[rng.IntN(len(paths))], Headers: map[string]string{}}
	lr.Host = []string{"svc.test", "api.example.com:8443", "10.1.2.3", "App.Example.COM", "SVC.test:80"}[rng.IntN(5)]
	lr.Query = []string{"", "q=1", "q=1&multi=a&multi=b", "q=a%20b&x=%2F", "multi=z&q=1&q=2", "flag",
		// separators and characters a query parser may treat specially
		"q=1;multi=a", "multi=a;b&q=2", "q=a+b&multi=%2B", "q=%zz&multi=a", "q==1&&multi=&=x",
		// "?" and "/" are plain characters within a query (RFC 3986 3.4): the query starts at the first "?" of the target
		"q=/files/report?id=7", "q=who?&multi=a", "multi=a/b?c&q=1?", "?q=1", "q=1&multi=http://x/y?z=1"}[rng.IntN(16)]
	if rng.IntN(2) == 0 {
		lr.Headers["X-Custom"] = []string{"cv", "with space", "a,b", "üni"}[rng.IntN(4)]
	}
	if rng.IntN(3) == 0 {
		lr.Headers["X-Multi"] = []string{"one,two", "one\ntwo", "one\ntwo\nthree"}[rng.IntN(3)]
	}
	if rng.IntN(2) == 0 {
		lr.Headers["X-Role"] = []string{"admin", "user"}[rng.IntN(2)]
	}
	if rng.IntN(3) == 0 {
		lr.Headers["X-Deny"] = []string{"1", "0"}[rng.IntN(2)]
	}
	if rng.IntN(4) == 0 {
		// the client sends a header the pipeline is going to produce for the upstream side: only the pipeline's value counts
		lr.Headers[[]string{"X-Out-Sub", "x-out-sub", "X-View-Method", "X-VIEW-CAPS", "X-Out-Opt", "x-out-opt"}[rng.IntN(6)]] = []string{"mallory", "one\ntwo"}[rng.IntN(2)]
	}
	switch rng.IntN(8) {
	case 5:
		lr.Headers["Cookie"] = "sess=s3cr3t; theme=dark; sess=second"
	case 6:
		lr.Headers["Cookie"] = "other=x; sess=first; other=y; sess=s3cr3t"
	case 0:
		lr.Headers["Cookie"] = "sess=s3cr3t"
	case 1:
		lr.Headers["Cookie"] = "other=1; sess=s3cr3t; third=x"
	case 2:
		lr.Headers["Cookie"] = "sess=wrong;other=2"
	case 3:
		lr.Headers["Cookie"] = `sess="quoted"; other=a=b`
	case 4:
		// cookie headers with pairs a strict parser refuses: the other cookies are still there
		lr.Headers["Cookie"] = []string{"sess=s3cr3t; consent", "other=J ü; sess=s3cr3t;", "a=1;;sess=s3cr3t; other=x", `prefs={"a":1,"b":"c d"}; sess=s3cr3t`, `path=c:\temp; other=2; sess=wrong`}[rng.IntN(5)]
	}
	if rng.IntN(6) == 0 {
		// the client sends cookies named like the ones the pipeline produces for the upstream side
		extra := []string{"out_sess=from-client", "out_sub=mallory", "out_sess=c1; out_sub=c2"}[rng.IntN(3)]
		if c := lr.Headers["Cookie"]; c != "" && rng.IntN(2) == 0 {
			lr.Headers["Cookie"] = extra + "; " + c
		} else if c != "" {
			lr.Headers["Cookie"] = c + "; " + extra
		} else {
			lr.Headers["Cookie"] = extra
		}
	}
	if rng.IntN(5) == 0 {
		lr.Headers[[]string{"X-Forwarded-Port", "X-Forwarded-Prefix", "X-Forwarded-User"}[rng.IntN(3)]] = []string{"8443", "/base", "mallory"}[rng.IntN(3)]
	}
	// a body is not tied to a method: every third GET / DELETE / OPTIONS request carries one as well
	if (lr.Method != "GET" && lr.Method != "DELETE" && lr.Method != "OPTIONS") || rng.IntN(3) == 0 {
		b := c13Bodies[rng.IntN(len(c13Bodies))]
		lr.Body = b.body
		if rng.IntN(8) == 0 && strings.Contains(b.ct, "json") && strings.HasPrefix(b.body, "{") {
			// a body beyond the usual buffer sizes (4 KB ... 64 KB)
			lr.Body = `{"pad":"` + strings.Repeat("p", 5000+rng.IntN(60000)) + `",` + b.body[1:]
		}
		if b.ct != "" {
			lr.Headers["Content-Type"] = b.ct
		}
		if rng.IntN(3) == 0 { // HTTP entry points: no announced length (chunked); Envoy always buffers
			lr.Headers["X-Verif-Chunked"] = "1"
		}
	}
	return lr
}

func TestC13(t *testing.T) {
	r := core.Begin("C13", "exploration")
	r.Rule("seeded logical requests (5 methods, hosts, paths with captures and percent-encoding, queries with repeated/encoded parameters, header sets incl. multi-valued and non-ASCII values, " +
		"cookie headers incl. quoted values, JSON/form/YAML/text/invalid bodies) are sent to the three assembled services loaded with the same 12 rules whose CEL authorizers, `if` conditions and " +
		"header/cookie finalizer templates read method, URL parts, captures, headers (three name casings), cookies and the decoded body. Oracle: pairwise equality of the decision and, for accepted " +
		"requests, of every echoed view header and every header/cookie produced for the upstream side. Non-trivial: the request is accepted by at least one entry point and matches a rule.")
	r.Assume("Envoy CheckRequest mapping: lower-case header keys, path and query in separate fields, body in `body` (string) for half of the requests and in `raw_body` for the other half")
	tr, err := newTrio(trioOptions{
		Mutate: func(ep string, c *config.Configuration) {
			p := c.Prototypes
			p.Authorizers = append(p.Authorizers,
				config.Mechanism{ID: "celz", Type: "cel", Config: config.MechanismConfig{"expressions": []any{map[string]any{"expression": "true"}}}},
				config.Mechanism{ID: "deny", Type: "deny"})
			p.Finalizers = append(p.Finalizers,
				config.Mechanism{ID: "view", Type: "header", Config: config.MechanismConfig{"headers": c13ViewHeaders}},
				config.Mechanism{ID: "outa", Type: "header", Config: config.MechanismConfig{"headers": map[string]any{"X-Out-Multi": "first"}}},
				config.Mechanism{ID: "outb", Type: "header", Config: config.MechanismConfig{"headers": map[string]any{"X-Out-Multi": "second"}}},
				config.Mechanism{ID: "cookies", Type: "cookie", Config: config.MechanismConfig{"cookies": map[string]any{
					"out_sess": `{{ .Request.Cookie "sess" }}-seen`, "out_sub": `{{ .Subject.ID }}`}}})
			p.ErrorHandlers = append(p.ErrorHandlers, config.Mechanism{ID: "def", Type: "default"})
		},
		RuleSets: c13Rules,
	})
	if err != nil {
		r.Inconclusive("cannot assemble services: " + err.Error())
		r.End()
	}
	defer tr.Close()
	rng := r.Stream("c13")
	n := r.Pick(1500, 60000)
	for i := 0; i < n && r.Violations() < 60; i++ {
		lr := c13Request(rng)
		views := map[string]c13View{}
		for _, ep := range entryPoints {
			l := lr
			if ep == "grpc" && i%2 == 1 && l.Body != "" {
				// second encoding of the body towards envoy: raw_body
				l.Headers = map[string]string{}
				for k, v := range lr.Headers {
					l.Headers[k] = v
				}
				l.Headers["X-Verif-Rawbody"] = "1"
			}
			views[ep] = tr.c13Send(ep, l)
		}
		anyPos := false
		for _, v := range views {
			if v.Positive {
				anyPos = true
			}
		}
		r.Case(core.Hash(lr), anyPos)
		if anyPos {
			r.Count("accepted_somewhere", 1)
		} else {
			r.Count("denied_everywhere", 1)
		}
		if i < 3 {
			r.Sample(map[string]any{"logical_request": lr, "decision_view": views["decision"]})
		}
		diff := map[string][]string{}
		pairs := [][2]string{{"decision", "grpc"}, {"decision", "proxy"}}
		for _, pr := range pairs {
			a, b := views[pr[0]], views[pr[1]]
			key := pr[0] + " vs " + pr[1]
			if a.Positive != b.Positive {
				diff[key] = append(diff[key], fmt.Sprintf("decision: %v(%d) vs %v(%d)", a.Positive, a.Status, b.Positive, b.Status))
				continue
			}
			if !a.Positive {
				if a.Status != b.Status && pr[1] != "grpc" || pr[1] == "grpc" && a.Status != b.Status && b.Status > 0 {
					diff[key] = append(diff[key], fmt.Sprintf("status: %d vs %d", a.Status, b.Status))
				}
				continue
			}
			names := map[string]bool{}
			for k := range a.Headers {
				names[k] = true
			}
			for k := range b.Headers {
				names[k] = true
			}
			for k := range names {
				if !sameViewValue(k, a.Headers[k], b.Headers[k]) {
					diff[key] = append(diff[key], fmt.Sprintf("%s: %q vs %q", k, a.Headers[k], b.Headers[k]))
				}
			}
			if !reflect.DeepEqual(a.Cookies, b.Cookies) {
				diff[key] = append(diff[key], fmt.Sprintf("cookies: %v vs %v", a.Cookies, b.Cookies))
			}
		}
		if len(diff) > 0 {
			var sigs []string
			for _, ds := range diff {
				for _, d := range ds {
					sigs = append(sigs, c13Signature(d, lr))
				}
			}
			sort.Strings(sigs)
			r.Violation(sigs[0], fmt.Sprintf("entry points disagree for %s %s: %v", lr.Method, lr.Path, diff), c13Case{lr, views, diff})
		}
	}
	r.Require("accepted_somewhere", r.Counter("accepted_somewhere"), int64(n/3))
	r.Require("denied_everywhere", r.Counter("denied_everywhere"), int64(n/20))
	r.End()
}

func sameViewValue(name, a, b string) bool {
	if a == b {
		return true
	}
	if name == "X-View-Caps" || name == "X-View-Body" {
		var ja, jb any
		if json.Unmarshal([]byte(a), &ja) == nil && json.Unmarshal([]byte(b), &jb) == nil {
			return reflect.DeepEqual(ja, jb)
		}
	}
	return false
}

func c13Signature(d string, lr lreq) string {
	name := strings.SplitN(d, ":", 2)[0]
	switch {
	case strings.HasPrefix(d, "decision:"):
		return "decision-differs:" + strings.Trim(strings.SplitN(lr.Path, "/", 4)[1]+"/"+strings.SplitN(lr.Path+"//", "/", 4)[2], "/")
	case strings.HasPrefix(d, "status:"):
		return "status-differs"
	case strings.HasPrefix(d, "cookies:"):
		return "upstream-cookies-differ"
	case strings.HasPrefix(name, "X-Out-"), name == "Forwarded":
		return "upstream-header-differs:" + name
	}
	return "request-view-differs:" + name
}

var _ = app.HdrReq
