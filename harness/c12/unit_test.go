package c12

import (
	"context"
	"fmt"
	"math/rand/v2"
	"net/http"
	"net/http/httptest"
	"runtime"
	"runtime/debug"
	"sort"
	"strings"
	"sync"

	envoy_auth "github.com/envoyproxy/go-control-plane/envoy/service/auth/v3"
	"google.golang.org/grpc"

	grpceh "github.com/dadrus/heimdall/internal/handler/middleware/grpc/errorhandler"
	httpeh "github.com/dadrus/heimdall/internal/handler/middleware/http/errorhandler"
	"github.com/dadrus/heimdall/internal/verif/vkit/core"
)

// optsCfg is one configuration of the two translators (the respond options of a service).
type optsCfg struct {
	Verbose   bool           `json:"verbose"`
	Overrides map[string]int `json:"status_overrides"` // key of kindKeys -> code; missing = default
}

func (o optsCfg) key() string {
	ks := make([]string, 0, len(o.Overrides))
	for k, v := range o.Overrides {
		ks = append(ks, fmt.Sprintf("%s=%d", k, v))
	}
	sort.Strings(ks)
	return fmt.Sprintf("v=%v;%s", o.Verbose, strings.Join(ks, ","))
}

// the translators are constructed exactly the way decision/service.go, proxy/service.go and
// envoyextauth/grpcv3/service.go do it (code 0 = not configured).
func newHTTP(o optsCfg) httpeh.ErrorHandler {
	return httpeh.New(
		httpeh.WithVerboseErrors(o.Verbose),
		httpeh.WithPreconditionErrorCode(o.Overrides["precondition"]),
		httpeh.WithAuthenticationErrorCode(o.Overrides["authentication"]),
		httpeh.WithAuthorizationErrorCode(o.Overrides["authorization"]),
		httpeh.WithCommunicationErrorCode(o.Overrides["communication"]),
		httpeh.WithNoRuleErrorCode(o.Overrides["no_rule"]),
		httpeh.WithInternalServerErrorCode(o.Overrides["internal"]),
	)
}

func newGRPC(o optsCfg) grpc.UnaryServerInterceptor {
	return grpceh.New(
		grpceh.WithVerboseErrors(o.Verbose),
		grpceh.WithPreconditionErrorCode(o.Overrides["precondition"]),
		grpceh.WithAuthenticationErrorCode(o.Overrides["authentication"]),
		grpceh.WithAuthorizationErrorCode(o.Overrides["authorization"]),
		grpceh.WithCommunicationErrorCode(o.Overrides["communication"]),
		grpceh.WithNoRuleErrorCode(o.Overrides["no_rule"]),
		grpceh.WithInternalServerErrorCode(o.Overrides["internal"]),
	)
}

// obs is what a client of the translator can see.
type obs struct {
	Status      int    `json:"status"`
	GRPCCode    *int32 `json:"grpc_status_code,omitempty"` // CheckResponse.status.code (0 = OK = allowed by Envoy)
	Denied      *bool  `json:"denied_response,omitempty"`
	Location    string `json:"location,omitempty"`
	ContentType string `json:"content_type,omitempty"`
	Body        string `json:"body,omitempty"`
	RPCErr      string `json:"rpc_error,omitempty"`
	Panic       string `json:"panic,omitempty"`
}

func driveHTTP(eh httpeh.ErrorHandler, err error, accept []string) (o obs) {
	defer func() {
		if x := recover(); x != nil {
			o.Panic = fmt.Sprintf("%v\n%s", x, debug.Stack())
		}
	}()
	req, _ := http.NewRequest(http.MethodGet, "http://heimdall.test/some/path", nil)
	for _, a := range accept {
		req.Header.Add("Accept", a)
	}
	rec := httptest.NewRecorder()
	eh.HandleError(rec, req, err)
	res := rec.Result()
	o.Status = res.StatusCode // 200 if the handler never wrote a header - as net/http would send
	o.Location = res.Header.Get("Location")
	o.ContentType = res.Header.Get("Content-Type")
	o.Body = rec.Body.String()
	return o
}

func driveGRPC(ic grpc.UnaryServerInterceptor, err error, accept []string) (o obs) {
	defer func() {
		if x := recover(); x != nil {
			o.Panic = fmt.Sprintf("%v\n%s", x, debug.Stack())
		}
	}()
	hdrs := map[string]string{"x-request-id": "r1"}
	if len(accept) > 0 {
		hdrs["accept"] = strings.Join(accept, ",") // Envoy hands over one comma separated value, lower-case key
	}
	creq := &envoy_auth.CheckRequest{Attributes: &envoy_auth.AttributeContext{Request: &envoy_auth.AttributeContext_Request{
		Http: &envoy_auth.AttributeContext_HttpRequest{Method: "GET", Scheme: "http", Host: "heimdall.test", Path: "/some/path", Headers: hdrs},
	}}}
	res, rerr := ic(context.Background(), creq, &grpc.UnaryServerInfo{FullMethod: "/envoy.service.auth.v3.Authorization/Check"},
		func(context.Context, any) (any, error) { return nil, err })
	if rerr != nil {
		o.RPCErr = rerr.Error()
		return o
	}
	cr, ok := res.(*envoy_auth.CheckResponse)
	if !ok || cr == nil {
		o.RPCErr = fmt.Sprintf("unexpected result type %T", res)
		return o
	}
	code := cr.GetStatus().GetCode()
	o.GRPCCode = &code
	d := cr.GetDeniedResponse()
	denied := d != nil
	o.Denied = &denied
	if d != nil {
		o.Status = int(d.GetStatus().GetCode())
		o.Body = d.GetBody()
		for _, h := range d.GetHeaders() {
			switch strings.ToLower(h.GetHeader().GetKey()) {
			case "location":
				o.Location = h.GetHeader().GetValue()
			case "content-type":
				o.ContentType = h.GetHeader().GetValue()
			}
		}
	}
	return o
}

type unitCase struct {
	Level     string      `json:"level"`
	Tree      *node       `json:"error_tree"`
	TreeText  string      `json:"error_tree_text"`
	ErrorText string      `json:"error_text"`
	Options   optsCfg     `json:"options"`
	Accept    []string    `json:"accept_header_lines"` // nil: no Accept header
	Expected  expectation `json:"expected"`
	HTTP      obs         `json:"observed_http"`
	GRPC      obs         `json:"observed_grpc"`
}

type verdict struct{ sig, what string }

// judgeOne checks one translator's answer against the model and the body rules.
func judgeOne(tr string, exp expectation, o obs, cfg optsCfg, accept []string, st *stats) []verdict {
	var out []verdict
	if o.Panic != "" {
		return []verdict{{"translator-panic", tr + " translator panicked: " + strings.SplitN(o.Panic, "\n", 2)[0]}}
	}
	if o.RPCErr != "" {
		return []verdict{{"status-mismatch", tr + " translator returned an rpc error instead of a denied response: " + o.RPCErr}}
	}
	success := isSuccess(o.Status)
	if tr == "grpc" && (o.GRPCCode == nil || *o.GRPCCode == 0 || o.Denied == nil || !*o.Denied) {
		success = true
	}
	switch {
	case success:
		out = append(out, verdict{"success-on-failure", fmt.Sprintf("%s translator answered a failure with a success (status %d)", tr, o.Status)})
	case exp.Class == "redirect" && !exp.admits(o.Status, o.Location):
		if o.Location == "" && exp.admits(o.Status, exp.locationFor(o.Status)) {
			out = append(out, verdict{"redirect-location-missing", fmt.Sprintf("%s: redirect error answered with %d and no Location", tr, o.Status)})
		} else {
			out = append(out, verdict{"status-mismatch", fmt.Sprintf("%s: redirect expected one of %v, got %d %q", tr, exp.Redirects, o.Status, o.Location)})
		}
	case exp.Class != "redirect" && o.Status != exp.Status:
		out = append(out, verdict{"status-mismatch", fmt.Sprintf("%s: %s failure expected %d, got %d", tr, exp.Class, exp.Status, o.Status)})
	}
	if o.Body == "" {
		st.add(tr+"_no_body", 1)
		return out
	}
	if !cfg.Verbose {
		out = append(out, verdict{"details-leak-nonverbose", fmt.Sprintf("%s: body %q although verbose responses are disabled", tr, clip(o.Body))})
		return out
	}
	base, known, parses := bodyParses(o.ContentType, o.Body)
	st.add(tr+"_body_"+base, 1)
	if !known {
		st.add(tr+"_body_unknown_type", 1)
	}
	if !parses {
		out = append(out, verdict{"body-unparsable", fmt.Sprintf("%s: body %q is not a %s document", tr, clip(o.Body), o.ContentType)})
	}
	if judged, ok, anySupported := acceptVerdict(accept, base); judged {
		st.add(tr+"_body_type_judged", 1)
		if !ok {
			sig := "body-type-not-acceptable"
			if tr == "grpc" && !anySupported && base == "text/html" {
				// narrow class: negotiation impossible, gRPC translator falls back to text/html
				sig = "grpc-unnegotiated-html-body"
			}
			if tr == "http" && len(accept) > 1 {
				if _, ok1, _ := acceptVerdict(accept[:1], base); ok1 {
					// narrow class: acceptable for the first Accept line only
					sig = "http-accept-first-line-only"
				}
			}
			out = append(out, verdict{sig, fmt.Sprintf("%s: body of type %s is not acceptable for Accept %q", tr, base, accept)})
		}
	}
	return out
}

func clip(s string) string {
	if len(s) > 80 {
		return s[:80] + "..."
	}
	return s
}

type stats struct {
	mu sync.Mutex
	m  map[string]int
}

func (s *stats) add(k string, n int) {
	s.mu.Lock()
	s.m[k] += n
	s.mu.Unlock()
}

// evalCase runs one (error, options, Accept) case through both translators and reports.
func evalCase(r *core.Run, level string, n *node, err error, cfg optsCfg, h httpeh.ErrorHandler, g grpc.UnaryServerInterceptor,
	accept []string, st *stats) expectation {
	exp := model(n, cfg.Overrides)
	ho := driveHTTP(h, err, accept)
	go_ := driveGRPC(g, err, accept)
	vs := judgeOne("http", exp, ho, cfg, accept, st)
	vs = append(vs, judgeOne("grpc", exp, go_, cfg, accept, st)...)
	if ho.Panic == "" && go_.Panic == "" && go_.RPCErr == "" && (ho.Status != go_.Status || (exp.Class == "redirect" && ho.Location != go_.Location)) {
		vs = append(vs, verdict{"http-grpc-disagree", fmt.Sprintf("HTTP translator answered %d %q, gRPC translator %d %q", ho.Status, ho.Location, go_.Status, go_.Location)})
	}
	st.add("class_"+exp.Class, 1)
	st.add(fmt.Sprintf("status_%d", ho.Status), 1)
	if cfg.Verbose && ho.Panic == "" && go_.Panic == "" && go_.RPCErr == "" {
		noteBodyDifference(n, ho, go_, accept, st)
	}
	if len(vs) > 0 {
		c := unitCase{Level: level, Tree: n, TreeText: n.String(), ErrorText: err.Error(), Options: cfg, Accept: accept, Expected: exp, HTTP: ho, GRPC: go_}
		seen := map[string]bool{}
		for _, v := range vs {
			if !seen[v.sig] {
				seen[v.sig] = true
				r.Violation(v.sig, v.what+" | error: "+n.String(), c)
			}
		}
	}
	return exp
}

// noteBodyDifference records (as counters and examples, not as verdicts) where the two translators treat the body of the
// same verbose failure differently: the statement asks for "the negotiated content type" per response and does not say
// that both translators have to pick the same one among several acceptable types, nor what to do with an Accept value
// that cannot be parsed. The case "well-formed Accept, nothing acceptable" is the open finding grpc-unnegotiated-html-body.
func noteBodyDifference(n *node, ho, gout obs, accept []string, st *stats) {
	hb, gb := ho.Body != "", gout.Body != ""
	if !hb && !gb {
		return
	}
	judged, _, anySupported := acceptVerdict(accept, "text/html")
	cat := ""
	switch {
	case hb != gb && judged && !anySupported:
		cat = "presence_differs_nothing_acceptable"
	case hb != gb && !judged:
		cat = "presence_differs_accept_not_well_formed_or_empty"
	case hb != gb:
		cat = "presence_differs_although_a_type_is_acceptable"
	default:
		hbase, _, _ := bodyParses(ho.ContentType, ho.Body)
		gbase, _, _ := bodyParses(gout.ContentType, gout.Body)
		if hbase == gbase {
			return
		}
		cat = "type_differs_both_present"
	}
	st.add("http_grpc_body_"+cat, 1)
	bodyDiffMu.Lock()
	defer bodyDiffMu.Unlock()
	ex := bodyDiffExamples[cat]
	if ex == nil {
		ex = map[string]string{}
		bodyDiffExamples[cat] = ex
	}
	k := fmt.Sprintf("Accept %q", accept)
	if cat == "presence_differs_although_a_type_is_acceptable" {
		k += " error " + n.String()
	}
	if _, seen := ex[k]; !seen && len(ex) < 8 {
		ex[k] = fmt.Sprintf("http: %q (%d bytes), grpc: %q (%d bytes)", ho.ContentType, len(ho.Body), gout.ContentType, len(gout.Body))
	}
}

var (
	bodyDiffMu       sync.Mutex
	bodyDiffExamples = map[string]map[string]string{}
)

// --- Accept pool -----------------------------------------------------------------------------

var fixedAccepts = [][]string{
	nil, // absent
	{"text/html"}, {"application/json"}, {"text/plain"}, {"application/xml"},
	{"*/*"}, {"text/*"}, {"application/*"},
	{"TEXT/HTML"}, {"Application/Json"},
	// q-values
	{"application/json;q=0.3,text/html;q=0.5,text/plain"},
	{"text/html;q=0, */*"},
	{"application/json;q=0,text/html;q=0,*/*;q=0.1"},
	{"text/*;q=0.5, text/plain;q=0, application/*;q=0"},
	{"application/xml;q=1.000, application/json;q=0.999"},
	{"application/xml;q=0.001"},
	{"text/plain ; q=0.5 , application/json ; q=0.7"},
	{"application/json;q=0.5;ext=1, text/plain;q=0.4"},
	{"image/png, application/xml;q=0.2"},
	// unsupported / everything refused
	{"image/png"}, {"application/pdf;q=0.9, image/*"}, {"text/html;level=1"}, {"text/csv, application/yaml"},
	{"*/*;q=0"}, {"text/html;q=0.0"}, {"text/*;q=0, application/*;q=0"},
	// malformed
	{"text"}, {"text/html;q=abc"}, {"text/html;q=1.5"}, {";;;"}, {"text/html,,"}, {"text/html; q=0.5;"}, {"\""},
	{"text/html application/json"}, {"/"}, {"text/html;q"}, {""},
	// several Accept lines (one list, RFC 7230 3.2.2)
	{"image/png", "application/json"},
	{"*/*", "text/html;q=0"},
	{"application/xml", "text/plain;q=0.5"},
}

func randAccept(rng *rand.Rand) []string {
	pool := []string{"text/html", "application/json", "text/plain", "application/xml", "*/*", "text/*", "application/*", "image/png", "application/yaml", "text/csv"}
	qs := []string{"", ";q=0", ";q=0.001", ";q=0.5", ";q=0.9", ";q=1", ";q=0.999", ";q=0.0"}
	n := 1 + rng.IntN(5)
	parts := make([]string, n)
	for i := range parts {
		parts[i] = pool[rng.IntN(len(pool))] + qs[rng.IntN(len(qs))]
	}
	sep := []string{",", ", ", " , "}[rng.IntN(3)]
	return []string{strings.Join(parts, sep)}
}

func randOverrides(rng *rand.Rand) map[string]int {
	ov := map[string]int{}
	for _, k := range kindKeys {
		if rng.IntN(2) == 0 {
			ov[k] = 400 + rng.IntN(200)
		}
	}
	return ov
}

// --- the unit level workload -----------------------------------------------------------------

func c12Unit(r *core.Run) {
	rng := r.Stream("c12-unit")

	// error descriptions
	type item struct {
		n     *node
		level string
	}
	var items []item
	for _, n := range atoms() {
		items = append(items, item{n, "depth1/exhaustive"})
	}
	d2 := depth2()
	for _, n := range d2 {
		items = append(items, item{n, "depth2/exhaustive"})
	}
	exhaustiveTrees := len(items)
	if r.Thorough() {
		for _, n := range unaryOver(d2) {
			items = append(items, item{n, "depth3/unary-exhaustive"})
		}
	}
	nSampled := r.Pick(1500, 10000)
	for i := 0; i < nSampled; i++ {
		items = append(items, item{randDepth3(rng), "depth3/sampled"})
	}
	r.Set("error_trees_exhaustive_depth_le2", exhaustiveTrees)
	r.Set("error_trees_total", len(items))

	// translator configurations
	allDistinct := map[string]int{"authentication": 470, "authorization": 471, "communication": 572, "precondition": 473, "no_rule": 474, "internal": 575}
	ovs := []map[string]int{{}, allDistinct}
	for i := 0; i < r.Pick(2, 4); i++ {
		ovs = append(ovs, randOverrides(rng))
	}
	var cfgs []optsCfg
	for _, v := range []bool{false, true} {
		for _, ov := range ovs {
			cfgs = append(cfgs, optsCfg{Verbose: v, Overrides: ov})
		}
	}
	r.Set("translator_configurations", len(cfgs))

	// Accept headers
	accepts := append([][]string{}, fixedAccepts...)
	for i := 0; i < r.Pick(8, 24); i++ {
		accepts = append(accepts, randAccept(rng))
	}
	quietAccepts := [][]string{nil, {"application/json"}, {"*/*"}, {"image/png"}}
	r.Set("accept_headers", len(accepts))

	// sanity of the harness' own Accept parser on the fixed pool (what it judges / does not judge)
	judgedAccepts := 0
	for _, a := range accepts {
		if j, _, _ := acceptVerdict(a, "text/html"); j {
			judgedAccepts++
		}
	}
	r.Set("accept_headers_judged_by_oracle", judgedAccepts)

	st := &stats{m: map[string]int{}}
	workers := runtime.NumCPU()
	if workers > 16 {
		workers = 16
	}
	var wg sync.WaitGroup
	for w := 0; w < workers; w++ {
		wg.Add(1)
		go func(w int) {
			defer wg.Done()
			hs := make([]httpeh.ErrorHandler, len(cfgs))
			gs := make([]grpc.UnaryServerInterceptor, len(cfgs))
			for i, c := range cfgs {
				hs[i], gs[i] = newHTTP(c), newGRPC(c)
			}
			var all, nontriv []uint64
			nEval, nNontriv := 0, 0
			for i := w; i < len(items); i += workers {
				it := items[i]
				err := build(it.n)
				tkey := it.n.String()
				for ci, cfg := range cfgs {
					acc := accepts
					if !cfg.Verbose {
						acc = quietAccepts
					}
					ckey := cfg.key()
					for _, a := range acc {
						exp := evalCase(r, it.level, it.n, err, cfg, hs[ci], gs[ci], a, st)
						nEval++
						h := core.HashKey(tkey + "|" + ckey + "|" + strings.Join(a, "\x00") + fmt.Sprint(a == nil))
						// non-trivial: the chain mixes response classes (precedence decides) or the
						// kind is only reachable through a wrapper
						if exp.Classes >= 2 || (it.n.depth() >= 2 && exp.Class != "internal") {
							nontriv = append(nontriv, h)
							nNontriv++
						} else {
							all = append(all, h)
						}
					}
				}
				if len(all)+len(nontriv) > 1<<15 {
					r.AddHashes(nEval, all, nontriv)
					nEval, all, nontriv = 0, all[:0], nontriv[:0]
				}
			}
			r.AddHashes(nEval, all, nontriv)
			r.Count("unit_nontrivial", nNontriv)
		}(w)
	}
	wg.Wait()

	st.mu.Lock()
	for k, v := range st.m {
		r.Count("unit_"+k, v)
	}
	st.mu.Unlock()
	bodyDiffMu.Lock()
	r.Set("unit_http_grpc_body_differences_examples", bodyDiffExamples)
	bodyDiffMu.Unlock()

	// samples: a few executed cases verbatim
	for _, idx := range []int{0, len(atomOps) + 130, len(items) - 1} {
		if idx < len(items) {
			n := items[idx].n
			cfg := cfgs[len(cfgs)-1]
			a := accepts[10]
			ho := driveHTTP(newHTTP(cfg), build(n), a)
			gout := driveGRPC(newGRPC(cfg), build(n), a)
			r.Sample(unitCase{Level: items[idx].level, Tree: n, TreeText: n.String(), ErrorText: build(n).Error(), Options: cfg, Accept: a,
				Expected: model(n, cfg.Overrides), HTTP: ho, GRPC: gout})
		}
	}
}
