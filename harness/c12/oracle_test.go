package c12

import (
	"encoding/json"
	"encoding/xml"
	"io"
	"mime"
	"strings"
	"unicode/utf8"
)

// --- precedence model (written from the property statement) ----------------------------------

// override keys, as in serve.<svc>.respond.with.*
var kindKeys = []string{"authentication", "authorization", "communication", "precondition", "no_rule", "internal"}

// classify reads the description only: which response classes are reachable through wrapping,
// and the redirects in left-to-right order. A flattened ("%v") error has lost its kind.
func classify(n *node, cls map[string]bool, reds *[]redir) {
	switch n.Op {
	case "authn":
		cls["authentication"] = true
	case "authz":
		cls["authorization"] = true
	case "comm", "timeout":
		cls["communication"] = true
	case "arg":
		cls["precondition"] = true
	case "norule":
		cls["no_rule"] = true
	case "redirect", "redirect2":
		cls["redirect"] = true
		*reds = append(*reds, redirects[n.Op])
	case "opaque":
		cls["other"] = true
	default:
		if len(n.Kids) == 0 {
			cls["other"] = true // internal, configuration, CEL evaluation error, foreign errors
		}
		for _, k := range n.Kids {
			classify(k, cls, reds)
		}
	}
}

type expectation struct {
	Class     string  `json:"class"`
	Status    int     `json:"status,omitempty"`    // for non-redirect classes
	Redirects []redir `json:"redirects,omitempty"` // any of these (code + Location) for redirects
	Classes   int     `json:"distinct_classes_in_chain"`
}

func model(n *node, ov map[string]int) expectation {
	cls := map[string]bool{}
	var reds []redir
	classify(n, cls, &reds)
	code := func(kind string, def int) expectation {
		if c := ov[kind]; c != 0 {
			def = c
		}
		return expectation{Class: kind, Status: def, Classes: len(cls)}
	}
	switch {
	case cls["authentication"]:
		return code("authentication", 401)
	case cls["authorization"]:
		return code("authorization", 403)
	case cls["communication"]:
		return code("communication", 502)
	case cls["precondition"]:
		return code("precondition", 400)
	case cls["no_rule"]:
		return code("no_rule", 404)
	case cls["redirect"]:
		return expectation{Class: "redirect", Redirects: reds, Classes: len(cls)}
	}
	return code("internal", 500)
}

func (e expectation) admits(status int, location string) bool {
	if e.Class != "redirect" {
		return status == e.Status
	}
	for _, r := range e.Redirects {
		if r.Code == status && r.Location == location {
			return true
		}
	}
	return false
}

// locationFor returns the Location the model expects together with the given redirect status.
func (e expectation) locationFor(status int) string {
	for _, r := range e.Redirects {
		if r.Code == status {
			return r.Location
		}
	}
	return ""
}

func isSuccess(status int) bool { return status >= 200 && status <= 299 }

// --- Accept (RFC 7231 5.3.2), independent of the negotiation library ---------------------------

type mediaRange struct {
	typ, sub string
	params   int // number of media type parameters (a range with parameters never matches our parameterless types)
	q        int // 0..1000
}

func isToken(s string) bool {
	if s == "" {
		return false
	}
	for i := 0; i < len(s); i++ {
		c := s[i]
		if c >= 'a' && c <= 'z' || c >= 'A' && c <= 'Z' || c >= '0' && c <= '9' || strings.IndexByte("!#$%&'*+-.^_`|~", c) >= 0 {
			continue
		}
		return false
	}
	return true
}

func parseQ(s string) (int, bool) {
	// qvalue = ( "0" [ "." 0*3DIGIT ] ) / ( "1" [ "." 0*3("0") ] )
	if s == "" || len(s) > 5 || (s[0] != '0' && s[0] != '1') {
		return 0, false
	}
	q := int(s[0]-'0') * 1000
	if len(s) == 1 {
		return q, true
	}
	if s[1] != '.' {
		return 0, false
	}
	mul := 100
	for _, c := range s[2:] {
		if c < '0' || c > '9' {
			return 0, false
		}
		q += int(c-'0') * mul
		mul /= 10
	}
	if q > 1000 {
		return 0, false
	}
	return q, true
}

// parseAccept returns the media ranges of a well-formed Accept value; ok=false means the value is
// not something this parser is sure about (then acceptability is not judged).
func parseAccept(v string) ([]mediaRange, bool) {
	var out []mediaRange
	for _, el := range strings.Split(v, ",") {
		el = strings.Trim(el, " \t")
		if el == "" {
			return nil, false
		}
		parts := strings.Split(el, ";")
		ts := strings.SplitN(strings.Trim(parts[0], " \t"), "/", 2)
		if len(ts) != 2 || !isToken(ts[0]) || !isToken(ts[1]) || (ts[0] == "*" && ts[1] != "*") {
			return nil, false
		}
		r := mediaRange{typ: strings.ToLower(ts[0]), sub: strings.ToLower(ts[1]), q: 1000}
		seenQ := false
		for _, p := range parts[1:] {
			kv := strings.SplitN(strings.Trim(p, " \t"), "=", 2)
			if len(kv) != 2 || !isToken(kv[0]) || !isToken(kv[1]) { // quoted strings: not judged
				return nil, false
			}
			if seenQ {
				continue // accept-ext
			}
			if strings.EqualFold(kv[0], "q") {
				q, ok := parseQ(kv[1])
				if !ok {
					return nil, false
				}
				r.q, seenQ = q, true
				continue
			}
			r.params++
		}
		for _, prev := range out {
			// the same range listed twice, once refused and once accepted: the RFC does not say which
			// one counts - such a header is not judged
			if prev.typ == r.typ && prev.sub == r.sub && prev.params == 0 && r.params == 0 && (prev.q > 0) != (r.q > 0) {
				return nil, false
			}
		}
		out = append(out, r)
	}
	return out, true
}

// acceptable: the most specific range matching typ/sub decides (contradictory duplicates were
// rejected by parseAccept).
func acceptable(ranges []mediaRange, ct string) bool {
	ts := strings.SplitN(strings.ToLower(ct), "/", 2)
	if len(ts) != 2 {
		return false
	}
	best, ok := -1, false
	for _, r := range ranges {
		if r.params > 0 {
			continue
		}
		spec := -1
		switch {
		case r.typ == ts[0] && r.sub == ts[1]:
			spec = 2
		case r.typ == ts[0] && r.sub == "*":
			spec = 1
		case r.typ == "*" && r.sub == "*":
			spec = 0
		}
		if spec < 0 {
			continue
		}
		if spec > best {
			best, ok = spec, r.q > 0
		} else if spec == best && r.q > 0 {
			ok = true
		}
	}
	return ok
}

var supportedTypes = []string{"text/html", "application/json", "text/plain", "application/xml"}

// acceptVerdict judges a response content type against the Accept header lines of the request
// (several lines are one comma separated list, RFC 7230 3.2.2).
//
//	judged=false: no Accept / empty / not well-formed -> nothing to check
//	anySupported: whether at least one of heimdall's four types is acceptable at all
func acceptVerdict(accept []string, ct string) (judged, ok, anySupported bool) {
	if len(accept) == 0 {
		return false, true, true
	}
	joined := strings.Join(accept, ",")
	if strings.Trim(joined, " \t") == "" {
		return false, true, true
	}
	ranges, wf := parseAccept(joined)
	if !wf {
		return false, true, true
	}
	for _, s := range supportedTypes {
		if acceptable(ranges, s) {
			anySupported = true
		}
	}
	return true, acceptable(ranges, ct), anySupported
}

// --- body ------------------------------------------------------------------------------------

// bodyParses checks that body is a document of the given media type. known=false: a type this
// harness has no parser for.
func bodyParses(contentType, body string) (base string, known, ok bool) {
	base, _, err := mime.ParseMediaType(contentType)
	if err != nil {
		return contentType, true, false
	}
	switch base {
	case "application/json":
		return base, true, json.Valid([]byte(body))
	case "application/xml":
		dec := xml.NewDecoder(strings.NewReader(body))
		elems := 0
		for {
			tok, err := dec.Token()
			if err == io.EOF {
				return base, true, elems > 0
			}
			if err != nil {
				return base, true, false
			}
			if _, isStart := tok.(xml.StartElement); isStart {
				elems++
			}
		}
	case "text/html", "text/plain":
		return base, true, utf8.ValidString(body)
	}
	return base, false, true
}
