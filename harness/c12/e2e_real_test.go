package c12

// Failures produced by real mechanisms: CEL expressions of cel / remote authorizers and of `if` conditions (pipeline steps,
// error handlers) which are evaluated on the data of the actual request. For one and the same expression the request data
// decide whether it holds, does not hold or cannot be evaluated at all (missing map key, index out of range, division by
// zero, operand of the wrong type, failing conversion). "Does not hold" is an authorization failure (403 class) for an
// authorizer and "step / handler not applicable" for a condition; "cannot be evaluated" is none of the named kinds and
// therefore an internal failure (500 class) on every entry point - never 403 and never a silently skipped step.

import (
	"fmt"
	"io"
	"net/http"
	"net/http/httptest"
	"strings"

	"github.com/dadrus/heimdall/internal/config"
	rconfig "github.com/dadrus/heimdall/internal/rules/config"
	"github.com/dadrus/heimdall/internal/verif/vkit/app"
	"github.com/dadrus/heimdall/internal/verif/vkit/core"
)

const (
	hdrDoc = "X-Verif-Doc" // document the remote authorizer sends to (and gets back from) the remote system

	posCEL       = "cel-authorizer"
	posCELRule   = "cel-authorizer-rule-level-expressions"
	posStepIf    = "step-condition"
	posEHIf      = "error-handler-condition"
	posRemote    = "remote-authorizer"
	posRemoteOvr = "remote-authorizer-rule-level-expressions"
)

// realData is the request data of one case and what it means for the expression.
type realData struct {
	Name    string            `json:"name"`
	Query   string            `json:"query,omitempty"`
	Headers map[string]string `json:"headers,omitempty"`
	Body    string            `json:"json_body,omitempty"`
	Plan    string            `json:"probe_plan,omitempty"`
	Want    string            `json:"expression"`                   // holds | does-not-hold | cannot-be-evaluated
	Kind    string            `json:"evaluation_failure,omitempty"` // why it cannot be evaluated
}

const (
	holds   = "holds"
	holdsNo = "does-not-hold"
	unevalb = "cannot-be-evaluated"
)

type realExpr struct {
	id    string
	expr  string
	scope string // request | subject | payload
	data  []realData
}

func hdr(kv ...string) map[string]string {
	m := map[string]string{}
	for i := 0; i+1 < len(kv); i += 2 {
		m[kv[i]] = kv[i+1]
	}
	return m
}

var realExprs = []realExpr{
	{"q-index", `Request.URL.Query().k[1] == "b"`, "request", []realData{
		{Name: "second value b", Query: "k=a&k=b", Want: holds},
		{Name: "second value c", Query: "k=a&k=c", Want: holdsNo},
		{Name: "one value only", Query: "k=a", Want: unevalb, Kind: "index-out-of-range"},
		{Name: "parameter absent", Query: "other=1", Want: unevalb, Kind: "missing-map-key"},
	}},
	{"hdr-div", `10 / int(Request.Header("X-Verif-D")) == 5`, "request", []realData{
		{Name: "divisor 2", Headers: hdr("X-Verif-D", "2"), Want: holds},
		{Name: "divisor 5", Headers: hdr("X-Verif-D", "5"), Want: holdsNo},
		{Name: "divisor 0", Headers: hdr("X-Verif-D", "0"), Want: unevalb, Kind: "division-by-zero"},
		{Name: "divisor not a number", Headers: hdr("X-Verif-D", "two"), Want: unevalb, Kind: "failing-conversion"},
		{Name: "header absent", Want: unevalb, Kind: "failing-conversion"},
	}},
	{"hdr-duration", `duration(Request.Header("X-Verif-T")) < duration("1h")`, "request", []realData{
		{Name: "5 minutes", Headers: hdr("X-Verif-T", "5m"), Want: holds},
		{Name: "2 hours", Headers: hdr("X-Verif-T", "2h"), Want: holdsNo},
		{Name: "not a duration", Headers: hdr("X-Verif-T", "soon"), Want: unevalb, Kind: "failing-conversion"},
	}},
	{"body-level", `Request.Body().level > 3`, "request", []realData{
		{Name: "level 5", Body: `{"level":5}`, Want: holds},
		{Name: "level 1", Body: `{"level":1}`, Want: holdsNo},
		{Name: "level is a string", Body: `{"level":"high"}`, Want: unevalb, Kind: "wrong-type"},
		{Name: "level absent", Body: `{"other":1}`, Want: unevalb, Kind: "missing-map-key"},
	}},
	{"body-items", `Request.Body().items[2] == "c"`, "request", []realData{
		{Name: "third item c", Body: `{"items":["a","b","c"]}`, Want: holds},
		{Name: "third item x", Body: `{"items":["a","b","x"]}`, Want: holdsNo},
		{Name: "one item only", Body: `{"items":["a"]}`, Want: unevalb, Kind: "index-out-of-range"},
		{Name: "items is a number", Body: `{"items":7}`, Want: unevalb, Kind: "wrong-type"},
	}},
	// the first authenticator (a probe, fallback allowed) creates a subject with the attribute "by"; if it fails the
	// anonymous authenticator takes over, whose subject has no attributes
	{"sub-attr", `Subject.Attributes.by.startsWith(Request.Header("X-Verif-P"))`, "subject", []realData{
		{Name: "attribute with the prefix", Headers: hdr("X-Verif-P", "probe:"), Want: holds},
		{Name: "attribute with another prefix", Headers: hdr("X-Verif-P", "zzz"), Want: holdsNo},
		{Name: "subject without the attribute", Headers: hdr("X-Verif-P", "probe:"), Plan: "a1=authn", Want: unevalb, Kind: "missing-map-key"},
	}},
	{"sub-role", `Subject.Attributes.role == "admin"`, "subject", []realData{
		{Name: "subject without the attribute", Plan: "a1=authn", Want: unevalb, Kind: "missing-map-key"},
		{Name: "probe subject without the attribute", Want: unevalb, Kind: "missing-map-key"},
	}},
	{"pl-level", `Payload.level > 3`, "payload", []realData{
		{Name: "level 5", Headers: hdr(hdrDoc, `{"level":5}`), Want: holds},
		{Name: "level 1", Headers: hdr(hdrDoc, `{"level":1}`), Want: holdsNo},
		{Name: "level is a string", Headers: hdr(hdrDoc, `{"level":"high"}`), Want: unevalb, Kind: "wrong-type"},
		{Name: "level absent", Headers: hdr(hdrDoc, `{"other":1}`), Want: unevalb, Kind: "missing-map-key"},
		{Name: "no payload at all", Want: unevalb, Kind: "no-payload"},
	}},
	{"pl-allowed", `Payload.result.allowed == true`, "payload", []realData{
		{Name: "allowed", Headers: hdr(hdrDoc, `{"result":{"allowed":true}}`), Want: holds},
		{Name: "not allowed", Headers: hdr(hdrDoc, `{"result":{"allowed":false}}`), Want: holdsNo},
		{Name: "member absent", Headers: hdr(hdrDoc, `{"result":{}}`), Want: unevalb, Kind: "missing-map-key"},
		{Name: "parent absent", Headers: hdr(hdrDoc, `{"status":"ok"}`), Want: unevalb, Kind: "missing-map-key"},
		{Name: "parent is a string", Headers: hdr(hdrDoc, `{"result":"ok"}`), Want: unevalb, Kind: "wrong-type"},
	}},
	{"pl-groups", `Payload.groups[0] == "admin"`, "payload", []realData{
		{Name: "first group admin", Headers: hdr(hdrDoc, `{"groups":["admin","dev"]}`), Want: holds},
		{Name: "first group dev", Headers: hdr(hdrDoc, `{"groups":["dev"]}`), Want: holdsNo},
		{Name: "no groups", Headers: hdr(hdrDoc, `{"groups":[]}`), Want: unevalb, Kind: "index-out-of-range"},
	}},
}

// newRemoteEcho is the remote system of the remote authorizers: it answers with the received document (as JSON), and
// with no content if it received none.
func newRemoteEcho() *httptest.Server {
	return httptest.NewServer(http.HandlerFunc(func(w http.ResponseWriter, r *http.Request) {
		body, _ := io.ReadAll(r.Body)
		if len(body) == 0 {
			w.WriteHeader(http.StatusOK)
			return
		}
		w.Header().Set("Content-Type", "application/json")
		w.WriteHeader(http.StatusOK)
		_, _ = w.Write(body)
	}))
}

func exprList(expr string) []any {
	return []any{map[string]any{"expression": expr, "message": "the expression of the case does not hold"}}
}

// realAuthorizers is the catalogue part of the workload: one cel and one remote authorizer per expression, and one of
// each whose expressions are set by the rules.
func realAuthorizers(remote string) []config.Mechanism {
	remoteConf := func(expr string) config.MechanismConfig {
		return config.MechanismConfig{
			"endpoint":    map[string]any{"url": remote, "method": "POST"},
			"payload":     `{{ .Request.Header "` + hdrDoc + `" }}`,
			"expressions": exprList(expr),
		}
	}
	out := []config.Mechanism{
		{ID: "cel-any", Type: "cel", Config: config.MechanismConfig{"expressions": exprList("true")}},
		{ID: "rem-any", Type: "remote", Config: remoteConf("true")},
	}
	for _, e := range realExprs {
		if e.scope == "payload" {
			out = append(out, config.Mechanism{ID: "rem-" + e.id, Type: "remote", Config: remoteConf(e.expr)})
		} else {
			out = append(out, config.Mechanism{ID: "cel-" + e.id, Type: "cel", Config: config.MechanismConfig{"expressions": exprList(e.expr)}})
		}
	}
	return out
}

type realUse struct {
	expr *realExpr
	pos  string
	plan string // plan of the probe authorizer of the rule
}

// realUses: rule id -> what the rule does with which expression
var realUses = map[string]realUse{}

var realRules = buildRealRules()

func buildRealRules() []e2eRule {
	var out []e2eRule
	def := []config.MechanismConfig{{"error_handler": "def"}}
	for i := range realExprs {
		e := &realExprs[i]
		authn := []config.MechanismConfig{{"authenticator": "anon"}}
		if e.scope == "subject" {
			authn = []config.MechanismConfig{{"authenticator": "probe:a1:f"}, {"authenticator": "anon"}}
		}
		add := func(pos, plan string, steps []config.MechanismConfig, onError []config.MechanismConfig, text []string) {
			id := "x-" + pos + "-" + e.id
			exec := append(append([]config.MechanismConfig{}, authn...), steps...)
			exec = append(exec, config.MechanismConfig{"finalizer": "noop"})
			out = append(out, e2eRule{id: id, path: "/x/" + pos + "/" + e.id + "/:x", onError: onError, text: text, exec: exec})
			realUses[id] = realUse{expr: e, pos: pos, plan: plan}
		}
		switch e.scope {
		case "payload":
			add(posRemote, "", []config.MechanismConfig{{"authorizer": "rem-" + e.id}}, def, []string{"def"})
			add(posRemoteOvr, "", []config.MechanismConfig{{"authorizer": "rem-any", "config": map[string]any{"expressions": exprList(e.expr)}}}, def, []string{"def"})
		default:
			add(posCEL, "", []config.MechanismConfig{{"authorizer": "cel-" + e.id}}, def, []string{"def"})
			add(posCELRule, "", []config.MechanismConfig{{"authorizer": "cel-any", "config": map[string]any{"expressions": exprList(e.expr)}}}, def, []string{"def"})
			add(posStepIf, "z1=authz", []config.MechanismConfig{{"authorizer": "probe:z1", "if": e.expr}}, def, []string{"def"})
			if e.scope == "request" { // the conditions of error handlers know Request and Error only
				add(posEHIf, "z1=authz", []config.MechanismConfig{{"authorizer": "probe:z1"}},
					[]config.MechanismConfig{{"error_handler": "www", "if": e.expr}, {"error_handler": "def"}}, []string{"www if <expression>", "def"})
			}
		}
	}
	return out
}

// realFailures drives every (rule, request data) pair through the three entry points and judges the answers.
func realFailures(r *core.Run, ci int, cfg optsCfg, eps []*entryPoint, probes *app.Probes, up *app.Upstream, st *stats, seq int) int {
	accepts := [][]string{nil, {"application/json"}, {"text/plain;q=0.5, application/xml;q=0.4"}}
	for _, ep := range eps {
		for _, rl := range realRules {
			use := realUses[rl.id]
			for di := range use.expr.data {
				d := use.expr.data[di]
				seq++
				reqID := fmt.Sprintf("c12-%d-%d", ci, seq)
				target := strings.Replace(rl.path, ":x", fmt.Sprintf("v%d", seq), 1)
				if d.Query != "" {
					target += "?" + d.Query
				}
				method, extra := "GET", map[string]string{}
				for k, v := range d.Headers {
					extra[k] = v
				}
				if d.Body != "" {
					method = "POST"
					extra["Content-Type"] = "application/json"
				}
				var planParts []string
				for _, p := range []string{use.plan, d.Plan} {
					if p != "" {
						planParts = append(planParts, p)
					}
				}
				plan := strings.Join(planParts, ";")
				accept := accepts[seq%len(accepts)]
				o, err := ep.doReq(method, target, plan, reqID, accept, extra, d.Body)
				if err != nil {
					r.Inconclusive(fmt.Sprintf("e2e: transport error on %s: %v", ep.name, err))
					continue
				}
				o.UpstreamHits = len(up.Take(reqID))
				c := e2eCase{Level: "e2e-real-mechanisms", Entry: ep.name, Options: cfg, Rule: rl.id, OnError: rl.text, Plan: plan, Accept: accept,
					Trace: probes.Take(reqID), Observed: o, Position: use.pos, Expression: use.expr.expr, Data: &d, Method: method}
				judgeReal(r, &c, use, d, st)
				if seq%211 == 1 {
					r.Sample(c)
				}
			}
		}
	}
	return seq
}

func judgeReal(r *core.Run, c *e2eCase, use realUse, d realData, st *stats) {
	o := c.Observed
	stepRan := false
	for _, ev := range c.Trace {
		if ev.Mech == "probe:z1" {
			stepRan = true
		}
		if ev.Stage == "eh" && ev.Real && ev.Outcome == "ok" {
			c.HandlerRan = ev.Mech
		}
	}
	key := fmt.Sprintf("real|%s|%s|%s|%s|%v", c.Entry, c.Options.key(), c.Rule, d.Name, c.Accept)
	st.add("real_requests", 1)
	st.add("real_"+use.pos, 1)
	st.add("real_expression_"+d.Want, 1)
	fail := func(sig, what string) {
		r.Violation(sig, fmt.Sprintf("%s entry point, %s with expression %s, request data %q (expression %s): %s", c.Entry, use.pos, use.expr.expr, d.Name, d.Want, what), *c)
	}
	status := func(class string) int {
		if v := c.Options.Overrides[class]; v != 0 {
			return v
		}
		return classDefault[class]
	}
	success := o.OK || isSuccess(o.Status)

	// what the statement demands for this position and this outcome of the expression
	class := "" // "" = the request passes
	switch d.Want {
	case unevalb:
		class = "internal"
	case holdsNo:
		switch use.pos {
		case posStepIf: // the denying step does not apply
		default:
			class = "authorization" // authorizer: not authorized; error handler condition: the default handler answers the cause
		}
	case holds:
		switch use.pos {
		case posStepIf:
			class = "authorization" // the denying step applies
		case posEHIf:
			class = "challenge"
		}
	}
	if class == "" {
		r.Case(key, false)
		c.Expected = "success (sanity)"
		st.add("real_passing_requests", 1)
		if !success || o.RPCErr != "" || (c.Entry == app.SvcProxy && o.UpstreamHits != 1) || stepRan {
			r.Inconclusive(fmt.Sprintf("e2e: %s with %s and data %q should pass on %s: %+v trace %v", use.pos, use.expr.expr, d.Name, c.Entry, o, c.Trace))
		}
		return
	}
	r.Case(key, true)
	st.add("real_failure_requests", 1)
	if d.Want == unevalb {
		st.add("real_unevaluable_"+d.Kind, 1)
		st.add("real_unevaluable_"+use.pos, 1)
	}
	if o.RPCErr != "" {
		fail("e2e-status-mismatch", "rpc error instead of a denied response: "+o.RPCErr)
		return
	}
	switch {
	case d.Want == unevalb:
		want := status("internal")
		c.Expected = fmt.Sprintf("%d (internal: the expression cannot be evaluated for this request), never success, never the answer for 'does not hold'", want)
		switch {
		case success:
			// the step (or the whole error handling) was skipped as if the expression were false
			fail("unevaluable-expression-answered-with-success", fmt.Sprintf("answered with success (status %d, probe step ran: %v, upstream hits %d)", o.Status, stepRan, o.UpstreamHits))
			return
		case o.Status != want:
			fail("unevaluable-expression-not-internal", fmt.Sprintf("answered with %d, expected %d", o.Status, want))
			return
		}
		if stepRan && use.pos == posStepIf {
			fail("unevaluable-condition-step-executed", "the step ran although its condition cannot be evaluated")
		}
	case class == "challenge":
		want := status("authentication")
		realm := realmOf(c.Rule, "www")
		c.Expected = fmt.Sprintf("%d with WWW-Authenticate naming realm %q", want, realm)
		switch {
		case success:
			fail("success-on-failure", fmt.Sprintf("failure answered with success (status %d)", o.Status))
			return
		case c.HandlerRan != "www" || o.Status != want:
			fail("e2e-status-mismatch", fmt.Sprintf("www-authenticate challenge expected %d, got %d (handler that ran: %q)", want, o.Status, c.HandlerRan))
		case !strings.Contains(o.WWWAuthenticate, realm):
			fail("www-authenticate-realm-mismatch", fmt.Sprintf("WWW-Authenticate %q does not name realm %q", o.WWWAuthenticate, realm))
		}
	default:
		want := status(class)
		c.Expected = fmt.Sprintf("%d (%s)", want, class)
		switch {
		case success:
			fail("success-on-failure", fmt.Sprintf("failure answered with success (status %d)", o.Status))
			return
		case o.Status != want:
			fail("e2e-status-mismatch", fmt.Sprintf("%s failure expected %d, got %d", class, want, o.Status))
		}
	}
	if c.Entry == app.SvcProxy && o.UpstreamHits != 0 {
		fail("failed-request-forwarded", fmt.Sprintf("the proxy forwarded the request (%d upstream hits) although it answered with %d", o.UpstreamHits, o.Status))
	}
	judgeBody(c, st, fail)
}

// redirectOverride: `to` and `code` of a redirect handler are documented as not overridable. A rule set that tries is
// either refused, or - should it ever be accepted - has to answer with the values of the rule.
func redirectOverride(r *core.Run, ci int, cfg optsCfg, eps []*entryPoint, probes *app.Probes, upstream string, st *stats) {
	const to, code = "https://rule.test/login", 307
	for _, ep := range eps {
		rule := rconfig.Rule{
			ID:           "r-redirov",
			Matcher:      rconfig.Matcher{Routes: []rconfig.Route{{Path: "/redirov/:x"}}},
			Backend:      &rconfig.Backend{Host: upstream},
			Execute:      []config.MechanismConfig{{"authenticator": "anon"}, {"authorizer": "probe:z1"}, {"finalizer": "noop"}},
			ErrorHandler: []config.MechanismConfig{override("redir", map[string]any{"to": to, "code": code}, "")},
		}
		err := ep.a.Proc.OnCreated(&rconfig.RuleSet{Version: "1alpha4", Name: "c12-redirov", MetaData: rconfig.MetaData{Source: "c12-redirov", Hash: []byte("c12-redirov")}, Rules: []rconfig.Rule{rule}})
		if err != nil {
			st.add("redirect_override_refused_by_the_loader", 1)
			continue
		}
		st.add("redirect_override_accepted_by_the_loader", 1)
		for i, outcome := range []string{"authn", "authz", "internal"} {
			reqID := fmt.Sprintf("c12-redirov-%d-%s-%d", ci, ep.name, i)
			o, err := ep.do(fmt.Sprintf("/redirov/v%d", i), "z1="+outcome, reqID, nil)
			if err != nil {
				r.Inconclusive(fmt.Sprintf("e2e: transport error on %s: %v", ep.name, err))
				continue
			}
			c := e2eCase{Level: "e2e", Entry: ep.name, Options: cfg, Rule: rule.ID, OnError: []string{fmt.Sprintf("redir with to %s and code %d", to, code)}, Plan: "z1=" + outcome,
				Trace: probes.Take(reqID), Observed: o, Expected: fmt.Sprintf("%d with Location %s", code, to)}
			r.Case(fmt.Sprintf("redirov|%s|%s|%s", ep.name, cfg.key(), outcome), true)
			if o.Status != code || o.Location != to {
				r.Violation("redirect-override-ignored", fmt.Sprintf("%s entry point: the rule configures the redirect handler with to=%s code=%d, the answer is %d with Location %q",
					ep.name, to, code, o.Status, o.Location), c)
			}
		}
	}
}
