package c12

import (
	"fmt"
	"sort"
	"strings"

	"github.com/dadrus/heimdall/internal/config"
	rconfig "github.com/dadrus/heimdall/internal/rules/config"
	"github.com/dadrus/heimdall/internal/verif/vkit/app"
	"github.com/dadrus/heimdall/internal/verif/vkit/core"
)

const (
	e2eRealm      = "verif realm 7"
	e2eRealm2     = "other realm 9"
	e2eRedirectTo = "https://login.test/signin?m=GET"
	e2eRedirCode  = 303
	// realms configured at the rule level
	e2eRuleRealmA = "rule level A1"
	e2eRuleRealmB = "rule level B2"
	e2eRuleRealmC = "rule level C3"
	e2eRuleRealmD = "rule level D4"
)

// outcome code of the probe -> response class of the statement
var outcomeClass = map[string]string{
	"authn": "authentication", "authz": "authorization", "comm": "communication", "timeout": "communication",
	"arg": "precondition", "norule": "no_rule", "internal": "internal", "config": "internal", "foreign": "internal",
}

var classDefault = map[string]int{"authentication": 401, "authorization": 403, "communication": 502, "precondition": 400, "no_rule": 404, "internal": 500}

type e2eObs struct {
	Status          int    `json:"status"`
	OK              bool   `json:"ok_response"`
	Location        string `json:"location,omitempty"`
	WWWAuthenticate string `json:"www_authenticate,omitempty"`
	// every WWW-Authenticate value of the response, sorted
	WWWAll       []string `json:"www_authenticate_all,omitempty"`
	ContentType  string   `json:"content_type,omitempty"`
	Body         string   `json:"body,omitempty"`
	RPCErr       string   `json:"rpc_error,omitempty"`
	UpstreamHits int      `json:"upstream_hits"`
}

type e2eCase struct {
	Level      string           `json:"level"`
	Entry      string           `json:"entry_point"`
	Options    optsCfg          `json:"respond_options"`
	Rule       string           `json:"rule"`
	OnError    []string         `json:"rule_on_error"`
	Plan       string           `json:"probe_plan"`
	Accept     []string         `json:"accept_header_lines"`
	Trace      []app.TraceEvent `json:"trace"`
	HandlerRan string           `json:"error_handler_that_ran"`
	Expected   string           `json:"expected"`
	Observed   e2eObs           `json:"observed"`
	// cases of e2e_real_test.go: where the expression is used, the expression and the request data
	Position   string    `json:"expression_used_as,omitempty"`
	Expression string    `json:"expression,omitempty"`
	Data       *realData `json:"request_data,omitempty"`
	Method     string    `json:"method,omitempty"`
}

type e2eRule struct {
	id, path string
	onError  []config.MechanismConfig
	text     []string
	// realm configured at the rule level for a www_authenticate handler of the catalogue (handler id -> realm); a handler
	// not listed here answers with the realm of its catalogue entry
	realms map[string]string
	// pipeline of the rule; nil: anonymous authenticator, probe authorizer z1, noop finalizer
	exec []config.MechanismConfig
}

// realms of the www_authenticate handlers of the catalogue ("wwwdef" is configured without a realm)
var catalogueRealms = map[string]string{"www": e2eRealm, "www2": e2eRealm2, "wwwdef": "Please authenticate"}

// realmOf returns the realm the www_authenticate handler h has to name when it runs for the given rule: the realm
// the rule configured for it, otherwise the realm of the catalogue entry.
func realmOf(rule, h string) string {
	for _, set := range [][]e2eRule{e2eRules, realRules} {
		for _, rl := range set {
			if rl.id == rule {
				if v, ok := rl.realms[h]; ok {
					return v
				}
			}
		}
	}
	return catalogueRealms[h]
}

func override(h string, conf map[string]any, cond string) config.MechanismConfig {
	m := config.MechanismConfig{"error_handler": h, "config": conf}
	if cond != "" {
		m["if"] = cond
	}
	return m
}

var e2eRules = []e2eRule{
	{"r-def", "/def/:x", []config.MechanismConfig{{"error_handler": "def"}}, []string{"def"}, nil, nil},
	{"r-www", "/www/:x", []config.MechanismConfig{{"error_handler": "www"}}, []string{"www"}, nil, nil},
	{"r-www2", "/www2/:x", []config.MechanismConfig{{"error_handler": "www2"}}, []string{"www2"}, nil, nil},
	{"r-redir", "/redir/:x", []config.MechanismConfig{{"error_handler": "redir"}}, []string{"redir"}, nil, nil},
	{"r-cond", "/cond/:x", []config.MechanismConfig{
		{"error_handler": "www", "if": "type(Error) == authentication_error"},
		{"error_handler": "redir", "if": "type(Error) == authorization_error"},
		{"error_handler": "def"},
	}, []string{"www if authentication_error", "redir if authorization_error", "def"}, nil, nil},
	// only conditional handlers: for most failures none of them applies, the failure is then answered by its kind
	{"r-condonly", "/condonly/:x", []config.MechanismConfig{
		{"error_handler": "www", "if": "type(Error) == authentication_error"},
		{"error_handler": "redir", "if": "type(Error) == authorization_error"},
	}, []string{"www if authentication_error", "redir if authorization_error"}, nil, nil},
	// rule level configuration of catalogue handlers: the challenge has to name the realm of the rule. The catalogue
	// entries stay in use by the rules above (same instance), so an override must not leak into them either.
	{"r-wwwov", "/wwwov/:x", []config.MechanismConfig{override("www", map[string]any{"realm": e2eRuleRealmA}, "")},
		[]string{"www with realm " + e2eRuleRealmA}, map[string]string{"www": e2eRuleRealmA}, nil},
	{"r-wwwdef", "/wwwdef/:x", []config.MechanismConfig{{"error_handler": "wwwdef"}}, []string{"wwwdef (no realm configured)"}, nil, nil},
	{"r-wwwdefov", "/wwwdefov/:x", []config.MechanismConfig{override("wwwdef", map[string]any{"realm": e2eRuleRealmB}, "")},
		[]string{"wwwdef with realm " + e2eRuleRealmB}, map[string]string{"wwwdef": e2eRuleRealmB}, nil},
	{"r-condov", "/condov/:x", []config.MechanismConfig{
		override("www", map[string]any{"realm": e2eRuleRealmC}, "type(Error) == authentication_error"),
		{"error_handler": "www2", "if": "type(Error) == authorization_error"},
		override("wwwdef", map[string]any{"realm": e2eRuleRealmD}, ""),
	}, []string{"www with realm " + e2eRuleRealmC + " if authentication_error", "www2 if authorization_error", "wwwdef with realm " + e2eRuleRealmD},
		map[string]string{"www": e2eRuleRealmC, "wwwdef": e2eRuleRealmD}, nil},
	// an override which configures nothing keeps the catalogue realm
	{"r-wwwempty", "/wwwempty/:x", []config.MechanismConfig{override("www2", map[string]any{}, "")}, []string{"www2 with an empty config"}, nil, nil},
	// one redirect handler per legal redirect status (and one without a configured status)
	{"r-rc301", "/rc301/:x", []config.MechanismConfig{{"error_handler": "rc301"}}, []string{"rc301"}, nil, nil},
	{"r-rc302", "/rc302/:x", []config.MechanismConfig{{"error_handler": "rc302"}}, []string{"rc302"}, nil, nil},
	{"r-rc303", "/rc303/:x", []config.MechanismConfig{{"error_handler": "rc303"}}, []string{"rc303"}, nil, nil},
	{"r-rc307", "/rc307/:x", []config.MechanismConfig{{"error_handler": "rc307"}}, []string{"rc307"}, nil, nil},
	{"r-rc308", "/rc308/:x", []config.MechanismConfig{{"error_handler": "rc308"}}, []string{"rc308"}, nil, nil},
	{"r-rcunset", "/rcunset/:x", []config.MechanismConfig{{"error_handler": "rcunset"}}, []string{"rcunset (no code configured)"}, nil, nil},
}

// redirCodes: status every redirect handler of the catalogue has to answer with (handler id -> configured code; 0: no
// code configured, the documented default 302 applies).
var redirCodes = map[string]int{"redir": e2eRedirCode, "rc301": 301, "rc302": 302, "rc303": 303, "rc307": 307, "rc308": 308, "rcunset": 0}

// redirHandlers: the catalogue entries of redirCodes, all with the same location template.
func redirHandlers() []config.Mechanism {
	ids := make([]string, 0, len(redirCodes))
	for id := range redirCodes {
		ids = append(ids, id)
	}
	sort.Strings(ids)
	var hs []config.Mechanism
	for _, id := range ids {
		conf := config.MechanismConfig{"to": "https://login.test/signin?m={{ .Request.Method }}"}
		if code := redirCodes[id]; code != 0 {
			conf["code"] = code
		}
		hs = append(hs, config.Mechanism{ID: id, Type: "redirect", Config: conf})
	}
	return hs
}

type entryPoint struct {
	name  string
	a     *app.App
	envoy *app.Envoy
}

func startEntryPoints(cfg optsCfg, probes *app.Probes, upstream, remote string) ([]*entryPoint, error) {
	var eps []*entryPoint
	for _, svc := range []string{app.SvcDecision, app.SvcProxy, app.SvcGRPC} {
		svc := svc
		a, err := app.New(app.Options{Service: svc, Probes: probes, Mutate: func(c *config.Configuration) {
			if c.Prototypes == nil {
				c.Prototypes = &config.MechanismPrototypes{}
			}
			// the file schema cannot express www_authenticate, so the real handlers are injected here
			c.Prototypes.ErrorHandlers = append(c.Prototypes.ErrorHandlers,
				config.Mechanism{ID: "def", Type: "default"},
				config.Mechanism{ID: "www", Type: "www_authenticate", Config: config.MechanismConfig{"realm": e2eRealm}},
				config.Mechanism{ID: "www2", Type: "www_authenticate", Config: config.MechanismConfig{"realm": e2eRealm2}},
				config.Mechanism{ID: "wwwdef", Type: "www_authenticate"},
			)
			c.Prototypes.ErrorHandlers = append(c.Prototypes.ErrorHandlers, redirHandlers()...)
			// redirect handlers whose location depends on the request (e2e_concurrent_test.go)
			c.Prototypes.ErrorHandlers = append(c.Prototypes.ErrorHandlers, concHandlers()...)
			// real authorizers whose expressions are evaluated on the data of the request (e2e_real_test.go)
			c.Prototypes.Authorizers = append(c.Prototypes.Authorizers, realAuthorizers(remote)...)
			sc := &c.Serve.Decision
			if svc == app.SvcProxy {
				sc = &c.Serve.Proxy
			}
			sc.Respond.Verbose = cfg.Verbose
			sc.Respond.With.AuthenticationError.Code = cfg.Overrides["authentication"]
			sc.Respond.With.AuthorizationError.Code = cfg.Overrides["authorization"]
			sc.Respond.With.CommunicationError.Code = cfg.Overrides["communication"]
			sc.Respond.With.ArgumentError.Code = cfg.Overrides["precondition"]
			sc.Respond.With.NoRuleError.Code = cfg.Overrides["no_rule"]
			sc.Respond.With.InternalError.Code = cfg.Overrides["internal"]
		}})
		if err != nil {
			return eps, fmt.Errorf("%s: %w", svc, err)
		}
		ep := &entryPoint{name: svc, a: a}
		eps = append(eps, ep)
		var rules []rconfig.Rule
		for _, set := range [][]e2eRule{e2eRules, realRules, concRules} {
			for _, rl := range set {
				exec := rl.exec
				if exec == nil {
					exec = []config.MechanismConfig{{"authenticator": "anon"}, {"authorizer": "probe:z1"}, {"finalizer": "noop"}}
				}
				rules = append(rules, rconfig.Rule{
					ID:           rl.id,
					Matcher:      rconfig.Matcher{Routes: []rconfig.Route{{Path: rl.path}}},
					Backend:      &rconfig.Backend{Host: upstream},
					Execute:      exec,
					ErrorHandler: rl.onError,
				})
			}
		}
		if err := a.Proc.OnCreated(&rconfig.RuleSet{Version: "1alpha4", Name: "c12", MetaData: rconfig.MetaData{Source: "c12", Hash: []byte(core.Hash(rules))}, Rules: rules}); err != nil {
			return eps, fmt.Errorf("%s: rule set: %w", svc, err)
		}
		if svc == app.SvcGRPC {
			if ep.envoy, err = app.NewEnvoy(a.Addr()); err != nil {
				return eps, err
			}
		}
	}
	return eps, nil
}

func (ep *entryPoint) stop() {
	if ep.envoy != nil {
		ep.envoy.Close()
	}
	_ = ep.a.Stop()
}

func (ep *entryPoint) do(path, plan, reqID string, accept []string) (e2eObs, error) {
	return ep.doReq("GET", path, plan, reqID, accept, nil, "")
}

// doReq sends one logical request: target is path and query, extra holds further request headers (sent in sorted order).
func (ep *entryPoint) doReq(method, target, plan, reqID string, accept []string, extra map[string]string, body string) (e2eObs, error) {
	names := make([]string, 0, len(extra))
	for k := range extra {
		names = append(names, k)
	}
	sort.Strings(names)
	if ep.envoy != nil {
		h := map[string]string{app.HdrPlan: plan, app.HdrReq: reqID}
		if len(accept) > 0 {
			h["accept"] = strings.Join(accept, ",")
		}
		for _, k := range names {
			h[k] = extra[k]
		}
		res := ep.envoy.Check(method, "http", "svc.test", target, h, body, nil)
		var all []string
		for _, h := range res.Headers {
			if strings.EqualFold(h[0], "WWW-Authenticate") {
				all = append(all, h[1])
			}
		}
		sort.Strings(all)
		return e2eObs{Status: res.Status, OK: res.OK, Location: res.Header("Location"), WWWAuthenticate: res.Header("WWW-Authenticate"), WWWAll: all,
			ContentType: res.Header("Content-Type"), Body: res.Body, RPCErr: res.RPCErr}, nil
	}
	hdrs := []app.Hdr{{Name: app.HdrPlan, Value: plan}, {Name: app.HdrReq, Value: reqID}}
	for _, a := range accept {
		hdrs = append(hdrs, app.Hdr{Name: "Accept", Value: a})
	}
	for _, k := range names {
		hdrs = append(hdrs, app.Hdr{Name: k, Value: extra[k]})
	}
	var raw []byte
	if body != "" {
		raw = []byte(body)
	}
	res, err := app.RawDo(ep.a.Addr(), method, target, "svc.test", hdrs, raw)
	if err != nil {
		return e2eObs{}, err
	}
	all := append([]string(nil), res.Header.Values("WWW-Authenticate")...)
	sort.Strings(all)
	return e2eObs{Status: res.Status, OK: isSuccess(res.Status), Location: res.Header.Get("Location"), WWWAuthenticate: res.Header.Get("WWW-Authenticate"), WWWAll: all,
		ContentType: res.Header.Get("Content-Type"), Body: string(res.Body)}, nil
}

func c12E2E(r *core.Run) {
	up := app.NewUpstream()
	defer up.Close()
	remote := newRemoteEcho()
	defer remote.Close()
	cfgs := []optsCfg{
		{Verbose: false, Overrides: map[string]int{}},
		{Verbose: true, Overrides: map[string]int{"authentication": 470, "authorization": 471, "communication": 572, "precondition": 473, "no_rule": 474, "internal": 575}},
	}
	if r.Thorough() {
		rng := r.Stream("c12-e2e")
		for i := 0; i < 4; i++ {
			cfgs = append(cfgs, optsCfg{Verbose: rng.IntN(2) == 0, Overrides: randOverrides(rng)})
		}
	}
	accepts := [][]string{nil, {"application/json"}, {"text/plain;q=0.5, application/xml;q=0.4"}, {"image/png"}}
	if r.Thorough() {
		accepts = append(accepts, []string{"text/html"}, []string{"*/*;q=0"}, []string{"text/html;q=abc"}, []string{"application/xml"})
	}
	st := &stats{m: map[string]int{}}
	seq := 0
	// the challenge headers of one and the same failure at the three entry points ("identically by the HTTP services
	// and the Envoy gRPC service"): case -> entry point -> first observation
	type wwwKey struct {
		cfg, accept   int
		rule, outcome string
	}
	www := map[wwwKey]map[string]e2eCase{}
	for ci, cfg := range cfgs {
		probes := app.NewProbes()
		eps, err := startEntryPoints(cfg, probes, up.HostPort(), remote.URL)
		if err != nil {
			for _, ep := range eps {
				ep.stop()
			}
			r.Inconclusive("e2e: cannot start heimdall: " + err.Error())
			return
		}
		for _, ep := range eps {
			for _, rl := range e2eRules {
				for _, outcome := range app.Outcomes {
					for ai, accept := range accepts {
						if outcome == "ok" && ai > 0 {
							continue
						}
						seq++
						reqID := fmt.Sprintf("c12-%d-%d", ci, seq)
						path := strings.Replace(rl.path, ":x", fmt.Sprintf("v%d", seq), 1)
						o, err := ep.do(path, "z1="+outcome, reqID, accept)
						if err != nil {
							r.Inconclusive(fmt.Sprintf("e2e: transport error on %s: %v", ep.name, err))
							continue
						}
						o.UpstreamHits = len(up.Take(reqID))
						trace := probes.Take(reqID)
						c := e2eCase{Level: "e2e", Entry: ep.name, Options: cfg, Rule: rl.id, OnError: rl.text, Plan: "z1=" + outcome, Accept: accept, Trace: trace, Observed: o}
						judgeE2E(r, &c, outcome, st)
						if outcome != "ok" && outcome != "panic" && o.RPCErr == "" {
							k := wwwKey{ci, ai, rl.id, outcome}
							if www[k] == nil {
								www[k] = map[string]e2eCase{}
							}
							www[k][ep.name] = c
						}
						if seq%97 == 1 {
							r.Sample(c)
						}
					}
				}
			}
		}
		// failures produced by real mechanisms evaluating expressions on the data of the request
		seq = realFailures(r, ci, cfg, eps, probes, up, st, seq)
		redirectOverride(r, ci, cfg, eps, probes, up.HostPort(), st)
		// failing requests in flight at the same time, answered by handlers rendering request dependent values
		concurrentFailures(r, ci, cfg, eps, probes, up, st)
		for _, ep := range eps {
			ep.stop()
		}
	}
	compared := 0
	for _, byEntry := range www {
		ref, ok := byEntry[app.SvcDecision]
		if !ok {
			continue
		}
		for _, name := range []string{app.SvcProxy, app.SvcGRPC} {
			c, ok := byEntry[name]
			if !ok {
				continue
			}
			compared++
			if strings.Join(c.Observed.WWWAll, "\x00") != strings.Join(ref.Observed.WWWAll, "\x00") {
				c.Expected = fmt.Sprintf("the WWW-Authenticate values of the decision service for the same failure: %q", ref.Observed.WWWAll)
				r.Violation("entry-points-disagree-on-challenge", fmt.Sprintf("rule %s, plan %s: %s answered with WWW-Authenticate %q, the decision service with %q",
					c.Rule, c.Plan, name, c.Observed.WWWAll, ref.Observed.WWWAll), c)
			}
		}
	}
	r.Count("e2e_challenge_comparisons_across_entry_points", compared)
	st.mu.Lock()
	for k, v := range st.m {
		r.Count("e2e_"+k, v)
	}
	st.mu.Unlock()
}

// judgeE2E decides one request. Which error handler ran is taken from the recorded trace (ground
// truth), not from the rule's configuration.
func judgeE2E(r *core.Run, c *e2eCase, outcome string, st *stats) {
	o := c.Observed
	probeRan := false
	for _, ev := range c.Trace {
		if ev.Mech == "probe:z1" && ev.Outcome == outcome {
			probeRan = true
		}
		if ev.Stage == "eh" && ev.Real && ev.Outcome == "ok" {
			c.HandlerRan = ev.Mech
		}
	}
	key := fmt.Sprintf("e2e|%s|%s|%s|%s|%v", c.Entry, c.Options.key(), c.Rule, outcome, c.Accept)
	st.add("requests", 1)
	if !probeRan {
		r.Case(key, false)
		r.Inconclusive(fmt.Sprintf("e2e: probe did not run as planned (%s %s %s): trace %v", c.Entry, c.Rule, outcome, c.Trace))
		return
	}
	fail := func(sig, what string) {
		r.Violation(sig, fmt.Sprintf("%s entry point, rule %s, plan %s: %s", c.Entry, c.Rule, c.Plan, what), *c)
	}
	success := o.OK || isSuccess(o.Status)

	if outcome == "ok" {
		r.Case(key, false)
		c.Expected = "success (sanity)"
		st.add("ok_requests", 1)
		if !success || (c.Entry == app.SvcProxy && o.UpstreamHits != 1) {
			r.Inconclusive(fmt.Sprintf("e2e: the passing plan was not answered with success on %s: %+v", c.Entry, o))
		}
		return
	}
	r.Case(key, true)
	st.add("failure_requests", 1)
	st.add("outcome_"+outcome, 1)

	status := func(class string) int {
		if v := c.Options.Overrides[class]; v != 0 {
			return v
		}
		return classDefault[class]
	}
	if outcome == "panic" {
		// a panic is an internal failure: 500 or the status configured for internal errors; the gRPC
		// server may also answer with the rpc status Internal
		want := status("internal")
		c.Expected = fmt.Sprintf("%d (internal) or rpc error Internal, never success", want)
		st.add("panic_cases", 1)
		switch {
		case success:
			fail("success-on-failure", fmt.Sprintf("panic answered with success (status %d)", o.Status))
		case o.RPCErr != "":
			st.add("panic_rpc_errors", 1)
			if !strings.Contains(o.RPCErr, "Internal") {
				fail("e2e-panic-not-internal", "panic answered with rpc error "+o.RPCErr)
			}
		case o.Status != want:
			fail("e2e-panic-not-internal", fmt.Sprintf("panic answered with status %d, expected %d", o.Status, want))
		}
		return
	}
	if o.RPCErr != "" {
		fail("e2e-status-mismatch", "rpc error instead of a denied response: "+o.RPCErr)
		return
	}
	if success {
		fail("success-on-failure", fmt.Sprintf("failure answered with success (status %d)", o.Status))
		return
	}
	if c.HandlerRan == "" && c.Rule == "r-condonly" {
		st.add("no_applicable_error_handler", 1)
		c.HandlerRan = "def" // no handler of the rule applies: the service translates the failure itself, exactly as the default handler does
	}
	switch c.HandlerRan {
	case "www", "www2", "wwwdef":
		want := status("authentication")
		e2eRealm := realmOf(c.Rule, c.HandlerRan)
		if e2eRealm != catalogueRealms[c.HandlerRan] {
			st.add("www_cases_realm_of_the_rule", 1)
		}
		c.Expected = fmt.Sprintf("%d with WWW-Authenticate naming realm %q (and no other realm)", want, e2eRealm)
		st.add("www_cases", 1)
		switch {
		case o.Status != want:
			fail("e2e-status-mismatch", fmt.Sprintf("www-authenticate challenge expected %d, got %d", want, o.Status))
		case o.WWWAuthenticate == "":
			// one narrow class per entry point: the header is lost at three different code sites
			st.add("www_header_missing_"+c.Entry, 1)
			fail("www-authenticate-header-missing-"+c.Entry, fmt.Sprintf("status %d without a WWW-Authenticate header", o.Status))
		case !strings.Contains(o.WWWAuthenticate, e2eRealm):
			fail("www-authenticate-realm-mismatch", fmt.Sprintf("WWW-Authenticate %q does not name realm %q", o.WWWAuthenticate, e2eRealm))
		default:
			st.add("www_header_present_"+c.Entry, 1)
			for _, v := range o.WWWAll {
				if !strings.Contains(v, e2eRealm) {
					fail("www-authenticate-foreign-realm", fmt.Sprintf("WWW-Authenticate values %q: %q does not name the configured realm %q", o.WWWAll, v, e2eRealm))
					break
				}
			}
		}
	case "redir", "rc301", "rc302", "rc303", "rc307", "rc308", "rcunset":
		code, configured := redirCodes[c.HandlerRan], "configured"
		if code == 0 {
			code, configured = 302, "default"
		}
		c.Expected = fmt.Sprintf("%d (%s) with Location %s", code, configured, e2eRedirectTo)
		st.add("redirect_cases", 1)
		st.add(fmt.Sprintf("redirect_cases_%s_code_%d", configured, code), 1)
		switch {
		case o.Status != code:
			fail("e2e-status-mismatch", fmt.Sprintf("redirect expected %d (%s for handler %s), got %d", code, configured, c.HandlerRan, o.Status))
		case o.Location == "":
			fail("redirect-location-missing", "redirect without Location")
		case o.Location != e2eRedirectTo:
			fail("e2e-status-mismatch", fmt.Sprintf("Location %q, expected %q", o.Location, e2eRedirectTo))
		default:
			st.add("redirect_ok", 1)
		}
	case "def":
		class := outcomeClass[outcome]
		want := status(class)
		c.Expected = fmt.Sprintf("%d (%s)", want, class)
		st.add("default_cases", 1)
		if o.Status != want {
			fail("e2e-status-mismatch", fmt.Sprintf("%s failure expected %d, got %d", class, want, o.Status))
		}
	default:
		r.Inconclusive(fmt.Sprintf("e2e: no error handler recorded for %s %s %s: trace %v", c.Entry, c.Rule, outcome, c.Trace))
		return
	}
	judgeBody(c, st, fail)
}

// judgeBody applies the body rules to one answered failure: no details unless verbose responses are enabled, and then a
// document of a type the request accepts.
func judgeBody(c *e2eCase, st *stats, fail func(sig, what string)) {
	o := c.Observed
	if o.Body == "" {
		st.add("no_body", 1)
		return
	}
	if !c.Options.Verbose {
		fail("details-leak-nonverbose", fmt.Sprintf("body %q although verbose responses are disabled", clip(o.Body)))
		return
	}
	base, _, parses := bodyParses(o.ContentType, o.Body)
	st.add("body_"+base, 1)
	if !parses {
		fail("body-unparsable", fmt.Sprintf("body %q is not a %s document", clip(o.Body), o.ContentType))
	}
	if judged, ok, anySupported := acceptVerdict(c.Accept, base); judged && !ok {
		sig := "body-type-not-acceptable"
		if c.Entry == app.SvcGRPC && !anySupported && base == "text/html" {
			sig = "grpc-unnegotiated-html-body"
		}
		fail(sig, fmt.Sprintf("body of type %s is not acceptable for Accept %q", base, c.Accept))
	}
}
