package c12

// Failing requests in flight at the same time: the translation of a failure is a matter of one request. Rules whose error
// handlers render request dependent values (redirect handlers whose `to` names the URL of the request, its path or a query
// value) are hit by many goroutines at once on each of the three entry points; every request carries a marker of its own
// in path and query, and every answer has to be the one rendered for ITS request: status of the handler that ran (taken from
// the recorded trace) and a Location built from the path and the query of that very request. No sleeps: the goroutines of
// a round are released together, how many answers were produced while another request was in flight is counted.

import (
	"fmt"
	"net/url"
	"regexp"
	"strings"
	"sync"
	"sync/atomic"

	"github.com/dadrus/heimdall/internal/config"
	"github.com/dadrus/heimdall/internal/verif/vkit/app"
	"github.com/dadrus/heimdall/internal/verif/vkit/core"
)

const (
	concURLCode = 303
	concQCode   = 307
	concURLTo   = "https://login.test/signin?origin={{ .Request.URL | urlenc }}"
	concQTo     = `https://login.test/back?rt={{ .Request.URL.Query.Get "return_to" | urlenc }}&p={{ .Request.URL.Path | urlenc }}`
)

// concHandlers: redirect handlers of the catalogue whose location depends on the request.
func concHandlers() []config.Mechanism {
	return []config.Mechanism{
		{ID: "redirurl", Type: "redirect", Config: config.MechanismConfig{"to": concURLTo, "code": concURLCode}},
		{ID: "redirq", Type: "redirect", Config: config.MechanismConfig{"to": concQTo, "code": concQCode}},
	}
}

// concRules: two rules share one handler of the catalogue, one uses the other handler, one selects between both handlers
// and the default handler by the kind of the failure.
var concRules = []e2eRule{
	{"c-url-a", "/conc/url-a/:x", []config.MechanismConfig{{"error_handler": "redirurl"}}, []string{"redirurl (to: " + concURLTo + ")"}, nil, nil},
	{"c-url-b", "/conc/url-b/:x", []config.MechanismConfig{{"error_handler": "redirurl"}}, []string{"redirurl (to: " + concURLTo + ")"}, nil, nil},
	{"c-q", "/conc/q/:x", []config.MechanismConfig{{"error_handler": "redirq"}}, []string{"redirq (to: " + concQTo + ")"}, nil, nil},
	{"c-cond", "/conc/cond/:x", []config.MechanismConfig{
		{"error_handler": "redirq", "if": "type(Error) == authentication_error"},
		{"error_handler": "redirurl", "if": "type(Error) == authorization_error"},
		{"error_handler": "def"},
	}, []string{"redirq if authentication_error", "redirurl if authorization_error", "def"}, nil, nil},
}

var concMarker = regexp.MustCompile(`cm-[0-9]+-[0-9]+-[0-9]+-[0-9]+`)

type concCase struct {
	e2eCase
	Marker  string `json:"marker_of_the_request"`
	Target  string `json:"request_target"`
	Round   int    `json:"round"`
	Others  int    `json:"other_requests_in_flight_when_answered"`
	outcome string
	path    string
	query   string
	err     error
}

// concurrentFailures drives rounds of simultaneously failing requests through every entry point and judges each answer
// against its own request.
func concurrentFailures(r *core.Run, ci int, cfg optsCfg, eps []*entryPoint, probes *app.Probes, up *app.Upstream, st *stats) {
	workers, rounds := 24, r.Pick(30, 150)
	outcomes := []string{"authn", "authz", "comm", "internal", "arg"}
	accepts := [][]string{nil, {"application/json"}, {"text/plain;q=0.5, application/xml;q=0.4"}}
	for ei, ep := range eps {
		var inflight atomic.Int64
		for round := 0; round < rounds; round++ {
			cases := make([]*concCase, workers)
			start := make(chan struct{})
			var wg sync.WaitGroup
			for g := 0; g < workers; g++ {
				rl := concRules[(g+round)%len(concRules)]
				outcome := outcomes[(g/len(concRules)+round)%len(outcomes)]
				marker := fmt.Sprintf("cm-%d-%d-%d-%d", ci, ei, round, g)
				c := &concCase{Marker: marker, Round: round, outcome: outcome}
				c.path = strings.Replace(rl.path, ":x", marker, 1)
				c.query = "return_to=" + marker + "&n=" + fmt.Sprint(g)
				c.Target = c.path + "?" + c.query
				c.e2eCase = e2eCase{Level: "e2e-concurrent-failures", Entry: ep.name, Options: cfg, Rule: rl.id, OnError: rl.text, Plan: "z1=" + outcome,
					Accept: accepts[(g+round)%len(accepts)]}
				cases[g] = c
				wg.Add(1)
				go func() {
					defer wg.Done()
					<-start
					before := inflight.Add(1) - 1
					c.Observed, c.err = ep.doReq("GET", c.Target, c.Plan, c.Marker, c.Accept, nil, "")
					after := inflight.Add(-1)
					c.Others = int(max(before, after))
				}()
			}
			close(start)
			wg.Wait()
			for _, c := range cases {
				if c.err != nil {
					r.Inconclusive(fmt.Sprintf("e2e: transport error on %s: %v", ep.name, c.err))
					continue
				}
				c.Observed.UpstreamHits = len(up.Take(c.Marker))
				c.Trace = probes.Take(c.Marker)
				judgeConcurrent(r, c, st)
			}
			if round%13 == 0 {
				r.Sample(cases[round%workers])
			}
		}
	}
}

func judgeConcurrent(r *core.Run, c *concCase, st *stats) {
	o := c.Observed
	probeRan := false
	for _, ev := range c.Trace {
		if ev.Mech == "probe:z1" && ev.Outcome == c.outcome {
			probeRan = true
		}
		if ev.Stage == "eh" && ev.Real && ev.Outcome == "ok" {
			c.HandlerRan = ev.Mech
		}
	}
	r.Case(fmt.Sprintf("conc|%s|%s|%s|%s|%v|%d", c.Entry, c.Options.key(), c.Rule, c.outcome, c.Accept, c.Round), true)
	st.add("concurrent_requests", 1)
	if c.Others > 0 {
		st.add("concurrent_answers_with_another_request_in_flight", 1)
	}
	if !probeRan {
		r.Inconclusive(fmt.Sprintf("e2e: probe did not run as planned (%s %s %s): trace %v", c.Entry, c.Rule, c.outcome, c.Trace))
		return
	}
	fail := func(sig, what string) {
		r.Violation(sig, fmt.Sprintf("%s entry point, rule %s, request %s (plan %s) answered while %d other requests were in flight: %s",
			c.Entry, c.Rule, c.Target, c.Plan, c.Others, what), *c)
	}
	switch {
	case o.RPCErr != "":
		fail("e2e-status-mismatch", "rpc error instead of a denied response: "+o.RPCErr)
		return
	case o.OK || isSuccess(o.Status):
		fail("success-on-failure", fmt.Sprintf("failure answered with success (status %d)", o.Status))
		return
	}
	if c.Entry == app.SvcProxy && o.UpstreamHits != 0 {
		fail("failed-request-forwarded", fmt.Sprintf("the proxy forwarded the request (%d upstream hits) although it answered with %d", o.UpstreamHits, o.Status))
	}
	// the location the handler has to render for this request, compared field by field (scheme and host of the origin are
	// those of the entry point and not judged)
	location := func(code int, check func(q url.Values) string) {
		c.Expected = fmt.Sprintf("%d with the Location rendered for %s", code, c.Target)
		st.add("concurrent_redirect_cases", 1)
		if o.Status != code {
			fail("e2e-status-mismatch", fmt.Sprintf("redirect expected %d, got %d", code, o.Status))
			return
		}
		if o.Location == "" {
			fail("redirect-location-missing", "redirect without Location")
			return
		}
		what := ""
		if u, err := url.Parse(o.Location); err != nil {
			what = fmt.Sprintf("Location %q is not a URL: %v", o.Location, err)
		} else {
			what = check(u.Query())
		}
		if what == "" {
			st.add("concurrent_redirect_ok", 1)
			if c.Others > 0 {
				st.add("concurrent_redirect_ok_with_another_request_in_flight", 1)
			}
			return
		}
		dec, _ := url.QueryUnescape(o.Location)
		for _, m := range concMarker.FindAllString(dec, -1) {
			if m != c.Marker {
				fail("redirect-location-of-another-request", fmt.Sprintf("Location %q was rendered for the request with marker %s: %s", o.Location, m, what))
				return
			}
		}
		fail("redirect-location-mismatch", fmt.Sprintf("Location %q: %s", o.Location, what))
	}
	switch c.HandlerRan {
	case "redirurl":
		location(concURLCode, func(q url.Values) string {
			origin, err := url.Parse(q.Get("origin"))
			switch {
			case err != nil:
				return fmt.Sprintf("origin %q is not a URL", q.Get("origin"))
			case origin.Path != c.path || origin.RawQuery != c.query:
				return fmt.Sprintf("origin names path %q and query %q, the request has path %q and query %q", origin.Path, origin.RawQuery, c.path, c.query)
			}
			return ""
		})
	case "redirq":
		location(concQCode, func(q url.Values) string {
			if q.Get("rt") != c.Marker || q.Get("p") != c.path {
				return fmt.Sprintf("rt=%q p=%q, the request has return_to=%q and path %q", q.Get("rt"), q.Get("p"), c.Marker, c.path)
			}
			return ""
		})
	case "def":
		class := outcomeClass[c.outcome]
		want := classDefault[class]
		if v := c.Options.Overrides[class]; v != 0 {
			want = v
		}
		c.Expected = fmt.Sprintf("%d (%s), no Location", want, class)
		st.add("concurrent_default_cases", 1)
		switch {
		case o.Status != want:
			fail("e2e-status-mismatch", fmt.Sprintf("%s failure expected %d, got %d", class, want, o.Status))
		case o.Location != "":
			fail("location-on-non-redirect", fmt.Sprintf("%s failure answered by the default handler carries Location %q", class, o.Location))
		}
	default:
		r.Inconclusive(fmt.Sprintf("e2e: no error handler recorded for %s %s %s: trace %v", c.Entry, c.Rule, c.outcome, c.Trace))
		return
	}
	judgeBody(&c.e2eCase, st, fail)
}
