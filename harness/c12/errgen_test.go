package c12

import (
	"context"
	"errors"
	"fmt"
	"io"
	"math/rand/v2"
	"net/url"
	"strings"

	"github.com/google/cel-go/cel"

	"github.com/dadrus/heimdall/internal/heimdall"
	"github.com/dadrus/heimdall/internal/rules/mechanisms/cellib"
	"github.com/dadrus/heimdall/internal/x/errorchain"
)

// node is the *description* of an error value. The real error is built from it (build), the
// oracle only ever reads the description (classify) and never touches the error value, so it
// does not depend on Is/As/Unwrap of any involved type.
type node struct {
	Op   string  `json:"op"`
	Kids []*node `json:"kids,omitempty"`
}

func (n *node) String() string {
	if len(n.Kids) == 0 {
		return n.Op
	}
	parts := make([]string, len(n.Kids))
	for i, k := range n.Kids {
		parts[i] = k.String()
	}
	return n.Op + "(" + strings.Join(parts, ",") + ")"
}

func (n *node) depth() int {
	d := 0
	for _, k := range n.Kids {
		if kd := k.depth(); kd > d {
			d = kd
		}
	}
	return d + 1
}

// --- foreign error types ---------------------------------------------------------------------

type customPtrErr struct {
	Reason string
	Detail map[string]string // a map: encoding/xml cannot marshal it
}

func (e *customPtrErr) Error() string { return "custom pointer error: " + e.Reason }

type customValErr struct {
	Code   int
	Secret string
}

func (e customValErr) Error() string { return fmt.Sprintf("custom value error %d", e.Code) }

type customSliceErr []string // not comparable

func (e customSliceErr) Error() string { return "custom slice error: " + strings.Join(e, "+") }

type wrapErr struct {
	Note  string
	inner error
}

func (e *wrapErr) Error() string { return e.Note + ": " + e.inner.Error() }
func (e *wrapErr) Unwrap() error { return e.inner }

type errCtx struct{ ID string }

var evalErr = func() error {
	env, err := cel.NewEnv()
	if err != nil {
		panic(err)
	}
	ce, err := cellib.CompileExpression(env, "1 == 2", "expression 1 == 2 failed")
	if err != nil {
		panic(err)
	}
	res := ce.Eval(map[string]any{})
	var ee *cellib.EvalError
	if !errors.As(res, &ee) {
		panic(fmt.Sprintf("harness: expected *cellib.EvalError, got %T", res))
	}
	return res
}()

type redir struct {
	Code     int    `json:"code"`
	Location string `json:"location"`
}

var redirects = map[string]redir{
	"redirect":  {303, "https://login.test/signin?return_to=%2Fa%3Fb%3Dc"},
	"redirect2": {307, "https://idp.test/other"},
}

// atoms: the 8 heimdall kinds, redirect errors, the CEL evaluation error and foreign errors
var atomOps = []string{
	"authn", "authz", "comm", "timeout", "arg", "norule", "internal", "config",
	"redirect", "eval", "eof", "deadline", "urlerr", "custom_ptr", "custom_val", "custom_slice",
}

var unaryOps = []string{"ec_new", "ec_msg", "ec_ctx", "fmt_w", "url", "wrap", "opaque"}
var binaryOps = []string{"ec_caused", "fmt_ww", "join"}

func isAtom(op string) bool {
	for _, a := range atomOps {
		if a == op {
			return true
		}
	}
	return op == "redirect2"
}

const chainMsg = `step "x" failed \ détail`

// build creates the real error value described by n.
func build(n *node) error {
	kid := func(i int) error { return build(n.Kids[i]) }
	switch n.Op {
	case "authn":
		return heimdall.ErrAuthentication
	case "authz":
		return heimdall.ErrAuthorization
	case "comm":
		return heimdall.ErrCommunication
	case "timeout":
		return heimdall.ErrCommunicationTimeout
	case "arg":
		return heimdall.ErrArgument
	case "norule":
		return heimdall.ErrNoRuleFound
	case "internal":
		return heimdall.ErrInternal
	case "config":
		return heimdall.ErrConfiguration
	case "redirect", "redirect2":
		rd := redirects[n.Op]
		return &heimdall.RedirectError{Message: "redirect", Code: rd.Code, RedirectTo: rd.Location}
	case "eval":
		return evalErr
	case "eof":
		return io.EOF
	case "deadline":
		return context.DeadlineExceeded
	case "urlerr":
		return &url.Error{Op: "Get", URL: "http://upstream.test/secret-path", Err: io.ErrUnexpectedEOF}
	case "custom_ptr":
		return &customPtrErr{Reason: "db down", Detail: map[string]string{"dsn": "postgres://u:p@db"}}
	case "custom_val":
		return customValErr{Code: 42, Secret: "s3cr3t"}
	case "custom_slice":
		return customSliceErr{"a", "b"}
	case "ec_new":
		return errorchain.New(kid(0))
	case "ec_msg":
		return errorchain.NewWithMessage(kid(0), chainMsg)
	case "ec_ctx":
		return errorchain.NewWithMessage(kid(0), "with context").WithErrorContext(&errCtx{ID: "mech-1"})
	case "ec_caused":
		c := errorchain.NewWithMessage(kid(0), "outer")
		for i := 1; i < len(n.Kids); i++ {
			c = c.CausedBy(kid(i))
		}
		return c
	case "fmt_w":
		return fmt.Errorf("while doing x: %w", kid(0))
	case "fmt_ww":
		return fmt.Errorf("%w (caused by %w)", kid(0), kid(1))
	case "join":
		errs := make([]error, len(n.Kids))
		for i := range n.Kids {
			errs[i] = kid(i)
		}
		return errors.Join(errs...)
	case "url":
		return &url.Error{Op: "Post", URL: "http://upstream.test/token", Err: kid(0)}
	case "wrap":
		return &wrapErr{Note: "custom wrapper", inner: kid(0)}
	case "opaque":
		return fmt.Errorf("flattened: %v", kid(0))
	}
	panic("harness: unknown op " + n.Op)
}

// --- enumeration -----------------------------------------------------------------------------

func atoms() []*node {
	out := make([]*node, len(atomOps))
	for i, a := range atomOps {
		out[i] = &node{Op: a}
	}
	return out
}

// depth2 enumerates every constructor applied to atoms.
func depth2() []*node {
	at := atoms()
	var out []*node
	for _, u := range unaryOps {
		for _, a := range at {
			out = append(out, &node{Op: u, Kids: []*node{a}})
		}
	}
	for _, b := range binaryOps {
		for _, a1 := range at {
			for _, a2 := range at {
				out = append(out, &node{Op: b, Kids: []*node{a1, a2}})
			}
		}
	}
	return out
}

// unaryOver applies every unary constructor to every given tree.
func unaryOver(trees []*node) []*node {
	var out []*node
	for _, u := range unaryOps {
		for _, t := range trees {
			out = append(out, &node{Op: u, Kids: []*node{t}})
		}
	}
	return out
}

func randAtom(rng *rand.Rand) *node {
	// the second redirect atom only appears in sampled trees
	if rng.IntN(12) == 0 {
		return &node{Op: "redirect2"}
	}
	return &node{Op: atomOps[rng.IntN(len(atomOps))]}
}

func randTree(rng *rand.Rand, maxDepth int) *node {
	if maxDepth <= 1 || rng.IntN(4) == 0 {
		return randAtom(rng)
	}
	if rng.IntN(2) == 0 {
		return &node{Op: unaryOps[rng.IntN(len(unaryOps))], Kids: []*node{randTree(rng, maxDepth-1)}}
	}
	op := binaryOps[rng.IntN(len(binaryOps))]
	n := &node{Op: op, Kids: []*node{randTree(rng, maxDepth-1), randTree(rng, maxDepth-1)}}
	if op != "fmt_ww" && rng.IntN(3) == 0 { // chains and joins of three
		n.Kids = append(n.Kids, randTree(rng, maxDepth-1))
	}
	return n
}

// randDepth3 samples a tree of depth exactly 3.
func randDepth3(rng *rand.Rand) *node {
	for {
		if t := randTree(rng, 3); t.depth() == 3 {
			return t
		}
	}
}
