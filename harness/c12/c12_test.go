// Package c12 checks property C12: every failure is translated into the response class of its
// kind (never into success), identically by the HTTP and the Envoy gRPC translator, with details in
// the body only when verbose responses are enabled and then in a negotiated content type.
package c12

import (
	"encoding/json"
	"testing"

	"github.com/dadrus/heimdall/internal/verif/vkit/core"
)

func TestC12(t *testing.T) {
	r := core.Begin("C12", "exploration")
	r.Rule("unit level: error values are built from descriptions (16 atoms: the 8 heimdall kinds, RedirectError, cellib.EvalError, io.EOF, " +
		"context.DeadlineExceeded, *url.Error, three custom types; constructors errorchain New/NewWithMessage/WithErrorContext/CausedBy, fmt %w, fmt %w%w, " +
		"errors.Join, *url.Error, custom Unwrap wrapper, fmt %v), exhaustively for nesting depth <=2 and sampled at depth 3, and run through the exported HTTP " +
		"error handler and the gRPC error interceptor, constructed like the three services construct them, for verbose on/off x status overrides (none, all " +
		"six distinct, random in 400-599) x Accept headers (absent, each supported type, wildcards, q-values, unsupported, refused, malformed, several lines, random). " +
		"Oracle: precedence model over the description (never over the error value), never-2xx / never gRPC OK, HTTP == gRPC, no body unless verbose, body type " +
		"acceptable for a well-formed Accept and parsable. e2e level: decision, proxy and Envoy gRPC services assembled with fx, real default/redirect/" +
		"www_authenticate error handlers, probe authorizer producing every failure kind and panics; the handler that ran is read from the recorded trace. " +
		"Rules referencing the www_authenticate handlers of the catalogue with a realm of their own (also conditionally, next to handlers used as configured in the catalogue) have to name the realm of the rule on all three entry points; " +
		"a rule overriding `to`/`code` of the redirect handler (documented as not overridable) is either refused or answered with the rule's values. " +
		"Failures of real mechanisms: 10 CEL expressions over query, headers, JSON body, subject attributes and the payload of a remote system, each with request data for which it holds, does not hold and " +
		"cannot be evaluated (missing map key, index out of range, division by zero, operand of the wrong type, failing conversion, no payload), used as cel authorizer, as rule level expressions of a cel authorizer, " +
		"as `if` of a denying pipeline step, as `if` of an error handler, as remote authorizer and as its rule level expressions: 'does not hold' = authorization class (or step/handler not applicable), " +
		"'cannot be evaluated' = internal class on every entry point, never success and never the answer for 'does not hold'. " +
		"Failing requests in flight at the same time: on every entry point rounds of 24 requests released together (no sleeps) against rules whose redirect handlers render request dependent locations " +
		"(the URL of the request, its path, a query value; two rules sharing one handler of the catalogue, one rule selecting between both handlers and the default handler by the kind of the failure), every request with a " +
		"marker of its own in path and query: each answer has the status of the handler that ran for it and the Location rendered for its own request, never the one of another request. " +
		"A unit case is non-trivial when the chain mixes >=2 response classes or the deciding kind is only reachable through a wrapper; an e2e case when the probe failed or panicked or the expression does not let the request pass.")
	r.Assume(
		"status overrides are taken from 400-599 and redirect codes from 3xx (a configured 2xx would contradict 'never success' by configuration; a configured 1xx makes net/http send an interim response "+
			"followed by 200 while Envoy is handed the 1xx, and a value outside 100-999 panics in WriteHeader and is answered with 500 - operator configuration values outside the statement, not exercised)",
		"a foreign context.DeadlineExceeded / io.EOF is 'anything else' (500); only heimdall's communication kinds map to 502",
		"when a chain carries two different RedirectErrors either of them may be answered; HTTP and gRPC must pick the same",
		"an Accept value the harness' RFC 7231 parser does not recognise as well-formed is not judged for acceptability; an absent body is always allowed",
		"gRPC requests carry the Accept header the way Envoy hands it over: lower-case key, several lines joined by a comma",
		"text/html bodies are only checked for valid UTF-8 (no HTML parser in the module)",
		"the content type of a verbose body is judged per response against the Accept header of the request; where several types are acceptable the HTTP and the gRPC translator may pick different ones "+
			"(e.g. Accept */*: text/html vs application/json) and for an Accept value that is empty or not well-formed the HTTP translator sends no body while the gRPC translator sends text/html - both are "+
			"recorded as counters (unit_http_grpc_body_*), not judged; 'well-formed Accept, nothing acceptable' is the open finding grpc-unnegotiated-html-body",
		"a CEL expression that cannot be evaluated for the data of the request (runtime error of the expression) is none of the named failure kinds: 'anything else 500'; this also holds for the condition of a "+
			"pipeline step or of an error handler (the request is not continued as if the condition were false)",
	)

	if rp := r.Replay; rp != nil {
		if c, ok := rp["case"].(map[string]any); ok && c["error_tree"] != nil {
			replayUnit(r, c)
			r.End()
			return
		}
	}

	c12Unit(r)
	c12E2E(r)

	r.Require("unit_cases_mixing_classes_or_wrapped", r.Counter("unit_nontrivial"), 10000)
	r.Require("unit_json_bodies_http", r.Counter("unit_http_body_application/json"), 100)
	r.Require("unit_xml_bodies_http", r.Counter("unit_http_body_application/xml"), 100)
	r.Require("unit_html_bodies_http", r.Counter("unit_http_body_text/html"), 100)
	r.Require("unit_plain_bodies_http", r.Counter("unit_http_body_text/plain"), 100)
	r.Require("unit_json_bodies_grpc", r.Counter("unit_grpc_body_application/json"), 100)
	r.Require("unit_xml_bodies_grpc", r.Counter("unit_grpc_body_application/xml"), 100)
	r.Require("unit_plain_bodies_grpc", r.Counter("unit_grpc_body_text/plain"), 100)
	r.Require("unit_body_types_judged", r.Counter("unit_http_body_type_judged")+r.Counter("unit_grpc_body_type_judged"), 1000)
	for _, cl := range []string{"authentication", "authorization", "communication", "precondition", "no_rule", "redirect", "internal"} {
		r.Require("unit_class_"+cl, r.Counter("unit_class_"+cl), 100)
	}
	r.Require("e2e_www_cases", r.Counter("e2e_www_cases"), 30)
	r.Require("e2e_redirect_cases", r.Counter("e2e_redirect_cases"), 30)
	r.Require("e2e_default_cases", r.Counter("e2e_default_cases"), 30)
	r.Require("e2e_panic_cases", r.Counter("e2e_panic_cases"), 12)
	r.Require("e2e_www_cases_realm_of_the_rule", r.Counter("e2e_www_cases_realm_of_the_rule"), 100)
	r.Require("e2e_real_expression_cannot_be_evaluated", r.Counter("e2e_real_expression_"+unevalb), 100)
	r.Require("e2e_real_expression_does_not_hold", r.Counter("e2e_real_expression_"+holdsNo), 50)
	r.Require("e2e_real_passing_requests", r.Counter("e2e_real_passing_requests"), 50)
	for _, pos := range []string{posCEL, posCELRule, posStepIf, posEHIf, posRemote, posRemoteOvr} {
		r.Require("e2e_real_unevaluable_"+pos, r.Counter("e2e_real_unevaluable_"+pos), 20)
	}
	r.Require("e2e_concurrent_redirects_answered_correctly", r.Counter("e2e_concurrent_redirect_ok"), 1000)
	r.Require("e2e_concurrent_redirects_with_another_request_in_flight", r.Counter("e2e_concurrent_redirect_ok_with_another_request_in_flight"), 500)
	r.End()
}

// replayUnit re-executes exactly the unit case stored in a replay file.
func replayUnit(r *core.Run, c map[string]any) {
	b, _ := json.Marshal(c)
	var uc unitCase
	if err := json.Unmarshal(b, &uc); err != nil || uc.Tree == nil {
		r.Inconclusive("replay file does not contain a unit case")
		return
	}
	if uc.Options.Overrides == nil {
		uc.Options.Overrides = map[string]int{}
	}
	st := &stats{m: map[string]int{}}
	exp := evalCase(r, "replay", uc.Tree, build(uc.Tree), uc.Options, newHTTP(uc.Options), newGRPC(uc.Options), uc.Accept, st)
	r.Case(uc.Tree.String()+"|"+uc.Options.key(), true)
	r.Sample(map[string]any{"replayed": uc.Tree.String(), "expected": exp})
}
