package httpendpoint

import (
	"context"
	"fmt"
	"hash/fnv"
	"io"
	"net"
	"net/http"
	"strconv"
	"strings"
	"sync"
	"time"

	"github.com/rs/zerolog"

	"github.com/dadrus/heimdall/internal/cache"
	"github.com/dadrus/heimdall/internal/cache/memory"
	config2 "github.com/dadrus/heimdall/internal/rules/config"
	"github.com/dadrus/heimdall/internal/verif/vkit/core"
)

// C18, http_endpoint provider, further input dimensions:
//   - transport faults at every stage of a poll behind the connection establishment (vfhFaults): the request reaches
//     the server, the response breaks off before its first byte / inside the header section / inside the body
//     (Content-Length or chunked framing not satisfied) / stalls until the deadline of the poll;
//   - a failing server or proxy in front of the document (5xx, 429, partly with an HTML error page);
//   - the Content-Type spelled with parameters;
//   - documents of many rules and of several MiB, with changes at the head, in the middle and at the very end
//     (vfhLarge). The content id of a rule set of more than one rule covers every rule (vfhProc).

const (
	// vfhAssertServerErrors: a 5xx / 429 answer is "the endpoint is failing": nothing says that the document behind it is
	// gone, so the source still exists and the previously loaded version has to stay (like for refused connections and
	// timeouts). false = generated, not asserted. Divergences carry the signature http-unload-on-server-error.
	// NOT asserted: docs/content/docs/rules/providers.adoc documents "in any other case related to network communication
	// (e.g. not 200 status code ...) the corresponding rules are removed if previously loaded" - for this provider a
	// non-200 answer is, by definition, a source that does not exist (any more).
	vfhAssertServerErrors = false
	// vfhAssertTypeParams: `application/yaml; charset=utf-8` is the media type application/yaml (RFC 9110 8.3.1: parameters
	// follow the type; RFC 8259 / RFC 9512: recipients ignore them), the document is a valid rule set and has to be loaded.
	// false = generated, not asserted. Divergences carry the signature http-content-type-parameters-rejected.
	vfhAssertTypeParams = true
)

const (
	vfGenericHTTPLarge  = "http-large-document-mismatch"
	vfSigHTTPServerErr  = "http-unload-on-server-error"
	vfSigHTTPBroken     = "http-unload-on-broken-transfer"
	vfSigHTTPTypeParams = "http-content-type-parameters-rejected"
	vfSigHTTPOtherDoc   = "http-applied-rule-set-differs-from-document-served"
)

// ---------------------------------------------------------------------------------------------
// content id over all rules

// vfhProc hands every rule set to the recorder with a content id that covers all of its rules: the id of the first
// rule alone for a rule set of one rule (as in the sibling harnesses), first id ~ number of rules ~ digest over the
// ids and paths of all rules otherwise. A rule set that lost or gained rules on its way is then "content nobody serves".
type vfhProc struct{ rec *vfRecorder }

func (p vfhProc) OnCreated(rs *config2.RuleSet) error { return p.rec.OnCreated(vfhIdent(rs)) }
func (p vfhProc) OnUpdated(rs *config2.RuleSet) error { return p.rec.OnUpdated(vfhIdent(rs)) }
func (p vfhProc) OnDeleted(rs *config2.RuleSet) error { return p.rec.OnDeleted(rs) }

func vfhIdent(rs *config2.RuleSet) *config2.RuleSet {
	if len(rs.Rules) <= 1 {
		return rs
	}
	id := vfhContentID(len(rs.Rules), func(i int) (string, string) {
		path := ""
		if len(rs.Rules[i].Matcher.Routes) > 0 {
			path = rs.Rules[i].Matcher.Routes[0].Path
		}
		return rs.Rules[i].ID, path
	})
	return &config2.RuleSet{MetaData: rs.MetaData, Version: rs.Version, Name: rs.Name, Rules: []config2.Rule{{ID: id}}}
}

func vfhContentID(n int, rule func(i int) (id, path string)) string {
	first, _ := rule(0)
	if n == 1 {
		return first
	}
	h := fnv.New64a()
	for i := 0; i < n; i++ {
		id, path := rule(i)
		_, _ = io.WriteString(h, id)
		_, _ = h.Write([]byte{0})
		_, _ = io.WriteString(h, path)
		_, _ = h.Write([]byte{1})
	}
	return fmt.Sprintf("%s~%d~%016x", first, n, h.Sum64())
}

// vfhFirstID is the id of the first rule a content id stands for.
func vfhFirstID(content string) string {
	if i := strings.IndexByte(content, '~'); i >= 0 {
		return content[:i]
	}
	return content
}

// ---------------------------------------------------------------------------------------------
// documents of many rules

// vfhDocSpec describes a rule set document of n rules. Rules differ in length (so nothing in the document is aligned
// to anything), edits replace the path of single rules.
type vfhDocSpec struct {
	id    string
	n     int
	json  bool
	salt  int
	edits map[int]int // rule index -> edit number
}

const vfhPad = "abcdefghijklmnopqrstuvwxyz"

func (d *vfhDocSpec) rule(i int) (string, string) {
	id := d.id
	if i > 0 {
		id += ".r" + strconv.Itoa(i)
	}
	path := "/" + strings.NewReplacer("#", "_", ":", "_").Replace(d.id) + "/" + strconv.Itoa(i) + "/" + vfhPad[:1+(i*7+d.salt)%23]
	if e := d.edits[i]; e > 0 {
		path += "/e" + strconv.Itoa(e)
	}
	return id, path
}

func (d *vfhDocSpec) content() string { return vfhContentID(d.n, d.rule) }

func (d *vfhDocSpec) ctype() string {
	if d.json {
		return "application/json"
	}
	return "application/yaml"
}

func (d *vfhDocSpec) render() string {
	var sb strings.Builder
	sb.Grow(d.n*200 + 100)
	if d.json {
		sb.WriteString(`{"version":"1alpha4","name":"generated","rules":[`)
		for i := 0; i < d.n; i++ {
			id, path := d.rule(i)
			if i > 0 {
				sb.WriteString(",\n")
			}
			sb.WriteString(`{"id":"` + id + `","match":{"routes":[{"path":"` + path + `"}],"methods":["GET","POST"]},"execute":[{"authenticator":"a"},{"authorizer":"b"}]}`)
		}
		sb.WriteString("]}\n")
		return sb.String()
	}
	sb.WriteString("version: \"1alpha4\"\nname: generated\nrules:\n")
	for i := 0; i < d.n; i++ {
		id, path := d.rule(i)
		sb.WriteString("- id: \"" + id + "\"\n  match:\n    routes:\n      - path: " + path + "\n    methods: [ GET, POST ]\n  execute:\n    - authenticator: a\n    - authorizer: b\n")
	}
	return sb.String()
}

func (d *vfhDocSpec) clone() *vfhDocSpec {
	c := *d
	c.edits = make(map[int]int, len(d.edits)+1)
	for k, v := range d.edits {
		c.edits[k] = v
	}
	return &c
}

// ---------------------------------------------------------------------------------------------
// transport faults behind the connection establishment

const (
	vfhStageNothing = iota // the connection ends before the first byte of the response
	vfhStageHead           // the connection ends inside the header section
	vfhStageLength         // header section complete, Content-Length announced, the body breaks off
	vfhStageChunked        // header section complete, chunked transfer, the terminating chunk never arrives
)

const (
	vfhAtZero    = iota // no byte of the body
	vfhAtOne            // one byte
	vfhAtMiddle         // half of the document
	vfhAtRuleEnd        // behind a complete rule: what did arrive is a well-formed, shorter document
	vfhAtLast           // everything but the last byte
	vfhAtAll            // every byte of the document, but the framing promises more
	vfhAtSeeded         // an offset drawn from the sequence
)

type vfhFault struct {
	name   string
	stage  int
	head   string // vfhStageHead: what is sent of the header section
	at     int
	reset  bool // the connection is reset (RST) instead of closed; data not yet read by the client may be lost with it
	stall  bool // nothing more is sent, the connection stays open: the poll ends by its deadline (modes with a deadline only)
	within bool // chunked: the last chunk announces more bytes than are sent
}

var vfhFaults = []*vfhFault{
	{name: "closed-before-response", stage: vfhStageNothing},
	{name: "reset-before-response", stage: vfhStageNothing, reset: true},
	{name: "closed-inside-status-line", stage: vfhStageHead, head: "HTTP/1.1 2"},
	{name: "closed-after-status-line", stage: vfhStageHead, head: "HTTP/1.1 200 OK\r\n"},
	{name: "closed-inside-header-section", stage: vfhStageHead, head: "HTTP/1.1 200 OK\r\nContent-Type: application/yaml\r\nContent-Len"},
	{name: "reset-inside-header-section", stage: vfhStageHead, head: "HTTP/1.1 200 OK\r\nContent-Type: application/ya", reset: true},
	{name: "content-length-body-cut-at-0", stage: vfhStageLength, at: vfhAtZero},
	{name: "content-length-body-cut-at-1", stage: vfhStageLength, at: vfhAtOne},
	{name: "content-length-body-cut-in-the-middle", stage: vfhStageLength, at: vfhAtMiddle},
	{name: "content-length-body-cut-behind-a-rule", stage: vfhStageLength, at: vfhAtRuleEnd},
	{name: "content-length-body-cut-before-last-byte", stage: vfhStageLength, at: vfhAtLast},
	{name: "content-length-body-cut-at-seeded-offset", stage: vfhStageLength, at: vfhAtSeeded},
	{name: "content-length-larger-than-body", stage: vfhStageLength, at: vfhAtAll},
	{name: "content-length-body-reset-in-the-middle", stage: vfhStageLength, at: vfhAtMiddle, reset: true},
	{name: "content-length-body-stalls-until-deadline", stage: vfhStageLength, at: vfhAtMiddle, stall: true},
	{name: "chunked-no-chunk-at-all", stage: vfhStageChunked, at: vfhAtZero},
	{name: "chunked-cut-at-1", stage: vfhStageChunked, at: vfhAtOne},
	{name: "chunked-cut-in-the-middle", stage: vfhStageChunked, at: vfhAtMiddle},
	{name: "chunked-cut-behind-a-rule", stage: vfhStageChunked, at: vfhAtRuleEnd},
	{name: "chunked-cut-before-last-byte", stage: vfhStageChunked, at: vfhAtLast},
	{name: "chunked-cut-at-seeded-offset-inside-a-chunk", stage: vfhStageChunked, at: vfhAtSeeded, within: true},
	{name: "chunked-all-data-no-terminating-chunk", stage: vfhStageChunked, at: vfhAtAll},
	{name: "chunked-reset-in-the-middle", stage: vfhStageChunked, at: vfhAtMiddle, reset: true},
}

// vfhPollDeadline bounds a poll in the direct modes whenever the scripted response stalls (the provider itself sets
// no deadline; whoever calls watchChanges may). The verdict does not depend on it: the poll fails in any case.
const vfhPollDeadline = 25 * time.Millisecond

func vfhFaultByName(name string) *vfhFault {
	for _, f := range vfhFaults {
		if f.name == name {
			return f
		}
	}
	return nil
}

func (f *vfhFault) offset(body string, k int) int {
	n := len(body)
	if n == 0 {
		return 0
	}
	switch f.at {
	case vfhAtZero:
		return 0
	case vfhAtOne:
		return 1
	case vfhAtMiddle:
		return n / 2
	case vfhAtRuleEnd:
		if i := strings.LastIndex(body, "\n- id:"); i > 0 {
			return i + 1
		}
		if i := strings.LastIndex(body, ",\n{\"id\""); i > 0 {
			return i + 1
		}
		return n / 2
	case vfhAtLast:
		return n - 1
	case vfhAtAll:
		return n
	}
	if k < 0 {
		k = -k
	}
	return k % n
}

// vfhServeFault plays the response of a vfhBroken outcome on the raw connection.
func vfhServeFault(w http.ResponseWriter, o vfhOutcome) {
	hj, ok := w.(http.Hijacker)
	if !ok {
		w.WriteHeader(http.StatusNotImplemented)
		return
	}
	conn, rw, err := hj.Hijack()
	if err != nil {
		return
	}
	defer conn.Close()
	f, out := o.fault, rw.Writer
	switch f.stage {
	case vfhStageHead:
		_, _ = out.WriteString(f.head)
	case vfhStageLength:
		n := len(o.body)
		if f.at == vfhAtAll {
			n += 17
		}
		fmt.Fprintf(out, "HTTP/1.1 200 OK\r\nContent-Type: %s\r\nContent-Length: %d\r\n\r\n", o.ctype, n)
		_, _ = out.WriteString(o.body[:o.cut])
	case vfhStageChunked:
		fmt.Fprintf(out, "HTTP/1.1 200 OK\r\nContent-Type: %s\r\nTransfer-Encoding: chunked\r\n\r\n", o.ctype)
		data := o.body[:o.cut]
		size := 1 + len(data)/3
		if size > 16<<10 {
			size = 16 << 10
		}
		for len(data) > 0 {
			c := data
			if len(c) > size {
				c = c[:size]
			}
			data = data[len(c):]
			if f.within && len(data) == 0 {
				fmt.Fprintf(out, "%x\r\n%s", len(c)+9, c)
				break
			}
			fmt.Fprintf(out, "%x\r\n%s\r\n", len(c), c)
		}
	}
	_ = out.Flush()
	if f.stall {
		// returns when the client gave up and closed the connection
		_ = conn.SetReadDeadline(time.Now().Add(30 * time.Second))
		_, _ = io.Copy(io.Discard, conn)
		return
	}
	if tc, isTCP := conn.(*net.TCPConn); isTCP && f.reset {
		_ = tc.SetLinger(0)
	}
}

// vfhErrorPage is what a proxy answers in place of the application.
func vfhErrorPage(status int) string {
	return fmt.Sprintf("<html>\r\n<head><title>%d %s</title></head>\r\n<body>\r\n<center><h1>%d %s</h1></center>\r\n<hr><center>nginx</center>\r\n</body>\r\n</html>\r\n",
		status, http.StatusText(status), status, http.StatusText(status))
}

// vfhServerErrors are the members of the symbol class "server error".
var vfhServerErrors = []vfhOutcome{
	{kind: vfhSrvErr, status: http.StatusInternalServerError},
	{kind: vfhSrvErr, status: http.StatusBadGateway, ctype: "text/html", body: vfhErrorPage(http.StatusBadGateway)},
	{kind: vfhSrvErr, status: http.StatusServiceUnavailable, ctype: "text/html", body: vfhErrorPage(http.StatusServiceUnavailable), retry: "30"},
	{kind: vfhSrvErr, status: http.StatusGatewayTimeout, ctype: "text/html; charset=utf-8", body: vfhErrorPage(http.StatusGatewayTimeout)},
	{kind: vfhSrvErr, status: http.StatusTooManyRequests, ctype: "text/html", body: vfhErrorPage(http.StatusTooManyRequests), retry: "5"},
	{kind: vfhSrvErr, status: http.StatusInternalServerError, ctype: "application/json", body: `{"error":"internal server error"}`},
}

// vfhTypeParams are spellings of the two media types with parameters.
var vfhTypeParams = []string{"; charset=utf-8", ";charset=UTF-8", "; charset=\"utf-8\""}

// ---------------------------------------------------------------------------------------------
// every fault member, with and without a rule set loaded, followed by good polls

func vfhFaultSweep(r *core.Run, script *vfhScript, baseURL string) {
	patterns := [][]int{
		{vfhOkNew, vfhBroken, vfhOkSame},
		{vfhOkNew, vfhBroken, vfhOkNew},
		{vfhBroken, vfhOkNew, vfhBroken, vfh404},
		{vfhOkNew, vfhOkNew, vfhBroken, vfhBroken, vfhEmpty},
	}
	eps, err := vfhEndpoints(baseURL, "/faults/e1", "/faults/e2")
	if err != nil {
		r.Inconclusive("http: endpoint config: " + err.Error())
		return
	}
	cch, _ := memory.NewCache(nil, nil, nil)
	logger := zerolog.Nop()
	ctx := logger.WithContext(cache.WithContext(context.Background(), cch))
	st := &vfStats{}
	book := &vfCaseBook{}
	for _, f := range vfhFaults {
		for k, seq := range patterns {
			w := &vfhWorld{script: script, tag: "f-", eps: map[string]*vfhEndpointState{"e1": {path: "/faults/e1", ep: eps[0]}, "e2": {path: "/faults/e2", ep: eps[1]}},
				forced: f, bodyPick: k}
			w.eps["e1"].cur, w.eps["e2"].cur = vfhOutcome{kind: vfh404}, vfhOutcome{kind: vfh404}
			script.set("/faults/e1", w.eps["e1"].cur)
			script.set("/faults/e2", w.eps["e2"].cur)
			nOK, _ := vfhRunDirect(r, ctx, w, seq, st)
			book.add(fmt.Sprint("httpf|", f.name, seq), nOK >= 2)
			st.add("http_fault_sweep_sequences", 1)
		}
	}
	book.flush(r)
	vfFlushStats(r, st)
	names := make([]string, len(vfhFaults))
	for i, f := range vfhFaults {
		names[i] = f.name
	}
	r.Set("http_fault_members", names)
}

// ---------------------------------------------------------------------------------------------
// large documents

const (
	vflNew        = iota // a new document of the size of the class
	vflSame              // the same bytes again
	vflEditLast          // same document, the last rule changed
	vflEditFirst         // same document, the first rule changed
	vflEditMiddle        // same document, a rule in the middle changed
	vflAppend            // one more rule at the end
	vflDropLast          // the last rule removed
	vflCutServed         // the document cut inside its last rule, served as a complete response -> invalid
	vflBroken            // the transfer of the (edited) document breaks off
	vflSmall             // a new document of one rule
	vfl404               // not found
	vflEmpty             // empty body
	vflN
)

var vflNames = [vflN]string{"large:200-new", "large:200-unchanged", "large:200-last-rule-changed", "large:200-first-rule-changed", "large:200-middle-rule-changed",
	"large:200-rule-appended", "large:200-last-rule-dropped", "large:200-cut-inside-last-rule", "large:transfer-breaks-off", "large:200-new-one-rule", "large:404", "large:200-empty"}

// vfhLargeWorld is one endpoint serving documents of about `rules` rules.
type vfhLargeWorld struct {
	script  *vfhScript
	path    string
	ep      *ruleSetEndpoint
	rules   int
	salt    int
	nth     int
	version int
	spec    *vfhDocSpec // the valid document served last (nil = none yet)
	cur     vfhOutcome
	docs    []string
	st      *vfStats
}

func (w *vfhLargeWorld) serveSpec(d *vfhDocSpec) vfhOutcome {
	w.spec = d
	body := d.render()
	w.st.add("http_large_documents_served", 1)
	w.st.add("http_large_document_bytes_served", len(body))
	if len(body) > 1<<20 {
		w.st.add("http_large_documents_served_over_1MiB", 1)
	}
	if len(body) > 2<<20 {
		w.st.add("http_large_documents_served_over_2MiB", 1)
	}
	w.docs = append(w.docs, fmt.Sprintf("%d rules/%d bytes", d.n, len(body)))
	return vfhOutcome{kind: vfhOkNew, body: body, ctype: d.ctype(), content: d.content()}
}

func (w *vfhLargeWorld) newSpec(n int) *vfhDocSpec {
	w.version++
	return &vfhDocSpec{id: fmt.Sprintf("L%d#%d", w.rules, w.version), n: n, json: w.version%3 == 0, salt: w.salt + w.version, edits: map[int]int{}}
}

func (w *vfhLargeWorld) apply(sym int) {
	w.nth++
	var o vfhOutcome
	if (w.spec == nil || w.spec.n < 3) && sym >= vflSame && sym <= vflBroken {
		sym = vflNew // nothing (or a document of one rule) to derive the next version from
	}
	edit := func(i int) vfhOutcome {
		d := w.spec.clone()
		d.edits[i] = w.nth
		return w.serveSpec(d)
	}
	switch sym {
	case vflNew:
		o = w.serveSpec(w.newSpec(w.rules))
	case vflSame:
		o = w.serveSpec(w.spec)
	case vflEditLast:
		o = edit(w.spec.n - 1)
	case vflEditFirst:
		o = edit(0)
	case vflEditMiddle:
		o = edit(w.spec.n / 2)
	case vflAppend:
		d := w.spec.clone()
		d.n++
		o = w.serveSpec(d)
	case vflDropLast:
		d := w.spec.clone()
		if d.n > 2 {
			d.n--
		}
		o = w.serveSpec(d)
	case vflCutServed:
		body := w.spec.render()
		cut := strings.LastIndex(body, "match")
		if w.spec.json {
			cut = strings.LastIndex(body, "\"execute\"")
		}
		w.docs = append(w.docs, fmt.Sprintf("cut at %d of %d bytes", cut+3, len(body)))
		o = vfhOutcome{kind: vfhInvalid, body: body[:cut+3], ctype: w.spec.ctype()}
	case vflBroken:
		d := w.spec.clone()
		d.edits[d.n-1] = w.nth // what the endpoint tries to send is a changed version that never arrives completely
		body := d.render()
		var members []*vfhFault
		for _, f := range vfhFaults {
			if f.stage >= vfhStageLength {
				members = append(members, f)
			}
		}
		f := members[(vfDocOffset+w.salt+w.nth)%len(members)]
		o = vfhOutcome{kind: vfhBroken, fault: f, body: body, ctype: d.ctype(), cut: f.offset(body, (w.salt+w.nth)*7919)}
		w.docs = append(w.docs, fmt.Sprintf("fault:%s@%d of %d bytes", f.name, o.cut, len(body)))
		w.st.add("http_fault["+f.name+"]", 1)
		w.st.add("http_large_broken_transfers", 1)
	case vflSmall:
		o = w.serveSpec(w.newSpec(1))
	case vfl404:
		o = vfhOutcome{kind: vfh404}
	case vflEmpty:
		o = vfhOutcome{kind: vfhEmpty, ctype: "application/yaml"}
	}
	w.cur = o
	w.script.set(w.path, o)
}

func (w *vfhLargeWorld) state() vfState {
	switch w.cur.kind {
	case vfhOkNew:
		return vfState{Kind: vfValid, Content: w.cur.content}
	case vfhInvalid:
		return vfState{Kind: vfInvalid}
	case vfhBroken:
		return vfState{Kind: vfUnreachable}
	case vfhEmpty:
		return vfState{Kind: vfEmpty}
	}
	return vfState{Kind: vfGone}
}

func (w *vfhLargeWorld) holder(content string) string {
	if content != "" && w.cur.content == content {
		return "e1"
	}
	return ""
}

func (w *vfhLargeWorld) classify(m *vfMismatch, _ *vfStep) string {
	switch {
	case m.Kind == "call-with-content-no-source-holds" && w.spec != nil && vfhFirstID(m.call.Content) == w.spec.id:
		return vfSigHTTPOtherDoc
	case m.Kind == "unexpected-call" && m.st.Kind == vfUnreachable && m.call.Op == "D":
		return vfSigHTTPBroken
	}
	return ""
}

func vflSeqNames(seq []int) []string {
	out := make([]string, len(seq))
	for i, s := range seq {
		out[i] = vflNames[s]
	}
	return out
}

// vfhLarge: per size class seeded sequences over the vfl alphabet, each starting with a new document of the class.
func vfhLarge(r *core.Run, script *vfhScript, baseURL string) {
	classes := []int{500, 2200, 7300, 15000}
	if r.Thorough() {
		classes = append(classes, 31000, 64000)
	}
	nSeq, seqLen := r.Pick(2, 5), r.Pick(7, 9)
	rng := r.Stream("c18-http-large")
	type job struct {
		rules int
		seqs  [][]int
	}
	jobs := make([]job, len(classes))
	var sizes []int
	for i, c := range classes {
		jobs[i].rules = c + rng.IntN(c/4)
		sizes = append(sizes, jobs[i].rules)
		for k := 0; k < nSeq; k++ {
			seq := make([]int, seqLen)
			seq[0] = vflNew
			for j := 1; j < seqLen; j++ {
				seq[j] = rng.IntN(vflN)
			}
			if k == 0 {
				// every class: a change at the very end, at the head and in the middle of a loaded document
				seq[1], seq[2], seq[3] = vflEditLast, vflEditFirst, vflEditMiddle
			}
			jobs[i].seqs = append(jobs[i].seqs, seq)
		}
	}
	r.Set("http_large_rules_per_document", sizes)
	r.Set("http_large_alphabet", vflNames[:])
	var wg sync.WaitGroup
	var mu sync.Mutex
	// one goroutine per sequence: the cost is the parser's, a poll of a document of some MiB takes some 100 ms
	slots := make(chan struct{}, vfWorkers())
	for i := range jobs {
		for k, seq := range jobs[i].seqs {
			wg.Add(1)
			go func(i, k int, seq []int) {
				defer wg.Done()
				slots <- struct{}{}
				defer func() { <-slots }()
				st := &vfStats{}
				book := &vfCaseBook{}
				nOK := vfhRunLarge(r, script, baseURL, fmt.Sprintf("/large/c%d-%d", i, k), jobs[i].rules, seq, st)
				book.add(fmt.Sprint("httpl|", jobs[i].rules, seq), nOK >= 2)
				st.add("http_large_sequences", 1)
				mu.Lock()
				book.flush(r)
				vfFlushStats(r, st)
				mu.Unlock()
			}(i, k, seq)
		}
	}
	wg.Wait()
}

func vfhRunLarge(r *core.Run, script *vfhScript, baseURL, path string, rules int, seq []int, st *vfStats) int {
	eps, err := vfhEndpoints(baseURL, path)
	if err != nil {
		r.Inconclusive("http: endpoint config: " + err.Error())
		return 0
	}
	cch, _ := memory.NewCache(nil, nil, nil)
	logger := zerolog.Nop()
	ctx := logger.WithContext(cache.WithContext(context.Background(), cch))
	w := &vfhLargeWorld{script: script, path: path, ep: eps[0], rules: rules, salt: vfDocSalt(seq, rules), st: st, cur: vfhOutcome{kind: vfh404}}
	script.set(path, w.cur)
	rec := vfNewRecorder()
	o := vfNewOracle(st)
	p := &provider{p: vfhProc{rec}, l: zerolog.Nop(), configured: true}
	step := 0
	poll := func(action string) {
		step++
		s := &vfStep{Action: action, States: map[string]vfState{"e1": w.state()}, Holder: w.holder, Classify: w.classify, Generic: vfGenericHTTPLarge}
		pctx, cancel := ctx, context.CancelFunc(func() {})
		if w.cur.kind == vfhBroken && w.cur.fault.stall {
			pctx, cancel = context.WithTimeout(ctx, vfhPollDeadline)
		}
		_ = p.watchChanges(pctx, w.ep)
		cancel()
		o.step(step, s, rec.take())
		st.add("http_large_polls", 1)
	}
	for _, sym := range seq {
		w.apply(sym)
		poll("set " + vflNames[sym] + "; poll")
	}
	poll("settle poll")
	o.final(step+1, map[string]vfState{"e1": w.state()}, rec.snapshot(), &vfStep{Classify: w.classify, Generic: vfGenericHTTPLarge})
	o.report(r, "http_endpoint", "direct-large", vflSeqNames(seq), fmt.Sprintf(" rules=%d docs=%v", rules, w.docs))
	return o.nOK
}
