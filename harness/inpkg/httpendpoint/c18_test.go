package httpendpoint

import (
	"context"
	"fmt"
	"net"
	"net/http"
	"net/http/httptest"
	"os"
	"runtime/pprof"
	"strings"
	"sync"
	"sync/atomic"
	"syscall"
	"testing"
	"time"

	"github.com/rs/zerolog"

	"github.com/dadrus/heimdall/internal/cache"
	"github.com/dadrus/heimdall/internal/cache/memory"
	"github.com/dadrus/heimdall/internal/config"
	"github.com/dadrus/heimdall/internal/verif/vkit/core"
)

// C18, http_endpoint provider. Two modes:
//   direct: provider.watchChanges(ctx, endpoint) (the function the scheduler runs per poll) with the
//           real ruleSetEndpoint (decoded from configuration, HTTP cache enabled as by default) against
//           a scripted server on loopback; every symbol sets the outcome of one endpoint and polls it.
//   poll:   newProvider(watch_interval) + Start(): the real gocron loop; quiescence is logical (two
//           further fetches of the endpoint have been started after the outcome was set).

const vfGenericHTTP = "http-mismatch"

const (
	vfhOkNew       = iota // 200, new valid content
	vfhOkSame             // 200, the last valid content again (unchanged)
	vfhEmpty              // 200, empty body
	vfhInvalid            // 200, invalid rule set
	vfhUnsupported        // 200, text/plain (generated, not asserted)
	vfh404                // not found -> source gone
	vfhSrvErr             // the endpoint (or the proxy in front of it) fails: 500/502/503/504/429, partly with an HTML error page (see vfhAssertServerErrors)
	vfhRefused            // connection refused
	vfhTimeout            // request timed out
	vfhBroken             // the request reaches the server, the transfer of the response breaks off (a member of vfhFaults)
	vfhOkNewParam         // 200, new valid content, Content-Type with parameters (see vfhAssertTypeParams)
	vfhFail               // next processor call fails (no poll)
	vfhOkNew2             // second endpoint: new valid content
	vfh404x2              // second endpoint: not found
	vfhInvalid2           // second endpoint: invalid content
	vfhN
)

var vfhNames = [vfhN]string{"e1:200-new", "e1:200-unchanged", "e1:200-empty", "e1:200-invalid", "e1:200-unsupported-type", "e1:404", "e1:server-error",
	"e1:refused", "e1:timeout", "e1:transfer-breaks-off", "e1:200-new-content-type-with-parameters", "processor-fails-next", "e2:200-new", "e2:404", "e2:200-invalid"}

// outcome of one endpoint as the scripted server / transport serves it
type vfhOutcome struct {
	kind    int // vfhOkNew (=200 with body), vfhEmpty, vfhInvalid, vfhUnsupported, vfh404, vfhSrvErr, vfhRefused, vfhTimeout, vfhBroken, vfhOkNewParam
	body    string
	ctype   string
	content string    // content id when valid
	status  int       // vfhSrvErr: the status code answered
	retry   string    // vfhSrvErr: Retry-After header ("" = none)
	fault   *vfhFault // vfhBroken: how the transfer of body breaks off
	cut     int       // vfhBroken: number of body bytes that are sent
}

type vfhScript struct {
	mu       sync.RWMutex
	outcomes map[string]*vfhOutcome // URL path -> outcome
	fetches  sync.Map               // URL path -> *int64 (round trips started)
	gates    sync.Map               // URL path -> *vfhGate (poll mode only)
}

// vfhGate holds every fetch of one endpoint before it is sent until the harness grants a permit, so
// that in the poll mode exactly one poll of the real scheduler loop happens per step and nothing is
// in flight when the processor log is read (logical quiescence, no timing).
type vfhGate struct {
	arrived int64
	permits chan struct{}
}

func (g *vfhGate) pass(ctx context.Context) error {
	atomic.AddInt64(&g.arrived, 1)
	select {
	case <-g.permits:
		return nil
	case <-ctx.Done():
		return ctx.Err()
	}
}

// vfhKey: an endpoint is its whole URL - two endpoints may differ in nothing but the query.
func vfhKey(req *http.Request) string {
	if req.URL.RawQuery != "" {
		return req.URL.Path + "?" + req.URL.RawQuery
	}
	return req.URL.Path
}

// vfhPaths names the two endpoints of a world: every second world uses one path and tells them apart by the query only.
func vfhPaths(prefix string, n int) (string, string) {
	if n%2 == 1 {
		return fmt.Sprintf("/%s%d/rules?tenant=e1&v=1", prefix, n), fmt.Sprintf("/%s%d/rules?tenant=e2&v=1", prefix, n)
	}
	return fmt.Sprintf("/%s%d/e1", prefix, n), fmt.Sprintf("/%s%d/e2", prefix, n)
}

func (s *vfhScript) get(path string) vfhOutcome {
	s.mu.RLock()
	defer s.mu.RUnlock()
	if o := s.outcomes[path]; o != nil {
		return *o
	}
	return vfhOutcome{kind: vfh404}
}

func (s *vfhScript) set(path string, o vfhOutcome) {
	s.mu.Lock()
	s.outcomes[path] = &o
	s.mu.Unlock()
}

func (s *vfhScript) started(path string) *int64 {
	v, _ := s.fetches.LoadOrStore(path, new(int64))
	return v.(*int64)
}

func (s *vfhScript) ServeHTTP(w http.ResponseWriter, req *http.Request) {
	o := s.get(vfhKey(req))
	switch o.kind {
	case vfh404:
		w.WriteHeader(http.StatusNotFound)
	case vfhSrvErr:
		if o.ctype != "" {
			w.Header().Set("Content-Type", o.ctype)
		}
		if o.retry != "" {
			w.Header().Set("Retry-After", o.retry)
		}
		w.WriteHeader(o.status)
		_, _ = w.Write([]byte(o.body))
	case vfhBroken:
		vfhServeFault(w, o)
	default:
		w.Header().Set("Content-Type", o.ctype)
		w.WriteHeader(http.StatusOK)
		_, _ = w.Write([]byte(o.body))
	}
}

// vfhTransport replaces http.DefaultTransport (which Endpoint.CreateClient hard-wires) in this test
// binary: everything is delegated to the real transport, except that for a scripted "refused" outcome
// the connection is really dialled to a loopback port that is bound but not listening (so the error is
// the kernel's ECONNREFUSED wrapped by net), and for "timeout" it is dialled with an elapsed deadline.
type vfhTransport struct {
	real    http.RoundTripper
	script  *vfhScript
	refused string
}

func (t *vfhTransport) RoundTrip(req *http.Request) (*http.Response, error) {
	atomic.AddInt64(t.script.started(vfhKey(req)), 1)
	if g, ok := t.script.gates.Load(vfhKey(req)); ok {
		if err := g.(*vfhGate).pass(req.Context()); err != nil {
			return nil, err
		}
	}
	switch t.script.get(vfhKey(req)).kind {
	case vfhRefused:
		c, err := (&net.Dialer{}).DialContext(req.Context(), "tcp", t.refused)
		if err == nil {
			c.Close()
			return nil, fmt.Errorf("verif: reserved port %s accepted a connection", t.refused)
		}
		return nil, err
	case vfhTimeout:
		c, err := (&net.Dialer{Deadline: time.Unix(1, 0)}).DialContext(req.Context(), "tcp", t.refused)
		if err == nil {
			c.Close()
			return nil, fmt.Errorf("verif: dial with elapsed deadline succeeded")
		}
		return nil, err
	}
	return t.real.RoundTrip(req)
}

// vfReservePort binds a loopback TCP port without listening on it: connecting gets ECONNREFUSED and
// nobody else can take the port while the test runs.
func vfReservePort() (string, error) {
	fd, err := syscall.Socket(syscall.AF_INET, syscall.SOCK_STREAM, 0)
	if err != nil {
		return "", err
	}
	if err = syscall.Bind(fd, &syscall.SockaddrInet4{Port: 0, Addr: [4]byte{127, 0, 0, 1}}); err != nil {
		return "", err
	}
	sa, err := syscall.Getsockname(fd)
	if err != nil {
		return "", err
	}
	return fmt.Sprintf("127.0.0.1:%d", sa.(*syscall.SockaddrInet4).Port), nil
}

func vfhJSON(id string) string {
	return `{"version":"1alpha4","rules":[{"id":"` + id + `","match":{"routes":[{"path":"/` + strings.NewReplacer("#", "_", ":", "_").Replace(id) +
		`"}]},"execute":[{"authenticator":"a"}]}]}`
}

// vfhEndpointState is what the harness knows about one endpoint.
type vfhEndpointState struct {
	path      string
	ep        *ruleSetEndpoint
	version   int
	lastValid vfhOutcome
	cur       vfhOutcome
}

type vfhWorld struct {
	script *vfhScript
	tag    string
	eps    map[string]*vfhEndpointState // "e1", "e2"
	salt   int                          // choice of the members of the classes "empty" and "invalid" in this sequence
	nth    int                          // symbols applied in this sequence
	docs   []string                     // members served in this sequence
	st     *vfStats
	// transport faults: forced = the member every "transfer-breaks-off" of this sequence uses (nil = rotating with the
	// sequence); bodyPick varies what is being transferred; noDeadline = the polls of this mode have no deadline, so
	// members that stall are not used
	forced     *vfhFault
	bodyPick   int
	noDeadline bool
}

func vfhDocType(d vfDoc) string {
	if d.JSON {
		return "application/json"
	}
	return "application/yaml"
}

func (w *vfhWorld) newValid(l string) vfhOutcome {
	e := w.eps[l]
	e.version++
	id := fmt.Sprintf("%s%s#%d", w.tag, l, e.version)
	if e.version%2 == 0 {
		return vfhOutcome{kind: vfhOkNew, body: vfhJSON(id), ctype: "application/json", content: id}
	}
	return vfhOutcome{kind: vfhOkNew, body: vfRuleSetYAML(id), ctype: "application/yaml", content: id}
}

// apply sets the outcome for symbol sym and returns the logical endpoint to poll ("" = none).
func (w *vfhWorld) apply(sym int) string {
	l := "e1"
	var o vfhOutcome
	w.nth++
	switch sym {
	case vfhFail:
		return ""
	case vfhOkNew:
		o = w.newValid(l)
	case vfhOkNew2:
		l = "e2"
		o = w.newValid(l)
	case vfhOkSame:
		if o = w.eps[l].lastValid; o.content == "" {
			o = w.newValid(l)
		}
	case vfhEmpty:
		prev := ""
		if w.eps[l].cur.content != "" {
			prev = w.eps[l].cur.body // the rule set served now
		}
		d := vfEmptyDoc(w.salt+w.nth, prev, w.st)
		w.docs = append(w.docs, "empty:"+d.Name)
		o = vfhOutcome{kind: vfhEmpty, ctype: vfhDocType(d), body: d.Data}
	case vfhInvalid, vfhInvalid2:
		if sym == vfhInvalid2 {
			l = "e2"
		}
		w.eps[l].version++
		d := vfInvalidDoc(w.salt+w.nth, w.st)
		w.docs = append(w.docs, "invalid:"+d.Name)
		o = vfhOutcome{kind: vfhInvalid, ctype: vfhDocType(d), body: d.Data}
	case vfhUnsupported:
		o = vfhOutcome{kind: vfhUnsupported, ctype: "text/plain", body: vfRuleSetYAML("unsupported")}
	case vfh404:
		o = vfhOutcome{kind: vfh404}
	case vfh404x2:
		l = "e2"
		o = vfhOutcome{kind: vfh404}
	case vfhSrvErr:
		o = vfhServerErrors[(vfDocOffset+w.salt+w.nth)%len(vfhServerErrors)]
		w.docs = append(w.docs, fmt.Sprintf("server-error:%d", o.status))
		w.st.add(fmt.Sprintf("http_server_error[%d]", o.status), 1)
	case vfhBroken:
		o = w.broken(l)
	case vfhOkNewParam:
		o = w.newValid(l)
		o.kind = vfhOkNewParam
		o.ctype += vfhTypeParams[(vfDocOffset+w.salt+w.nth)%len(vfhTypeParams)]
		w.docs = append(w.docs, "content-type:"+o.ctype)
		w.st.add("http_content_type_with_parameters", 1)
	case vfhRefused:
		o = vfhOutcome{kind: vfhRefused}
	case vfhTimeout:
		o = vfhOutcome{kind: vfhTimeout}
	}
	e := w.eps[l]
	e.cur = o
	if o.content != "" {
		e.lastValid = o
	}
	w.script.set(e.path, o)
	return l
}

// broken: the request reaches the server, the response does not arrive completely. What the endpoint tries to send is
// the version loaded last or a new valid version (of several rules) that nobody ever receives completely.
func (w *vfhWorld) broken(l string) vfhOutcome {
	e := w.eps[l]
	f := w.forced
	for k := vfDocOffset + w.salt + w.nth; f == nil; k++ {
		if f = vfhFaults[k%len(vfhFaults)]; f.stall && w.noDeadline {
			f = nil
		}
	}
	body, ctype := e.lastValid.body, e.lastValid.ctype
	if (w.salt+w.nth+w.bodyPick)%2 == 0 || e.lastValid.content == "" {
		e.version++
		d := &vfhDocSpec{id: fmt.Sprintf("%s%s#%d-never-transferred-completely", w.tag, l, e.version), n: 2 + (w.salt+w.nth)%3,
			json: (w.salt+w.nth+w.bodyPick)%4 == 1, salt: w.salt}
		body, ctype = d.render(), d.ctype()
	}
	o := vfhOutcome{kind: vfhBroken, fault: f, body: body, ctype: ctype, cut: f.offset(body, (w.salt+w.nth)*7919)}
	w.docs = append(w.docs, fmt.Sprintf("fault:%s@%d of %d bytes", f.name, o.cut, len(body)))
	w.st.add("http_fault["+f.name+"]", 1)
	return o
}

func (w *vfhWorld) state(l string) vfState {
	switch o := w.eps[l].cur; o.kind {
	case vfhOkNew:
		return vfState{Kind: vfValid, Content: o.content}
	case vfhOkNewParam:
		if vfhAssertTypeParams {
			return vfState{Kind: vfValid, Content: o.content}
		}
	case vfhSrvErr:
		if vfhAssertServerErrors {
			return vfState{Kind: vfUnreachable}
		}
	case vfhBroken:
		return vfState{Kind: vfUnreachable}
	case vfhEmpty:
		return vfState{Kind: vfEmpty}
	case vfhInvalid:
		return vfState{Kind: vfInvalid}
	case vfh404:
		return vfState{Kind: vfGone}
	case vfhRefused, vfhTimeout:
		return vfState{Kind: vfUnreachable}
	}
	return vfState{Kind: vfUnasserted}
}

func (w *vfhWorld) holder(content string) string {
	for l, e := range w.eps {
		if e.cur.content == content && content != "" {
			return l
		}
	}
	return ""
}

func vfhClassify(m *vfMismatch, s *vfStep) string {
	// documentation: "in case of network issues, like dns errors, timeouts and alike, the rule sets previously
	// received from the corresponding endpoints are preserved" - the provider unloads them
	if m.Kind == "unexpected-call" && m.st.Kind == vfUnreachable && m.call.Op == "D" {
		switch s.Ctx[m.Source] {
		case "server-error":
			return vfSigHTTPServerErr
		case "broken-transfer":
			return vfSigHTTPBroken
		}
		return "http-unload-on-network-error"
	}
	if s.Ctx[m.Source] == "content-type-with-parameters" && (m.Kind == "missing-call" || m.Kind == "final-not-latest-valid-content") {
		return vfSigHTTPTypeParams
	}
	if m.Kind == "call-with-content-no-source-holds" && strings.Contains(m.call.Content, "~") {
		return vfSigHTTPOtherDoc
	}
	return ""
}

// ctx tells vfhClassify what kind of outcome the endpoints serve now.
func (w *vfhWorld) ctx() map[string]string {
	c := map[string]string{}
	for l, e := range w.eps {
		switch e.cur.kind {
		case vfhSrvErr:
			c[l] = "server-error"
		case vfhBroken:
			c[l] = "broken-transfer"
		case vfhOkNewParam:
			c[l] = "content-type-with-parameters"
		}
	}
	return c
}

func vfhEndpoints(baseURL string, paths ...string) ([]*ruleSetEndpoint, error) {
	var eps []map[string]any
	for _, p := range paths {
		eps = append(eps, map[string]any{"url": baseURL + p})
	}
	var conf struct {
		Endpoints []*ruleSetEndpoint `mapstructure:"endpoints"`
	}
	raw := map[string]any{"endpoints": eps}
	if err := decodeConfig(raw, &conf); err != nil {
		return nil, err
	}
	for _, ep := range conf.Endpoints {
		ep.init()
	}
	return conf.Endpoints, nil
}

func TestC18(t *testing.T) {
	r := core.Begin("C18", "fault_enumeration")
	r.Rule("http_endpoint: exhaustive sequences (length <=4 quick / <=5 thorough) over 15 symbols (endpoint 1: 200 new/unchanged/empty/invalid/unsupported type, 404, server error, " +
		"connection refused, timeout, transfer of the response breaks off, 200 new with a parameterised content type; processor failure; endpoint 2: 200 new, 404, invalid; the empty and the invalid bodies, the server errors (http_server_error[..]) " +
		"and the transport faults (http_fault_members) rotate over their members as a function of the sequence); each symbol sets the outcome and runs provider.watchChanges for that endpoint; one more polling round " +
		"at the end (longest length: 10 of the 15 symbols exhaustively plus a seeded sample of sequences with broken transfers); every transport fault member with and without a rule set loaded, followed by good polls; documents of hundreds to ten thousands of rules (up to several MiB) " +
		"changed at the head, in the middle and at the very end, cut, shrunk, broken in transfer (http_large_*); plus seeded sequences against the real scheduler loop (newProvider with watch_interval, Start). " +
		"Oracle: vfDecide per poll on the outcome served, active rule sets = latest valid content of existing endpoints at the end; the content id of a rule set covers all of its rules. Non-trivial: >=2 successful processor calls.")
	r.Assume("http.DefaultTransport is wrapped in the test binary only to turn a scripted refused/timeout outcome into a real dial error (bound, non-listening loopback port / elapsed deadline)",
		"outcome mapping: refused/timeout/response broken off in transfer (before its first byte, inside the header section, body shorter than Content-Length, chunked body without terminating chunk, stalled until the poll's deadline) = source still exists (previous kept); "+
			"404 = gone (unloaded); empty body (no rule set in it) = unloaded; unsupported content type is generated but not asserted",
		fmt.Sprintf("5xx / 429 answers = the endpoint is failing, the source still exists (previous kept): asserted=%v; a content type with parameters (application/yaml; charset=utf-8) is the media type named: asserted=%v", vfhAssertServerErrors, vfhAssertTypeParams),
		"a body that simply ends with the connection (no Content-Length, no chunking) cannot be told from a complete one and is not generated",
		"responses carry no cache headers, so the (enabled) HTTP cache never answers")

	script := &vfhScript{outcomes: map[string]*vfhOutcome{}}
	srv := httptest.NewServer(script)
	defer srv.Close()
	refused, err := vfReservePort()
	if err != nil {
		r.Inconclusive("cannot reserve a loopback port: " + err.Error())
		r.End()
	}
	http.DefaultTransport = &vfhTransport{real: http.DefaultTransport, script: script, refused: refused}
	vfInitDocs(r)

	if prov, mode, names, variant, ok := vfReplayCase(r); ok {
		if seq, known := vfSymbols(names, vflNames[:]); prov == "http_endpoint" && mode == "direct-large" && known {
			st := &vfStats{}
			rules := 0
			_, _ = fmt.Sscanf(strings.TrimSpace(variant), "rules=%d", &rules)
			vfhRunLarge(r, script, srv.URL, "/replay/large", rules, seq, st)
			r.Eval(1)
			vfFlushStats(r, st)
		} else if seq, known = vfSymbols(names, vfhNames[:]); prov == "http_endpoint" && known {
			st := &vfStats{}
			if mode == "direct" || mode == "direct-fault-sweep" {
				if eps, err := vfhEndpoints(srv.URL, "/replay/e1", "/replay/e2"); err == nil {
					cch, _ := memory.NewCache(nil, nil, nil)
					logger := zerolog.Nop()
					ctx := logger.WithContext(cache.WithContext(context.Background(), cch))
					w := &vfhWorld{script: script, eps: map[string]*vfhEndpointState{"e1": {path: "/replay/e1", ep: eps[0]}, "e2": {path: "/replay/e2", ep: eps[1]}}}
					if mode == "direct-fault-sweep" {
						// the variant names the member and the body choice of the sweep case
						var name string
						_, _ = fmt.Sscanf(strings.TrimSpace(variant), "member=%s body=%d", &name, &w.bodyPick)
						w.forced, w.tag = vfhFaultByName(name), "f-"
					}
					w.eps["e1"].cur, w.eps["e2"].cur = vfhOutcome{kind: vfh404}, vfhOutcome{kind: vfh404}
					vfhRunDirect(r, ctx, w, seq, st)
				}
			} else {
				vfhRunPoll(r, script, srv.URL, 0, seq, st)
			}
			r.Eval(1)
			vfFlushStats(r, st)
		}
		r.End()
	}
	if pf := os.Getenv("VERIF_CPUPROFILE"); pf != "" { // development aid
		if f, err := os.Create(pf); err == nil {
			_ = pprof.StartCPUProfile(f)
		}
	}
	t0 := time.Now()
	vfhDirect(r, script, srv.URL)
	r.Set("http_direct_wall_s", time.Since(t0).Seconds())
	t0 = time.Now()
	vfhFaultSweep(r, script, srv.URL)
	r.Set("http_fault_sweep_wall_s", time.Since(t0).Seconds())
	t0 = time.Now()
	vfhLarge(r, script, srv.URL)
	r.Set("http_large_wall_s", time.Since(t0).Seconds())
	t0 = time.Now()
	vfhPoll(r, script, srv.URL)
	r.Set("http_poll_wall_s", time.Since(t0).Seconds())
	pprof.StopCPUProfile()

	r.Set("exhaustive_subspace", "all sequences up to http_max_sequence_length over http_alphabet (longest length: 10-symbol sub-alphabet) in direct mode; poll mode is a seeded sample")
	r.Require("http_direct_sequences", r.Counter("http_direct_sequences"), 5000)
	r.Require("http_calls_created", r.Counter("calls_C"), 1000)
	r.Require("http_calls_updated", r.Counter("calls_U"), 1000)
	r.Require("http_calls_deleted", r.Counter("calls_D"), 1000)
	r.Require("http_unchanged_no_call_steps", r.Counter("steps_unchanged_expect_no_call"), 1000)
	r.Require("http_invalid_kept_steps", r.Counter("steps_invalid_expect_previous_kept"), 500)
	r.Require("http_unreachable_steps_with_applied_rule_set", r.Counter("steps_unreachable_expect_previous_kept"), 500)
	r.Require("http_poll_steps_quiesced", r.Counter("http_poll_steps_quiesced"), 20)
	r.Require("http_fault_sweep_sequences", r.Counter("http_fault_sweep_sequences"), int64(len(vfhFaults)))
	r.Require("http_large_polls", r.Counter("http_large_polls"), 20)
	r.Require("http_large_documents_served_over_2MiB", r.Counter("http_large_documents_served_over_2MiB"), 3)
	r.End()
}

func vfhSeqNames(d []int) []string {
	out := make([]string, len(d))
	for i, s := range d {
		out[i] = vfhNames[s]
	}
	return out
}

func vfhDirect(r *core.Run, script *vfhScript, baseURL string) {
	maxLen := r.Pick(4, 5)
	cch, _ := memory.NewCache(nil, nil, nil)
	full := make([]int, vfhN)
	for i := range full {
		full[i] = i
	}
	// longest length: without the symbols that add least (unsupported type, server error, content type with parameters, e2:invalid);
	// the transport faults take part in a seeded sample of sequences of that length instead of the enumeration
	reduced := []int{vfhOkNew, vfhOkSame, vfhEmpty, vfhInvalid, vfh404, vfhRefused, vfhTimeout, vfhFail, vfhOkNew2, vfh404x2}
	runAll := func(n, total int, sequence func(idx int, digits []int)) {
		vfParallel(r, total, func(wk int) (func(int, *vfStats), func()) {
			p1, p2 := vfhPaths("w", wk)
			eps, err := vfhEndpoints(baseURL, p1, p2)
			if err != nil {
				r.Inconclusive("http: endpoint config: " + err.Error())
				return func(int, *vfStats) {}, nil
			}
			logger := zerolog.Nop()
			ctx := logger.WithContext(cache.WithContext(context.Background(), cch))
			book := &vfCaseBook{}
			digits := make([]int, n)
			run := func(idx int, st *vfStats) {
				sequence(idx, digits)
				w := &vfhWorld{script: script, eps: map[string]*vfhEndpointState{"e1": {path: p1, ep: eps[0]}, "e2": {path: p2, ep: eps[1]}}}
				w.eps["e1"].cur, w.eps["e2"].cur = vfhOutcome{kind: vfh404}, vfhOutcome{kind: vfh404}
				script.set(p1, w.eps["e1"].cur)
				script.set(p2, w.eps["e2"].cur)
				nOK, bad := vfhRunDirect(r, ctx, w, digits, st)
				book.add(fmt.Sprint("http|", digits), nOK >= 2)
				st.add("http_direct_sequences", 1)
				if bad {
					st.add("http_direct_sequences_with_mismatch", 1)
				}
				if n == 3 && idx == total/3 {
					r.Sample(map[string]any{"provider": "http_endpoint", "mode": "direct", "sequence": vfhSeqNames(digits)})
				}
			}
			return run, func() { book.flush(r) }
		})
	}
	for n := 1; n <= maxLen; n++ {
		alpha := full
		if n == maxLen {
			alpha = reduced
		}
		runAll(n, vfPow(len(alpha), n), func(idx int, digits []int) {
			vfDigits(idx, len(alpha), n, digits)
			for i := range digits {
				digits[i] = alpha[digits[i]]
			}
		})
	}
	// sequences of the longest length with at least one broken transfer
	rng := r.Stream("c18-http-direct-faults")
	sample := make([][]int, r.Pick(1500, 20000))
	for k := range sample {
		seq := make([]int, maxLen)
		for i := range seq {
			seq[i] = reduced[rng.IntN(len(reduced))]
		}
		seq[rng.IntN(maxLen)] = vfhBroken
		if rng.IntN(3) == 0 {
			seq[rng.IntN(maxLen)] = vfhBroken
		}
		sample[k] = seq
	}
	runAll(maxLen, len(sample), func(idx int, digits []int) { copy(digits, sample[idx]) })
	r.Count("http_direct_sampled_sequences_with_broken_transfer", len(sample))
	r.Set("http_alphabet", vfhNames[:])
	r.Set("http_max_sequence_length", maxLen)
}

func vfhRunDirect(r *core.Run, ctx context.Context, w *vfhWorld, seq []int, st *vfStats) (int, bool) {
	rec := vfNewRecorder()
	o := vfNewOracle(st)
	w.salt, w.st = vfDocSalt(seq, 0), st
	p := &provider{p: vfhProc{rec}, l: zerolog.Nop(), configured: true}
	step := 0
	poll := func(l, action string) {
		step++
		e := w.eps[l]
		s := &vfStep{Action: action, States: map[string]vfState{l: w.state(l)}, Holder: w.holder, Classify: vfhClassify, Generic: vfGenericHTTP, Ctx: w.ctx()}
		pctx, cancel := ctx, context.CancelFunc(func() {})
		if e.cur.kind == vfhBroken && e.cur.fault.stall {
			pctx, cancel = context.WithTimeout(ctx, vfhPollDeadline)
		}
		_ = p.watchChanges(pctx, e.ep)
		cancel()
		o.step(step, s, rec.take())
		st.add("http_polls", 1)
	}
	for _, sym := range seq {
		if sym == vfhFail {
			rec.armFailure()
			continue
		}
		l := w.apply(sym)
		poll(l, "set "+vfhNames[sym]+"; poll "+l)
	}
	// the next polling round without any change of the endpoints and without injected failure: a change whose
	// processor call failed is retried here, everything else must stay as it is
	rec.disarm()
	used := map[string]bool{"e1": true}
	for _, sym := range seq {
		if sym >= vfhOkNew2 {
			used["e2"] = true
		}
	}
	for _, l := range []string{"e1", "e2"} {
		if used[l] {
			poll(l, "settle poll "+l)
		}
	}
	truth := map[string]vfState{"e1": w.state("e1"), "e2": w.state("e2")}
	o.final(step+1, truth, rec.snapshot(), &vfStep{Classify: vfhClassify, Generic: vfGenericHTTP, Ctx: w.ctx()})
	mode, variant := "direct", fmt.Sprintf(" docs=%v", w.docs)
	if w.forced != nil {
		mode, variant = "direct-fault-sweep", fmt.Sprintf(" member=%s body=%d docs=%v", w.forced.name, w.bodyPick, w.docs)
	}
	bad := o.report(r, "http_endpoint", mode, vfhSeqNames(seq), variant)
	return o.nOK, bad
}

// ---------------------------------------------------------------------------------------------
// real scheduler loop

func vfhPoll(r *core.Run, script *vfhScript, baseURL string) {
	nSeq := r.Pick(8, 60)
	seqLen := r.Pick(5, 7)
	rng := r.Stream("c18-http-poll")
	st := &vfStats{}
	book := &vfCaseBook{}
	defer func() {
		for k, v := range st.m {
			r.Count(k, v)
		}
		book.flush(r)
	}()
	fixed := [][]int{{vfhOkNew, vfhOkSame, vfhRefused, vfhOkNew, vfhInvalid, vfh404}}
	for n := 0; n < nSeq; n++ {
		var seq []int
		if n < len(fixed) {
			seq = fixed[n]
		} else {
			seq = make([]int, seqLen)
			for i := range seq {
				seq[i] = rng.IntN(vfhN)
			}
		}
		nOK, ok := vfhRunPoll(r, script, baseURL, n, seq, st)
		if !ok {
			return
		}
		book.add(fmt.Sprint("httpp|", seq), nOK >= 2)
		st.add("http_poll_sequences", 1)
	}
}

func vfhRunPoll(r *core.Run, script *vfhScript, baseURL string, n int, seq []int, st *vfStats) (int, bool) {
	p1, p2 := vfhPaths("poll", n)
	w := &vfhWorld{script: script, tag: fmt.Sprintf("p%d-", n), eps: map[string]*vfhEndpointState{"e1": {path: p1}, "e2": {path: p2}},
		salt: vfDocSalt(seq, 1), st: st, noDeadline: true}
	w.eps["e1"].cur, w.eps["e2"].cur = vfhOutcome{kind: vfh404}, vfhOutcome{kind: vfh404}
	script.set(p1, w.eps["e1"].cur)
	script.set(p2, w.eps["e2"].cur)
	rec := vfNewRecorder()
	o := vfNewOracle(st)
	conf := &config.Configuration{Providers: config.RuleProviders{HTTPEndpoint: map[string]any{
		"watch_interval": "5ms",
		"endpoints":      []map[string]any{{"url": baseURL + p1}, {"url": baseURL + p2}},
	}}}
	cch, _ := memory.NewCache(nil, nil, nil)
	prov, err := newProvider(conf, cch, vfhProc{rec}, zerolog.Nop())
	if err != nil {
		r.Inconclusive("http poll: newProvider: " + err.Error())
		return 0, false
	}
	gates := map[string]*vfhGate{"e1": {permits: make(chan struct{}, 1024)}, "e2": {permits: make(chan struct{}, 1024)}}
	script.gates.Store(p1, gates["e1"])
	script.gates.Store(p2, gates["e2"])
	if err = prov.Start(context.Background()); err != nil {
		r.Inconclusive("http poll: Start: " + err.Error())
		return 0, false
	}
	defer prov.Stop(context.Background()) //nolint:errcheck
	// wait until fetch number `want` of endpoint l is held at the gate: every earlier fetch has then
	// been processed completely (one job per endpoint, singleton mode). A watchdog firing is inconclusive.
	arrive := func(l string, want int64) bool {
		deadline := time.Now().Add(20 * time.Second)
		for atomic.LoadInt64(&gates[l].arrived) < want {
			if time.Now().After(deadline) {
				r.Inconclusive(fmt.Sprintf("http poll: endpoint %s not polled again within the watchdog (sequence %v)", l, vfhSeqNames(seq)))
				return false
			}
			time.Sleep(200 * time.Microsecond)
		}
		return true
	}
	onePoll := func(l string) bool {
		a0 := atomic.LoadInt64(&gates[l].arrived)
		gates[l].permits <- struct{}{}
		return arrive(l, a0+1)
	}
	if !arrive("e1", 1) || !arrive("e2", 1) {
		return 0, false
	}
	step := 0
	for _, sym := range seq {
		step++
		if sym == vfhFail {
			rec.armFailure()
			continue
		}
		l := w.apply(sym)
		if !onePoll(l) {
			return 0, false
		}
		st.add("http_poll_steps_quiesced", 1)
		s := &vfStep{Action: "set " + vfhNames[sym] + "; one poll of the real scheduler loop", States: map[string]vfState{l: w.state(l)},
			Holder: w.holder, Classify: vfhClassify, Generic: vfGenericHTTP, Ctx: w.ctx()}
		o.step(step, s, rec.take())
	}
	for k := 0; k < 2; k++ {
		for _, l := range []string{"e1", "e2"} {
			step++
			if !onePoll(l) {
				return 0, false
			}
			st.add("http_poll_steps_quiesced", 1)
			o.step(step, &vfStep{Action: "settle poll " + l, States: map[string]vfState{l: w.state(l)}, Holder: w.holder, Classify: vfhClassify, Generic: vfGenericHTTP, Ctx: w.ctx()}, rec.take())
		}
	}
	truth := map[string]vfState{"e1": w.state("e1"), "e2": w.state("e2")}
	o.final(step+1, truth, rec.snapshot(), &vfStep{Classify: vfhClassify, Generic: vfGenericHTTP, Ctx: w.ctx()})
	o.report(r, "http_endpoint", "poll", vfhSeqNames(seq), fmt.Sprintf(" docs=%v", w.docs))
	return o.nOK, true
}
