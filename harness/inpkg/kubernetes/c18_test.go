package kubernetes

import (
	"context"
	"encoding/json"
	"errors"
	"fmt"
	"net"
	"net/url"
	"os"
	"strconv"
	"strings"
	"sync"
	"syscall"
	"testing"
	"time"

	jsonpatch "github.com/evanphx/json-patch/v5"
	"github.com/rs/zerolog"
	apierrors "k8s.io/apimachinery/pkg/api/errors"
	metav1 "k8s.io/apimachinery/pkg/apis/meta/v1"
	"k8s.io/apimachinery/pkg/runtime/schema"
	"k8s.io/apimachinery/pkg/types"
	utilruntime "k8s.io/apimachinery/pkg/util/runtime"
	"k8s.io/apimachinery/pkg/watch"
	"k8s.io/client-go/rest"
	"k8s.io/client-go/tools/cache"

	"github.com/dadrus/heimdall/internal/config"
	vfrc2 "github.com/dadrus/heimdall/internal/rules/config"
	"github.com/dadrus/heimdall/internal/rules/provider/kubernetes/api/v1alpha4"
	"github.com/dadrus/heimdall/internal/verif/vkit/core"
)

// C18, kubernetes provider. Two modes:
//   handlers: the provider's filter/addRuleSet/updateRuleSet/deleteRuleSet are called, composed exactly
//             as newController composes them (FilteringResourceEventHandler), with the notifications an
//             informer produces for each change of the API objects, incl. status-only updates, resyncs,
//             auth-class changes, an object replaced while the watch was down (same name, new UID) and
//             a deletion that is only noticed by a re-list (DeletedFinalStateUnknown).
//   informer: newProvider + Start with the real client-go informer against an in-memory API (fake
//             v1alpha4.Client with list/watch/resourceVersion/status patch); quiescence is logical
//             (a sentinel RuleSet is created and its OnCreated is awaited).
// The provider leaves validation to the processor; "invalid" content is content the recording
// processor refuses (as heimdall's processor does when a rule cannot be created).
// In both modes the recording processor enforces what heimdall's rule repository enforces (vfkProc): a
// path expression held by the rule set of one source cannot be claimed by another source while that rule
// set is loaded. Every version of a RuleSet object and every re-created successor (same name, new UID)
// carries the same stable path next to a version specific one, as a manifest that is applied again does.

const vfGenericK8s = "k8s-mismatch"

const vfkSentinelNS = "verif"

const (
	vfkApply1     = iota // create r1, or change its spec (new valid content, generation+1)
	vfkInvalid1          // create r1 / change its spec to content the processor refuses
	vfkStatus1           // status-only update of r1 (same generation)
	vfkResync1           // resync notification for r1 (old == new)
	vfkDelete1           // delete r1
	vfkClassAway1        // authClassName of r1 changes to another class
	vfkClassBack1        // authClassName of r1 changes back
	vfkReplace1          // r1 deleted and re-created (new UID) while the watch was down: seen as one update by the re-list
	vfkTombstone1        // r1 deleted while the watch was down: the re-list reports DeletedFinalStateUnknown
	vfkApply2            // create r2 / change its spec
	vfkDelete2           // delete r2
	vfkFail              // next processor call fails
	vfkStatusOdd1        // status-only update of r1 that leaves a status.activeIn heimdall did not write itself (same generation)
	vfkPatchErr          // the next status patch for a RuleSet is answered with an error (transport error, timeout, 5xx)
	vfkN
)

var vfkNames = [vfkN]string{"apply-new-spec(r1)", "apply-refused-spec(r1)", "status-update(r1)", "resync(r1)", "delete(r1)", "auth-class-away(r1)", "auth-class-back(r1)",
	"replaced-during-watch-outage(r1)", "deleted-during-watch-outage(r1)", "apply-new-spec(r2)", "delete(r2)", "processor-fails-next",
	"status-update-foreign-activein(r1)", "status-patch-fails-next"}

// ---------------------------------------------------------------------------------------------
// in-memory API (fake v1alpha4.Client)

type vfkAPI struct {
	mu        sync.Mutex
	rv        int64
	objs      map[string]*v1alpha4.RuleSet // namespace/name
	log       []watch.Event                // every event since start, object carries its resourceVersion
	compacted int64                        // watches from an older resourceVersion get 410 Gone
	watchers  map[*vfkWatcher]struct{}
	patches   int64
	conflicts int64
	lists     int64
	noPatch   bool // handlers mode: status patches are acknowledged without effect (no informer consumes them)
	// patchErr: kind of error the next status patch of a RuleSet of the workload is answered with ("" = none);
	// patchErrHit: the kind that was delivered since the last takePatchErr()
	patchErr    string
	patchErrHit string
	patchErrs   int64
}

// vfkPatchErrKinds are the ways a status patch fails without the object being concerned. The first two are what
// client-go's REST client returns when no HTTP response was received (not a *StatusError), the others are
// *StatusError values built from a 5xx/429 response.
var vfkPatchErrKinds = []string{"connection-refused", "deadline-exceeded", "status-500", "status-503", "status-429"}

func vfkIsPlainPatchErr(kind string) bool {
	return kind == "connection-refused" || kind == "deadline-exceeded"
}

func vfkPatchError(kind string, patch v1alpha4.Patch) error {
	u := "https://10.96.0.1:443/apis/" + v1alpha4.GroupName + "/" + v1alpha4.GroupVersion + "/namespaces/" + patch.ResourceNamespace() +
		"/rulesets/" + patch.ResourceName() + "/status"
	switch kind {
	case "connection-refused":
		return &url.Error{Op: "Patch", URL: u, Err: &net.OpError{Op: "dial", Net: "tcp", Err: os.NewSyscallError("connect", syscall.ECONNREFUSED)}}
	case "deadline-exceeded":
		return &url.Error{Op: "Patch", URL: u, Err: context.DeadlineExceeded}
	case "status-500":
		return apierrors.NewInternalError(errors.New("etcdserver: request timed out"))
	case "status-503":
		return apierrors.NewServiceUnavailable("the server is currently unable to handle the request")
	}
	return apierrors.NewTooManyRequests("too many requests, please try again later", 1)
}

func (a *vfkAPI) armPatchErr(kind string) {
	a.mu.Lock()
	a.patchErr = kind
	a.mu.Unlock()
}

func (a *vfkAPI) takePatchErr() string {
	a.mu.Lock()
	defer a.mu.Unlock()
	k := a.patchErrHit
	a.patchErrHit = ""
	return k
}

func vfkNewAPI() *vfkAPI {
	return &vfkAPI{objs: map[string]*v1alpha4.RuleSet{}, watchers: map[*vfkWatcher]struct{}{}, rv: 100}
}

type vfkWatcher struct {
	api  *vfkAPI
	ch   chan watch.Event
	done chan struct{}
	once sync.Once
}

func (w *vfkWatcher) Stop() {
	w.once.Do(func() {
		close(w.done)
		w.api.mu.Lock()
		delete(w.api.watchers, w)
		w.api.mu.Unlock()
	})
}
func (w *vfkWatcher) ResultChan() <-chan watch.Event { return w.ch }

func vfkKey(ns, name string) string { return ns + "/" + name }

func (a *vfkAPI) emitLocked(t watch.EventType, o *v1alpha4.RuleSet) {
	ev := watch.Event{Type: t, Object: o.DeepCopy()}
	a.log = append(a.log, ev)
	for w := range a.watchers {
		select {
		case w.ch <- watch.Event{Type: t, Object: o.DeepCopy()}:
		case <-w.done:
		}
	}
}

func (a *vfkAPI) nextRV() string {
	a.rv++
	return strconv.FormatInt(a.rv, 10)
}

// create/update/delete are the harness' kubectl.
func (a *vfkAPI) create(o *v1alpha4.RuleSet, silent bool) *v1alpha4.RuleSet {
	a.mu.Lock()
	defer a.mu.Unlock()
	o = o.DeepCopy()
	o.ResourceVersion = a.nextRV()
	a.objs[vfkKey(o.Namespace, o.Name)] = o
	if !silent {
		a.emitLocked(watch.Added, o)
	}
	return o.DeepCopy()
}

func (a *vfkAPI) update(o *v1alpha4.RuleSet, silent bool) *v1alpha4.RuleSet {
	a.mu.Lock()
	defer a.mu.Unlock()
	o = o.DeepCopy()
	o.ResourceVersion = a.nextRV()
	a.objs[vfkKey(o.Namespace, o.Name)] = o
	if !silent {
		a.emitLocked(watch.Modified, o)
	}
	return o.DeepCopy()
}

func (a *vfkAPI) delete(ns, name string, silent bool) {
	a.mu.Lock()
	defer a.mu.Unlock()
	o := a.objs[vfkKey(ns, name)]
	if o == nil {
		return
	}
	delete(a.objs, vfkKey(ns, name))
	o = o.DeepCopy()
	o.ResourceVersion = a.nextRV()
	if !silent {
		a.emitLocked(watch.Deleted, o)
	}
}

func (a *vfkAPI) get(ns, name string) *v1alpha4.RuleSet {
	a.mu.Lock()
	defer a.mu.Unlock()
	if o := a.objs[vfkKey(ns, name)]; o != nil {
		return o.DeepCopy()
	}
	return nil
}

// breakWatches closes all watch streams; with expire the history is compacted as well, so that the
// informer cannot resume and has to list again.
func (a *vfkAPI) breakWatches(expire bool) {
	a.mu.Lock()
	if expire {
		a.compacted = a.rv + 1
		a.rv += 2
	}
	ws := make([]*vfkWatcher, 0, len(a.watchers))
	for w := range a.watchers {
		ws = append(ws, w)
	}
	a.mu.Unlock()
	for _, w := range ws {
		w.Stop()
		close(w.ch)
	}
}

func (a *vfkAPI) RuleSetRepository(ns string) v1alpha4.RuleSetRepository {
	return &vfkRepo{a: a, ns: ns}
}

type vfkRepo struct {
	a  *vfkAPI
	ns string
}

func (r *vfkRepo) List(_ context.Context, _ metav1.ListOptions) (*v1alpha4.RuleSetList, error) {
	a := r.a
	a.mu.Lock()
	defer a.mu.Unlock()
	a.lists++
	l := &v1alpha4.RuleSetList{ListMeta: metav1.ListMeta{ResourceVersion: strconv.FormatInt(a.rv, 10)}}
	for _, o := range a.objs {
		if r.ns == "" || o.Namespace == r.ns {
			l.Items = append(l.Items, *o.DeepCopy())
		}
	}
	return l, nil
}

var vfkGR = schema.GroupResource{Group: v1alpha4.GroupName, Resource: "rulesets"}

func (r *vfkRepo) Watch(_ context.Context, opts metav1.ListOptions) (watch.Interface, error) {
	a := r.a
	a.mu.Lock()
	defer a.mu.Unlock()
	from, _ := strconv.ParseInt(opts.ResourceVersion, 10, 64)
	if from < a.compacted {
		return nil, apierrors.NewResourceExpired(fmt.Sprintf("too old resource version: %d (%d)", from, a.compacted))
	}
	w := &vfkWatcher{api: a, ch: make(chan watch.Event, 4096), done: make(chan struct{})}
	for _, ev := range a.log {
		rv, _ := strconv.ParseInt(ev.Object.(*v1alpha4.RuleSet).ResourceVersion, 10, 64)
		if rv > from {
			w.ch <- watch.Event{Type: ev.Type, Object: ev.Object.DeepCopyObject()}
		}
	}
	a.watchers[w] = struct{}{}
	return w, nil
}

func (r *vfkRepo) Get(_ context.Context, key types.NamespacedName, _ metav1.GetOptions) (*v1alpha4.RuleSet, error) {
	if o := r.a.get(key.Namespace, key.Name); o != nil {
		return o, nil
	}
	return nil, apierrors.NewNotFound(vfkGR, key.Name)
}

// PatchStatus applies the provider's JSON patch like an API server: optimistic lock through the
// resourceVersion contained in the patch, status-only change, new resourceVersion, MODIFIED event.
func (r *vfkRepo) PatchStatus(_ context.Context, patch v1alpha4.Patch, _ metav1.PatchOptions) (*v1alpha4.RuleSet, error) {
	a := r.a
	data, err := patch.Data()
	if err != nil {
		return nil, apierrors.NewBadRequest(err.Error())
	}
	a.mu.Lock()
	defer a.mu.Unlock()
	a.patches++
	if a.patchErr != "" && patch.ResourceNamespace() != vfkSentinelNS {
		// the sentinels of the informer mode are not part of the workload: their patches never fail
		k := a.patchErr
		a.patchErr, a.patchErrHit = "", k
		a.patchErrs++
		return nil, vfkPatchError(k, patch)
	}
	cur := a.objs[vfkKey(patch.ResourceNamespace(), patch.ResourceName())]
	if cur == nil {
		return nil, apierrors.NewNotFound(vfkGR, patch.ResourceName())
	}
	if a.noPatch {
		return cur.DeepCopy(), nil
	}
	raw, _ := json.Marshal(cur)
	jp, err := jsonpatch.DecodePatch(data)
	if err != nil {
		return nil, apierrors.NewBadRequest(err.Error())
	}
	// the provider's patch is computed against a copy without resourceVersion and sets it to the version it saw
	var probe map[string]any
	_ = json.Unmarshal(raw, &probe)
	if md, ok := probe["metadata"].(map[string]any); ok {
		delete(md, "resourceVersion")
	}
	rawNoRV, _ := json.Marshal(probe)
	out, err := jp.Apply(rawNoRV)
	if err != nil {
		return nil, apierrors.NewInvalid(schema.GroupKind{Group: v1alpha4.GroupName, Kind: "RuleSet"}, patch.ResourceName(), nil)
	}
	var upd v1alpha4.RuleSet
	if err = json.Unmarshal(out, &upd); err != nil {
		return nil, apierrors.NewBadRequest(err.Error())
	}
	if upd.ResourceVersion != "" && upd.ResourceVersion != cur.ResourceVersion {
		a.conflicts++
		return nil, apierrors.NewConflict(vfkGR, patch.ResourceName(), fmt.Errorf("object was modified"))
	}
	n := cur.DeepCopy()
	n.Status = upd.Status
	n.ResourceVersion = a.nextRV()
	a.objs[vfkKey(n.Namespace, n.Name)] = n
	a.emitLocked(watch.Modified, n)
	return n.DeepCopy(), nil
}

// ---------------------------------------------------------------------------------------------
// world: what the harness knows about the RuleSet objects

type vfkRes struct {
	ns, name string
	exists   bool
	uidN     int
	obj      *v1alpha4.RuleSet // current object as stored in the API (exists) or as last seen (deleted)
	content  string
	valid    bool
}

type vfkWorld struct {
	tag     string
	version int
	res     map[string]*vfkRes // "r1", "r2"
	gone    []string           // logical sources (name:uid) that existed once and are gone now
}

// vfkRule: the first route is specific to this content id, the further ones are the stable paths of the object.
func vfkRule(id string, stable ...string) vfrc2.Rule {
	routes := []vfrc2.Route{{Path: "/" + strings.NewReplacer("#", "_", ":", "_").Replace(id)}}
	for _, p := range stable {
		routes = append(routes, vfrc2.Route{Path: p})
	}
	return vfrc2.Rule{ID: id, Matcher: vfrc2.Matcher{Routes: routes}, Execute: []config.MechanismConfig{{"authenticator": "a"}}}
}

// stablePath is the path expression every version and every re-created successor of resource l carries.
func (w *vfkWorld) stablePath(l string) string {
	return "/api/" + w.tag + l + "/:resource"
}

func (w *vfkWorld) logical(l string) string {
	r := w.res[l]
	return fmt.Sprintf("%s:uid%d", l, r.uidN)
}

func (w *vfkWorld) newObj(l string, valid bool) *v1alpha4.RuleSet {
	r := w.res[l]
	r.uidN++
	w.version++
	id := fmt.Sprintf("%s%s#%d", w.tag, l, w.version)
	if !valid {
		id = "refused-" + id
	}
	r.content, r.valid = id, valid
	return &v1alpha4.RuleSet{
		TypeMeta:   metav1.TypeMeta{APIVersion: v1alpha4.GroupName + "/" + v1alpha4.GroupVersion, Kind: "RuleSet"},
		ObjectMeta: metav1.ObjectMeta{Name: r.name, Namespace: r.ns, UID: types.UID(fmt.Sprintf("%s%s-uid-%d", w.tag, l, r.uidN)), Generation: 1, CreationTimestamp: metav1.NewTime(time.Unix(1700000000, 0))},
		Spec:       v1alpha4.RuleSetSpec{AuthClassName: DefaultClass, Rules: []vfrc2.Rule{vfkRule(id, w.stablePath(l))}},
	}
}

func (w *vfkWorld) newSpec(l string, valid bool) *v1alpha4.RuleSet {
	r := w.res[l]
	w.version++
	id := fmt.Sprintf("%s%s#%d", w.tag, l, w.version)
	if !valid {
		id = "refused-" + id
	}
	r.content, r.valid = id, valid
	o := r.obj.DeepCopy()
	o.Generation++
	o.Spec.Rules = []vfrc2.Rule{vfkRule(id, w.stablePath(l))}
	return o
}

// state of the logical source of resource l (current uid) for this heimdall instance
func (w *vfkWorld) state(l string) vfState {
	r := w.res[l]
	switch {
	case !r.exists || r.obj.Spec.AuthClassName != DefaultClass:
		return vfState{Kind: vfGone}
	case !r.valid:
		return vfState{Kind: vfInvalid}
	}
	return vfState{Kind: vfValid, Content: r.content}
}

func (w *vfkWorld) holder(content string) string {
	for l, r := range w.res {
		if r.exists && r.content == content {
			return w.logical(l)
		}
	}
	return ""
}

func vfkReject(content string) bool { return strings.HasPrefix(content, "refused-") }

// live: the logical source ls is the current incarnation of an object this heimdall instance is responsible for
func (w *vfkWorld) live(ls string) bool {
	for l := range w.res {
		if w.logical(l) == ls && w.state(l).Kind != vfGone {
			return true
		}
	}
	return false
}

// ---------------------------------------------------------------------------------------------
// recording processor with the path ownership rule of heimdall's rule repository

// vfkClash is one OnCreated/OnUpdated the processor refused because a path was held by another source.
type vfkClash struct {
	Op      string // C or U
	Source  string // source of the refused rule set
	Content string
	Path    string
	Owner   string // source whose loaded rule set holds Path
}

// vfkProc is the rule.SetProcessor handed to the provider. It records through the shared vfRecorder and refuses,
// like repository.AddRuleSet/UpdateRuleSet do (radix tree value constraint "only rules from the same rule set
// can be placed in one node", see TestRepositoryAddRuleSetWithViolation), a rule set with a path expression
// that a loaded rule set of another source holds. Paths are released when the holder is deleted or replaced by
// an update without them; a refused or failed call changes nothing.
type vfkProc struct {
	mu      sync.Mutex
	rec     *vfRecorder
	paths   map[string]string // path expression -> Source of the loaded rule set holding it
	clash   bool              // the call being recorded claims a path of another source
	clashes []vfkClash        // since the last takeClashes()
}

func vfkNewProc() *vfkProc {
	p := &vfkProc{rec: vfNewRecorder(), paths: map[string]string{}}
	p.rec.reject = func(content string) bool { return vfkReject(content) || p.clash } // called by rec.record, i.e. under p.mu
	return p
}

func (p *vfkProc) release(src string) {
	for path, owner := range p.paths {
		if owner == src {
			delete(p.paths, path)
		}
	}
}

func (p *vfkProc) load(op string, rs *vfrc2.RuleSet, record func(*vfrc2.RuleSet) error) error {
	p.mu.Lock()
	defer p.mu.Unlock()
	var cl *vfkClash
	for _, r := range rs.Rules {
		for _, rt := range r.Matcher.Routes {
			if owner, held := p.paths[rt.Path]; held && owner != rs.Source && cl == nil {
				cl = &vfkClash{Op: op, Source: rs.Source, Path: rt.Path, Owner: owner}
				if len(rs.Rules) > 0 {
					cl.Content = rs.Rules[0].ID
				}
			}
		}
	}
	p.clash = cl != nil
	err := record(rs)
	p.clash = false
	if cl != nil {
		p.clashes = append(p.clashes, *cl)
		return err
	}
	if err == nil {
		p.release(rs.Source)
		for _, r := range rs.Rules {
			for _, rt := range r.Matcher.Routes {
				p.paths[rt.Path] = rs.Source
			}
		}
	}
	return err
}

func (p *vfkProc) OnCreated(rs *vfrc2.RuleSet) error { return p.load("C", rs, p.rec.OnCreated) }
func (p *vfkProc) OnUpdated(rs *vfrc2.RuleSet) error { return p.load("U", rs, p.rec.OnUpdated) }

func (p *vfkProc) OnDeleted(rs *vfrc2.RuleSet) error {
	p.mu.Lock()
	defer p.mu.Unlock()
	err := p.rec.OnDeleted(rs)
	if err == nil {
		p.release(rs.Source)
	}
	return err
}

func (p *vfkProc) takeClashes() []vfkClash {
	p.mu.Lock()
	defer p.mu.Unlock()
	c := p.clashes
	p.clashes = nil
	return c
}

// vfkPending is taken before a step is judged: the sources whose last call failed by injection at that time.
func vfkPending(o *vfOracle) map[string]bool {
	m := make(map[string]bool, len(o.dirty))
	for l, d := range o.dirty {
		m[l] = d
	}
	return m
}

// vfkJudgeClashes is called after o.step, which treats every failed call like an injected failure (the change
// stays pending, nothing is promised). That is right for a refusal whose path holder could not be unloaded
// because of an injected failure. Any other refusal of the valid content of an existing source means that the
// provider asked for it while a rule set that has to be gone (or was never to be loaded) still held the path:
// the source is not converging although nothing failed.
func vfkJudgeClashes(o *vfOracle, w *vfkWorld, idx int, s *vfStep, pending map[string]bool, calls []vfCall, clashes []vfkClash) {
	for _, c := range clashes {
		o.stat.add("k8s_path_clash_refusals", 1)
		l := s.Holder(c.Content)
		if l == "" || s.States[l].Kind != vfValid {
			continue // refused content, or already reported by o.step as content nobody holds
		}
		ownerL := o.keyOf[c.Owner]
		unloadFailed := ownerL != "" && pending[ownerL]
		for _, k := range calls {
			if k.Op == "D" && k.Source == c.Owner && k.Failed {
				unloadFailed = true
			}
		}
		switch {
		case unloadFailed:
			o.stat.add("k8s_path_clash_behind_failed_unload", 1)
		case ownerL != "" && w.live(ownerL):
			o.stat.add("k8s_path_clash_between_live_sources_unasserted", 1) // not generated: r1 and r2 share no path
		default:
			st := s.States[l]
			delete(o.dirty, l) // nothing was injected: the final check judges this source
			o.addMismatch(idx, s, vfMismatch{Kind: "valid-content-refused-path-held-by-removed-source", Source: l, State: st.String(),
				Expected: "loaded: " + c.Path + " is claimed by no other existing source",
				Observed: fmt.Sprintf("%s(%s=%s) refused by the repository rule: %s is held by the loaded rule set of %s (%s), which is unloaded afterwards or never",
					c.Op, c.Source, c.Content, c.Path, c.Owner, ownerL), st: st})
		}
	}
}

// ---------------------------------------------------------------------------------------------

const (
	vfkSigClash      = "k8s-replacement-refused-predecessor-still-loaded"
	vfkSigActiveIn   = "k8s-status-activein-without-slash-panics"
	vfkSigPatchPlain = "k8s-status-patch-plain-error-panics"
)

func vfkClassifier(o *vfOracle) func(m *vfMismatch, s *vfStep) string {
	panicSig := map[int]string{} // step -> narrow signature of the panic that ended its handler
	return func(m *vfMismatch, s *vfStep) string {
		switch {
		case m.Kind == "provider-panic" && strings.Contains(m.Observed, "index out of range") && s.Ctx["active_in_without_slash"] != "":
			// updateStatus splits status.activeIn at "/" and reads both parts
			panicSig[m.Step] = vfkSigActiveIn
			return vfkSigActiveIn
		case m.Kind == "provider-panic" && strings.Contains(m.Observed, "nil pointer") && s.Ctx["patch_error_plain"] != "":
			// updateStatus takes every PatchStatus error for a *StatusError
			panicSig[m.Step] = vfkSigPatchPlain
			return vfkSigPatchPlain
		case m.Kind == "missing-call" && panicSig[m.Step] != "":
			// the handler was left by the panic before it made its further calls
			return panicSig[m.Step]
		case m.Kind == "valid-content-refused-path-held-by-removed-source" && s.Ctx["replaced"] != "":
			// same namespace/name, new UID, seen as one update: the new object's rule set is handed over while the
			// old object's rule set still holds the paths both have in common
			return vfkSigClash
		case m.Source != "" && (o.taint[m.Source] == vfkSigClash || o.taint[m.Source] == vfkSigActiveIn || o.taint[m.Source] == vfkSigPatchPlain):
			// follow-up of the first divergence of this source
			return o.taint[m.Source]
		case s.Ctx["tombstone"] != "" && (m.Kind == "provider-panic" || m.Kind == "missing-call"):
			// a deletion noticed by a re-list is delivered as cache.DeletedFinalStateUnknown; filter() asserts *RuleSet
			return "k8s-tombstone-delete-panics"
		case s.Ctx["replaced"] != "" && (m.Kind == "missing-call" || m.Kind == "final-stale-rule-set" || m.Kind == "final-not-latest-valid-content"):
			// same namespace/name, new UID, seen as one update: the old UID's rule set is never unloaded and, when the
			// generations are equal, the new one is never loaded
			return "k8s-replaced-object-not-reloaded"
		}
		return ""
	}
}

// vfkCtx is the context of one step for the classifier: kv plus whether one of the objects handed to the
// provider carries a status.activeIn without "/".
func vfkCtx(kv map[string]string, objs ...*v1alpha4.RuleSet) map[string]string {
	ctx := map[string]string{}
	for k, v := range kv {
		ctx[k] = v
	}
	for _, o := range objs {
		if o != nil && o.Status.ActiveIn != "" && !strings.Contains(o.Status.ActiveIn, "/") {
			ctx["active_in_without_slash"] = o.Status.ActiveIn
		}
	}
	return ctx
}

// vfkForeignActiveIn are values of status.activeIn (a free-form string of at most 7 characters for the CRD) that
// something else than this heimdall version left there.
var vfkForeignActiveIn = []string{"3", "", "1/2/3", "one/two", "/", "12", "2/", "n/a", "-"}

func vfkPickActiveIn(k int, st *vfStats) string {
	v := vfkForeignActiveIn[k%len(vfkForeignActiveIn)]
	st.add(fmt.Sprintf("k8s_foreign_active_in[%q]", v), 1)
	return v
}

func vfkPickPatchErr(k int, st *vfStats) string {
	v := vfkPatchErrKinds[k%len(vfkPatchErrKinds)]
	st.add("k8s_status_patch_error_armed["+v+"]", 1)
	return v
}

func TestC18(t *testing.T) {
	r := core.Begin("C18", "fault_enumeration")
	r.Rule("kubernetes: exhaustive sequences (length <=4 quick / <=5 thorough) over 14 symbols (r1: new spec, spec refused by the processor, status-only update, resync, delete, auth class away/back, " +
		"replaced during a watch outage, deleted during a watch outage, status-only update leaving a foreign status.activeIn; r2: new spec, delete; processor failure; failing status patch " +
		"(connection refused, deadline, 500, 503, 429)) delivered as informer notifications to the provider's filter/add/update/delete " +
		"handlers; plus seeded sequences through newProvider+Start with the real client-go informer against an in-memory API (watch restarts, expired watches with re-list, status patches feeding " +
		"back as MODIFIED events). Oracle: vfDecide per notification on the object's actual state, active rule sets = latest valid spec of existing matching RuleSets at the end. " +
		"The recording processor enforces the path ownership rule of heimdall's rule repository (a path expression held by the loaded rule set of one source cannot be claimed by another source); " +
		"all versions of an object and its re-created successors share one path expression, so a successor can only be loaded after its predecessor has been unloaded. " +
		"Non-trivial: >=2 successful processor calls.")
	r.Assume("the API server is an in-memory fake of the v1alpha4.Client interface (list, watch with resourceVersion, 410 on compacted history, optimistic-lock status patch)",
		"handlers mode composes filter/add/update/delete exactly like provider.newController does (cache.FilteringResourceEventHandler)",
		"content the processor refuses stands for an invalid rule set: the provider itself does not validate",
		"the path ownership rule of internal/rules/repository_impl.go (radix tree value constraint, TestRepositoryAddRuleSetWithViolation) is modelled on equal path expressions; "+
			"the real repository cannot be imported here (internal/rules imports the provider packages)",
		"status.activeIn is a string of at most 7 characters for the CRD (charts/heimdall/crds/ruleset.yaml, no pattern): values without \"/\" can be stored by anything that may write the status",
		"a status patch that gets no HTTP response is returned by client-go's REST client as *url.Error, not as *StatusError")

	if prov, mode, names, _, ok := vfReplayCase(r); ok {
		if seq, known := vfSymbols(names, vfkNames[:]); prov == "kubernetes" && known {
			st := &vfStats{}
			if mode == "handlers" {
				vfkRunHandlers(r, seq, st)
			} else {
				vfkInstallPanicRecorder()
				vfkRunInformer(r, 0, seq, st)
			}
			r.Eval(1)
			vfFlushStats(r, st)
		}
		r.End()
	}
	t0 := time.Now()
	vfkHandlers(r)
	r.Set("k8s_handlers_wall_s", time.Since(t0).Seconds())
	t0 = time.Now()
	vfkInformer(r)
	r.Set("k8s_informer_wall_s", time.Since(t0).Seconds())

	r.Set("exhaustive_subspace", "all sequences up to k8s_max_sequence_length over k8s_alphabet in handlers mode; informer mode is a seeded sample")
	r.Require("k8s_handler_sequences", r.Counter("k8s_handler_sequences"), 10000)
	r.Require("k8s_calls_created", r.Counter("calls_C"), 1000)
	r.Require("k8s_calls_updated", r.Counter("calls_U"), 1000)
	r.Require("k8s_calls_deleted", r.Counter("calls_D"), 1000)
	r.Require("k8s_unchanged_no_call_steps", r.Counter("steps_unchanged_expect_no_call"), 1000)
	r.Require("k8s_refused_content_steps", r.Counter("invalid_content_refused_by_processor"), 500)
	r.Require("k8s_informer_steps_quiesced", r.Counter("k8s_informer_steps_quiesced"), 30)
	r.Require("k8s_replacements_reusing_paths", r.Counter("k8s_replacements_reusing_paths"), 1000)
	r.Require("k8s_path_clash_refusals", r.Counter("k8s_path_clash_refusals"), 20)
	r.End()
}

func vfkSeqNames(d []int) []string {
	out := make([]string, len(d))
	for i, s := range d {
		out[i] = vfkNames[s]
	}
	return out
}

// ---------------------------------------------------------------------------------------------
// handlers mode

func vfkHandlers(r *core.Run) {
	maxLen := r.Pick(4, 5)
	for n := 1; n <= maxLen; n++ {
		total := vfPow(vfkN, n)
		vfParallel(r, total, func(wk int) (func(int, *vfStats), func()) {
			book := &vfCaseBook{}
			digits := make([]int, n)
			run := func(idx int, st *vfStats) {
				vfDigits(idx, vfkN, n, digits)
				nOK, bad := vfkRunHandlers(r, digits, st)
				book.add(fmt.Sprint("k8s|", digits), nOK >= 2)
				st.add("k8s_handler_sequences", 1)
				if bad {
					st.add("k8s_handler_sequences_with_mismatch", 1)
				}
				if n == 3 && idx == total/2 {
					r.Sample(map[string]any{"provider": "kubernetes", "mode": "handlers", "sequence": vfkSeqNames(digits)})
				}
			}
			return run, func() { book.flush(r) }
		})
	}
	r.Set("k8s_alphabet", vfkNames[:])
	r.Set("k8s_max_sequence_length", maxLen)
}

func vfkRunHandlers(r *core.Run, seq []int, st *vfStats) (int, bool) {
	api := vfkNewAPI()
	api.noPatch = true
	proc := vfkNewProc()
	rec := proc.rec
	o := vfNewOracle(st)
	classify := vfkClassifier(o)
	p := &provider{p: proc, l: zerolog.Nop(), cl: api, ac: DefaultClass, id: "verif", configured: true}
	h := cache.FilteringResourceEventHandler{
		FilterFunc: p.filter,
		Handler:    cache.ResourceEventHandlerFuncs{AddFunc: p.addRuleSet, DeleteFunc: p.deleteRuleSet, UpdateFunc: p.updateRuleSet},
	}
	w := &vfkWorld{res: map[string]*vfkRes{"r1": {ns: "ns1", name: "r1"}, "r2": {ns: "ns2", name: "r2"}}}
	salt := vfDocSalt(seq, 0) // members of the symbol classes are a function of the sequence (replay writes the same)
	step := 0
	// notify runs one handler invocation and checks it; states are the logical sources concerned
	notify := func(action string, states map[string]vfState, ctx map[string]string, fn func()) {
		step++
		s := &vfStep{Action: action, States: states, Holder: w.holder, Classify: classify, Generic: vfGenericK8s, Ctx: ctx,
			NoRetry: true} // the provider keeps no state: a change whose processor call failed is not retried by later notifications
		var panicked any
		func() {
			defer func() { panicked = recover() }()
			fn()
		}()
		calls := rec.take()
		if k := api.takePatchErr(); k != "" {
			st.add("k8s_status_patch_error_delivered["+k+"]", 1)
			if vfkIsPlainPatchErr(k) {
				ctx["patch_error_plain"] = k
			}
		}
		if panicked != nil {
			o.addMismatch(step, s, vfMismatch{Kind: "provider-panic", Observed: fmt.Sprint(panicked)})
			st.add("k8s_handler_panics", 1)
		}
		pending := vfkPending(o)
		o.step(step, s, calls)
		vfkJudgeClashes(o, w, step, s, pending, calls, proc.takeClashes())
		st.add("k8s_notifications", 1)
	}
	for pos, sym := range seq {
		l := "r1"
		if sym == vfkApply2 || sym == vfkDelete2 {
			l = "r2"
		}
		res := w.res[l]
		switch sym {
		case vfkFail:
			rec.armFailure()
		case vfkPatchErr:
			api.armPatchErr(vfkPickPatchErr(salt+pos, st))
		case vfkApply1, vfkApply2, vfkInvalid1:
			valid := sym != vfkInvalid1
			if !res.exists {
				obj := api.create(w.newObj(l, valid), true)
				res.exists, res.obj = true, obj
				notify(vfkNames[sym]+": ADDED", map[string]vfState{w.logical(l): w.state(l)}, vfkCtx(nil, obj), func() { h.OnAdd(obj, false) })
			} else {
				old := res.obj
				obj := api.update(w.newSpec(l, valid), true)
				res.obj = obj
				notify(vfkNames[sym]+": MODIFIED (generation+1)", map[string]vfState{w.logical(l): w.state(l)}, vfkCtx(nil, old, obj), func() { h.OnUpdate(old, obj) })
			}
		case vfkStatus1, vfkStatusOdd1:
			if res.exists {
				old := res.obj
				n := old.DeepCopy()
				n.Status.ActiveIn = fmt.Sprintf("%d/9", step)
				if sym == vfkStatusOdd1 {
					n.Status.ActiveIn = vfkPickActiveIn(salt+pos, st)
				}
				obj := api.update(n, true)
				res.obj = obj
				notify(vfkNames[sym]+": MODIFIED (same generation, status.activeIn="+strconv.Quote(n.Status.ActiveIn)+")", map[string]vfState{w.logical(l): w.state(l)},
					vfkCtx(nil, old, obj), func() { h.OnUpdate(old, obj) })
			}
		case vfkResync1:
			if res.exists {
				obj := res.obj
				notify(vfkNames[sym]+": update(old==new)", map[string]vfState{w.logical(l): w.state(l)}, vfkCtx(nil, obj), func() { h.OnUpdate(obj, obj) })
			}
		case vfkDelete1, vfkDelete2, vfkTombstone1:
			if res.exists {
				last := res.obj
				api.delete(res.ns, res.name, true)
				res.exists = false
				w.gone = append(w.gone, w.logical(l))
				if sym == vfkTombstone1 {
					tomb := cache.DeletedFinalStateUnknown{Key: res.ns + "/" + res.name, Obj: last}
					notify(vfkNames[sym]+": delete(DeletedFinalStateUnknown)", map[string]vfState{w.logical(l): w.state(l)}, vfkCtx(map[string]string{"tombstone": "1"}, last),
						func() { h.OnDelete(tomb) })
				} else {
					notify(vfkNames[sym]+": DELETED", map[string]vfState{w.logical(l): w.state(l)}, vfkCtx(nil, last), func() { h.OnDelete(last) })
				}
			}
		case vfkClassAway1, vfkClassBack1:
			if res.exists {
				class := "other-class"
				if sym == vfkClassBack1 {
					class = DefaultClass
				}
				if res.obj.Spec.AuthClassName != class {
					old := res.obj
					n := old.DeepCopy()
					n.Generation++
					n.Spec.AuthClassName = class
					obj := api.update(n, true)
					res.obj = obj
					notify(vfkNames[sym]+": MODIFIED (generation+1)", map[string]vfState{w.logical(l): w.state(l)}, vfkCtx(nil, old, obj), func() { h.OnUpdate(old, obj) })
				}
			}
		case vfkReplace1:
			if res.exists {
				old := res.obj
				oldLogical := w.logical(l)
				api.delete(res.ns, res.name, true)
				w.gone = append(w.gone, oldLogical)
				obj := api.create(w.newObj(l, true), true)
				res.obj = obj
				st.add("k8s_replacements_reusing_paths", 1)
				notify(vfkNames[sym]+": re-list reports update(old UID, new UID)", map[string]vfState{oldLogical: {Kind: vfGone}, w.logical(l): w.state(l)},
					vfkCtx(map[string]string{"replaced": "1"}, old, obj), func() { h.OnUpdate(old, obj) })
			}
		}
	}
	truth := map[string]vfState{}
	for _, g := range w.gone {
		truth[g] = vfState{Kind: vfGone}
	}
	for l, res := range w.res {
		if res.uidN > 0 && res.exists {
			truth[w.logical(l)] = w.state(l)
		}
	}
	replaced := map[string]string{}
	for _, sym := range seq {
		if sym == vfkReplace1 {
			replaced["replaced"] = "1"
		}
	}
	o.final(step+1, truth, rec.snapshot(), &vfStep{Classify: classify, Generic: vfGenericK8s, Ctx: replaced})
	bad := o.report(r, "kubernetes", "handlers", vfkSeqNames(seq), "")
	return o.nOK, bad
}

// ---------------------------------------------------------------------------------------------
// informer mode

var vfkPanics struct {
	mu  sync.Mutex
	log []string
}

// vfkInstallPanicRecorder: a panic on the informer goroutine would end the test binary; it is recorded
// instead (and reported as a violation of the step in which it happened).
func vfkInstallPanicRecorder() {
	utilruntime.ReallyCrash = false
	utilruntime.PanicHandlers = append(utilruntime.PanicHandlers, func(_ context.Context, p any) {
		vfkPanics.mu.Lock()
		vfkPanics.log = append(vfkPanics.log, fmt.Sprint(p))
		vfkPanics.mu.Unlock()
	})
}

func vfkInformer(r *core.Run) {
	vfkInstallPanicRecorder()
	nSeq := r.Pick(16, 122)
	seqLen := r.Pick(6, 8)
	rng := r.Stream("c18-k8s-informer")
	st := &vfStats{}
	book := &vfCaseBook{}
	defer func() {
		for k, v := range st.m {
			r.Count(k, v)
		}
		book.flush(r)
	}()
	fixed := [][]int{
		{vfkApply1, vfkStatus1, vfkApply1, vfkInvalid1, vfkApply1, vfkClassAway1, vfkClassBack1, vfkDelete1},
		{vfkApply1, vfkApply2, vfkReplace1, vfkDelete2},
		{vfkApply1, vfkTombstone1, vfkApply2},
		{vfkApply1, vfkApply1, vfkReplace1, vfkApply1, vfkReplace1},
		{vfkApply1, vfkStatusOdd1, vfkApply1, vfkPatchErr, vfkApply2, vfkApply1},
		// a refused new version (the loaded one stays, the status the provider wrote says "activation failed" and comes back with
		// the next events) directly followed by each way the object can leave this instance
		{vfkApply1, vfkInvalid1, vfkDelete1, vfkApply2},
		{vfkApply1, vfkInvalid1, vfkClassAway1, vfkApply2},
		{vfkApply1, vfkInvalid1, vfkReplace1},
		{vfkApply1, vfkInvalid1, vfkTombstone1, vfkApply2},
	}
	for n := 0; n < nSeq; n++ {
		var seq []int
		if n < len(fixed) {
			seq = fixed[n]
		} else {
			seq = make([]int, seqLen)
			for i := range seq {
				seq[i] = rng.IntN(vfkN)
				// re-lists cost a client-go back-off of about a second each: only every fourth sequence may contain them
				if (seq[i] == vfkReplace1 || seq[i] == vfkTombstone1) && n%4 != 0 {
					seq[i] = vfkResync1
				}
			}
		}
		nOK, ok := vfkRunInformer(r, n, seq, st)
		if !ok {
			return
		}
		book.add(fmt.Sprint("k8si|", seq), nOK >= 2)
		st.add("k8s_informer_sequences", 1)
		if n == len(fixed) {
			r.Sample(map[string]any{"provider": "kubernetes", "mode": "informer", "sequence": vfkSeqNames(seq)})
		}
	}
}

func vfkRunInformer(r *core.Run, n int, seq []int, st *vfStats) (int, bool) {
	api := vfkNewAPI()
	proc := vfkNewProc()
	rec := proc.rec
	o := vfNewOracle(st)
	classify := vfkClassifier(o)
	salt := vfDocSalt(seq, 0) // as in handlers mode: members are a function of the sequence and the position
	var mu sync.Mutex
	waiting := map[string]chan struct{}{}
	rec.notify = func(c vfCall) {
		if c.Op != "C" {
			return
		}
		mu.Lock()
		ch := waiting[c.Content]
		delete(waiting, c.Content)
		mu.Unlock()
		if ch != nil {
			close(ch)
		}
	}
	conf := &config.Configuration{Providers: config.RuleProviders{Kubernetes: map[string]any{}}}
	prov, err := newProvider(zerolog.Nop(), conf, func() (*rest.Config, error) { return &rest.Config{Host: "http://127.0.0.1:1"}, nil }, proc, nil)
	if err != nil {
		r.Inconclusive("k8s informer: newProvider: " + err.Error())
		return 0, false
	}
	prov.cl = api // in-memory API instead of the REST client
	if err = prov.Start(context.Background()); err != nil {
		r.Inconclusive("k8s informer: Start: " + err.Error())
		return 0, false
	}
	// stop: Stop() writes the status of every RuleSet in the store on the caller's goroutine
	stopped := false
	stop := func() (panicked any) {
		if stopped {
			return nil
		}
		stopped = true
		defer api.breakWatches(false)
		defer func() { panicked = recover() }()
		ctx, cancel := context.WithTimeout(context.Background(), 5*time.Second)
		defer cancel()
		_ = prov.Stop(ctx)
		return nil
	}
	defer stop()
	w := &vfkWorld{tag: fmt.Sprintf("i%d-", n), res: map[string]*vfkRes{"r1": {ns: "ns1", name: "r1"}, "r2": {ns: "ns2", name: "r2"}}}
	sentinelSources := map[string]bool{}
	nSent := 0
	quiesce := func() bool {
		nSent++
		id := fmt.Sprintf("sentinel-%d-%d", n, nSent)
		ch := make(chan struct{})
		mu.Lock()
		waiting[id] = ch
		mu.Unlock()
		api.create(&v1alpha4.RuleSet{
			TypeMeta:   metav1.TypeMeta{APIVersion: v1alpha4.GroupName + "/" + v1alpha4.GroupVersion, Kind: "RuleSet"},
			ObjectMeta: metav1.ObjectMeta{Name: fmt.Sprintf("zz-sentinel-%d", nSent), Namespace: vfkSentinelNS, UID: types.UID(id), Generation: 1},
			Spec:       v1alpha4.RuleSetSpec{AuthClassName: DefaultClass, Rules: []vfrc2.Rule{vfkRule(id)}},
		}, false)
		select {
		case <-ch:
		case <-time.After(30 * time.Second):
			r.Inconclusive(fmt.Sprintf("k8s informer: sentinel %s not observed within the watchdog (sequence %v)", id, vfkSeqNames(seq)))
			return false
		}
		return true
	}
	filter := func(calls []vfCall) []vfCall {
		out := calls[:0]
		for _, c := range calls {
			if strings.HasPrefix(c.Content, "sentinel-") {
				sentinelSources[c.Source] = true
				continue
			}
			if sentinelSources[c.Source] {
				continue
			}
			out = append(out, c)
		}
		return out
	}
	takePanics := func() []string {
		vfkPanics.mu.Lock()
		defer vfkPanics.mu.Unlock()
		p := vfkPanics.log
		vfkPanics.log = nil
		return p
	}
	_ = takePanics() // nothing of an earlier sequence
	if !quiesce() {  // informer has listed and is watching
		return 0, false
	}
	_ = filter(rec.take())
	// seen: the objects of the workload as the API holds them now plus the one removed in this step
	seen := func(removed *v1alpha4.RuleSet) []*v1alpha4.RuleSet {
		out := []*v1alpha4.RuleSet{removed}
		for _, res := range w.res {
			out = append(out, api.get(res.ns, res.name))
		}
		return out
	}
	plainPatchErr := "" // once delivered it is kept for the later steps of the sequence
	step := 0
	for pos, sym := range seq {
		step++
		l := "r1"
		if sym == vfkApply2 || sym == vfkDelete2 {
			l = "r2"
		}
		res := w.res[l]
		states := map[string]vfState{}
		ctx := map[string]string{}
		acted := false
		var removed *v1alpha4.RuleSet
		switch sym {
		case vfkFail:
			rec.armFailure()
		case vfkPatchErr:
			api.armPatchErr(vfkPickPatchErr(salt+pos, st))
		case vfkApply1, vfkApply2, vfkInvalid1:
			valid := sym != vfkInvalid1
			if !res.exists {
				res.obj = api.create(w.newObj(l, valid), false)
				res.exists = true
			} else {
				cur := api.get(res.ns, res.name) // status patches of the provider have moved the object on
				res.obj = cur
				res.obj = api.update(w.newSpec(l, valid), false)
			}
			acted = true
		case vfkStatus1, vfkStatusOdd1:
			if res.exists {
				cur := api.get(res.ns, res.name)
				cur.Status.ActiveIn = fmt.Sprintf("%d/9", step)
				if sym == vfkStatusOdd1 {
					cur.Status.ActiveIn = vfkPickActiveIn(salt+pos, st)
				}
				res.obj = api.update(cur, false)
				acted = true
			}
		case vfkResync1:
			if res.exists {
				// a broken and resumed watch: the informer continues from its last resourceVersion
				api.breakWatches(false)
				st.add("k8s_informer_watch_restarts", 1)
				acted = true
			}
		case vfkDelete1, vfkDelete2:
			if res.exists {
				removed = api.get(res.ns, res.name)
				api.delete(res.ns, res.name, false)
				res.exists = false
				w.gone = append(w.gone, w.logical(l))
				acted = true
			}
		case vfkClassAway1, vfkClassBack1:
			class := "other-class"
			if sym == vfkClassBack1 {
				class = DefaultClass
			}
			if res.exists {
				cur := api.get(res.ns, res.name)
				if cur.Spec.AuthClassName != class {
					cur.Generation++
					cur.Spec.AuthClassName = class
					res.obj = api.update(cur, false)
					acted = true
				}
			}
		case vfkReplace1, vfkTombstone1:
			if res.exists {
				// the change happens while no watch is connected and the history is compacted: re-list
				oldLogical := w.logical(l)
				removed = api.get(res.ns, res.name)
				api.delete(res.ns, res.name, true)
				w.gone = append(w.gone, oldLogical)
				states[oldLogical] = vfState{Kind: vfGone}
				if sym == vfkReplace1 {
					res.obj = api.create(w.newObj(l, true), true)
					ctx["replaced"] = "1"
					st.add("k8s_replacements_reusing_paths", 1)
				} else {
					res.exists = false
					ctx["tombstone"] = "1"
				}
				api.breakWatches(true)
				st.add("k8s_informer_relists_forced", 1)
				acted = true
			}
		}
		if !acted {
			o.trace = append(o.trace, vfTraceStep{Step: step, Action: vfkNames[sym] + " (nothing to do)", Calls: []string{}})
			continue
		}
		ctx = vfkCtx(ctx, seen(removed)...)
		if res.exists || sym == vfkReplace1 {
			states[w.logical(l)] = w.state(l)
		} else if _, ok := states[w.logical(l)]; !ok {
			states[w.logical(l)] = w.state(l)
		}
		// the sentinel's own OnCreated must not consume an injected failure meant for this change
		if rec.armed() {
			expectCall := false
			for ls, s := range states {
				a, ok := o.applied[ls]
				if e := vfDecide(a, ok, s); e.Op != "" || s.Kind == vfInvalid {
					expectCall = true
				}
			}
			if !expectCall {
				rec.disarm()
			}
		}
		if !quiesce() {
			return 0, false
		}
		if sym == vfkReplace1 || sym == vfkTombstone1 {
			// a re-list queues its deltas in arbitrary order (the first sentinel may be among them); a second
			// sentinel, created afterwards, is queued behind all of them
			if !quiesce() {
				return 0, false
			}
		}
		st.add("k8s_informer_steps_quiesced", 1)
		if k := api.takePatchErr(); k != "" {
			st.add("k8s_status_patch_error_delivered["+k+"]", 1)
			if vfkIsPlainPatchErr(k) {
				plainPatchErr = k
			}
		}
		if plainPatchErr != "" {
			ctx["patch_error_plain"] = plainPatchErr
		}
		s := &vfStep{Action: vfkNames[sym] + " (real informer, quiesced)", States: states, Holder: w.holder, Classify: classify, Generic: vfGenericK8s, Ctx: ctx,
			NoRetry: true}
		for _, p := range takePanics() {
			o.addMismatch(step, s, vfMismatch{Kind: "provider-panic", Observed: p})
			st.add("k8s_informer_panics", 1)
		}
		pending := vfkPending(o)
		calls := filter(rec.take())
		o.step(step, s, calls)
		vfkJudgeClashes(o, w, step, s, pending, calls, proc.takeClashes())
	}
	// graceful stop: the status of every RuleSet still in the store is written
	step++
	sctx := vfkCtx(nil, seen(nil)...)
	sp := stop()
	if k := api.takePatchErr(); k != "" {
		st.add("k8s_status_patch_error_delivered["+k+"]", 1)
		if vfkIsPlainPatchErr(k) {
			plainPatchErr = k
		}
	}
	if plainPatchErr != "" {
		sctx["patch_error_plain"] = plainPatchErr
	}
	ss := &vfStep{Action: "Stop()", Classify: classify, Generic: vfGenericK8s, Ctx: sctx}
	if sp != nil {
		o.addMismatch(step, ss, vfMismatch{Kind: "provider-panic", Observed: fmt.Sprint(sp)})
		st.add("k8s_informer_panics", 1)
	}
	for _, p := range takePanics() {
		o.addMismatch(step, ss, vfMismatch{Kind: "provider-panic", Observed: p})
		st.add("k8s_informer_panics", 1)
	}
	o.trace = append(o.trace, vfTraceStep{Step: step, Action: "Stop()", Calls: []string{}})
	truth := map[string]vfState{}
	for _, g := range w.gone {
		truth[g] = vfState{Kind: vfGone}
	}
	for l, res := range w.res {
		if res.uidN > 0 && res.exists {
			truth[w.logical(l)] = w.state(l)
		}
	}
	active := rec.snapshot()
	for s := range sentinelSources {
		delete(active, s)
	}
	fctx := map[string]string{}
	for _, sym := range seq {
		if sym == vfkReplace1 {
			fctx["replaced"] = "1"
		}
	}
	o.final(step+1, truth, active, &vfStep{Classify: classify, Generic: vfGenericK8s, Ctx: fctx})
	o.report(r, "kubernetes", "informer", vfkSeqNames(seq), "")
	api.mu.Lock()
	st.add("k8s_informer_status_patches", int(api.patches))
	st.add("k8s_informer_status_patch_conflicts", int(api.conflicts))
	st.add("k8s_informer_lists", int(api.lists))
	api.mu.Unlock()
	return o.nOK, true
}
