package proxy

// C09 — "Forwarded headers from untrusted peers never influence a decision".
//
// This file is shared verbatim between harness/inpkg/decision and harness/inpkg/proxy (only the package
// clause differs; after an edit: sed '1s/^package decision$/package proxy/' decision/c09_common_test.go >
// proxy/c09_common_test.go); c09_mode_test.go holds the mode specific lines. It is compiled INTO the repo
// package (overlay) because the unexported newService is needed: the real middleware chain + the real
// request context factory + the real rule executor are driven with arbitrary RemoteAddr values.
//
// Oracles
//   - untrusted peer (own reading of trusted_proxies with net/netip): the observation with the forwarded
//     headers must be identical to the observation of the same request without them (differential
//     against the real code), which includes everything the upstream echo server received.
//   - trusted peer: small model (Proto->scheme, Host->host, Uri->path+query, Method->method,
//     For/Forwarded->client address list, X-Forwarded-Path->nothing, absent/empty->actual request).
//   - peers for which "listed" depends on the reading (IPv4-mapped IPv6, zone-scoped, missing port) are
//     ambiguous: either behaviour is accepted.
//   - the hop itself is plain or TLS protected (req.TLS set in the handler phase, a TLS listener with a
//     throw-away certificate in the socket phase): the actual scheme is http resp. https.

import (
	"bufio"
	"bytes"
	"context"
	"crypto/ecdsa"
	"crypto/elliptic"
	crand "crypto/rand"
	"crypto/tls"
	"crypto/x509"
	"crypto/x509/pkix"
	"encoding/json"
	"fmt"
	"io"
	"math/big"
	"math/rand/v2"
	"net"
	"net/http"
	"net/http/httptest"
	"net/netip"
	"net/textproto"
	"net/url"
	"os"
	"path/filepath"
	"reflect"
	"runtime"
	"sort"
	"strings"
	"sync"
	"testing"
	"time"

	"github.com/rs/zerolog"
	"go.uber.org/fx"

	"github.com/dadrus/heimdall/internal"
	"github.com/dadrus/heimdall/internal/cache"
	"github.com/dadrus/heimdall/internal/config"
	rconfig "github.com/dadrus/heimdall/internal/rules/config"
	"github.com/dadrus/heimdall/internal/rules/rule"
	"github.com/dadrus/heimdall/internal/verif/vkit/core"
	"github.com/dadrus/heimdall/internal/verif/vkit/ports"
)

// ------------------------------------------------------------------------------------------------
// rules and their model
// ------------------------------------------------------------------------------------------------

const (
	vfHdrReq  = "X-Vf-Req"
	vfHdrRule = "X-Vf-Rule"
	vfHdrView = "X-Vf-View"
	vfHdrSeen = "X-Vf-Seen"

	vfViewTmpl = `{{ list .Request.Method .Request.URL.Scheme .Request.URL.Host .Request.URL.Path .Request.URL.RawQuery .Request.ClientIPAddresses | toJson }}`
	vfSeenTmpl = `{{ list (.Request.Header "Forwarded") (.Request.Header "X-Forwarded-For") (.Request.Header "X-Forwarded-Proto") (.Request.Header "X-Forwarded-Host") (.Request.Header "X-Forwarded-Uri") (.Request.Header "X-Forwarded-Path") (.Request.Header "X-Forwarded-Method") | toJson }}`
)

// the seven headers of the statement, in the order used by vfSeenTmpl
var vfFwdNames = []string{ //nolint:gochecknoglobals
	"Forwarded", "X-Forwarded-For", "X-Forwarded-Proto", "X-Forwarded-Host",
	"X-Forwarded-Uri", "X-Forwarded-Path", "X-Forwarded-Method",
}

// headers other proxies and ingress controllers use for the same purpose, and which heimdall does not document: they
// must not change the request view for any peer (they are passed on to the upstream like every other client header,
// so they are taken out of the recorded upstream headers before the comparison)
var vfLookalikeNames = []string{ //nolint:gochecknoglobals
	"X-Original-Url", "X-Original-Uri", "X-Original-Method", "X-Original-Host", "X-Rewrite-Url", "X-Http-Method-Override",
	"X-Method-Override", "X-Forwarded-Port", "X-Forwarded-Scheme", "X-Forwarded-Prefix", "X-Forwarded-Server", "X-Forwarded-Ssl",
	"X-Forwarded-Protocol", "X-Url-Scheme", "X-Real-Ip", "X-Client-Ip", "True-Client-Ip", "X-Envoy-Original-Path",
	"X-Envoy-External-Address", "X-Host", "X-Forwarded-Url", "X-Forwarded-Client-Ip",
}

type vfRuleDef struct {
	ID      string
	Prefix  string // path expression is Prefix + "**"
	Methods []string
	Scheme  string
	Host    string
}

// Rules differ by method / scheme / host / path so that honoured forwarded headers change the match.
var vfRuleDefs = []vfRuleDef{ //nolint:gochecknoglobals
	{ID: "r-pub-read", Prefix: "/pub/", Methods: []string{"GET"}},
	{ID: "r-pub-write", Prefix: "/pub/", Methods: []string{"POST", "PUT", "DELETE"}},
	{ID: "r-admin", Prefix: "/admin/"},
	{ID: "r-sec-https", Prefix: "/sec/", Scheme: "https"},
	{ID: "r-sec-http", Prefix: "/sec/", Scheme: "http"},
	{ID: "r-h-admin", Prefix: "/h/", Host: "admin.example.com"},
	{ID: "r-h-any", Prefix: "/h/"},
}

// vfRuleFor is the independent model of which rule matches a request view ("" = none).
func vfRuleFor(method, scheme, host, escPath string) string {
	for _, d := range vfRuleDefs {
		if !strings.HasPrefix(escPath, d.Prefix) || len(escPath) == len(d.Prefix) {
			continue
		}

		// this is the expression; the first rule registered for it whose conditions hold wins,
		// no backtracking to other expressions (there is none matching anyway)
		for _, c := range vfRuleDefs {
			if c.Prefix != d.Prefix {
				continue
			}

			if len(c.Methods) != 0 && !vfContains(c.Methods, method) {
				continue
			}

			if c.Scheme != "" && c.Scheme != scheme {
				continue
			}

			if c.Host != "" && c.Host != host {
				continue
			}

			return c.ID
		}

		return ""
	}

	return ""
}

func vfContains(l []string, s string) bool {
	for _, v := range l {
		if v == s {
			return true
		}
	}

	return false
}

func vfRulesYAML(upstream string) string {
	var b strings.Builder

	b.WriteString("version: \"1alpha4\"\nname: vf-c09\nrules:\n")

	for _, d := range vfRuleDefs {
		fmt.Fprintf(&b, "- id: %s\n  match:\n    routes:\n      - path: %s**\n", d.ID, d.Prefix)

		if len(d.Methods) != 0 {
			fmt.Fprintf(&b, "    methods: [%s]\n", strings.Join(d.Methods, ", "))
		}

		if d.Scheme != "" {
			fmt.Fprintf(&b, "    scheme: %s\n", d.Scheme)
		}

		if d.Host != "" {
			fmt.Fprintf(&b, "    hosts:\n      - type: exact\n        value: %s\n", d.Host)
		}

		if upstream != "" {
			// scheme is pinned: the upstream URL otherwise inherits the scheme of the request view
			fmt.Fprintf(&b, "  forward_to:\n    host: %q\n    rewrite:\n      scheme: http\n", upstream)
		}

		fmt.Fprintf(&b, "  execute:\n    - authenticator: anon\n    - finalizer: echo\n      config:\n        headers:\n")
		fmt.Fprintf(&b, "          %s: %s\n          %s: '%s'\n          %s: '%s'\n", vfHdrRule, d.ID, vfHdrView, vfViewTmpl, vfHdrSeen, vfSeenTmpl)
	}

	return b.String()
}

// ------------------------------------------------------------------------------------------------
// environment: one real rule machinery (fx), many services (one per trusted_proxies value)
// ------------------------------------------------------------------------------------------------

type vfUpHit struct {
	Method     string              `json:"method"`
	RequestURI string              `json:"request_uri"`
	Host       string              `json:"host"`
	Header     map[string][]string `json:"header"`
}

type vfUpstream struct {
	srv  *httptest.Server
	mu   sync.Mutex
	hits map[string][]vfUpHit
	n    int64
}

func vfNewUpstream() *vfUpstream {
	u := &vfUpstream{hits: map[string][]vfUpHit{}}
	u.srv = httptest.NewServer(http.HandlerFunc(func(w http.ResponseWriter, r *http.Request) {
		_, _ = io.Copy(io.Discard, r.Body)
		id := r.Header.Get(vfHdrReq)
		h := vfUpHit{Method: r.Method, RequestURI: r.RequestURI, Host: r.Host, Header: map[string][]string(r.Header.Clone())}
		delete(h.Header, vfHdrReq)

		for _, n := range vfLookalikeNames {
			delete(h.Header, n)
		}

		u.mu.Lock()
		u.hits[id] = append(u.hits[id], h)
		u.n++
		u.mu.Unlock()
		w.Header().Set("X-Upstream", "hit")
		w.WriteHeader(http.StatusOK)
		_, _ = w.Write([]byte("upstream-ok"))
	}))

	return u
}

func (u *vfUpstream) take(id string) []vfUpHit {
	u.mu.Lock()
	defer u.mu.Unlock()

	h := u.hits[id]
	delete(u.hits, id)

	return h
}

type vfEnv struct {
	app  *fx.App
	dir  string
	conf *config.Configuration
	cch  cache.Cache
	exec rule.Executor
	proc rule.SetProcessor
	up   *vfUpstream

	mu   sync.Mutex
	svcs map[string]*http.Server
}

func vfSetup() (*vfEnv, error) {
	e := &vfEnv{svcs: map[string]*http.Server{}}

	dir, err := os.MkdirTemp(os.Getenv("VERIF_RUNDIR"), "c09-"+vfMode+"-")
	if err != nil {
		return nil, err
	}

	e.dir = dir

	port, err := ports.Free()
	if err != nil {
		return nil, err
	}

	mport, err := ports.Free()
	if err != nil {
		return nil, err
	}

	mode := config.DecisionMode
	if vfMode == "proxy" {
		mode = config.ProxyMode
	}

	cfgPath := filepath.Join(dir, "heimdall.yaml")
	cfg := fmt.Sprintf(`
serve:
  %s: {host: 127.0.0.1, port: %d}
  management: {host: 127.0.0.1, port: %d}
log: {level: error}
tracing: {enabled: false}
metrics: {enabled: false}
mechanisms:
  authenticators:
    - id: anon
      type: anonymous
  finalizers:
    - id: echo
      type: header
      config:
        headers:
          %s: none
`, vfMode, port, mport, vfHdrRule)

	if err := os.WriteFile(cfgPath, []byte(cfg), 0o600); err != nil {
		return nil, err
	}

	e.app = fx.New(
		fx.NopLogger,
		fx.Supply(config.ConfigurationPath(cfgPath), config.EnvVarPrefix("VERIFNOENV_"), mode),
		internal.Module,
		fx.Decorate(func(zerolog.Logger) zerolog.Logger { return zerolog.Nop() }),
		fx.Populate(&e.conf, &e.cch, &e.exec, &e.proc),
	)
	if err := e.app.Err(); err != nil {
		return nil, err
	}

	ctx, cancel := context.WithTimeout(context.Background(), 20*time.Second)
	defer cancel()

	if err := e.app.Start(ctx); err != nil {
		return nil, err
	}

	upstream := ""
	if vfMode == "proxy" {
		e.up = vfNewUpstream()
		upstream = strings.TrimPrefix(e.up.srv.URL, "http://")
	}

	rs, err := rconfig.ParseRules("application/yaml", strings.NewReader(vfRulesYAML(upstream)), false)
	if err != nil {
		return nil, fmt.Errorf("rule set: %w", err)
	}

	rs.Source = "vf-c09"
	rs.Hash = []byte("vf-c09")

	if err := e.proc.OnCreated(rs); err != nil {
		return nil, fmt.Errorf("loading rule set: %w", err)
	}

	return e, nil
}

func (e *vfEnv) stop() {
	ctx, cancel := context.WithTimeout(context.Background(), 10*time.Second)
	defer cancel()

	_ = e.app.Stop(ctx)

	if e.up != nil {
		e.up.srv.Close()
	}

	_ = os.RemoveAll(e.dir)
}

func vfCfgKey(tp *[]string) string {
	if tp == nil {
		return "<nil>"
	}

	return core.JSON(*tp)
}

// service returns the (cached) real service for one trusted_proxies value.
func (e *vfEnv) service(tp *[]string) *http.Server {
	k := vfCfgKey(tp)

	e.mu.Lock()
	defer e.mu.Unlock()

	if s, ok := e.svcs[k]; ok {
		return s
	}

	s := vfNewService(e.conf, e.cch, e.exec, tp)
	e.svcs[k] = s

	return s
}

// ------------------------------------------------------------------------------------------------
// cases and observations
// ------------------------------------------------------------------------------------------------

type vfHdr struct {
	Name  string `json:"name"` // as sent (any casing)
	Value string `json:"value"`
}

type vfBase struct {
	Method string `json:"method"`
	Host   string `json:"host"`
	Path   string `json:"path"` // escaped, as on the request line
	Query  string `json:"query"`
	TLS    bool   `json:"tls,omitempty"` // the hop peer -> heimdall is TLS protected (req.TLS != nil)
}

// actualScheme is the scheme of the hop, i.e. what the view shows if no X-Forwarded-Proto is honoured.
func (b vfBase) actualScheme() string {
	if b.TLS {
		return "https"
	}

	return "http"
}

type vfObs struct {
	Status     int                 `json:"status"`
	Rule       string              `json:"rule"`
	View       string              `json:"view"`
	Seen       string              `json:"seen_by_mechanisms"`
	RespHeader map[string][]string `json:"response_header"`
	Body       string              `json:"body"`
	Upstream   []vfUpHit           `json:"upstream,omitempty"`
	Err        string              `json:"error,omitempty"`
}

type vfCase struct {
	Mode           string    `json:"mode"`
	Transport      string    `json:"transport"` // handler | socket
	TrustedProxies *[]string `json:"trusted_proxies"`
	RemoteAddr     string    `json:"remote_addr"`
	PeerKind       string    `json:"peer_kind"`
	Base           vfBase    `json:"request"`
	Headers        []vfHdr   `json:"forwarded_headers"`
	Trust          string    `json:"oracle_trust"` // trusted | untrusted | ambiguous
	Expected       string    `json:"expected,omitempty"`
	Why            string    `json:"why,omitempty"`
	Without        *vfObs    `json:"observed_without_headers,omitempty"`
	With           *vfObs    `json:"observed_with_headers,omitempty"`
}

type vfView struct {
	Method, Scheme, Host, Path, Query string
	IPs                               []string
}

func vfParseView(s string) (vfView, error) {
	var raw []json.RawMessage
	if err := json.Unmarshal([]byte(s), &raw); err != nil || len(raw) != 6 {
		return vfView{}, fmt.Errorf("unparsable view %q", s)
	}

	var v vfView

	for i, dst := range []*string{&v.Method, &v.Scheme, &v.Host, &v.Path, &v.Query} {
		if err := json.Unmarshal(raw[i], dst); err != nil {
			return vfView{}, fmt.Errorf("unparsable view %q", s)
		}
	}

	if err := json.Unmarshal(raw[5], &v.IPs); err != nil {
		return vfView{}, fmt.Errorf("unparsable view %q", s)
	}

	return v, nil
}

func vfFinishObs(e *vfEnv, id string, status int, hdr http.Header, body []byte) *vfObs {
	o := &vfObs{Status: status, Body: string(body), RespHeader: map[string][]string{}}

	for k, v := range hdr {
		switch k {
		case "Date":
		case vfHdrRule, vfHdrView, vfHdrSeen:
		default:
			o.RespHeader[k] = v
		}
	}

	if e.up != nil {
		o.Upstream = e.up.take(id)
		if len(o.Upstream) > 0 {
			h := http.Header(o.Upstream[0].Header)
			o.Rule, o.View, o.Seen = h.Get(vfHdrRule), h.Get(vfHdrView), h.Get(vfHdrSeen)
		}
	} else {
		o.Rule, o.View, o.Seen = hdr.Get(vfHdrRule), hdr.Get(vfHdrView), hdr.Get(vfHdrSeen)
	}

	return o
}

var vfReqCounter struct { //nolint:gochecknoglobals
	mu sync.Mutex
	n  int64
}

func vfNextID() string {
	vfReqCounter.mu.Lock()
	defer vfReqCounter.mu.Unlock()

	vfReqCounter.n++

	return fmt.Sprintf("%s-%d", vfMode, vfReqCounter.n)
}

// vfDoHandler invokes the real handler chain in-process with an arbitrary RemoteAddr. Header names are
// added through Header.Add, i.e. canonicalised exactly like net/http does for requests read from a
// connection (HTTP/1.x and HTTP/2).
func vfDoHandler(e *vfEnv, c *vfCase, withHeaders bool) *vfObs {
	id := vfNextID()
	target := c.Base.Path

	if c.Base.Query != "" {
		target += "?" + c.Base.Query
	}

	req := httptest.NewRequest(c.Base.Method, target, nil)
	req.Host = c.Base.Host
	req.RemoteAddr = c.RemoteAddr
	req.Header.Set(vfHdrReq, id)

	if c.Base.TLS {
		// what net/http hands to the handler for a request read from a TLS connection
		req.TLS = &tls.ConnectionState{
			Version: tls.VersionTLS13, HandshakeComplete: true, CipherSuite: tls.TLS_AES_128_GCM_SHA256, ServerName: "heimdall.local",
		}
	}

	if withHeaders {
		for _, h := range c.Headers {
			req.Header.Add(h.Name, h.Value)
		}
	}

	rec := httptest.NewRecorder()
	e.service(c.TrustedProxies).Handler.ServeHTTP(rec, req)

	return vfFinishObs(e, id, rec.Code, rec.Header(), rec.Body.Bytes())
}

// vfDoSocket sends the request byte-exact (header casing, repeated header lines) over a real loopback
// connection whose local address is chosen by the harness (plain or TLS, as the case says); returns the
// peer address heimdall saw.
func vfDoSocket(e *vfEnv, la vfListenAddrs, local netip.Addr, c *vfCase, withHeaders bool) (*vfObs, string) {
	id := vfNextID()
	d := net.Dialer{Timeout: 3 * time.Second, LocalAddr: &net.TCPAddr{IP: net.IP(local.WithZone("").AsSlice()), Zone: local.Zone()}}
	addr := la.plain

	if c.Base.TLS {
		addr = la.secure
	}

	conn, err := d.Dial("tcp", addr)
	if err != nil {
		return &vfObs{Err: "dial: " + err.Error()}, ""
	}
	defer conn.Close()

	_ = conn.SetDeadline(time.Now().Add(20 * time.Second))

	if c.Base.TLS {
		tc := tls.Client(conn, &tls.Config{InsecureSkipVerify: true, NextProtos: []string{"http/1.1"}}) //nolint:gosec
		if err := tc.Handshake(); err != nil {
			return &vfObs{Err: "tls handshake: " + err.Error()}, ""
		}

		conn = tc
	}

	target := c.Base.Path
	if c.Base.Query != "" {
		target += "?" + c.Base.Query
	}

	var b bytes.Buffer

	fmt.Fprintf(&b, "%s %s HTTP/1.1\r\nHost: %s\r\n%s: %s\r\n", c.Base.Method, target, c.Base.Host, vfHdrReq, id)

	if withHeaders {
		for _, h := range c.Headers {
			fmt.Fprintf(&b, "%s: %s\r\n", h.Name, h.Value)
		}
	}

	if c.Base.Method != http.MethodGet && c.Base.Method != http.MethodDelete {
		b.WriteString("Content-Length: 0\r\n")
	}

	b.WriteString("Connection: close\r\n\r\n")

	if _, err := conn.Write(b.Bytes()); err != nil {
		return &vfObs{Err: "write: " + err.Error()}, ""
	}

	resp, err := http.ReadResponse(bufio.NewReader(conn), &http.Request{Method: c.Base.Method})
	if err != nil {
		return &vfObs{Err: "read: " + err.Error()}, ""
	}
	defer resp.Body.Close()

	body, _ := io.ReadAll(resp.Body)
	hdr := resp.Header.Clone()
	hdr.Del("Connection")

	return vfFinishObs(e, id, resp.StatusCode, hdr, body), conn.LocalAddr().String()
}

// ------------------------------------------------------------------------------------------------
// oracle: who is trusted (independent reading of the configuration, net/netip)
// ------------------------------------------------------------------------------------------------

// strict reading: RemoteAddr must be ip:port; addresses are compared as they are; entries must be plain
// IPs or CIDRs (anything else trusts nobody).
func vfTrustedStrict(entries []string, remoteAddr string) bool {
	ap, err := netip.ParseAddrPort(remoteAddr)
	if err != nil {
		return false
	}

	peer := ap.Addr()

	for _, e := range entries {
		if strings.Contains(e, "/") {
			if p, err := netip.ParsePrefix(e); err == nil && p.Contains(peer) {
				return true
			}
		} else if a, err := netip.ParseAddr(e); err == nil && a.Zone() == "" && a == peer {
			// an entry carrying a zone is not "an IP or a CIDR": invalid under the strict reading
			return true
		}
	}

	return false
}

// lenient reading: a missing port is tolerated, zones are ignored, IPv4-mapped IPv6 equals IPv4.
func vfTrustedLenient(entries []string, remoteAddr string) bool {
	host, _, err := net.SplitHostPort(remoteAddr)
	if err != nil {
		host = strings.TrimSuffix(strings.TrimPrefix(remoteAddr, "["), "]")
	}

	peer, err := netip.ParseAddr(host)
	if err != nil {
		return false
	}

	peer = peer.WithZone("").Unmap()

	for _, e := range entries {
		if strings.Contains(e, "/") {
			p, err := netip.ParsePrefix(e)
			if err != nil {
				continue
			}

			if p.Addr().Is4In6() && p.Bits() >= 96 {
				p = netip.PrefixFrom(p.Addr().Unmap(), p.Bits()-96)
			}

			if p.Masked().Contains(peer) {
				return true
			}
		} else if a, err := netip.ParseAddr(e); err == nil && a.WithZone("").Unmap() == peer {
			return true
		}
	}

	return false
}

func vfTrust(tp *[]string, remoteAddr string) string {
	if tp == nil {
		return "untrusted"
	}

	s, l := vfTrustedStrict(*tp, remoteAddr), vfTrustedLenient(*tp, remoteAddr)

	switch {
	case s && l:
		return "trusted"
	case !s && !l:
		return "untrusted"
	default:
		return "ambiguous"
	}
}

func vfPlainIP(s string) bool {
	a, err := netip.ParseAddr(s)

	return err == nil && a.Zone() == ""
}

// vfNilIPShape is the case predicate of the known defect: the list contains a non-CIDR entry that is
// not an IP address, and the peer address is not a plain IP address either (unparsable RemoteAddr or
// zone-scoped IPv6).
func vfNilIPShape(tp *[]string, remoteAddr string) bool {
	if tp == nil {
		return false
	}

	bad := false

	for _, e := range *tp {
		if !strings.Contains(e, "/") && !vfPlainIP(e) {
			bad = true
		}
	}

	if !bad {
		return false
	}

	host, _, err := net.SplitHostPort(remoteAddr)

	return err != nil || !vfPlainIP(host)
}

// ------------------------------------------------------------------------------------------------
// oracle: model of honoured headers (trusted peer)
// ------------------------------------------------------------------------------------------------

func vfCanonHeaders(hs []vfHdr) map[string][]string {
	m := map[string][]string{}

	for _, h := range hs {
		k := textproto.CanonicalMIMEHeaderKey(h.Name)
		m[k] = append(m[k], strings.TrimSpace(h.Value))
	}

	return m
}

type vfModel struct {
	Method, Scheme, Host, EscPath, Path string
	QueryFromHdr                        bool
	QueryVals                           url.Values
	Query                               string // actual query, expected if !QueryFromHdr
	Rule                                string
	// several lines for a single valued header: no expectation for that component
	FreeMethod, FreeScheme, FreeHost, FreeURI bool
}

func vfFirst(m map[string][]string, k string) (string, bool) {
	v := m[k]
	if len(v) == 0 {
		return "", false
	}

	return v[0], len(v) > 1
}

func vfModelFor(b vfBase, hm map[string][]string) vfModel {
	m := vfModel{Method: b.Method, Scheme: b.actualScheme(), Host: b.Host, EscPath: b.Path, Query: b.Query}

	if v, multi := vfFirst(hm, "X-Forwarded-Method"); v != "" || multi {
		m.FreeMethod = multi
		if v != "" {
			m.Method = v
		}
	}

	if v, multi := vfFirst(hm, "X-Forwarded-Proto"); v != "" || multi {
		m.FreeScheme = multi
		if v != "" {
			m.Scheme = v
		}
	}

	if v, multi := vfFirst(hm, "X-Forwarded-Host"); v != "" || multi {
		m.FreeHost = multi
		if v != "" {
			m.Host = v
		}
	}

	if v, multi := vfFirst(hm, "X-Forwarded-Uri"); v != "" || multi {
		m.FreeURI = multi

		if u, err := url.Parse(v); err == nil && v != "" {
			if ep := u.EscapedPath(); ep != "" {
				m.EscPath = ep
			}

			if q := u.Query(); len(q) != 0 {
				m.QueryFromHdr, m.QueryVals = true, q
			}
		}
	}

	m.Path, _ = url.PathUnescape(m.EscPath)
	m.Rule = vfRuleFor(m.Method, m.Scheme, m.Host, m.EscPath)

	return m
}

// vfDiffersFromActual: would honouring the headers change what is matched / shown?
func (m vfModel) differsFromActual(b vfBase, hm map[string][]string) (view, rule bool) {
	a := vfModelFor(b, nil)
	view = m.Method != a.Method || m.Scheme != a.Scheme || m.Host != a.Host || m.EscPath != a.EscPath || m.QueryFromHdr
	for _, k := range []string{"Forwarded", "X-Forwarded-For"} {
		for _, v := range hm[k] {
			if v != "" {
				view = true
			}
		}
	}

	return view, m.Rule != a.Rule
}

func vfSplitTrim(s, sep string) []string {
	parts := strings.Split(s, sep)
	for i := range parts {
		parts[i] = strings.TrimSpace(parts[i])
	}

	return parts
}

// vfParseForwarded returns the for= values of a simple Forwarded value: every element carries exactly
// one lower-case, unquoted for= parameter. Anything else is "not simple" (only weak checks apply).
func vfParseForwarded(s string) ([]string, bool) {
	var out []string

	for _, el := range vfSplitTrim(s, ",") {
		n, val := 0, ""

		for _, p := range vfSplitTrim(el, ";") {
			if v, ok := strings.CutPrefix(p, "for="); ok {
				n++
				val = v
			} else if strings.HasPrefix(strings.ToLower(p), "for=") {
				return nil, false
			}
		}

		if n != 1 || val == "" || strings.ContainsAny(val, "\"") {
			return nil, false
		}

		out = append(out, val)
	}

	return out, true
}

func vfParseXFF(s string) ([]string, bool) {
	parts := vfSplitTrim(s, ",")
	for _, p := range parts {
		if p == "" {
			return nil, false
		}
	}

	return parts, true
}

func vfNonEmpty(vs []string) []string {
	var out []string

	for _, v := range vs {
		if v != "" {
			out = append(out, v)
		}
	}

	return out
}

// vfCheckIPs checks the client address list of a trusted peer: last element is the peer, the elements
// before come from Forwarded or X-Forwarded-For (first line or all lines), nothing else.
func vfCheckIPs(obs []string, remoteAddr string, hm map[string][]string) string {
	if len(obs) == 0 {
		return "client address list is empty"
	}

	if ap, err := netip.ParseAddrPort(remoteAddr); err == nil {
		last, err := netip.ParseAddr(obs[len(obs)-1])
		if err != nil || last != ap.Addr() {
			return fmt.Sprintf("last client address %q is not the peer %s", obs[len(obs)-1], ap.Addr())
		}
	}

	got := obs[:len(obs)-1]
	fl, xl := hm["Forwarded"], hm["X-Forwarded-For"]
	fne, xne := vfNonEmpty(fl), vfNonEmpty(xl)

	if len(fne) == 0 && len(xne) == 0 {
		if len(got) != 0 {
			return fmt.Sprintf("client addresses %q without Forwarded/X-Forwarded-For", got)
		}

		return ""
	}

	var (
		cands  [][]string
		simple = true
	)

	add := func(vals []string, parse func(string) ([]string, bool)) {
		if len(vals) == 0 {
			return
		}

		for _, s := range []string{vals[0], strings.Join(vals, ", ")} {
			l, ok := parse(s)
			if !ok {
				simple = false
			} else {
				cands = append(cands, l)
			}
		}
	}
	add(fne, vfParseForwarded)
	add(xne, vfParseXFF)

	// first line empty: falling back to the other header / to nothing is accepted
	if (len(fl) > 0 && fl[0] == "") || (len(xl) > 0 && xl[0] == "") {
		cands = append(cands, nil)
	}

	for _, c := range cands {
		if len(c) == len(got) && (len(c) == 0 || reflect.DeepEqual(c, got)) {
			return ""
		}
	}

	if !simple {
		all := strings.Join(append(append([]string{}, fl...), xl...), "\n")

		for _, g := range got {
			if g != "" && !strings.Contains(all, g) {
				return fmt.Sprintf("client address %q does not come from Forwarded/X-Forwarded-For", g)
			}
		}

		return ""
	}

	return fmt.Sprintf("client addresses %q, acceptable %q", got, cands)
}

// vfCheckTrusted compares an observation with the model of a trusted peer. "" = ok.
func vfCheckTrusted(c *vfCase, o *vfObs, hm map[string][]string) string {
	m := vfModelFor(c.Base, hm)
	free := m.FreeMethod || m.FreeScheme || m.FreeHost || m.FreeURI

	if o.Err != "" {
		return "transport error: " + o.Err
	}

	if m.Rule == "" && !free {
		if o.Status != http.StatusNotFound || o.Rule != "" {
			return fmt.Sprintf("expected no rule (404), got status %d rule %q", o.Status, o.Rule)
		}

		return ""
	}

	if o.Rule == "" {
		if free {
			return ""
		}

		return fmt.Sprintf("expected rule %s, got status %d without rule", m.Rule, o.Status)
	}

	if o.Status != http.StatusOK {
		return fmt.Sprintf("expected status 200, got %d", o.Status)
	}

	if !free && o.Rule != m.Rule {
		return fmt.Sprintf("expected rule %s, got %s", m.Rule, o.Rule)
	}

	v, err := vfParseView(o.View)
	if err != nil {
		return err.Error()
	}

	if !m.FreeMethod && v.Method != m.Method {
		return fmt.Sprintf("method: expected %q, got %q", m.Method, v.Method)
	}

	if !m.FreeScheme && v.Scheme != m.Scheme {
		return fmt.Sprintf("scheme: expected %q, got %q", m.Scheme, v.Scheme)
	}

	if !m.FreeHost && v.Host != m.Host {
		return fmt.Sprintf("host: expected %q, got %q", m.Host, v.Host)
	}

	if !m.FreeURI {
		if v.Path != m.Path {
			return fmt.Sprintf("path: expected %q, got %q", m.Path, v.Path)
		}

		if m.QueryFromHdr {
			got, _ := url.ParseQuery(v.Query)
			if !reflect.DeepEqual(got, m.QueryVals) {
				return fmt.Sprintf("query: expected %v, got %q", m.QueryVals, v.Query)
			}
		} else if v.Query != m.Query {
			return fmt.Sprintf("query: expected actual %q, got %q", m.Query, v.Query)
		}
	}

	return vfCheckIPs(v.IPs, c.RemoteAddr, hm)
}

// vfCheckActual: the observation of the request without forwarded headers must show exactly the
// request line and the connection.
func vfCheckActual(c *vfCase, o *vfObs) string {
	if o.Err != "" {
		return "transport error: " + o.Err
	}

	m := vfModelFor(c.Base, nil)

	if m.Rule == "" {
		if o.Status != http.StatusNotFound || o.Rule != "" {
			return fmt.Sprintf("expected no rule (404), got status %d rule %q", o.Status, o.Rule)
		}

		return ""
	}

	if o.Status != http.StatusOK || o.Rule != m.Rule {
		return fmt.Sprintf("expected 200 by %s, got %d by %q", m.Rule, o.Status, o.Rule)
	}

	v, err := vfParseView(o.View)
	if err != nil {
		return err.Error()
	}

	if v.Method != m.Method || v.Scheme != m.Scheme || v.Host != m.Host || v.Path != m.Path || v.Query != m.Query {
		return fmt.Sprintf("view %+v differs from the request line %+v", v, c.Base)
	}

	if len(v.IPs) != 1 {
		return fmt.Sprintf("client addresses %q, expected the peer only", v.IPs)
	}

	if ap, err := netip.ParseAddrPort(c.RemoteAddr); err == nil {
		if got, err := netip.ParseAddr(v.IPs[0]); err != nil || got != ap.Addr() {
			return fmt.Sprintf("client address %q is not the peer %s", v.IPs[0], ap.Addr())
		}
	}

	if o.Seen != `["","","","","","",""]` {
		return "forwarded headers visible in a request that has none: " + o.Seen
	}

	return ""
}

// vfLeaks reports a client supplied forwarded value that reaches the upstream although the same
// request without the headers does not carry it.
func vfLeaks(c *vfCase, with, without *vfObs) string {
	if len(with.Upstream) == 0 {
		return ""
	}

	w, wo := core.JSON(with.Upstream), ""
	if without != nil {
		wo = core.JSON(without.Upstream)
	}

	for _, h := range c.Headers {
		v := strings.TrimSpace(h.Value)
		if len(v) < 3 {
			continue
		}

		if b, err := json.Marshal(v); err == nil {
			v = string(b[1 : len(b)-1])
		}

		if strings.Count(w, v) > strings.Count(wo, v) {
			return fmt.Sprintf("%s: %s", h.Name, h.Value)
		}
	}

	return ""
}

// ------------------------------------------------------------------------------------------------
// verdict for one executed case
// ------------------------------------------------------------------------------------------------

type vfChecker struct {
	r *core.Run
}

func (k *vfChecker) judge(c *vfCase, without, with *vfObs) {
	r := k.r
	hm := vfCanonHeaders(c.Headers)
	model := vfModelFor(c.Base, hm)
	viewDiff, ruleDiff := model.differsFromActual(c.Base, hm)
	same := core.JSON(without) == core.JSON(with)

	key := core.JSON([]any{c.Mode, c.Transport, vfCfgKey(c.TrustedProxies), c.RemoteAddr, c.Base, hm})
	nontrivial := viewDiff && c.Trust != "ambiguous"
	r.Case(key, nontrivial)
	r.Eval(1) // two requests per case
	r.Count("cases_"+c.Transport, 1)
	r.Count("trust_"+c.Trust, 1)
	r.Count("peer_"+c.PeerKind+"_"+c.Trust, 1)
	r.Count("hop_"+c.Base.actualScheme()+"_"+c.Transport, 1)

	if len(vfValidEntries(c.TrustedProxies)) > 1 {
		r.Count("list_with_several_valid_entries_"+c.Trust, 1)
	}

	if vfListedOnlyRespelled(c.TrustedProxies, c.RemoteAddr) {
		r.Count("peer_listed_only_in_another_spelling_"+c.Transport+"_"+c.Trust, 1)
	}

	if model.Scheme != c.Base.actualScheme() && !model.FreeScheme {
		// X-Forwarded-Proto contradicts the transport of the hop
		r.Count("proto_header_differs_from_hop_"+c.Base.actualScheme()+"_"+c.Trust, 1)
	}

	if nontrivial {
		r.Count("nontrivial", 1)
	}

	for name := range hm {
		r.Count("hdr_"+name, 1)
	}

	fail := func(sig, what string) {
		cc := *c
		cc.Without, cc.With, cc.Why = without, with, what
		r.Count("violations_"+c.Transport+"_"+c.Base.actualScheme(), 1)
		r.Violation(sig, fmt.Sprintf("%s/%s trusted_proxies=%s peer=%q: %s", c.Mode, c.Transport, vfCfgKey(c.TrustedProxies), c.RemoteAddr, what), cc)
	}

	if why := vfCheckActual(c, without); why != "" {
		c.Expected = "request without forwarded headers shows the request line and the connection"
		fail("actual-request-view-mismatch", why)

		return
	}

	switch c.Trust {
	case "untrusted":
		c.Expected = "identical to the same request without the forwarded headers"

		if ruleDiff {
			r.Count("untrusted_rule_would_change", 1)
		}

		if viewDiff {
			r.Count("untrusted_view_would_change", 1)
		}

		if same {
			if with.Rule != "" {
				r.Count("untrusted_held_with_rule", 1)
			}

			return
		}

		what := "response/upstream view differs from the same request without forwarded headers"

		switch {
		case vfNilIPShape(c.TrustedProxies, c.RemoteAddr) && vfCheckTrusted(c, with, hm) == "":
			r.Count("nil_ip_trusted_"+c.Transport+"_"+c.PeerKind, 1)
			fail("nil-ip-equals-nil-ip", "peer without a parsable plain IP is treated as trusted because trusted_proxies holds an entry that is not an IP; "+what)
		case vfLeaks(c, with, without) != "":
			fail("untrusted-value-forwarded", "client supplied value reaches the upstream ("+vfLeaks(c, with, without)+"); "+what)
		default:
			fail("untrusted-header-effect", what)
		}
	case "trusted":
		c.Expected = fmt.Sprintf("model of honoured headers: %+v", model)

		if ruleDiff {
			r.Count("trusted_rule_changes", 1)
		}

		if viewDiff {
			r.Count("trusted_view_changes", 1)
		}

		why := vfCheckTrusted(c, with, hm)
		if why == "" {
			return
		}

		if same && viewDiff {
			fail("trusted-headers-ignored", why)
		} else {
			fail("trusted-override-mismatch", why)
		}
	default:
		c.Expected = "either reading: identical to the request without headers, or model of honoured headers"

		if same {
			r.Count("ambiguous_observed_untrusted", 1)

			return
		}

		if why := vfCheckTrusted(c, with, hm); why != "" {
			fail("ambiguous-peer-mismatch", why)

			return
		}

		r.Count("ambiguous_observed_trusted", 1)
	}
}

// ------------------------------------------------------------------------------------------------
// generators
// ------------------------------------------------------------------------------------------------

type vfCfg struct {
	Kind string
	TP   *[]string
}

func vfList(kind string, e ...string) vfCfg {
	l := append([]string{}, e...)

	return vfCfg{Kind: kind, TP: &l}
}

var vfCfgPool = []vfCfg{ //nolint:gochecknoglobals
	{Kind: "nil"},
	vfList("empty"),
	vfList("ipv4", "10.0.0.1"),
	vfList("ipv4", "127.0.0.1"),
	vfList("ipv6", "2001:db8::1"),
	vfList("ipv6", "::1"),
	vfList("cidr4", "10.0.0.0/8"),
	vfList("cidr4", "172.16.0.0/12"),
	vfList("cidr4", "192.168.1.0/24", "172.16.0.0/12"),
	vfList("cidr4", "192.0.2.64/26"),
	vfList("cidr4", "10.20.30.40/30"),
	vfList("cidr4", "10.0.0.1/32"),
	vfList("cidr6", "2001:db8::/32"),
	vfList("cidr6", "2001:db8:1:2::/64"),
	vfList("cidr6", "fe80::/10"),
	vfList("cidr6", "fd00::/8", "::1/128"),
	vfList("all", "0.0.0.0/0"),
	vfList("all", "::/0"),
	vfList("all", "0.0.0.0/0", "::/0"),
	vfList("mapped", "::ffff:10.0.0.1"),
	vfList("mapped", "::ffff:10.0.0.0/104"),
	// the same address can be written in many ways; an entry is an address, not a text
	vfList("spelled", "2001:DB8::1"),
	vfList("spelled", "2001:0db8::0001"),
	vfList("spelled", "2001:db8:0:0:0:0:0:1", "10.0.0.0/8"),
	vfList("spelled", "0:0:0:0:0:0:0:1"),
	vfList("spelled", "192.168.0.0/16", "FD00::0017"),
	vfList("spelled", "2001:DB8:1:2::/64", "FE80::/10"),
	vfList("spelled", "::FFFF:10.0.0.1", "0:0:0:0:0:ffff:c0a8:111"),
	vfList("invalid", "garbage"),
	vfList("invalid", "proxy.internal"),
	vfList("invalid", ""),
	vfList("invalid", "10.0.0.1:8080"),
	vfList("invalid", "300.1.1.1"),
	vfList("invalid", " 10.0.0.1"),
	vfList("invalid", "fe80::1%eth0"),
	vfList("invalid-cidr", "10.0.0.0/33"),
	vfList("invalid-cidr", "garbage/8"),
	vfList("invalid-cidr", "10.0.0.1/"),
	vfList("invalid-cidr", "2001:db8::/129", "/"),
	vfList("mixed", "garbage", "10.0.0.1"),
	vfList("mixed", "10.0.0.0/33", "10.0.0.1"),
	vfList("mixed", "10.0.0.0/8", "proxy.internal", "2001:db8::/32"),
	vfList("mixed", "192.168.0.0/16", "garbage/8", "::1"),
	vfList("mixed", "localhost", "127.0.0.0/8"),
	// entries which overlap: every entry counts, whatever the others cover and whatever the order
	vfList("nested", "10.0.0.0/24", "10.0.0.0/8"),
	vfList("nested", "10.0.0.0/8", "10.0.0.0/24"),
	vfList("nested", "192.168.1.0/24", "192.168.0.0/16"),
	vfList("nested", "172.16.0.0", "172.16.0.0/12"),
	vfList("nested", "172.16.0.0/12", "172.16.0.0"),
	vfList("nested", "10.0.0.1", "10.0.0.0/8", "10.0.0.1"),
	vfList("nested", "fd00::/64", "fd00::/8"),
	vfList("nested", "2001:db8::/32", "2001:db8::", "2001:db8::/48"),
	vfList("nested", "192.0.2.64/26", "192.0.2.64/26", "192.0.2.0/24"),
}

var (
	vfValidIPs   = []string{"10.0.0.1", "10.255.255.254", "127.0.0.1", "192.168.1.17", "172.20.1.1", "203.0.113.9", "2001:db8::1", "::1", "fd00::17", "2001:db8:1:2::99"}                                                                                                   //nolint:gochecknoglobals
	vfValidCIDRs = []string{"10.0.0.0/8", "10.128.0.0/9", "172.16.0.0/12", "192.168.0.0/16", "192.168.1.0/24", "192.0.2.64/26", "127.0.0.0/8", "127.0.0.0/30", "203.0.113.8/29", "2001:db8::/32", "2001:db8:1:2::/64", "fd00::/8", "fe80::/10", "::1/128", "2001:db8::/33"} //nolint:gochecknoglobals
	vfInvalid    = []string{"garbage", "proxy.internal", "localhost", "", "10.0.0.1:8080", "300.1.1.1", "10.0.0", "::g", "[::1]", "10.0.0.0/33", "garbage/8", "10.0.0.1/", "/24", "2001:db8::/129", "fe80::1%eth0", "*"}                                                    //nolint:gochecknoglobals
	vfFarPeers   = []string{"203.0.113.9", "198.51.100.77", "8.8.8.8", "127.0.0.1", "2001:db8:ffff::9", "2606:4700::1111", "::1", "11.0.0.1", "9.255.255.255"}                                                                                                              //nolint:gochecknoglobals
	vfBadPeers   = []string{"", "garbage", "@", "10.0.0.1", "127.0.0.1", "::1", "[::1]", "2001:db8::1", ":8080", "10.0.0.1:80:90", "pipe", "[fe80::1%eth0]"}                                                                                                                //nolint:gochecknoglobals
	vfZones      = []string{"eth0", "1", "lo", "wlan0"}                                                                                                                                                                                                                     //nolint:gochecknoglobals
)

func vfPick[T any](rng *rand.Rand, l []T) T { return l[rng.IntN(len(l))] }

// vfGenCfg picks from the fixed pool or from a bounded pool of random mixtures. The number of distinct
// lists is bounded because every list needs its own service (and, in proxy mode, its own http.Transport
// with its own idle connections to the upstream).
func vfGenCfg(rng *rand.Rand, i int, random, nested []vfCfg) vfCfg {
	switch x := rng.IntN(10); {
	case x < 6:
		return vfCfgPool[i%len(vfCfgPool)]
	case x < 8:
		return random[rng.IntN(len(random))]
	default:
		return nested[rng.IntN(len(nested))]
	}
}

func vfRandomCfg(rng *rand.Rand) vfCfg {
	var l []string

	inv := false

	for n := 1 + rng.IntN(4); n > 0; n-- {
		switch x := rng.IntN(10); {
		case x < 3:
			ip := vfPick(rng, vfValidIPs)
			if rng.IntN(2) == 0 {
				ip = vfRespell(rng, ip)
			}

			l = append(l, ip)
		case x < 7:
			l = append(l, vfPick(rng, vfValidCIDRs))
		default:
			l = append(l, vfPick(rng, vfInvalid))
			inv = true
		}
	}

	kind := "random"
	if inv {
		kind = "random-with-invalid"
	}

	return vfCfg{Kind: kind, TP: &l}
}

// vfSpellings returns other valid ways to write the single address a (never its canonical text): IPv6 with upper-case
// digits, with leading zeros, without `::` or with `::` for one group at another place; IPv4 in the IPv4-mapped IPv6
// forms. Every spelling is checked to parse (net and net/netip) to the very same address.
func vfSpellings(a netip.Addr) []string {
	if !a.IsValid() || a.Zone() != "" {
		return nil
	}

	var cand []string

	wide := netip.AddrFrom16(a.As16())
	b := wide.As16()
	g, z := make([]string, 8), make([]string, 8)

	for i := range g {
		v := uint16(b[2*i])<<8 | uint16(b[2*i+1])
		g[i], z[i] = fmt.Sprintf("%x", v), fmt.Sprintf("%04x", v)
	}

	long := strings.Join(g, ":")

	if a.Is4() {
		cand = append(cand, wide.String(), strings.ToUpper(wide.String()), long, strings.ToUpper(long), "0000"+wide.String()[:7]+a.String())
	} else {
		cand = append(cand, strings.ToUpper(a.String()), long, strings.ToUpper(long), strings.Join(z, ":"))

		// leading zeros, `::` where the canonical form has it
		parts := strings.Split(a.String(), ":")

		for i, p := range parts {
			if p != "" && !strings.Contains(p, ".") {
				parts[i] = strings.Repeat("0", 4-len(p)) + p
			}
		}

		cand = append(cand, strings.Join(parts, ":"))

		if strings.HasPrefix(a.String(), "::") {
			cand = append(cand, "0000"+a.String(), "0"+strings.ToUpper(a.String()))
		}

		// `::` for a single group of zeros
		for i := range g {
			if g[i] != "0" {
				continue
			}

			h := append([]string{}, g...)
			h[i] = ""
			s := strings.Join(h, ":")

			if i == 0 {
				s = ":" + s
			}

			if i == len(g)-1 {
				s += ":"
			}

			cand = append(cand, s)
		}
	}

	var out []string

	seen := map[string]bool{a.String(): true}

	for _, s := range cand {
		p, err := netip.ParseAddr(s)
		ip := net.ParseIP(s)

		if seen[s] || err != nil || p.Zone() != "" || p.Unmap() != a.Unmap() || ip == nil || !ip.Equal(a.AsSlice()) {
			continue
		}

		seen[s] = true

		out = append(out, s)
	}

	return out
}

// vfRespell writes a single address in another way (the text itself if there is none).
func vfRespell(rng *rand.Rand, ip string) string {
	a, err := netip.ParseAddr(ip)
	if err != nil {
		return ip
	}

	if l := vfSpellings(a); len(l) != 0 {
		return vfPick(rng, l)
	}

	return ip
}

// vfListedOnlyRespelled: the peer is covered by the list, but only by single-address entries which are not written
// the way Go prints that address (no range and no canonically written entry covers it).
func vfListedOnlyRespelled(tp *[]string, remoteAddr string) bool {
	ap, err := netip.ParseAddrPort(remoteAddr)
	if tp == nil || err != nil {
		return false
	}

	peer, found := ap.Addr(), false

	for _, e := range *tp {
		if strings.Contains(e, "/") {
			if p, err := netip.ParsePrefix(e); err == nil && p.Contains(peer) {
				return false
			}
		} else if a, err := netip.ParseAddr(e); err == nil && a.Zone() == "" && a.Unmap() == peer.Unmap() {
			if e == peer.String() {
				return false
			}

			found = true
		}
	}

	return found
}

// vfSignificantBits is the length of the shortest prefix whose network address is still a.
func vfSignificantBits(a netip.Addr) int {
	b := a.AsSlice()

	for i := len(b)*8 - 1; i >= 0; i-- {
		if b[i/8]&(1<<(7-i%8)) != 0 {
			return i + 1
		}
	}

	return 0
}

// vfNestedCfg derives a list from one entry: the same entry again, wider and narrower ranges starting at the same
// address or elsewhere, single addresses at the start of / inside the range. With reverse the same list is returned in
// the opposite order (the generator is called twice with equally seeded streams), unrelated entries may be mixed in.
func vfNestedCfg(rng *rand.Rand, reverse bool) vfCfg {
	var p netip.Prefix

	if rng.IntN(4) == 0 {
		a := netip.MustParseAddr(vfPick(rng, vfValidIPs))
		p = netip.PrefixFrom(a, a.BitLen())
	} else {
		p = netip.MustParsePrefix(vfPick(rng, vfValidCIDRs)).Masked()
	}

	str := func(q netip.Prefix) string {
		if q.IsSingleIP() && rng.IntN(2) == 0 {
			return q.Addr().String()
		}

		return q.String()
	}
	l := []string{str(p)}
	base, maxBits := p.Addr(), p.Addr().BitLen()

	for n := 1 + rng.IntN(3); n > 0; n-- {
		switch rng.IntN(8) {
		case 0: // the same again
			l = append(l, l[0])
		case 1, 2: // wider, same network address
			if lo := max(vfSignificantBits(base), 1); lo < p.Bits() {
				l = append(l, netip.PrefixFrom(base, lo+rng.IntN(p.Bits()-lo)).String())
			} else {
				l = append(l, l[0])
			}
		case 3: // wider, other network address
			if p.Bits() > 1 {
				l = append(l, netip.PrefixFrom(base, 1+rng.IntN(p.Bits()-1)).Masked().String())
			}
		case 4: // narrower, same network address
			if p.Bits() < maxBits {
				l = append(l, str(netip.PrefixFrom(base, p.Bits()+1+rng.IntN(maxBits-p.Bits()))))
			}
		case 5: // narrower, somewhere inside
			if p.Bits() < maxBits {
				l = append(l, str(netip.PrefixFrom(vfRandomIn(rng, p), p.Bits()+1+rng.IntN(maxBits-p.Bits())).Masked()))
			}
		case 6: // first / last / some address of the range
			l = append(l, vfInsideAddr(rng, p).String())
		default: // something unrelated
			if rng.IntN(3) == 0 {
				l = append(l, vfPick(rng, vfInvalid))
			} else {
				l = append(l, vfPick(rng, vfValidCIDRs))
			}
		}
	}

	rng.Shuffle(len(l), func(i, j int) { l[i], l[j] = l[j], l[i] })

	if reverse {
		for i, j := 0, len(l)-1; i < j; i, j = i+1, j-1 {
			l[i], l[j] = l[j], l[i]
		}
	}

	return vfCfg{Kind: "nested", TP: &l}
}

func vfAddrPort(a netip.Addr, port int) string {
	return netip.AddrPortFrom(a, uint16(port)).String() //nolint:gosec
}

// vfLastOf returns the last address of a prefix.
func vfLastOf(p netip.Prefix) netip.Addr {
	b := p.Masked().Addr().AsSlice()

	for i := p.Bits(); i < len(b)*8; i++ {
		b[i/8] |= 1 << (7 - i%8)
	}

	a, _ := netip.AddrFromSlice(b)

	return a
}

func vfRandomIn(rng *rand.Rand, p netip.Prefix) netip.Addr {
	b := p.Masked().Addr().AsSlice()

	for i := p.Bits(); i < len(b)*8; i++ {
		if rng.IntN(2) == 1 {
			b[i/8] |= 1 << (7 - i%8)
		}
	}

	a, _ := netip.AddrFromSlice(b)

	return a
}

// vfValidEntries returns the prefixes a list denotes (single addresses as /32 or /128).
func vfValidEntries(tp *[]string) []netip.Prefix {
	if tp == nil {
		return nil
	}

	var out []netip.Prefix

	for _, e := range *tp {
		if strings.Contains(e, "/") {
			if p, err := netip.ParsePrefix(e); err == nil {
				out = append(out, p.Masked())
			}
		} else if a, err := netip.ParseAddr(e); err == nil && a.Zone() == "" {
			out = append(out, netip.PrefixFrom(a, a.BitLen()))
		}
	}

	return out
}

func vfInsideAddr(rng *rand.Rand, p netip.Prefix) netip.Addr {
	switch rng.IntN(4) {
	case 0:
		return p.Masked().Addr()
	case 1:
		return vfLastOf(p)
	default:
		return vfRandomIn(rng, p)
	}
}

// vfDifferenceAddr returns an address covered by one entry of the list and by no other entry that denotes another
// set of addresses, if the list has such a pair of entries (nested ranges, an address and a range around it).
func vfDifferenceAddr(rng *rand.Rand, valid []netip.Prefix) (netip.Addr, bool) {
	for try := 0; try < 8; try++ {
		in := vfPick(rng, valid)
		overlaps := false

		for _, o := range valid {
			if o != in && o.Overlaps(in) {
				overlaps = true
			}
		}

		if !overlaps {
			continue
		}

		for _, a := range []netip.Addr{vfRandomIn(rng, in), vfRandomIn(rng, in), vfLastOf(in), in.Addr()} {
			only := true

			for _, o := range valid {
				if o != in && o.Contains(a) {
					only = false
				}
			}

			if only {
				return a, true
			}
		}
	}

	return netip.Addr{}, false
}

func vfGenPeer(rng *rand.Rand, cfg vfCfg) (string, string) {
	port := 1024 + rng.IntN(60000)
	valid := vfValidEntries(cfg.TP)
	x := rng.IntN(100)

	if len(valid) == 0 && x < 55 {
		x = 55 + rng.IntN(45)
	}

	if len(valid) > 1 && x < 35 && rng.IntN(2) == 0 {
		if a, ok := vfDifferenceAddr(rng, valid); ok {
			return vfAddrPort(a, port), "difference"
		}
	}

	switch {
	case x < 35:
		return vfAddrPort(vfInsideAddr(rng, vfPick(rng, valid)), port), "inside"
	case x < 55:
		p := vfPick(rng, valid)

		var a netip.Addr

		switch rng.IntN(3) {
		case 0:
			a = p.Masked().Addr().Prev()
		case 1:
			a = vfLastOf(p).Next()
		default:
			if p.Bits() == 0 {
				a = vfLastOf(p).Next()

				break
			}

			b := vfRandomIn(rng, p).AsSlice()
			i := rng.IntN(p.Bits())
			b[i/8] ^= 1 << (7 - i%8)
			a, _ = netip.AddrFromSlice(b)
		}

		if !a.IsValid() {
			a = netip.MustParseAddr(vfPick(rng, vfFarPeers))
		}

		return vfAddrPort(a, port), "boundary"
	case x < 70:
		return vfAddrPort(netip.MustParseAddr(vfPick(rng, vfFarPeers)), port), "far"
	case x < 78:
		a := netip.MustParseAddr("203.0.113.9")

		for _, p := range valid {
			if p.Addr().Is4() && rng.IntN(2) == 0 {
				a = vfInsideAddr(rng, p)
			}
		}

		return vfAddrPort(netip.AddrFrom16(a.As16()), port), "ipv4-mapped"
	case x < 86:
		a := netip.MustParseAddr("fe80::1")
		if rng.IntN(2) == 0 {
			a = vfRandomIn(rng, netip.MustParsePrefix("fe80::/64"))
		}

		return vfAddrPort(a.WithZone(vfPick(rng, vfZones)), port), "zone-scoped"
	default:
		if len(valid) > 0 && rng.IntN(3) == 0 {
			// a listed address, but not in ip:port form
			return vfInsideAddr(rng, vfPick(rng, valid)).String(), "unparsable"
		}

		return vfPick(rng, vfBadPeers), "unparsable"
	}
}

var (
	vfMethods = []string{"GET", "GET", "POST", "DELETE", "PUT", "PATCH"}                                                //nolint:gochecknoglobals
	vfHosts   = []string{"app.example.com", "app.example.com", "admin.example.com", "app.example.com:8080", "10.1.2.3"} //nolint:gochecknoglobals
	vfPaths   = []string{"/pub/x", "/pub/docs/readme", "/admin/x", "/sec/data", "/h/y", "/none/z", "/pub/a%20b"}        //nolint:gochecknoglobals
	vfQueries = []string{"", "", "a=1", "b=2&a=1", "q=%20x"}                                                            //nolint:gochecknoglobals

	vfValMethod = []string{"DELETE", "GET", "POST", "PUT", "PATCH", "delete", "PURGE", ""}                                                                                                                                                                                                                                              //nolint:gochecknoglobals
	vfValProto  = []string{"https", "https", "http", "HTTPS", "ftp", ""}                                                                                                                                                                                                                                                                //nolint:gochecknoglobals
	vfValHost   = []string{"admin.example.com", "admin.example.com", "evil.example.org", "admin.example.com:443", "app.example.com", "ADMIN.example.com", ""}                                                                                                                                                                           //nolint:gochecknoglobals
	vfValURI    = []string{"/admin/secret", "/admin/x?role=admin", "/pub/../admin/y", "https://admin.example.com/admin/y?z=1", "/sec/data?b=2&a=1", "/h/z", "%zz", "", "?only=query", "/none/q", "/pub/w%20x?q=%20", "/pub/write?x=1&x=2", "/admin/1,2,3/delete?force=true", "/pub/a,b?ids=4,5&t=x", "/sec/x,/admin/y"}                 //nolint:gochecknoglobals
	vfValPath   = []string{"/admin/secret", "/pub/x", "/sec/other", "/h/q", ""}                                                                                                                                                                                                                                                         //nolint:gochecknoglobals
	vfValXFF    = []string{"127.0.0.1", "10.0.0.1, 192.168.0.1", "::1", "unknown", "203.0.113.7", "10.0.0.1,,", "198.51.100.1,198.51.100.2", ""}                                                                                                                                                                                        //nolint:gochecknoglobals
	vfValFwd    = []string{"for=127.0.0.1", "for=10.0.0.1;proto=https;host=admin.example.com", "for=1.1.1.1, for=2.2.2.2", "by=3.3.3.3", "FOR=1.2.3.4", `for="[2001:db8::1]:4711"`, "proto=https;for=192.0.2.43;by=203.0.113.60", "proto=http; for=192.0.2.60", "for=192.0.2.61 ; proto=https", "by=203.0.113.60;  for=192.0.2.62", ""} //nolint:gochecknoglobals
)

func vfCasing(rng *rand.Rand, name string) string {
	switch x := rng.IntN(10); {
	case x < 4:
		return name
	case x < 6:
		return strings.ToLower(name)
	case x < 7:
		return strings.ToUpper(name)
	default:
		b := []byte(strings.ToLower(name))
		for i := range b {
			if rng.IntN(2) == 0 && b[i] >= 'a' && b[i] <= 'z' {
				b[i] -= 'a' - 'A'
			}
		}

		return string(b)
	}
}

// vfGenHeaders: the subset is given by mask (bit i = vfFwdNames[i]); values are hostile: they would
// select another rule, another client address, or claim an address from the trusted list.
func vfGenHeaders(rng *rand.Rand, mask int, cfg vfCfg, singleLines bool) []vfHdr {
	var out []vfHdr

	valid := vfValidEntries(cfg.TP)
	spoof := func() string {
		if len(valid) == 0 {
			return "10.0.0.1"
		}

		return vfInsideAddr(rng, vfPick(rng, valid)).String()
	}

	for i, name := range vfFwdNames {
		if mask&(1<<i) == 0 {
			continue
		}

		lines := 1
		if x := rng.IntN(20); x < 3 {
			lines = 2
		} else if x < 4 {
			lines = 3
		}

		listValued := name == "Forwarded" || name == "X-Forwarded-For"
		if singleLines && !listValued {
			lines = 1
		}

		for ; lines > 0; lines-- {
			var v string

			switch name {
			case "Forwarded":
				v = vfPick(rng, vfValFwd)
				if rng.IntN(10) < 4 {
					a := spoof()
					if strings.Contains(a, ":") {
						a = `"[` + a + `]"`
					}

					v = "for=" + a
				}
			case "X-Forwarded-For":
				v = vfPick(rng, vfValXFF)
				if rng.IntN(10) < 4 {
					v = spoof()
					if rng.IntN(3) == 0 {
						v += ", " + vfPick(rng, vfFarPeers)
					}
				}
			case "X-Forwarded-Proto":
				v = vfPick(rng, vfValProto)
			case "X-Forwarded-Host":
				v = vfPick(rng, vfValHost)
			case "X-Forwarded-Uri":
				v = vfPick(rng, vfValURI)
			case "X-Forwarded-Path":
				v = vfPick(rng, vfValPath)
			case "X-Forwarded-Method":
				v = vfPick(rng, vfValMethod)
			}

			out = append(out, vfHdr{Name: vfCasing(rng, name), Value: v})
		}
	}

	if rng.IntN(3) == 0 {
		for n := 1 + rng.IntN(2); n > 0; n-- {
			name := vfPick(rng, vfLookalikeNames)

			var v string

			switch {
			case strings.Contains(name, "Method"):
				v = vfPick(rng, vfValMethod)
			case strings.Contains(name, "Host") || strings.Contains(name, "Server"):
				v = vfPick(rng, vfValHost)
			case strings.Contains(name, "Ip") || strings.Contains(name, "Address"):
				v = spoof()
			case strings.Contains(name, "Scheme") || strings.Contains(name, "Protocol"):
				v = vfPick(rng, vfValProto)
			case strings.Contains(name, "Ssl"):
				v = "on"
			case strings.Contains(name, "Port"):
				v = "443"
			default:
				v = vfPick(rng, vfValURI)
			}

			out = append(out, vfHdr{Name: vfCasing(rng, name), Value: v})
		}
	}

	rng.Shuffle(len(out), func(i, j int) { out[i], out[j] = out[j], out[i] })

	return out
}

func vfGenBase(rng *rand.Rand) vfBase {
	return vfBase{
		Method: vfPick(rng, vfMethods), Host: vfPick(rng, vfHosts), Path: vfPick(rng, vfPaths), Query: vfPick(rng, vfQueries),
		TLS: rng.IntN(3) == 0,
	}
}

// ------------------------------------------------------------------------------------------------
// phases
// ------------------------------------------------------------------------------------------------

func vfPhaseHandler(r *core.Run, e *vfEnv, k *vfChecker, n int) {
	rng := r.Stream("c09-handler-" + vfMode)
	cases := make([]*vfCase, n)
	random := make([]vfCfg, r.Pick(80, 400))

	for i := range random {
		random[i] = vfRandomCfg(rng)
	}

	// lists of overlapping entries, each of them in both orders
	nested := make([]vfCfg, 2*r.Pick(30, 150))

	for i := 0; i < len(nested); i += 2 {
		s1, s2 := rng.Uint64(), rng.Uint64()
		nested[i] = vfNestedCfg(rand.New(rand.NewPCG(s1, s2)), false)
		nested[i+1] = vfNestedCfg(rand.New(rand.NewPCG(s1, s2)), true)
	}

	r.Set("distinct_random_trusted_proxies_lists", len(random))
	r.Set("distinct_nested_trusted_proxies_lists", len(nested))
	r.Set("nested_trusted_proxies_lists_sample", []any{nested[0].TP, nested[1].TP, nested[2].TP, nested[3].TP})

	for i := range cases {
		cfg := vfGenCfg(rng, i, random, nested)
		peer, kind := vfGenPeer(rng, cfg)
		trust := vfTrust(cfg.TP, peer)
		mask := 1 + (i % 127) // every non-empty subset of the seven headers, round robin

		if i%64 == 63 {
			mask = 0 // a few header-less cases keep the baseline honest
		}

		cases[i] = &vfCase{
			Mode: vfMode, Transport: "handler", TrustedProxies: cfg.TP, RemoteAddr: peer, PeerKind: kind,
			Base: vfGenBase(rng), Headers: vfGenHeaders(rng, mask, cfg, trust != "untrusted"), Trust: trust,
		}
		r.Count("cfg_"+cfg.Kind, 1)
	}

	var (
		wg   sync.WaitGroup
		next = make(chan *vfCase, 64)
	)

	for w := 0; w < min(8, runtime.GOMAXPROCS(0)); w++ {
		wg.Add(1)

		go func() {
			defer wg.Done()

			for c := range next {
				without := vfDoHandler(e, c, false)
				with := vfDoHandler(e, c, true)

				// proxy mode: a failed hop to the local upstream (502 and nothing received) is trouble of
				// the test environment, never a verdict; retried, then skipped and counted
				for try := 0; try < 3 && (vfUpstreamTrouble(e, without) || vfUpstreamTrouble(e, with)); try++ {
					r.Count("proxy_upstream_retries", 1)
					time.Sleep(50 * time.Millisecond)

					without = vfDoHandler(e, c, false)
					with = vfDoHandler(e, c, true)
				}

				if vfUpstreamTrouble(e, without) {
					r.Count("proxy_upstream_trouble_skipped", 1)

					continue
				}

				k.judge(c, without, with)
			}
		}()
	}

	for i, c := range cases {
		if i < 5 {
			r.Sample(map[string]any{"trusted_proxies": c.TrustedProxies, "remote_addr": c.RemoteAddr, "request": c.Base, "forwarded_headers": c.Headers, "oracle_trust": c.Trust})
		}

		next <- c
	}

	close(next)
	wg.Wait()
}

// vfPhaseConcurrentPeers: one service, a listed and an unlisted peer send forwarded headers at the same time. Whatever
// the middleware remembers between requests (peer look-ups, parsed lists) must never leak from one peer's request into
// the other's; sequential phases cannot see that.
func vfPhaseConcurrentPeers(r *core.Run, e *vfEnv, k *vfChecker, n int) {
	rng := r.Stream("c09-concurrent-" + vfMode)
	cfg := vfList("cidr4", "10.0.0.0/8")
	peers := []struct{ addr, kind string }{{"10.1.2.3:41000", "inside"}, {"192.0.2.7:42000", "outside"}, {"10.200.0.9:43000", "inside"}, {"11.0.0.1:44000", "outside"}}
	workers := 2 * len(peers)

	var wg sync.WaitGroup

	for w := 0; w < workers; w++ {
		p := peers[w%len(peers)]
		trust := vfTrust(cfg.TP, p.addr)
		c := &vfCase{
			Mode: vfMode, Transport: "handler", TrustedProxies: cfg.TP, RemoteAddr: p.addr, PeerKind: p.kind,
			Base: vfGenBase(rng), Headers: vfGenHeaders(rng, 127, cfg, trust != "untrusted"), Trust: trust,
		}
		without := vfDoHandler(e, c, false)

		if vfUpstreamTrouble(e, without) {
			r.Count("proxy_upstream_trouble_skipped", 1)

			continue
		}

		wg.Add(1)

		go func() {
			defer wg.Done()

			for i := 0; i < n/workers; i++ {
				cc := *c
				with := vfDoHandler(e, &cc, true)

				if vfUpstreamTrouble(e, with) {
					r.Count("proxy_upstream_trouble_skipped", 1)

					continue
				}

				r.Count("requests_of_listed_and_unlisted_peers_in_parallel", 1)
				k.judge(&cc, without, with)
			}
		}()
	}

	wg.Wait()
}

func vfUpstreamTrouble(e *vfEnv, o *vfObs) bool {
	return e.up != nil && o.Status == http.StatusBadGateway && len(o.Upstream) == 0
}

// vfListenAddrs: the same service reachable without and with TLS
type vfListenAddrs struct {
	plain  string
	secure string
}

type vfSockSrv struct {
	srv   *http.Server
	addr4 vfListenAddrs
	addr6 vfListenAddrs
}

var vfThrowAwayCert = sync.OnceValues(func() (tls.Certificate, error) { //nolint:gochecknoglobals
	key, err := ecdsa.GenerateKey(elliptic.P256(), crand.Reader)
	if err != nil {
		return tls.Certificate{}, err
	}

	tmpl := &x509.Certificate{
		SerialNumber: big.NewInt(9), Subject: pkix.Name{CommonName: "heimdall.local"}, DNSNames: []string{"heimdall.local"},
		NotBefore: time.Now().Add(-time.Hour), NotAfter: time.Now().Add(24 * time.Hour),
		KeyUsage: x509.KeyUsageDigitalSignature, ExtKeyUsage: []x509.ExtKeyUsage{x509.ExtKeyUsageServerAuth},
	}

	der, err := x509.CreateCertificate(crand.Reader, tmpl, tmpl, &key.PublicKey, key)
	if err != nil {
		return tls.Certificate{}, err
	}

	return tls.Certificate{Certificate: [][]byte{der}, PrivateKey: key}, nil
})

// vfListenBoth serves srv on two fresh ports of host: plain, and behind TLS (what ListenAndServeTLS does with the
// listener: requests arrive at the handler with req.TLS set).
func vfListenBoth(srv *http.Server, network, host string) (vfListenAddrs, error) {
	cert, err := vfThrowAwayCert()
	if err != nil {
		return vfListenAddrs{}, err
	}

	lp, err := net.Listen(network, host+":0")
	if err != nil {
		return vfListenAddrs{}, err
	}

	ls, err := net.Listen(network, host+":0")
	if err != nil {
		_ = lp.Close()

		return vfListenAddrs{}, err
	}

	go func() { _ = srv.Serve(lp) }()
	go func() {
		_ = srv.Serve(tls.NewListener(ls, &tls.Config{Certificates: []tls.Certificate{cert}, MinVersion: tls.VersionTLS12, NextProtos: []string{"http/1.1"}}))
	}()

	return vfListenAddrs{plain: lp.Addr().String(), secure: ls.Addr().String()}, nil
}

func vfServe(e *vfEnv, tp *[]string) (*vfSockSrv, error) {
	// a fresh service: Serve/Close must not touch the cached one used by the handler phase
	s := &vfSockSrv{srv: vfNewService(e.conf, e.cch, e.exec, tp)}

	a4, err := vfListenBoth(s.srv, "tcp4", "127.0.0.1")
	if err != nil {
		return nil, err
	}

	s.addr4 = a4

	if a6, err := vfListenBoth(s.srv, "tcp6", "[::1]"); err == nil {
		s.addr6 = a6
	}

	return s, nil
}

// vfPhaseSocket: real connections; peers are loopback addresses 127.x.y.z (any of 127/8 can be bound on
// Linux) and ::1; header names and repeated lines are sent byte-exact.
func vfPhaseSocket(r *core.Run, e *vfEnv, k *vfChecker, n int) {
	rng := r.Stream("c09-socket-" + vfMode)
	cfgs := []vfCfg{
		{Kind: "nil"},
		vfList("ipv4", "127.0.0.1"),
		vfList("cidr4", "127.0.0.0/30"),
		vfList("cidr4", "127.0.0.0/8"),
		vfList("cidr4", "127.16.0.0/12"),
		vfList("ipv6", "::1"),
		vfList("cidr4", "10.0.0.0/8"),
		vfList("invalid", "localhost"),
		vfList("mixed", "garbage", "127.0.0.2", "::1/128"),
		vfList("mapped", "::ffff:127.0.0.1"),
		vfList("mapped", "::FFFF:127.0.0.1", "0:0:0:0:0:ffff:7f00:2"),
		vfList("spelled", "0:0:0:0:0:0:0:1"),
		vfList("spelled", "::0001", "127.0.0.2"),
		vfList("spelled", "10.0.0.0/8", "0000::0001", "127.0.0.0/30"),
		vfList("nested", "127.0.0.0/30", "127.0.0.0/8"),
		vfList("nested", "127.0.0.0/8", "127.0.0.0/30"),
		vfList("nested", "127.0.0.0", "127.0.0.0/12", "::1"),
		vfList("nested", "127.0.0.2", "127.0.0.2/31", "127.0.0.2", "::/128", "::/64"),
	}
	locals4 := []string{"127.0.0.1", "127.0.0.2", "127.0.0.3", "127.0.0.4", "127.15.255.255", "127.16.0.0", "127.31.255.255", "127.32.0.0", "127.9.9.9"}
	per := (n + len(cfgs) - 1) / len(cfgs)

	for ci, cfg := range cfgs {
		srv, err := vfServe(e, cfg.TP)
		if err != nil {
			r.Inconclusive("socket phase: " + err.Error())

			return
		}

		if srv.addr6.plain == "" {
			r.Count("socket_ipv6_unavailable", 1)
		}

		for i := 0; i < per; i++ {
			local, addr := netip.MustParseAddr(vfPick(rng, locals4)), srv.addr4
			if srv.addr6.plain != "" && rng.IntN(4) == 0 {
				local, addr = netip.MustParseAddr("::1"), srv.addr6
			}

			peer := vfAddrPort(local, 1) // the port is unknown before dialling and irrelevant for trust
			trust := vfTrust(cfg.TP, peer)
			c := &vfCase{
				Mode: vfMode, Transport: "socket", TrustedProxies: cfg.TP, PeerKind: "loopback",
				Base: vfGenBase(rng), Headers: vfGenHeaders(rng, 1+((ci*per+i)%127), cfg, trust != "untrusted"), Trust: trust,
			}

			without, ra := vfDoSocket(e, addr, local, c, false)
			with, _ := vfDoSocket(e, addr, local, c, true)

			c.RemoteAddr = ra
			if ra == "" {
				c.RemoteAddr = peer
			}

			if without.Err != "" || with.Err != "" {
				r.Count("socket_transport_errors", 1)

				if r.Counter("socket_transport_errors") > int64(n/20+5) {
					r.Inconclusive("socket phase: too many transport errors: " + without.Err + with.Err)

					_ = srv.srv.Close()

					return
				}

				continue
			}

			r.Count("cfg_"+cfg.Kind, 1)
			k.judge(c, without, with)
		}

		_ = srv.srv.Close()
	}
}

// vfLinkLocal returns a link-local IPv6 address (with zone) of this machine, if there is one.
func vfLinkLocal() (netip.Addr, bool) {
	ifs, err := net.Interfaces()
	if err != nil {
		return netip.Addr{}, false
	}

	for _, ifc := range ifs {
		if ifc.Flags&net.FlagUp == 0 || ifc.Flags&net.FlagLoopback != 0 {
			continue
		}

		addrs, err := ifc.Addrs()
		if err != nil {
			continue
		}

		for _, a := range addrs {
			ipn, ok := a.(*net.IPNet)
			if !ok || ipn.IP.To4() != nil || !ipn.IP.IsLinkLocalUnicast() {
				continue
			}

			if na, ok := netip.AddrFromSlice(ipn.IP); ok {
				return na.WithZone(ifc.Name), true
			}
		}
	}

	return netip.Addr{}, false
}

// vfPhaseLinkLocal (opportunistic): a real TCP connection from this machine's own link-local IPv6
// address to itself (never leaves the host). Such peers have a zone-scoped RemoteAddr
// ("[fe80::..%eth0]:port"), which is the realistic way to reach the "no plain IP" branch.
func vfPhaseLinkLocal(r *core.Run, e *vfEnv, k *vfChecker, n int) {
	ll, ok := vfLinkLocal()
	if !ok {
		r.Count("socket_linklocal_unavailable", 1)

		return
	}

	rng := r.Stream("c09-linklocal-" + vfMode)
	cfgs := []vfCfg{
		{Kind: "nil"},
		vfList("cidr4", "10.0.0.0/8"),
		vfList("ipv6", "::1"),
		vfList("cidr6", "fe80::/10"),
		vfList("invalid", "proxy.internal"),
		vfList("mixed", "10.0.0.0/8", "localhost"),
	}

	for ci, cfg := range cfgs {
		srv := vfNewService(e.conf, e.cch, e.exec, cfg.TP)

		la, err := vfListenBoth(srv, "tcp6", "["+ll.String()+"]")
		if err != nil {
			r.Count("socket_linklocal_unavailable", 1)

			return
		}

		for i := 0; i < n; i++ {
			peer := vfAddrPort(ll, 1)
			trust := vfTrust(cfg.TP, peer)
			c := &vfCase{
				Mode: vfMode, Transport: "socket", TrustedProxies: cfg.TP, PeerKind: "link-local",
				Base: vfGenBase(rng), Headers: vfGenHeaders(rng, 1+((ci*n+i)*5%127), cfg, trust != "untrusted"), Trust: trust,
			}

			without, ra := vfDoSocket(e, la, ll, c, false)
			with, _ := vfDoSocket(e, la, ll, c, true)

			if without.Err != "" || with.Err != "" || ra == "" {
				r.Count("socket_linklocal_transport_errors", 1)

				continue
			}

			c.RemoteAddr = ra
			r.Count("cfg_"+cfg.Kind, 1)
			r.Count("cases_socket_linklocal", 1)
			k.judge(c, without, with)
		}

		_ = srv.Close()
	}
}

// vfProbeNonCanonical documents (observation only, no verdict) what happens to header names that are
// put into the http.Header map without canonicalisation. net/http never produces such maps for requests
// read from a connection (HTTP/1.x keys are canonicalised by textproto, HTTP/2 keys by the h2 server),
// so this is not an input of the property; the wire-level casing is covered by the socket phase.
func vfProbeNonCanonical(r *core.Run, e *vfEnv) {
	c := &vfCase{Mode: vfMode, Transport: "handler", RemoteAddr: "203.0.113.9:4711", Base: vfBase{Method: "GET", Host: "app.example.com", Path: "/pub/x"}}
	id := vfNextID()
	req := httptest.NewRequest(c.Base.Method, c.Base.Path, nil)
	req.Host, req.RemoteAddr = c.Base.Host, c.RemoteAddr
	req.Header.Set(vfHdrReq, id)
	req.Header["x-forwarded-method"] = []string{"DELETE"}
	req.Header["x-forwarded-for"] = []string{"6.6.6.6"}
	rec := httptest.NewRecorder()
	e.service(nil).Handler.ServeHTTP(rec, req)
	o := vfFinishObs(e, id, rec.Code, rec.Header(), rec.Body.Bytes())
	res := map[string]any{"rule": o.Rule, "view": o.View, "seen_by_mechanisms": o.Seen}

	if len(o.Upstream) > 0 {
		res["upstream_x_forwarded_for"] = http.Header(o.Upstream[0].Header).Values("X-Forwarded-For")
		res["upstream_x_forwarded_method"] = http.Header(o.Upstream[0].Header).Values("X-Forwarded-Method")
	}

	r.Set("probe_noncanonical_map_keys_untrusted_peer", res)
}

func vfTestC09(t *testing.T) {
	t.Helper()

	r := core.Begin("C09", "exploration")
	r.Rule(vfMode + " mode: real handler chain from newService(conf, cache, logger, executor).Handler (trusted-proxy middleware, request context factory, " +
		"real rule executor, 7 rules differing by method/scheme/host/path, header finalizer echoing method, scheme, host, path, query, client addresses, " +
		"rule id and the forwarded headers visible to mechanisms; proxy mode forwards to a recording upstream). Case = (trusted_proxies list from a pool of " +
		"nil/empty/IPv4/IPv6/CIDR/invalid/mixed lists plus random mixtures) x (RemoteAddr inside / at the boundary of / far from the listed ranges, " +
		"IPv4-mapped, zone-scoped, unparsable) x (request line) x (every non-empty subset of the 7 forwarded headers round robin, hostile values incl. " +
		"addresses taken from the trusted list, random name casing, repeated lines); each case is executed with and without the headers. A second phase " +
		"sends byte-exact requests over real loopback connections from 127.x.y.z and ::1. The lists include overlapping entries (duplicates, nested ranges " +
		"with the same or another first address, addresses of listed ranges) in both orders with peers from the set differences, and single addresses " +
		"written in other valid ways than Go prints them (upper-case digits, leading zeros, no or another `::`, IPv4-mapped forms); a third of the requests " +
		"arrives over TLS (req.TLS set resp. a TLS listener with a throw-away certificate), the actual scheme is then https. Oracle: own reading of trusted_proxies (net/netip); untrusted => " +
		"observation (status, rule, view, response, everything the upstream received) identical to the header-less request; trusted => model of honoured " +
		"headers; peers whose membership depends on the reading are ambiguous (either accepted). A case is non-trivial when honouring its headers would " +
		"change the request view (method, scheme, host, path, query or client addresses) and the peer is not ambiguous.")
	r.Assume(
		"X-Forwarded-Path: support was dropped (CHANGELOG #1073, security.adoc lists no component for it): for a trusted peer it overrides nothing; it must still be stripped for untrusted peers",
		"header maps handed to the handler have canonical keys, as net/http guarantees for requests read from a connection (non-canonical map keys: observation only, see probe_noncanonical_map_keys_untrusted_peer)",
		"peers that are listed only under one of the two readings (IPv4-mapped IPv6 vs IPv4, zone-scoped IPv6, RemoteAddr without port) may be treated either way",
		"repeated lines of a single-valued header and Forwarded values that are not of the plain `for=token` form are only generated for/checked weakly on trusted peers",
		"the scheme of a TLS protected hop is https, of a plain one http; X-Forwarded-Proto of a trusted peer overrides it either way; HTTP/2 is not driven",
	)

	e, err := vfSetup()
	for try := 0; err != nil && try < 3; try++ { // free-port races with other processes on this machine
		time.Sleep(200 * time.Millisecond)

		e, err = vfSetup()
	}

	if err != nil {
		r.Inconclusive("setup: " + err.Error())
		r.End()
	}

	k := &vfChecker{r: r}

	vfPhaseHandler(r, e, k, r.Pick(3600, 140000))
	vfPhaseSocket(r, e, k, r.Pick(400, 10000))
	vfPhaseConcurrentPeers(r, e, k, r.Pick(4000, 80000))
	vfPhaseLinkLocal(r, e, k, r.Pick(10, 150))
	vfProbeNonCanonical(r, e)

	if e.up != nil {
		r.Set("upstream_requests", e.up.n)
	}

	e.stop()

	r.Require("untrusted_rule_would_change", r.Counter("untrusted_rule_would_change"), int64(r.Pick(300, 5000)))
	r.Require("untrusted_held_with_rule", r.Counter("untrusted_held_with_rule"), int64(r.Pick(300, 5000)))
	r.Require("trusted_view_changes", r.Counter("trusted_view_changes"), int64(r.Pick(150, 2500)))
	r.Require("socket_cases", r.Counter("cases_socket"), int64(r.Pick(200, 5000)))
	r.Require("tls_hop_handler_cases", r.Counter("hop_https_handler"), int64(r.Pick(500, 10000)))
	r.Require("tls_hop_socket_cases", r.Counter("hop_https_socket"), int64(r.Pick(50, 1000)))
	r.Require("trusted_proto_header_differs_from_tls_hop", r.Counter("proto_header_differs_from_hop_https_trusted"), int64(r.Pick(20, 400)))
	r.Require("trusted_peers_in_set_differences", r.Counter("peer_difference_trusted"), int64(r.Pick(50, 1000)))
	r.Require("trusted_peers_listed_only_in_another_spelling", r.Counter("peer_listed_only_in_another_spelling_handler_trusted"), int64(r.Pick(30, 500)))

	if sk := r.Counter("proxy_upstream_trouble_skipped"); sk > r.Counter("cases_handler")/100 {
		r.Inconclusive(fmt.Sprintf("proxy mode: %d cases skipped because the local upstream was not reachable", sk))
	}

	keys := make([]string, 0, len(vfFwdNames))
	for _, n := range vfFwdNames {
		if r.Counter("hdr_"+n) == 0 {
			keys = append(keys, n)
		}
	}

	sort.Strings(keys)

	if len(keys) != 0 {
		r.Inconclusive("headers never generated: " + strings.Join(keys, ","))
	}

	r.End()
}

func TestC09(t *testing.T) { vfTestC09(t) }
