package proxy

// C09 in-package harness, proxy-mode specific part. Everything else lives in c09_common_test.go,
// which is byte-identical (apart from the package clause) to harness/inpkg/decision/c09_common_test.go.

import (
	"net/http"

	"github.com/rs/zerolog"

	"github.com/dadrus/heimdall/internal/cache"
	"github.com/dadrus/heimdall/internal/config"
	"github.com/dadrus/heimdall/internal/rules/rule"
)

const vfMode = "proxy"

// vfNewService builds the real proxy service (real middleware chain, real context factory and reverse
// proxy) for one trusted_proxies value. The *other* service's list trusts everybody, so a mix-up of the
// two would show.
func vfNewService(conf *config.Configuration, cch cache.Cache, exec rule.Executor, tp *[]string) *http.Server {
	c := *conf
	c.Serve.Proxy.TrustedProxies = tp
	all := []string{"0.0.0.0/0", "::/0"}
	c.Serve.Decision.TrustedProxies = &all

	return newService(&c, cch, zerolog.Nop(), exec)
}
