package cloudblob

import (
	"context"
	"errors"
	"fmt"
	"net/http"
	"net/http/httptest"
	"os"
	"runtime/pprof"
	"sort"
	"strings"
	"sync"
	"sync/atomic"
	"syscall"
	"testing"
	"time"

	"github.com/johannesboyne/gofakes3"
	"github.com/johannesboyne/gofakes3/backend/s3mem"
	"github.com/rs/zerolog"

	"github.com/dadrus/heimdall/internal/config"
	"github.com/dadrus/heimdall/internal/heimdall"
	rule_config "github.com/dadrus/heimdall/internal/rules/config"
	"github.com/dadrus/heimdall/internal/verif/vkit/core"
)

// C18, cloud_blob provider. Modes:
//   bucket: provider.watchChanges(ctx, endpoint) with the real ruleSetEndpoint (bucket URL, all blobs)
//           against gofakes3 (as the repository's tests do); every symbol mutates one of two blobs (or
//           makes the service unreachable for this poll) and runs one poll of the bucket.
//   blob:   the same with an endpoint that names one blob (URL with a path).
//   loop:   newProvider(watch_interval) + Start(): the real scheduler loop, gated per request so that
//           exactly one poll happens per step (logical quiescence).

const vfGenericBlob = "blob-mismatch"

const (
	vfbNewX     = iota // put x with new valid content
	vfbSameX           // put x again with identical bytes
	vfbEmptyX          // put x with empty content
	vfbInvalidX        // put x with invalid content
	vfbUnsupX          // put x with an unsupported content type (generated, not asserted)
	vfbDelX            // delete x
	vfbNewY            // put y with new valid content
	vfbDelY            // delete y
	vfbDown            // connections are dropped by the peer during this poll (network failure)
	vfbRefused         // connections are refused during this poll (network failure)
	vfbTimeout         // this poll runs into its deadline
	vfbFail            // next processor call fails (no poll)
	vfbFail2           // the second processor call of one poll fails, the first one is applied (no poll)
	vfbNewXNewY        // put x and y with new valid content, then ONE poll (two pending changes)
	vfbDelXNewY        // delete x and put y with new valid content, then one poll
	vfbNewXDelY        // put x with new valid content and delete y, then one poll
	vfbN
)

var vfbNames = [vfbN]string{"put-new(x)", "put-same(x)", "put-empty(x)", "put-invalid(x)", "put-unsupported-type(x)", "delete(x)", "put-new(y)", "delete(y)",
	"poll-while-connections-dropped", "poll-while-connections-refused", "poll-times-out", "processor-fails-next",
	"second-processor-call-of-a-poll-fails", "put-new(x)+put-new(y)", "delete(x)+put-new(y)", "put-new(x)+delete(y)"}

// vfbGate sits in front of gofakes3: it can drop connections (network failure) and, in loop mode,
// hold the first request of a poll (the bucket listing / the HEAD of the single blob) until permitted.
type vfbGate struct {
	next  http.Handler
	down  sync.Map // bucket name -> bool
	gates sync.Map // bucket name -> *vfbPollGate
}

type vfbPollGate struct {
	arrived int64
	permits chan struct{}
}

func vfbBucketOf(r *http.Request) string {
	p := strings.TrimPrefix(r.URL.Path, "/")
	if i := strings.IndexByte(p, '/'); i >= 0 {
		p = p[:i]
	}
	if p == "" || strings.HasPrefix(r.Host, "vf") { // virtual-hosted style
		if i := strings.IndexByte(r.Host, '.'); i > 0 {
			return r.Host[:i]
		}
	}
	return p
}

func (g *vfbGate) ServeHTTP(w http.ResponseWriter, r *http.Request) {
	b := vfbBucketOf(r)
	if os.Getenv("VERIF_DEBUG") != "" {
		fmt.Println("gate:", r.Method, r.Host, r.URL.String(), "bucket:", b)
	}
	if pg, ok := g.gates.Load(b); ok && r.URL.Query().Has("list-type") {
		pg := pg.(*vfbPollGate)
		atomic.AddInt64(&pg.arrived, 1)
		select {
		case <-pg.permits:
		case <-r.Context().Done():
			return
		}
	}
	if d, ok := g.down.Load(b); ok && d.(bool) {
		if hj, ok := w.(http.Hijacker); ok {
			if c, _, err := hj.Hijack(); err == nil {
				c.Close()
				return
			}
		}
		panic(http.ErrAbortHandler)
	}
	g.next.ServeHTTP(w, r)
}

type vfbBlob struct {
	exists  bool
	kind    string
	content string
	data    string
	ctype   string
}

type vfbWorld struct {
	backend *s3mem.Backend
	gate    *vfbGate
	bucket  string
	tag     string
	version int
	blobs   map[string]*vfbBlob // "x", "y"
	poll    string              // "", "down", "timeout" for the next poll
	only    string              // blob mode: the single blob the endpoint names
	salt    int                 // choice of the members of the classes "empty" and "invalid" in this sequence
	nth     int                 // symbols applied in this sequence
	docs    []string            // members stored in this sequence
	st      *vfStats
}

func vfbDocType(d vfDoc) string {
	if d.JSON {
		return "application/json"
	}
	return "application/yaml"
}

// keys under which logical blob l is stored. An endpoint naming a single blob uses URL.Path - which
// starts with a slash when the URL was parsed from configuration - as the object key; the object is
// stored with and without the slash so that the harness does not depend on that detail.
func (w *vfbWorld) keys(l string) []string {
	if w.only != "" {
		return []string{"/" + w.tag + l, w.tag + l}
	}
	return []string{w.tag + l}
}

func (w *vfbWorld) put(l, kind, content, data, ctype string) error {
	for _, k := range w.keys(l) {
		if _, err := w.backend.PutObject(w.bucket, k, map[string]string{"Content-Type": ctype}, strings.NewReader(data), int64(len(data))); err != nil {
			return err
		}
	}
	w.blobs[l] = &vfbBlob{exists: true, kind: kind, content: content, data: data, ctype: ctype}
	return nil
}

func (w *vfbWorld) del(l string) error {
	if b := w.blobs[l]; b == nil || !b.exists {
		return nil
	}
	for _, k := range w.keys(l) {
		if _, err := w.backend.DeleteObject(w.bucket, k); err != nil {
			return err
		}
	}
	w.blobs[l].exists = false
	return nil
}

func (w *vfbWorld) apply(sym int) error {
	w.poll = ""
	w.nth++
	newContent := func(l string) (string, string, string) {
		w.version++
		id := fmt.Sprintf("%s%s#%d", w.tag, l, w.version)
		if w.version%2 == 0 {
			return id, vfbJSON(id), "application/json"
		}
		return id, vfRuleSetYAML(id), "application/yaml"
	}
	switch sym {
	case vfbNewX:
		id, d, ct := newContent("x")
		return w.put("x", vfValid, id, d, ct)
	case vfbNewY:
		id, d, ct := newContent("y")
		return w.put("y", vfValid, id, d, ct)
	case vfbSameX:
		b := w.blobs["x"]
		if b == nil || !b.exists {
			return nil
		}
		return w.put("x", b.kind, b.content, b.data, b.ctype)
	case vfbEmptyX:
		prev := ""
		if b := w.blobs["x"]; b != nil && b.exists && b.kind == vfValid {
			prev = b.data
		}
		d := vfEmptyDoc(w.salt+w.nth, prev, w.st)
		w.docs = append(w.docs, "empty:"+d.Name)
		return w.put("x", vfEmpty, "", d.Data, vfbDocType(d))
	case vfbInvalidX:
		w.version++
		d := vfInvalidDoc(w.salt+w.nth, w.st)
		w.docs = append(w.docs, "invalid:"+d.Name)
		return w.put("x", vfInvalid, "", d.Data, vfbDocType(d))
	case vfbUnsupX:
		return w.put("x", vfUnasserted, "", vfRuleSetYAML("unsupported"), "text/plain")
	case vfbDelX:
		return w.del("x")
	case vfbDelY:
		return w.del("y")
	case vfbNewXNewY, vfbDelXNewY, vfbNewXDelY:
		// two blobs change before the bucket is polled once
		first, second := vfbNewX, vfbNewY
		if sym == vfbDelXNewY {
			first = vfbDelX
		} else if sym == vfbNewXDelY {
			second = vfbDelY
		}
		if err := w.apply(first); err != nil {
			return err
		}
		return w.apply(second)
	case vfbDown:
		w.poll = "down"
	case vfbRefused:
		w.poll = "refused"
	case vfbTimeout:
		w.poll = "timeout"
	}
	return nil
}

func vfbJSON(id string) string {
	return `{"version":"1alpha4","rules":[{"id":"` + id + `","match":{"routes":[{"path":"/` + strings.NewReplacer("#", "_", ":", "_").Replace(id) +
		`"}]},"execute":[{"authenticator":"a"}]}]}`
}

func (w *vfbWorld) state(l string) vfState {
	if w.poll != "" {
		return vfState{Kind: vfUnreachable}
	}
	b := w.blobs[l]
	if b == nil || !b.exists {
		return vfState{Kind: vfGone}
	}
	return vfState{Kind: b.kind, Content: b.content}
}

func (w *vfbWorld) truth(l string) vfState {
	b := w.blobs[l]
	if b == nil || !b.exists {
		return vfState{Kind: vfGone}
	}
	return vfState{Kind: b.kind, Content: b.content}
}

func (w *vfbWorld) holder(content string) string {
	for l, b := range w.blobs {
		if b.exists && b.kind == vfValid && b.content == content {
			return l
		}
	}
	return ""
}

func (w *vfbWorld) sources() []string {
	if w.only != "" {
		return []string{w.only}
	}
	return []string{"x", "y"}
}

func (w *vfbWorld) reset() {
	for l := range w.blobs {
		_ = w.del(l)
	}
	w.blobs = map[string]*vfbBlob{}
	w.version = 0
	w.poll = ""
	w.nth = 0
	w.docs = nil
}

// vfbClassifier returns the Classify hook for one sequence; it needs the oracle to know which Source
// string the provider used when it created a rule set.
func vfbClassifier(o *vfOracle) func(m *vfMismatch, s *vfStep) string {
	taintApplied := func(sig string) {
		for l := range o.applied {
			if _, ok := o.taint[l]; !ok {
				o.taint[l] = sig
			}
		}
	}
	return func(m *vfMismatch, s *vfStep) string {
		unreachable := len(s.States) > 0
		blocked := false
		for l, st := range s.States {
			if st.Kind != vfUnreachable {
				unreachable = false
			}
			if l != m.Source && (st.Kind == vfInvalid || st.Kind == vfUnasserted) {
				blocked = true
			}
		}
		switch {
		// documentation: on network issues the rule sets previously received from the bucket are preserved;
		// the provider treats the failed listing as "bucket is empty" and unloads everything it knows
		case unreachable && m.call.Op == "D" && (m.Kind == "unexpected-call" || m.Kind == "delete-for-source-never-created"):
			taintApplied("blob-unload-on-network-error") // the provider forgot them, the processor still has them
			return "blob-unload-on-network-error"
		// OnDeleted is called with Source "blob:"+<source used for OnCreated>: the delete never matches
		case m.Kind == "missing-call" && m.exp.Op == "D" && m.call.Op == "D" && m.call.Source == "blob:"+o.srcKey[m.Source]:
			return "blob-delete-source-mismatch"
		// a blob that cannot be parsed makes the whole listing fail: changes of the other blobs are not applied
		case m.Kind == "missing-call" && blocked && m.st.Kind != vfInvalid:
			return "blob-invalid-blocks-bucket"
		// endpoint naming one blob: a deleted blob is reported as an internal error, the rule set stays loaded
		case m.Kind == "missing-call" && m.exp.Op == "D" && s.Ctx["single-blob"] != "" && m.st.Kind == vfGone && m.call.Op == "":
			return "blob-single-gone-not-unloaded"
		}
		return ""
	}
}

// vfbFetcher is the real ruleSetEndpoint; only for a scripted "unreachable" poll it returns, without
// contacting the service, the result (rule sets, error) the real endpoint produced for a really dropped / refused connection in the
// calibration step (the AWS SDK retries a dropped connection three times with seconds of back-off,
// which cannot be repeated thousands of times).
type vfbFetcher struct {
	real   *ruleSetEndpoint
	replay *vfbFetchResult // non-nil: outcome of this poll
}

// vfbFetchResult is what the real endpoint returned for a real network failure.
type vfbFetchResult struct {
	sets []*rule_config.RuleSet
	err  error
	done bool
}

type vfbFailures struct{ dropped, refused vfbFetchResult }

func (f *vfbFetcher) ID() string { return f.real.ID() }

func (f *vfbFetcher) FetchRuleSets(ctx context.Context) ([]*rule_config.RuleSet, error) {
	if f.replay != nil {
		return f.replay.sets, f.replay.err
	}
	return f.real.FetchRuleSets(ctx)
}

func vfbEndpoint(srvURL, bucket, blobKey string) (*ruleSetEndpoint, error) {
	raw := "s3://" + bucket
	if blobKey != "" {
		raw += "/" + blobKey
	}
	raw += "?endpoint=" + srvURL + "&region=eu-central-1"
	var conf struct {
		Buckets []*ruleSetEndpoint `mapstructure:"buckets"`
	}
	if err := decodeConfig(map[string]any{"buckets": []map[string]any{{"url": raw}}}, &conf); err != nil {
		return nil, err
	}
	if len(conf.Buckets) != 1 || conf.Buckets[0].URL == nil {
		return nil, fmt.Errorf("bucket configuration not decoded")
	}
	return conf.Buckets[0], nil
}

func TestC18(t *testing.T) {
	r := core.Begin("C18", "fault_enumeration")
	r.Rule("cloud_blob: exhaustive sequences (length <=3 quick / <=4 thorough, plus a seeded sample of longer ones) over 16 symbols (blob x: put new/same/empty/invalid/unsupported type, delete; " +
		"blob y: put new, delete; two blobs changed before one poll: new+new, delete+new, new+delete; poll while connections are dropped / refused; poll running into its deadline; " +
		"failure of the next processor call / of the second processor call of a poll; the empty and the invalid contents rotate over doc_members_empty / doc_members_invalid as a function of the sequence); each symbol mutates the gofakes3 bucket and runs " +
		"provider.watchChanges for the bucket endpoint; the same with an endpoint naming a single blob; plus sequences against the real scheduler loop. Oracle: vfDecide per blob and poll, " +
		"active rule sets = latest valid content of existing blobs at the end. Non-trivial: >=2 successful processor calls.")
	r.Assume("S3 is gofakes3 on loopback (the in-module fake the repository's tests use); network failure = the fake drops the connection / the poll's context deadline has elapsed",
		"AWS_MAX_ATTEMPTS=1 so that the SDK does not retry with back-off inside one poll",
		"outcome mapping: dropped connection/timeout = bucket still exists (previous kept); object deleted = gone (unloaded); empty object (no rule set in it) = unloaded; unsupported content type not asserted")

	os.Setenv("AWS_ACCESS_KEY_ID", "test")
	os.Setenv("AWS_SECRET_ACCESS_KEY", "test")
	os.Setenv("AWS_MAX_ATTEMPTS", "1")
	os.Setenv("AWS_EC2_METADATA_DISABLED", "true")
	os.Unsetenv("AWS_CA_BUNDLE") // sandbox setting; makes every bucket client parse the system CA bundle (8 ms per poll)
	os.Setenv("AWS_CONFIG_FILE", "/nonexistent")
	os.Setenv("AWS_SHARED_CREDENTIALS_FILE", "/nonexistent")

	backend := s3mem.New()
	gate := &vfbGate{next: gofakes3.New(backend).Server()}
	// every poll of the provider opens a new bucket client whose idle connections are never closed; without
	// keep-alive on the fake's side the test binary would run out of descriptors after some ten thousand polls
	srv := httptest.NewUnstartedServer(gate)
	srv.Config.SetKeepAlivesEnabled(false)
	srv.Start()
	defer srv.Close()

	if pf := os.Getenv("VERIF_CPUPROFILE"); pf != "" { // development aid
		if f, err := os.Create(pf); err == nil {
			_ = pprof.StartCPUProfile(f)
		}
	}
	fails, ok := vfbCalibrate(r, backend, gate, srv.URL)
	if !ok {
		r.End()
	}
	vfInitDocs(r)
	if prov, mode, names, _, ok := vfReplayCase(r); ok {
		if seq, known := vfSymbols(names, vfbNames[:]); prov == "cloud_blob" && known {
			st := &vfStats{}
			switch mode {
			case "bucket", "blob":
				bucket := "vf_replay_" + mode
				_ = backend.CreateBucket(bucket)
				w := &vfbWorld{backend: backend, gate: gate, bucket: bucket, blobs: map[string]*vfbBlob{}}
				blobKey := ""
				if mode == "blob" {
					blobKey, w.only = "x", "x"
				}
				if ep, err := vfbEndpoint(srv.URL, bucket, blobKey); err == nil {
					vfbRunDirect(r, w, ep, fails[mode == "blob"], mode, seq, st)
				}
			default:
				vfbRunLoop(r, backend, gate, srv.URL, 0, seq, st)
			}
			r.Eval(1)
			vfFlushStats(r, st)
		}
		r.End()
	}
	t0 := time.Now()
	vfbDirect(r, backend, gate, srv.URL, false, fails[false])
	r.Set("blob_bucket_wall_s", time.Since(t0).Seconds())
	t0 = time.Now()
	vfbDirect(r, backend, gate, srv.URL, true, fails[true])
	r.Set("blob_single_wall_s", time.Since(t0).Seconds())
	t0 = time.Now()
	vfbLoop(r, backend, gate, srv.URL)
	vfbTwoBuckets(r, backend, srv.URL)
	r.Set("blob_loop_wall_s", time.Since(t0).Seconds())
	pprof.StopCPUProfile()

	r.Set("exhaustive_subspace", "all sequences up to blob_*_max_exhaustive_length over blob_alphabet (bucket and single-blob endpoint); longer sequences and the loop mode are seeded samples")
	r.Require("blob_sequences", r.Counter("blob_direct_sequences"), 1500)
	r.Require("blob_calls_created", r.Counter("calls_C"), 500)
	r.Require("blob_calls_updated", r.Counter("calls_U"), 100)
	r.Require("blob_calls_deleted", r.Counter("calls_D"), 200)
	r.Require("blob_unchanged_no_call_steps", r.Counter("steps_unchanged_expect_no_call"), 500)
	r.Require("blob_invalid_kept_steps", r.Counter("steps_invalid_expect_previous_kept"), 100)
	r.Require("blob_unreachable_steps_with_applied_rule_set", r.Counter("steps_unreachable_expect_previous_kept"), 100)
	r.Require("blob_loop_steps_quiesced", r.Counter("blob_loop_steps_quiesced"), 10)
	r.End()
}

// vfbCalibrate checks the harness against the real endpoint (a valid blob is fetched, an empty one is
// skipped) and obtains the error of a really dropped connection and of an elapsed deadline.
func vfbCalibrate(r *core.Run, backend *s3mem.Backend, gate *vfbGate, srvURL string) (map[bool]*vfbFailures, bool) {
	bucket := "vf_calibration"
	_ = backend.CreateBucket(bucket)
	w := &vfbWorld{backend: backend, gate: gate, bucket: bucket, blobs: map[string]*vfbBlob{}}
	ep, err := vfbEndpoint(srvURL, bucket, "")
	if err != nil {
		r.Inconclusive("blob calibration: endpoint config: " + err.Error())
		return nil, false
	}
	_ = w.apply(vfbNewX)
	_ = w.put("y", vfEmpty, "", "", "application/yaml")
	ctx := context.Background()
	rs, err := ep.FetchRuleSets(ctx)
	if err != nil || len(rs) != 1 || rs[0].Rules[0].ID != w.blobs["x"].content {
		r.Inconclusive(fmt.Sprintf("blob calibration: fetching one valid and one empty blob gave %d rule sets, err=%v", len(rs), err))
		return nil, false
	}
	// real network failures for both endpoint kinds, obtained concurrently (the SDK retries each three times with back-off)
	fails := map[bool]*vfbFailures{false: {}, true: {}}
	t0 := time.Now()
	var wg sync.WaitGroup
	for _, single := range []bool{false, true} {
		single := single
		blobKey := ""
		if single {
			blobKey = "x"
		}
		wg.Add(2)
		go func() {
			defer wg.Done()
			b := bucket + "_down"
			if single {
				b += "_single"
			}
			_ = backend.CreateBucket(b)
			epd, err := vfbEndpoint(srvURL, b, blobKey)
			if err != nil {
				return
			}
			gate.down.Store(b, true)
			fails[single].dropped.sets, fails[single].dropped.err = epd.FetchRuleSets(ctx)
			fails[single].dropped.done = true
		}()
		go func() {
			defer wg.Done()
			addr, err := vfReservePort()
			if err != nil {
				return
			}
			epr, err := vfbEndpoint("http://"+addr, bucket, blobKey)
			if err == nil {
				fails[single].refused.sets, fails[single].refused.err = epr.FetchRuleSets(ctx)
				fails[single].refused.done = true
			}
		}()
	}
	wg.Wait()
	for _, f := range fails {
		if !f.dropped.done || !f.refused.done {
			r.Inconclusive("blob calibration: could not produce the network failures")
			return nil, false
		}
	}
	if fails[false].refused.err == nil || fails[true].refused.err == nil || fails[true].dropped.err == nil {
		r.Inconclusive("blob calibration: a refused connection did not make the fetch fail")
		return nil, false
	}
	c, cancel := context.WithDeadline(ctx, time.Unix(1, 0))
	_, errTimeout := ep.FetchRuleSets(c)
	cancel()
	class := func(e error) string {
		switch {
		case e == nil:
			return "no error"
		case errors.Is(e, heimdall.ErrCommunicationTimeout):
			return "ErrCommunicationTimeout"
		case errors.Is(e, heimdall.ErrCommunication):
			return "ErrCommunication"
		case errors.Is(e, heimdall.ErrInternal):
			return "ErrInternal"
		}
		return "other"
	}
	r.Set("blob_calibration", map[string]any{
		"bucket_dropped_connection_result": fmt.Sprintf("%d rule sets, error class: %s", len(fails[false].dropped.sets), class(fails[false].dropped.err)), "bucket_dropped_connection_error": fmt.Sprint(fails[false].dropped.err),
		"bucket_refused_connection_result": fmt.Sprintf("%d rule sets, error class: %s", len(fails[false].refused.sets), class(fails[false].refused.err)), "bucket_refused_connection_error": fmt.Sprint(fails[false].refused.err),
		"single_blob_dropped_connection_result": fmt.Sprintf("%d rule sets, error class: %s", len(fails[true].dropped.sets), class(fails[true].dropped.err)), "single_blob_dropped_connection_error": fmt.Sprint(fails[true].dropped.err),
		"single_blob_refused_connection_result": fmt.Sprintf("%d rule sets, error class: %s", len(fails[true].refused.sets), class(fails[true].refused.err)), "single_blob_refused_connection_error": fmt.Sprint(fails[true].refused.err),
		"elapsed_deadline_error_class": class(errTimeout), "elapsed_deadline_error": fmt.Sprint(errTimeout),
		"network_failure_fetches_wall_s": time.Since(t0).Seconds(),
	})
	return fails, true
}

// vfReservePort binds a loopback TCP port without listening on it: connecting gets ECONNREFUSED.
func vfReservePort() (string, error) {
	fd, err := syscall.Socket(syscall.AF_INET, syscall.SOCK_STREAM, 0)
	if err != nil {
		return "", err
	}
	if err = syscall.Bind(fd, &syscall.SockaddrInet4{Port: 0, Addr: [4]byte{127, 0, 0, 1}}); err != nil {
		return "", err
	}
	sa, err := syscall.Getsockname(fd)
	if err != nil {
		return "", err
	}
	return fmt.Sprintf("127.0.0.1:%d", sa.(*syscall.SockaddrInet4).Port), nil
}

func vfbSeqNames(d []int) []string {
	out := make([]string, len(d))
	for i, s := range d {
		out[i] = vfbNames[s]
	}
	return out
}

// symbols that make sense for an endpoint naming the single blob x
var vfbSingleAlpha = []int{vfbNewX, vfbSameX, vfbEmptyX, vfbInvalidX, vfbUnsupX, vfbDelX, vfbDown, vfbRefused, vfbTimeout, vfbFail}

func vfbDirect(r *core.Run, backend *s3mem.Backend, gate *vfbGate, srvURL string, single bool, fails *vfbFailures) {
	maxLen := r.Pick(3, 4)
	nRandom := r.Pick(1000, 20000) // seeded longer sequences (length maxLen+1 .. maxLen+2)
	alpha := make([]int, vfbN)
	for i := range alpha {
		alpha[i] = i
	}
	mode := "bucket"
	if single {
		alpha = vfbSingleAlpha
		mode = "blob"
		nRandom /= 4
	}
	setup := func(n int, gen func(idx int, digits []int)) func(wk int) (func(int, *vfStats), func()) {
		return func(wk int) (func(int, *vfStats), func()) {
			bucket := fmt.Sprintf("vf_%s_%d", mode, wk) // not DNS compatible => path-style requests, as in the repository's tests
			_ = backend.CreateBucket(bucket)
			blobKey := ""
			w := &vfbWorld{backend: backend, gate: gate, bucket: bucket, blobs: map[string]*vfbBlob{}}
			if single {
				blobKey = "x"
				w.only = "x"
			}
			ep, err := vfbEndpoint(srvURL, bucket, blobKey)
			if err != nil {
				r.Inconclusive("blob: endpoint config: " + err.Error())
				return func(int, *vfStats) {}, nil
			}
			book := &vfCaseBook{}
			digits := make([]int, n)
			run := func(idx int, st *vfStats) {
				gen(idx, digits)
				nOK, bad := vfbRunDirect(r, w, ep, fails, mode, digits, st)
				book.add(fmt.Sprint("blob|", mode, digits), nOK >= 2)
				st.add("blob_direct_sequences", 1)
				st.add("blob_"+mode+"_sequences", 1)
				if bad {
					st.add("blob_direct_sequences_with_mismatch", 1)
				}
				if n == 3 && idx == 500 {
					r.Sample(map[string]any{"provider": "cloud_blob", "mode": mode, "sequence": vfbSeqNames(digits)})
				}
			}
			return run, func() { book.flush(r); w.reset() }
		}
	}
	for n := 1; n <= maxLen; n++ {
		n := n
		total := vfPow(len(alpha), n)
		vfParallel(r, total, setup(n, func(idx int, digits []int) {
			vfDigits(idx, len(alpha), n, digits)
			for i := range digits {
				digits[i] = alpha[digits[i]]
			}
		}))
	}
	// seeded longer sequences; sequence i is a function of (seed, i) only
	longLen := maxLen + 2
	vfParallel(r, nRandom, setup(longLen, func(idx int, digits []int) {
		rng := r.Stream(fmt.Sprintf("c18-blob-%s-%d", mode, idx))
		for i := range digits {
			digits[i] = alpha[rng.IntN(len(alpha))]
		}
	}))
	r.Set("blob_alphabet", vfbNames[:])
	r.Set("blob_"+mode+"_max_exhaustive_length", maxLen)
	r.Set("blob_"+mode+"_seeded_sequences_of_length", map[string]int{"count": nRandom, "length": longLen})
}

func vfbRunDirect(r *core.Run, w *vfbWorld, ep *ruleSetEndpoint, fails *vfbFailures, mode string, seq []int, st *vfStats) (int, bool) {
	w.reset()
	w.salt, w.st = vfDocSalt(seq, len(w.only)), st
	rec := vfNewRecorder()
	o := vfNewOracle(st)
	classify := vfbClassifier(o)
	logger := zerolog.Nop()
	if os.Getenv("VERIF_DEBUG") != "" {
		logger = zerolog.New(os.Stdout)
	}
	p := &provider{p: rec, l: logger, configured: true}
	base := logger.WithContext(context.Background())
	step := 0
	fetcher := &vfbFetcher{real: ep}
	ctxInfo := map[string]string{}
	if w.only != "" {
		ctxInfo["single-blob"] = "1"
	}
	poll := func(action string) {
		step++
		states := map[string]vfState{}
		for _, l := range w.sources() {
			states[l] = w.state(l)
		}
		ctx := base
		fetcher.replay = nil
		switch w.poll {
		case "down":
			fetcher.replay = &fails.dropped
		case "refused":
			fetcher.replay = &fails.refused
		case "timeout":
			c, cancel := context.WithDeadline(base, time.Unix(1, 0))
			defer cancel()
			ctx = c
		}
		_ = p.watchChanges(ctx, fetcher)
		w.poll = ""
		o.step(step, &vfStep{Action: action, States: states, Holder: w.holder, Classify: classify, Generic: vfGenericBlob, Ctx: ctxInfo}, rec.take())
		st.add("blob_polls", 1)
	}
	for _, sym := range seq {
		if sym == vfbFail {
			rec.armFailure()
			continue
		}
		if sym == vfbFail2 {
			rec.armFailureAt(2)
			continue
		}
		if err := w.apply(sym); err != nil {
			r.Inconclusive("blob: mutation failed: " + err.Error())
			return 0, false
		}
		poll(vfbNames[sym] + "; poll")
	}
	// the next polling round, reachable and without injected failure
	rec.disarm()
	poll("settle poll")
	truth := map[string]vfState{}
	for _, l := range w.sources() {
		truth[l] = w.truth(l)
	}
	o.final(step+1, truth, rec.snapshot(), &vfStep{Classify: classify, Generic: vfGenericBlob, Ctx: ctxInfo})
	bad := o.report(r, "cloud_blob", mode, vfbSeqNames(seq), fmt.Sprintf(" docs=%v", w.docs))
	return o.nOK, bad
}

// vfbTwoBuckets: two configured buckets that have the same name and live on two services - their URLs differ in
// nothing but the query. Each is a source of its own: polling one must never touch what the other one delivered.
func vfbTwoBuckets(r *core.Run, backendA *s3mem.Backend, srvA string) {
	backendB := s3mem.New()
	srvB := httptest.NewUnstartedServer(gofakes3.New(backendB).Server())
	srvB.Config.SetKeepAlivesEnabled(false)
	srvB.Start()
	defer srvB.Close()
	const bucket = "vf_same_name"
	_ = backendA.CreateBucket(bucket)
	_ = backendB.CreateBucket(bucket)
	wA := &vfbWorld{backend: backendA, bucket: bucket, blobs: map[string]*vfbBlob{}}
	wB := &vfbWorld{backend: backendB, bucket: bucket, blobs: map[string]*vfbBlob{}}
	epA, errA := vfbEndpoint(srvA, bucket, "")
	epB, errB := vfbEndpoint(srvB.URL, bucket, "")
	if errA != nil || errB != nil {
		r.Inconclusive(fmt.Sprintf("blob: two buckets: endpoint config: %v %v", errA, errB))
		return
	}
	rec := vfNewRecorder()
	p := &provider{p: rec, l: zerolog.Nop(), configured: true}
	ctx := zerolog.Nop().WithContext(context.Background())
	type stepT struct {
		What     string   `json:"step"`
		Expected []string `json:"expected_calls"`
		Observed []string `json:"observed_calls"`
	}
	var hist []stepT
	bad := false
	poll := func(what string, ep *ruleSetEndpoint, expect ...string) {
		_ = p.watchChanges(ctx, &vfbFetcher{real: ep})
		var obs []string
		for _, c := range rec.take() {
			obs = append(obs, c.Op+"("+c.Content+")")
		}
		sort.Strings(obs)
		sort.Strings(expect)
		hist = append(hist, stepT{what, expect, obs})
		if strings.Join(obs, ",") != strings.Join(expect, ",") {
			bad = true
		}
		r.Eval(1)
	}
	_ = wA.apply(vfbNewX)
	_ = wB.apply(vfbNewX)
	ca, cb := wA.blobs["x"].content, wB.blobs["x"].content
	poll("bucket A holds a rule set; poll A", epA, "C("+ca+")")
	poll("bucket B (same name, other service) holds another rule set; poll B", epB, "C("+cb+")")
	poll("nothing changed; poll A", epA)
	poll("nothing changed; poll B", epB)
	_ = wA.apply(vfbNewX)
	ca2 := wA.blobs["x"].content
	poll("the rule set of bucket A changed; poll A", epA, "U("+ca2+")")
	poll("nothing changed in bucket B; poll B", epB)
	active := rec.snapshot()
	r.Case("blob|two-buckets-differing-in-the-query-only", true)
	r.Count("blob_two_bucket_polls", len(hist))
	if len(active) != 2 {
		bad = true
	}
	if bad {
		r.Violation("blob-buckets-differing-in-query-share-state", fmt.Sprintf("two buckets of the same name on two services: %d rule sets active at the end, expected 2; calls differ from the expectation", len(active)),
			map[string]any{"provider": "cloud_blob", "bucket_urls": []string{epA.URL.String(), epB.URL.String()}, "steps": hist, "active_at_the_end": active})
	}
}

// ---------------------------------------------------------------------------------------------
// real scheduler loop

func vfbLoop(r *core.Run, backend *s3mem.Backend, gate *vfbGate, srvURL string) {
	nSeq := r.Pick(6, 40)
	seqLen := r.Pick(5, 7)
	rng := r.Stream("c18-blob-loop")
	st := &vfStats{}
	book := &vfCaseBook{}
	defer func() {
		for k, v := range st.m {
			r.Count(k, v)
		}
		book.flush(r)
	}()
	fixed := [][]int{{vfbNewX, vfbSameX, vfbNewY, vfbDown, vfbNewX, vfbDelY, vfbInvalidX, vfbNewX}}
	for n := 0; n < nSeq; n++ {
		var seq []int
		if n < len(fixed) {
			seq = fixed[n]
		} else {
			seq = make([]int, seqLen)
			for i := range seq {
				seq[i] = rng.IntN(vfbN)
				if seq[i] == vfbTimeout || seq[i] == vfbDown || seq[i] == vfbRefused {
					// no per-poll deadline can be injected into the real loop, and a really dropped connection costs
					// seconds of SDK back-off: only the fixed first sequence contains one
					seq[i] = vfbSameX
				}
			}
		}
		nOK, ok := vfbRunLoop(r, backend, gate, srvURL, n, seq, st)
		if !ok {
			return
		}
		book.add(fmt.Sprint("blobl|", seq), nOK >= 2)
		st.add("blob_loop_sequences", 1)
	}
}

func vfbRunLoop(r *core.Run, backend *s3mem.Backend, gate *vfbGate, srvURL string, n int, seq []int, st *vfStats) (int, bool) {
	bucket := fmt.Sprintf("vf_loop_%d", n)
	_ = backend.CreateBucket(bucket)
	w := &vfbWorld{backend: backend, gate: gate, bucket: bucket, blobs: map[string]*vfbBlob{}, salt: vfDocSalt(seq, 2), st: st}
	rec := vfNewRecorder()
	o := vfNewOracle(st)
	classify := vfbClassifier(o)
	pg := &vfbPollGate{permits: make(chan struct{}, 1024)}
	gate.gates.Store(bucket, pg)
	defer gate.gates.Delete(bucket)
	conf := &config.Configuration{Providers: config.RuleProviders{CloudBlob: map[string]any{
		"watch_interval": "5ms",
		"buckets":        []map[string]any{{"url": "s3://" + bucket + "?endpoint=" + srvURL + "&region=eu-central-1"}},
	}}}
	prov, err := newProvider(conf, rec, zerolog.Nop())
	if err != nil {
		r.Inconclusive("blob loop: newProvider: " + err.Error())
		return 0, false
	}
	if err = prov.Start(context.Background()); err != nil {
		r.Inconclusive("blob loop: Start: " + err.Error())
		return 0, false
	}
	defer func() {
		close(pg.permits) // let everything pass
		_ = prov.Stop(context.Background())
	}()
	// The bucket listing of poll k is held at the gate; when the listing of poll k+1 arrives, poll k has
	// been processed completely (one job per bucket, singleton mode). A watchdog firing is inconclusive.
	arrive := func(want int64) bool {
		deadline := time.Now().Add(30 * time.Second)
		for atomic.LoadInt64(&pg.arrived) < want {
			if time.Now().After(deadline) {
				r.Inconclusive(fmt.Sprintf("blob loop: bucket not polled again within the watchdog (sequence %v)", vfbSeqNames(seq)))
				return false
			}
			time.Sleep(200 * time.Microsecond)
		}
		return true
	}
	if !arrive(1) {
		return 0, false
	}
	step := 0
	onePoll := func(action string) bool {
		step++
		states := map[string]vfState{"x": w.state("x"), "y": w.state("y")}
		a0 := atomic.LoadInt64(&pg.arrived)
		if w.poll == "down" {
			gate.down.Store(bucket, true)
		}
		pg.permits <- struct{}{}
		if !arrive(a0 + 1) {
			return false
		}
		gate.down.Store(bucket, false)
		w.poll = ""
		st.add("blob_loop_steps_quiesced", 1)
		o.step(step, &vfStep{Action: action, States: states, Holder: w.holder, Classify: classify, Generic: vfGenericBlob}, rec.take())
		return true
	}
	for _, sym := range seq {
		if sym == vfbFail {
			rec.armFailure()
			continue
		}
		if sym == vfbFail2 {
			rec.armFailureAt(2)
			continue
		}
		if err := w.apply(sym); err != nil {
			r.Inconclusive("blob loop: mutation failed: " + err.Error())
			return 0, false
		}
		if !onePoll(vfbNames[sym] + "; one poll of the real scheduler loop") {
			return 0, false
		}
	}
	rec.disarm()
	if !onePoll("settle poll") {
		return 0, false
	}
	truth := map[string]vfState{"x": w.truth("x"), "y": w.truth("y")}
	o.final(step+1, truth, rec.snapshot(), &vfStep{Classify: classify, Generic: vfGenericBlob})
	o.report(r, "cloud_blob", "loop", vfbSeqNames(seq), fmt.Sprintf(" docs=%v", w.docs))
	return o.nOK, true
}
