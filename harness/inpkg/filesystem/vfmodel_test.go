package filesystem

// C18 shared part (recording rule-set processor, reference model "last applied content per source",
// exhaustive sequence enumeration helpers). This file is kept IDENTICAL (except for the package
// clause) in harness/inpkg/{filesystem,httpendpoint,cloudblob,kubernetes}: the four directories are
// compiled into four different heimdall packages, so the code cannot be shared through an import
// without touching the kit.

import (
	"errors"
	"fmt"
	"os"
	"runtime"
	"sort"
	"strings"
	"sync"
	"sync/atomic"

	vfrc "github.com/dadrus/heimdall/internal/rules/config"
	"github.com/dadrus/heimdall/internal/verif/vkit/core"
)

// ---------------------------------------------------------------------------------------------
// recording processor

// vfCall is one call observed at the rule.SetProcessor boundary.
type vfCall struct {
	Op      string `json:"op"`                // C(reated) U(pdated) D(eleted)
	Source  string `json:"source"`            // RuleSet.Source exactly as handed over by the provider
	Content string `json:"content,omitempty"` // content id = id of the first rule (C/U only)
	Failed  bool   `json:"failed,omitempty"`  // the (injected) processor error was returned for this call
}

func (c vfCall) String() string {
	s := c.Op + "(" + c.Source
	if c.Content != "" {
		s += "=" + c.Content
	}
	s += ")"
	if c.Failed {
		s += "!failed"
	}
	return s
}

var errVfInjected = errors.New("verif: injected processor failure")

// vfRecorder implements rule.SetProcessor. Its `active` map behaves like heimdall's repository:
// keyed by Source; an update of an unknown source adds it, a delete of an unknown source is a
// silent no-op (see internal/rules/repository_impl.go).
type vfRecorder struct {
	mu       sync.Mutex
	calls    []vfCall
	active   map[string]string
	failNext bool
	failNth  int                       // >0: the failNth-th processor call of one step (poll) fails; stays armed until that happened
	nInStep  int                       // processor calls since the last take()
	notify   func(vfCall)              // optional; called without the lock held (sentinels in the asynchronous modes)
	reject   func(content string) bool // optional; content the processor refuses (providers that leave validation to it)
}

func vfNewRecorder() *vfRecorder { return &vfRecorder{active: map[string]string{}} }

func (r *vfRecorder) record(op string, rs *vfrc.RuleSet) error {
	c := vfCall{Op: op, Source: rs.Source}
	if op != "D" && len(rs.Rules) > 0 {
		c.Content = rs.Rules[0].ID
	}
	r.mu.Lock()
	if op != "D" && r.reject != nil && r.reject(c.Content) {
		c.Failed = true
	} else if r.failNext {
		r.failNext = false
		c.Failed = true
	} else if r.nInStep++; r.failNth > 0 && r.nInStep == r.failNth {
		r.failNth = 0
		c.Failed = true
	} else if op == "D" {
		delete(r.active, c.Source)
	} else {
		r.active[c.Source] = c.Content
	}
	r.calls = append(r.calls, c)
	n := r.notify
	r.mu.Unlock()
	if n != nil {
		n(c)
	}
	if c.Failed {
		return errVfInjected
	}
	return nil
}

func (r *vfRecorder) OnCreated(rs *vfrc.RuleSet) error { return r.record("C", rs) }
func (r *vfRecorder) OnUpdated(rs *vfrc.RuleSet) error { return r.record("U", rs) }
func (r *vfRecorder) OnDeleted(rs *vfrc.RuleSet) error { return r.record("D", rs) }

func (r *vfRecorder) take() []vfCall {
	r.mu.Lock()
	c := r.calls
	r.calls = nil
	r.nInStep = 0
	r.mu.Unlock()
	return c
}

func (r *vfRecorder) armFailure() {
	r.mu.Lock()
	r.failNext = true
	r.mu.Unlock()
}

// armFailureAt lets the n-th processor call of a later step fail (the calls before it succeed).
func (r *vfRecorder) armFailureAt(n int) {
	r.mu.Lock()
	r.failNth = n
	r.mu.Unlock()
}

func (r *vfRecorder) disarm() {
	r.mu.Lock()
	r.failNth = 0
	r.failNext = false
	r.mu.Unlock()
}

func (r *vfRecorder) armed() bool {
	r.mu.Lock()
	defer r.mu.Unlock()
	return r.failNext || r.failNth > 0
}

func (r *vfRecorder) snapshot() map[string]string {
	r.mu.Lock()
	defer r.mu.Unlock()
	m := make(map[string]string, len(r.active))
	for k, v := range r.active {
		m[k] = v
	}
	return m
}

// ---------------------------------------------------------------------------------------------
// reference model

// state kinds of a source at the moment the provider looks at it
const (
	vfValid       = "valid"       // parses and validates; Content identifies the bytes
	vfInvalid     = "invalid"     // syntactically/structurally invalid -> previous version stays
	vfEmpty       = "empty"       // exists, no content -> unloaded
	vfGone        = "gone"        // file removed/renamed away, 404, object deleted -> unloaded
	vfUnreachable = "unreachable" // network failure (refused, timeout): source still exists -> previous stays
	vfUnasserted  = "unasserted"  // outcome the statement and the documentation disagree about -> only recorded
	vfSignalGone  = "signal-gone" // a removal was signalled although the source exists again: unload or nothing
)

type vfState struct {
	Kind    string `json:"kind"`
	Content string `json:"content,omitempty"`
}

func (s vfState) String() string {
	if s.Content != "" {
		return s.Kind + ":" + s.Content
	}
	return s.Kind
}

type vfExp struct {
	Op       string // "", C, U, D
	Content  string
	Asserted bool
	Lenient  bool // D or nothing
}

func (e vfExp) String() string {
	switch {
	case !e.Asserted:
		return "any"
	case e.Lenient:
		return "D|none"
	case e.Op == "":
		return "none"
	case e.Op == "D":
		return "D"
	}
	return e.Op + "=" + e.Content
}

// vfDecide is the statement: create iff valid and not applied; update iff valid, applied and the
// content differs; delete iff applied and (gone or empty); invalid/unreachable/unchanged => no call.
func vfDecide(applied string, isApplied bool, st vfState) vfExp {
	switch st.Kind {
	case vfValid:
		switch {
		case !isApplied:
			return vfExp{Op: "C", Content: st.Content, Asserted: true}
		case applied != st.Content:
			return vfExp{Op: "U", Content: st.Content, Asserted: true}
		}
		return vfExp{Asserted: true}
	case vfInvalid, vfUnreachable:
		return vfExp{Asserted: true}
	case vfEmpty, vfGone:
		if isApplied {
			return vfExp{Op: "D", Asserted: true}
		}
		return vfExp{Asserted: true}
	case vfSignalGone:
		if isApplied {
			return vfExp{Asserted: true, Lenient: true}
		}
		return vfExp{Asserted: true}
	}
	return vfExp{}
}

type vfMismatch struct {
	Step     int    `json:"step"`
	Kind     string `json:"kind"`
	Source   string `json:"logical_source,omitempty"`
	State    string `json:"source_state_at_processing,omitempty"`
	Expected string `json:"expected,omitempty"`
	Observed string `json:"observed,omitempty"`
	Sig      string `json:"signature"`
	call     vfCall
	exp      vfExp
	st       vfState
}

type vfTraceStep struct {
	Step     int               `json:"step"`
	Action   string            `json:"action"`
	States   map[string]string `json:"source_states_at_processing,omitempty"`
	Expected map[string]string `json:"expected,omitempty"`
	Calls    []string          `json:"processor_calls"`
}

// vfOracle tracks, per logical source, the content that is really applied at the processor
// (mirrors every successful observed call, so one divergence never causes follow-up alarms by
// itself) and compares every processing step of the provider with vfDecide.
type vfOracle struct {
	applied map[string]string // logical source -> content id active at the processor
	srcKey  map[string]string // logical source -> Source string the provider used when it created it
	keyOf   map[string]string // Source string -> logical source
	dirty   map[string]bool   // last expected call failed (injected) or was skipped after a failure
	deleted map[string]bool   // unloaded successfully and no create/update attempted since: a further delete is a repetition
	taint   map[string]string // logical source -> signature of the first divergence that involved it
	mism    []vfMismatch
	trace   []vfTraceStep
	stat    *vfStats
	nOK     int // successful processor calls in this sequence
}

// vfStats are per-worker observation counters, merged into the run at the end.
type vfStats struct {
	m map[string]int
}

func (s *vfStats) add(k string, n int) {
	if s == nil {
		return
	}
	if s.m == nil {
		s.m = map[string]int{}
	}
	s.m[k] += n
}

func vfNewOracle(st *vfStats) *vfOracle {
	return &vfOracle{applied: map[string]string{}, srcKey: map[string]string{}, keyOf: map[string]string{},
		dirty: map[string]bool{}, deleted: map[string]bool{}, taint: map[string]string{}, stat: st}
}

// vfStep is one processing step of the provider (one notification handled, one poll done).
type vfStep struct {
	Action   string
	States   map[string]vfState                    // every logical source this step looks at -> actual state now
	Holder   func(content string) string           // logical source currently holding this content id ("" = nobody)
	Classify func(m *vfMismatch, s *vfStep) string // narrow signature for a known divergence, "" = generic
	Generic  string                                // generic signature of this provider
	Ctx      map[string]string                     // free-form context for Classify (e.g. event kind per source)
	// NoRetry: this notification is not one on which the provider re-examines the source; a change whose
	// processor call failed by injection may stay pending (nothing in the statement promises a retry here)
	NoRetry bool
}

func (o *vfOracle) addMismatch(idx int, s *vfStep, m vfMismatch) {
	m.Step = idx
	sig := ""
	if s.Classify != nil {
		sig = s.Classify(&m, s)
	}
	if t, ok := o.taint[m.Source]; ok && m.Source != "" && sig == "" {
		sig = t
	}
	if sig == "" {
		sig = s.Generic
	}
	m.Sig = sig
	if m.Source != "" {
		if _, ok := o.taint[m.Source]; !ok {
			o.taint[m.Source] = sig
		}
	}
	o.mism = append(o.mism, m)
}

func (o *vfOracle) step(idx int, s *vfStep, calls []vfCall) {
	exp := make(map[string]vfExp, len(s.States))
	tr := vfTraceStep{Step: idx, Action: s.Action, States: map[string]string{}, Expected: map[string]string{}}
	for l, st := range s.States {
		a, ok := o.applied[l]
		e := vfDecide(a, ok, st)
		exp[l] = e
		tr.States[l] = st.String()
		tr.Expected[l] = e.String()
		if e.Asserted && e.Op == "" && !e.Lenient {
			switch st.Kind {
			case vfValid:
				o.stat.add("steps_unchanged_expect_no_call", 1)
			case vfInvalid:
				if ok {
					o.stat.add("steps_invalid_expect_previous_kept", 1)
				}
			case vfUnreachable:
				if ok {
					o.stat.add("steps_unreachable_expect_previous_kept", 1)
				}
			}
		}
		if !e.Asserted {
			o.stat.add("steps_unasserted", 1)
		}
	}
	handled := map[string]bool{}
	lastFailed := map[string]bool{}
	sawFailure := false
	var unknownDeletes []vfCall
	for _, c := range calls {
		tr.Calls = append(tr.Calls, c.String())
		o.stat.add("calls_"+c.Op, 1)
		if c.Failed {
			o.stat.add("calls_failed_injected", 1)
		}
		l := ""
		if c.Op == "D" {
			l = o.keyOf[c.Source]
			if l == "" {
				unknownDeletes = append(unknownDeletes, c)
				if c.Failed {
					sawFailure = true // the provider aborts its round after a failed call, whatever it was for
				}
				continue
			}
		} else {
			l = s.Holder(c.Content)
			if l == "" {
				o.addMismatch(idx, s, vfMismatch{Kind: "call-with-content-no-source-holds", Observed: c.String(), call: c})
				continue
			}
			if k, ok := o.srcKey[l]; ok && k != c.Source {
				if _, isApplied := o.applied[l]; isApplied {
					o.addMismatch(idx, s, vfMismatch{Kind: "source-key-changed", Source: l, Expected: k, Observed: c.String(), call: c})
				}
			}
		}
		e, looked := exp[l]
		st := s.States[l]
		_, wasApplied := o.applied[l]
		switch {
		case handled[l] && !lastFailed[l]:
			o.addMismatch(idx, s, vfMismatch{Kind: "more-than-one-call-for-one-change", Source: l, State: st.String(), Expected: e.String(), Observed: c.String(), call: c, exp: e, st: st})
		case !looked:
			o.addMismatch(idx, s, vfMismatch{Kind: "call-for-source-not-concerned", Source: l, Observed: c.String(), call: c})
		case !e.Asserted:
			// recorded only
		case o.dirty[l] && ((c.Op != "D" && st.Kind == vfValid && c.Content == st.Content) || (c.Op == "D" && (st.Kind == vfGone || st.Kind == vfEmpty || st.Kind == vfSignalGone))):
			// the last call for this source failed by injection: what is promised is only that a later
			// notification brings it to the source's state, with whatever call kind the provider's view suggests
			o.stat.add("calls_on_source_pending_after_injected_failure", 1)
		case c.Failed && st.Kind == vfInvalid && c.Op != "D":
			// the provider leaves validation to the processor, which refused this content: nothing was applied
			o.stat.add("invalid_content_refused_by_processor", 1)
		case e.Op == "" && c.Op == "D" && !wasApplied && !o.deleted[l] && (st.Kind == vfGone || st.Kind == vfEmpty || st.Kind == vfSignalGone):
			// unload of a removed source that is not loaded (e.g. its creation had failed): no effect
			o.stat.add("redundant_delete_of_unapplied_source", 1)
		case e.Lenient:
			if c.Op != "D" {
				o.addMismatch(idx, s, vfMismatch{Kind: "unexpected-call", Source: l, State: st.String(), Expected: e.String(), Observed: c.String(), call: c, exp: e, st: st})
			}
		case e.Op == "":
			o.addMismatch(idx, s, vfMismatch{Kind: "unexpected-call", Source: l, State: st.String(), Expected: e.String(), Observed: c.String(), call: c, exp: e, st: st})
		case e.Op == "D":
			if c.Op != "D" {
				o.addMismatch(idx, s, vfMismatch{Kind: "wrong-call", Source: l, State: st.String(), Expected: e.String(), Observed: c.String(), call: c, exp: e, st: st})
			}
		case e.Op == "C" || e.Op == "U":
			okOp := c.Op == e.Op
			if e.Op == "C" && c.Op == "U" && !wasApplied {
				// an update of a source the repository does not know adds it: same effect as a create
				okOp = true
				o.stat.add("update_used_for_unapplied_source", 1)
			}
			if !okOp || c.Content != e.Content {
				o.addMismatch(idx, s, vfMismatch{Kind: "wrong-call", Source: l, State: st.String(), Expected: e.String(), Observed: c.String(), call: c, exp: e, st: st})
			}
		}
		handled[l] = true
		if c.Op != "D" {
			delete(o.deleted, l)
		} else if !c.Failed {
			o.deleted[l] = true
		}
		lastFailed[l] = c.Failed // a further call for l in this step is then a retry, not a duplicate
		if c.Failed {
			if st.Kind != vfInvalid {
				sawFailure = true
				o.dirty[l] = true
			}
			if _, ok := o.srcKey[l]; !ok && c.Op != "D" {
				// remember the key of the attempt: a later delete with this key is not "a source never heard of"
				o.srcKey[l] = c.Source
				o.keyOf[c.Source] = l
			}
			continue
		}
		o.nOK++
		delete(o.dirty, l)
		if c.Op == "D" {
			delete(o.applied, l)
		} else {
			o.applied[l] = c.Content
			if old, ok := o.srcKey[l]; ok && old != c.Source {
				delete(o.keyOf, old)
			}
			o.srcKey[l] = c.Source
			o.keyOf[c.Source] = l
		}
	}
	var missing []string
	for l, e := range exp {
		if !e.Asserted || e.Op == "" || handled[l] {
			continue
		}
		meant := e.Op == "D" && o.srcKey[l] != "" && strings.HasSuffix(vfPickDelete(unknownDeletes, o.srcKey[l]).Source, o.srcKey[l])
		if sawFailure && !meant {
			// the provider aborted this round after the failed call; the change stays pending
			o.dirty[l] = true
			o.stat.add("expected_calls_skipped_after_injected_failure", 1)
			continue
		}
		if s.NoRetry && o.dirty[l] {
			o.stat.add("pending_change_not_retried_on_this_notification", 1)
			continue
		}
		missing = append(missing, l)
	}
	sort.Strings(missing)
	for _, l := range missing {
		e, st := exp[l], s.States[l]
		obs := "no call"
		if e.Op == "D" && len(unknownDeletes) > 0 {
			obs = "no call for this source; deletes for unknown sources: " + fmt.Sprint(unknownDeletes)
		}
		o.addMismatch(idx, s, vfMismatch{Kind: "missing-call", Source: l, State: st.String(), Expected: e.String(), Observed: obs, exp: e, st: st,
			call: vfPickDelete(unknownDeletes, o.srcKey[l])})
	}
	if len(unknownDeletes) > 0 {
		attributed := false
		for _, l := range missing {
			if exp[l].Op == "D" {
				attributed = true // reported above as the missing delete of l
			}
		}
		if attributed {
			o.stat.add("deletes_for_source_never_created", len(unknownDeletes))
		} else {
			for _, c := range unknownDeletes {
				// a delete with a key never seen before, while no expected delete is missing: harmless if it can only
				// concern the one removed source of this step that was never created (so no key is known for it)
				var cand []string
				for ls, st := range s.States {
					if _, bound := o.srcKey[ls]; !bound && (st.Kind == vfGone || st.Kind == vfEmpty || st.Kind == vfSignalGone) {
						cand = append(cand, ls)
					}
				}
				if len(cand) == 1 {
					o.srcKey[cand[0]] = c.Source
					o.keyOf[c.Source] = cand[0]
					o.stat.add("redundant_delete_of_unapplied_source", 1)
					continue
				}
				o.stat.add("deletes_for_source_never_created", 1)
				o.addMismatch(idx, s, vfMismatch{Kind: "delete-for-source-never-created", Observed: c.String(), call: c})
			}
		}
	}
	o.trace = append(o.trace, tr)
}

// vfPickDelete returns, of the deletes whose key is unknown, the one that most likely was meant for the
// source created under key (its Source ends with key), else the first one.
func vfPickDelete(c []vfCall, key string) vfCall {
	for _, d := range c {
		if key != "" && strings.HasSuffix(d.Source, key) {
			return d
		}
	}
	if len(c) > 0 {
		return c[0]
	}
	return vfCall{}
}

// final compares the active rule sets (keyed by the Source the provider used) with the latest valid
// content of the sources that still exist. Sources whose last expected call failed by injection and
// was not retried are skipped (nothing was promised for them), invalid/unreachable sources keep
// whatever is applied.
func (o *vfOracle) final(idx int, truth map[string]vfState, active map[string]string, s *vfStep) {
	tr := vfTraceStep{Step: idx, Action: "final", States: map[string]string{}, Expected: map[string]string{}}
	ls := make([]string, 0, len(truth))
	for l := range truth {
		ls = append(ls, l)
	}
	sort.Strings(ls)
	for _, l := range ls {
		st := truth[l]
		tr.States[l] = st.String()
		if o.dirty[l] {
			o.stat.add("final_sources_skipped_pending_after_injected_failure", 1)
			continue
		}
		key, bound := o.srcKey[l]
		act, isActive := "", false
		if bound {
			act, isActive = active[key]
		}
		switch st.Kind {
		case vfValid:
			tr.Expected[l] = "active=" + st.Content
			o.stat.add("final_checks_valid", 1)
			if !isActive || act != st.Content {
				o.addMismatch(idx, s, vfMismatch{Kind: "final-not-latest-valid-content", Source: l, State: st.String(), Expected: "active " + st.Content,
					Observed: fmt.Sprintf("active=%v content=%q", isActive, act), st: st})
			}
		case vfGone, vfEmpty:
			tr.Expected[l] = "not active"
			o.stat.add("final_checks_unloaded", 1)
			if isActive {
				o.addMismatch(idx, s, vfMismatch{Kind: "final-stale-rule-set", Source: l, State: st.String(), Expected: "not active",
					Observed: "still active: " + key + "=" + act, st: st})
			}
		}
	}
	for src, c := range active {
		if _, ok := o.keyOf[src]; !ok {
			o.addMismatch(idx, s, vfMismatch{Kind: "final-active-source-of-nobody", Observed: src + "=" + c})
		}
	}
	tr.Calls = []string{}
	as := make([]string, 0, len(active))
	for k, v := range active {
		as = append(as, k+"="+v)
	}
	sort.Strings(as)
	tr.Action = "final; active rule sets: " + strings.Join(as, ", ")
	o.trace = append(o.trace, tr)
}

// vfCase is the replay/violation document of one sequence.
type vfCase struct {
	Provider   string        `json:"provider"`
	Mode       string        `json:"mode"`
	Sequence   []string      `json:"sequence"`
	Variant    string        `json:"variant,omitempty"`
	Trace      []vfTraceStep `json:"trace"`
	Mismatches []vfMismatch  `json:"mismatches"`
}

// report turns the mismatches of one finished sequence into violations: one per distinct signature.
func (o *vfOracle) report(r *core.Run, provider, mode string, seq []string, variant string) bool {
	if len(o.mism) == 0 {
		return false
	}
	seen := map[string]bool{}
	for _, m := range o.mism {
		if seen[m.Sig] {
			continue
		}
		seen[m.Sig] = true
		what := fmt.Sprintf("%s/%s %v%s step %d: %s source=%s state=%s expected %s, observed %s", provider, mode, seq, variant, m.Step, m.Kind, m.Source, m.State, m.Expected, m.Observed)
		r.Violation(m.Sig, what, vfCase{Provider: provider, Mode: mode, Sequence: seq, Variant: variant, Trace: o.trace, Mismatches: o.mism})
	}
	return true
}

// ---------------------------------------------------------------------------------------------
// enumeration helpers

// vfDigits writes the base-k digits of idx (length n) into out.
func vfDigits(idx, k, n int, out []int) {
	for i := n - 1; i >= 0; i-- {
		out[i] = idx % k
		idx /= k
	}
}

func vfPow(k, n int) int {
	p := 1
	for i := 0; i < n; i++ {
		p *= k
	}
	return p
}

func vfWorkers() int {
	n := runtime.NumCPU() / 2
	if n < 2 {
		n = 2
	}
	if n > 8 {
		n = 8
	}
	return n
}

// vfParallel runs fn(worker, index) for index in [0,total) on vfWorkers() goroutines; each worker
// owns a vfStats that is merged afterwards. Indices are handed out in ascending blocks so that the
// shortest witnesses are reported first.
func vfParallel(r *core.Run, total int, setup func(w int) (run func(idx int, st *vfStats), done func())) {
	var next int64
	var wg sync.WaitGroup
	var mu sync.Mutex
	merged := map[string]int{}
	nw := vfWorkers()
	if total < nw {
		nw = 1
	}
	for w := 0; w < nw; w++ {
		wg.Add(1)
		go func(w int) {
			defer wg.Done()
			st := &vfStats{}
			run, done := setup(w)
			for {
				lo := int(atomic.AddInt64(&next, 64)) - 64
				if lo >= total {
					break
				}
				hi := lo + 64
				if hi > total {
					hi = total
				}
				for i := lo; i < hi; i++ {
					run(i, st)
				}
			}
			if done != nil {
				done()
			}
			mu.Lock()
			for k, v := range st.m {
				merged[k] += v
			}
			mu.Unlock()
		}(w)
	}
	wg.Wait()
	for k, v := range merged {
		r.Count(k, v)
	}
}

// vfCaseBook collects evaluation/nontrivial hashes per worker.
type vfCaseBook struct {
	n   int
	all []uint64
	nt  []uint64
}

func (b *vfCaseBook) add(key string, nontrivial bool) {
	b.n++
	h := core.HashKey(key)
	if nontrivial {
		b.nt = append(b.nt, h)
	} else {
		b.all = append(b.all, h)
	}
}

func (b *vfCaseBook) flush(r *core.Run) {
	r.AddHashes(b.n, b.all, b.nt)
	r.Count("nontrivial_sequences", len(b.nt))
	b.n, b.all, b.nt = 0, nil, nil
}

func vfRunDir(sub string) string {
	d := os.Getenv("VERIF_RUNDIR")
	if d == "" {
		d = os.TempDir()
	}
	d = d + "/" + sub
	_ = os.MkdirAll(d, 0o755)
	return d
}

// vfRuleSetYAML is a minimal valid rule set whose first rule id is the content id.
func vfRuleSetYAML(id string) string {
	return "version: \"1alpha4\"\nrules:\n- id: \"" + id + "\"\n  match:\n    routes:\n      - path: /" + strings.NewReplacer("#", "_", ":", "_").Replace(id) + "\n  execute:\n    - authenticator: a\n"
}

// vfDoc is one member of the symbol classes "empty" and "invalid".
type vfDoc struct {
	Name string
	Data string
	JSON bool // a JSON value: served as application/json by the providers that carry a content type
}

// vfEmptyDocs are contents that hold no YAML document at all: the source exists, but there is no rule set in it
// (any more) => "emptied", unloaded. For "all-rules-commented-out" the bytes are derived from the version that is
// loaded (vfEmptyDoc), the Data given here is used when there is none.
var vfEmptyDocs = []vfDoc{
	{Name: "zero-bytes", Data: ""},
	{Name: "whitespace-only", Data: " \n  \n\r\n"},
	{Name: "banner-comment-only", Data: "# managed by the platform pipeline - do not edit by hand\n"},
	{Name: "all-rules-commented-out", Data: "# version: \"1alpha4\"\n# rules:\n# - id: x\n#   match:\n#     routes:\n#       - path: /x\n#   execute:\n#     - authenticator: a\n"},
	{Name: "blank-lines-and-indented-comment", Data: "\n\n  # nothing to see here yet\n\n"},
}

// vfInvalidDocs are syntactically or structurally invalid rule sets (all rejected by config.ParseRules).
var vfInvalidDocs = []string{
	"version: [1\n",                                       // YAML syntax error
	"version: \"1alpha4\"\nrules: []\n",                   // no rules
	"version: \"1alpha4\"\nrulez:\n- id: x\n",             // unknown field
	"version: \"1alpha4\"\nrules:\n- id: x\n  match: 5\n", // type confusion
	"rules:\n- id: x\n  match:\n    routes:\n      - path: /x\n  execute:\n    - authenticator: a\n", // version missing
}

// vfContentlessDocs are further members of the class "invalid": there IS a document, but it defines nothing (what a
// reader sees of a file that starts with a document marker and a comment header while it is being written, or a
// type-confused null / empty object) => not a rule set, the previous version stays.
var vfContentlessDocs = []vfDoc{
	{Name: "document-marker-only", Data: "---\n"},
	{Name: "document-marker-no-newline", Data: "---"},
	{Name: "document-marker-and-comment-header", Data: "---\n# rule set of team a\n# rolled out by the pipeline\n"},
	{Name: "tilde", Data: "~\n"},
	{Name: "null", Data: "null\n", JSON: true},
	{Name: "empty-object", Data: "{}\n", JSON: true},
	{Name: "truncated-in-first-key", Data: "---\n# rule set of team a\nversi"},
	{Name: "truncated-after-first-key", Data: "---\n# rule set of team a\nversion:"},
}

// vfDocOffset rotates the members with the seed of the run (set once by vfInitDocs, before any worker starts).
var vfDocOffset int

// vfInitDocs records the classification of the members and draws the seed dependent rotation.
func vfInitDocs(r *core.Run) {
	vfDocOffset = r.Stream("c18-doc-members").IntN(1 << 16)
	var e, i []string
	for _, d := range vfEmptyDocs {
		e = append(e, d.Name)
	}
	for n := range vfInvalidDocs {
		i = append(i, fmt.Sprintf("basic-%d", n))
	}
	for _, d := range vfContentlessDocs {
		i = append(i, d.Name)
	}
	r.Set("doc_members_empty", e)
	r.Set("doc_members_invalid", i)
	r.Assume("the documentation speaks of \"empty\" contents only; members of the two classes are classified as the parser of the unchanged tree does: " +
		"contents without any YAML document (zero bytes, blanks and line breaks, comments only, every rule commented out) = empty => unloaded; " +
		"a document that defines nothing (`---`, `---` plus comment header, `~`, `null`, `{}`, a valid file cut before or within its first key) = invalid => previous version kept. " +
		"Whitespace containing a tab is a YAML syntax error for that parser and is not used as an \"empty\" member")
}

// vfDocSalt makes the choice of the members a function of the sequence (and of what else identifies the case), so
// that a replay of the stored sequence writes the same bytes.
func vfDocSalt(seq []int, extra int) int {
	h := 17 + extra
	for _, s := range seq {
		h = h*31 + s + 1
	}
	if h < 0 {
		h = -h
	}
	return h % (1 << 20)
}

// vfEmptyDoc picks the k-th empty member; prev is the valid content the source holds now ("" = none).
func vfEmptyDoc(k int, prev string, st *vfStats) vfDoc {
	d := vfEmptyDocs[(vfDocOffset+k)%len(vfEmptyDocs)]
	if d.Name == "all-rules-commented-out" && prev != "" {
		d.Data = "# " + strings.ReplaceAll(strings.TrimSuffix(prev, "\n"), "\n", "\n# ") + "\n"
	}
	st.add("doc_empty["+d.Name+"]", 1)
	return d
}

// vfInvalidDoc picks the k-th invalid member.
func vfInvalidDoc(k int, st *vfStats) vfDoc {
	n := (vfDocOffset + k) % (len(vfInvalidDocs) + len(vfContentlessDocs))
	if n < len(vfInvalidDocs) {
		st.add(fmt.Sprintf("doc_invalid[basic-%d]", n), 1)
		return vfDoc{Name: fmt.Sprintf("basic-%d", n), Data: vfInvalidDocs[n]}
	}
	d := vfContentlessDocs[n-len(vfInvalidDocs)]
	st.add("doc_invalid["+d.Name+"]", 1)
	return d
}

// ---------------------------------------------------------------------------------------------
// replay (bin/check C18 --replay <file>): only the stored sequence is executed, by the binary of its provider

// vfReplayCase returns the case stored in the replay file of this run (ok=false: not a replay run).
func vfReplayCase(r *core.Run) (provider, mode string, seq []string, variant string, ok bool) {
	if r.Replay == nil {
		return "", "", nil, "", false
	}
	c, _ := r.Replay["case"].(map[string]any)
	provider, _ = c["provider"].(string)
	mode, _ = c["mode"].(string)
	variant, _ = c["variant"].(string)
	if l, isList := c["sequence"].([]any); isList {
		for _, e := range l {
			seq = append(seq, fmt.Sprint(e))
		}
	}
	return provider, mode, seq, variant, true
}

// vfSymbols maps symbol names back to their numbers.
func vfSymbols(names []string, table []string) ([]int, bool) {
	out := make([]int, len(names))
	for i, n := range names {
		out[i] = -1
		for j, t := range table {
			if t == n {
				out[i] = j
			}
		}
		if out[i] < 0 {
			return nil, false
		}
	}
	return out, true
}

func vfFlushStats(r *core.Run, st *vfStats) {
	for k, v := range st.m {
		r.Count(k, v)
	}
}
