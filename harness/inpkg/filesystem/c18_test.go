package filesystem

import (
	"context"
	"errors"
	"fmt"
	"os"
	"path/filepath"
	"reflect"
	"runtime"
	"runtime/pprof"
	"sort"
	"strings"
	"sync"
	"sync/atomic"
	"testing"
	"time"

	"github.com/fsnotify/fsnotify"
	"github.com/rs/zerolog"

	"github.com/dadrus/heimdall/internal/config"
	vfrc2 "github.com/dadrus/heimdall/internal/rules/config"
	"github.com/dadrus/heimdall/internal/verif/vkit/core"
)

// C18, file-system provider. Two modes:
//   direct:  the provider's own decision function ruleSetsChanged(fsnotify.Event) is called with the
//            events inotify/fsnotify produce for each mutation of a real directory; the delivery
//            schedule (immediately / one mutation late / all at the end / every event twice) is part
//            of the enumerated case, so the provider looks at the file *after* later mutations too.
//   watch:   NewProvider(watch: true).Start() with the real fsnotify loop; quiescence is logical: a
//            sentinel file is created and its OnCreated is awaited at the recording processor.

const vfGenericFS = "fs-mismatch"

// mutation alphabet
const (
	vfsWnA  = iota // write new valid content to a
	vfsWsA         // rewrite a with identical bytes
	vfsWiA         // write invalid content to a
	vfsWeA         // a holds no rule set any more: zero bytes, blanks, comments only ... (created like that if missing)
	vfsRmA         // remove a
	vfsChA         // chmod a
	vfsMvAB        // rename a -> b
	vfsMvBA        // rename b -> a
	vfsWnB         // write new valid content to b
	vfsRmB         // remove b
	vfsFail        // next processor call fails
	vfsN
)

var vfsNames = [vfsN]string{"write-new(a)", "rewrite-same(a)", "write-invalid(a)", "empty(a)", "remove(a)", "chmod(a)",
	"rename(a->b)", "rename(b->a)", "write-new(b)", "remove(b)", "processor-fails-next"}

var vfsModes = []string{"immediate", "one-mutation-late", "all-at-end", "every-event-twice"}

type vfsFile struct {
	exists  bool
	kind    string // vfValid, vfInvalid, vfEmpty
	content string
	bytes   string
	mode    os.FileMode
}

// vfsWorld is the real directory plus what the harness knows it wrote there.
type vfsWorld struct {
	dir     string
	files   map[string]*vfsFile // logical name -> state ("a", "b")
	version int
	tag     string
	inplace bool     // watch mode: fixed-size in-place writes (one inotify event, never an intermediate state)
	salt    int      // choice of the members of the classes "empty" and "invalid" in this sequence
	nth     int      // mutations applied in this sequence
	docs    []string // members written in this sequence
	st      *vfStats
}

func (w *vfsWorld) path(l string) string { return filepath.Join(w.dir, l+".yaml") }

func (w *vfsWorld) state(l string) vfState {
	f := w.files[l]
	if f == nil || !f.exists {
		return vfState{Kind: vfGone}
	}
	return vfState{Kind: f.kind, Content: f.content}
}

func (w *vfsWorld) holder(content string) string {
	for l, f := range w.files {
		if f.exists && f.kind == vfValid && f.content == content {
			return l
		}
	}
	return ""
}

const vfsPad = 512

func vfPad(s string) string {
	if len(s) < vfsPad {
		return s + "#" + strings.Repeat(" ", vfsPad-len(s)-2) + "\n"
	}
	return s
}

func (w *vfsWorld) put(l, data string) error {
	p := w.path(l)
	if !w.inplace {
		return os.WriteFile(p, []byte(data), 0o600)
	}
	if data != "" {
		data = vfPad(data)
	}
	if _, err := os.Stat(p); err != nil && data != "" {
		// new file: complete content first, then moved into the watched directory (one Create event, never
		// observable half-written or still empty)
		tmp := filepath.Join(filepath.Dir(w.dir), "tmp-"+filepath.Base(w.dir)+"-"+l)
		if err := os.WriteFile(tmp, []byte(data), 0o600); err != nil {
			return err
		}
		return os.Rename(tmp, p)
	}
	f, err := os.OpenFile(p, os.O_WRONLY|os.O_CREATE, 0o600)
	if err != nil {
		return err
	}
	defer f.Close()
	if data == "" {
		return f.Truncate(0)
	}
	_, err = f.WriteAt([]byte(data), 0)
	return err
}

type vfsEvent struct {
	l  string
	op fsnotify.Op
}

// apply performs mutation sym on the directory and returns the events fsnotify reports for it
// (inotify semantics: IN_CREATE, IN_MODIFY, IN_ATTRIB, IN_DELETE, IN_MOVED_FROM + IN_MOVED_TO).
func (w *vfsWorld) apply(sym int) ([]vfsEvent, error) {
	get := func(l string) *vfsFile {
		if w.files[l] == nil {
			w.files[l] = &vfsFile{}
		}
		return w.files[l]
	}
	write := func(l, kind, content, data string) ([]vfsEvent, error) {
		f := get(l)
		existed := f.exists
		if err := w.put(l, data); err != nil {
			return nil, err
		}
		*f = vfsFile{exists: true, kind: kind, content: content, bytes: data, mode: 0o600}
		if !existed {
			if data == "" {
				return []vfsEvent{{l, fsnotify.Create}}, nil
			}
			return []vfsEvent{{l, fsnotify.Create}, {l, fsnotify.Write}}, nil
		}
		return []vfsEvent{{l, fsnotify.Write}}, nil
	}
	remove := func(l string) ([]vfsEvent, error) {
		f := get(l)
		if !f.exists {
			return nil, nil
		}
		if err := os.Remove(w.path(l)); err != nil {
			return nil, err
		}
		f.exists = false
		return []vfsEvent{{l, fsnotify.Remove}}, nil
	}
	rename := func(from, to string) ([]vfsEvent, error) {
		f := get(from)
		if !f.exists {
			return nil, nil
		}
		if err := os.Rename(w.path(from), w.path(to)); err != nil {
			return nil, err
		}
		*get(to) = *f
		f.exists = false
		return []vfsEvent{{from, fsnotify.Rename}, {to, fsnotify.Create}}, nil
	}
	newContent := func(l string) (string, string) {
		w.version++
		id := fmt.Sprintf("%s%s#%d", w.tag, l, w.version)
		return id, vfRuleSetYAML(id)
	}
	w.nth++
	switch sym {
	case vfsWnA:
		id, data := newContent("a")
		return write("a", vfValid, id, data)
	case vfsWnB:
		id, data := newContent("b")
		return write("b", vfValid, id, data)
	case vfsWsA:
		f := get("a")
		if !f.exists {
			return nil, nil
		}
		return write("a", f.kind, f.content, f.bytes)
	case vfsWiA:
		w.version++
		d := vfInvalidDoc(w.salt+w.nth, w.st)
		w.docs = append(w.docs, "invalid:"+d.Name)
		return write("a", vfInvalid, "", d.Data)
	case vfsWeA:
		prev := ""
		if f := get("a"); f.exists && f.kind == vfValid {
			prev = f.bytes
		}
		d := vfEmptyDoc(w.salt+w.nth, prev, w.st)
		w.docs = append(w.docs, "empty:"+d.Name)
		return write("a", vfEmpty, "", d.Data)
	case vfsRmA:
		return remove("a")
	case vfsRmB:
		return remove("b")
	case vfsChA:
		f := get("a")
		if !f.exists {
			return nil, nil
		}
		if f.mode == 0o600 {
			f.mode = 0o644
		} else {
			f.mode = 0o600
		}
		if err := os.Chmod(w.path("a"), f.mode); err != nil {
			return nil, err
		}
		return []vfsEvent{{"a", fsnotify.Chmod}}, nil
	case vfsMvAB:
		return rename("a", "b")
	case vfsMvBA:
		return rename("b", "a")
	}
	return nil, nil
}

func (w *vfsWorld) reset() {
	for l := range w.files {
		_ = os.Remove(w.path(l))
	}
	w.files = map[string]*vfsFile{}
	w.version = 0
	w.nth = 0
	w.docs = nil
}

// signature of known divergences of this provider
func vfsClassify(m *vfMismatch, s *vfStep) string {
	// a Rename event (file moved away) for an applied source must unload it; the provider ignores the event
	if m.Kind == "missing-call" && m.exp.Op == "D" && s.Ctx["renamed-away:"+m.Source] != "" {
		return "fs-rename-ignored"
	}
	return ""
}

func vfsNewProvider(dir string, rec *vfRecorder, watch bool) (*Provider, error) {
	conf := &config.Configuration{Providers: config.RuleProviders{FileSystem: map[string]any{"src": dir, "watch": watch}}}
	return NewProvider(conf, rec, zerolog.Nop())
}

func TestC18(t *testing.T) {
	r := core.Begin("C18", "fault_enumeration")
	r.Rule("file_system: exhaustive sequences (length <=4 quick / <=5 thorough) over 11 mutations of two files of a real directory " +
		"(write new/same/invalid/empty - the invalid and the empty contents rotate over doc_members_invalid / doc_members_empty as a function of the sequence -, remove, chmod, rename a<->b, processor failure) x 3 event delivery lags (shorter lengths also: every event twice, file present at Start), fed as fsnotify events into " +
		"Provider.ruleSetsChanged; plus seeded sequences against the real fsnotify loop (Start, sentinel file for quiescence). Oracle: vfDecide per processed event on the " +
		"actual file state at processing time, and active rule sets = latest valid content of existing files at the end. Non-trivial: >=2 successful processor calls.")
	r.Assume("direct mode synthesises the fsnotify events inotify reports for each mutation (Create/Write/Chmod/Remove/Rename+Create); the watch mode uses the real ones",
		"watch mode writes existing files in place with one write(2) of constant size and moves new files into the directory complete, so that no intermediate (empty/truncated) content is observable",
		"a Remove/Rename event that is processed after the file was re-created may unload or not (not asserted); the following Create event is asserted")

	if !vfsCalibrate(r) {
		r.End()
	}
	vfInitDocs(r)
	if prov, mode, names, variant, ok := vfReplayCase(r); ok {
		if seq, known := vfSymbols(names, vfsNames[:]); prov == "file_system" && known {
			st := &vfStats{}
			if sched, isDirect := strings.CutPrefix(mode, "direct/"); isDirect {
				m, _ := vfSymbols([]string{sched}, vfsModes)
				init := 0
				if strings.Contains(variant, "init=1") {
					init = 1
				}
				dir := vfRunDir("c18fs-replay")
				if len(m) == 1 {
					vfsRunDirect(r, &vfsWorld{dir: dir, files: map[string]*vfsFile{}}, seq, m[0], init, st)
				}
			} else {
				vfsRunWatch(r, vfRunDir("c18fs-replay-watch"), 0, seq, st)
			}
			r.Eval(1)
			vfFlushStats(r, st)
		}
		r.End()
	}
	if pf := os.Getenv("VERIF_CPUPROFILE"); pf != "" { // development aid
		if f, err := os.Create(pf); err == nil {
			_ = pprof.StartCPUProfile(f)
			defer pprof.StopCPUProfile()
		}
	}
	t0 := time.Now()
	vfsDirect(r)
	r.Set("fs_direct_wall_s", time.Since(t0).Seconds())
	t0 = time.Now()
	vfsWatch(r)
	vfsStartOverExistingFiles(r)
	r.Set("fs_watch_wall_s", time.Since(t0).Seconds())

	r.Set("exhaustive_subspace", "all sequences of length <= fs_max_sequence_length over fs_alphabet x delivery schedules (direct mode); watch mode is a seeded sample")
	r.Require("fs_direct_sequences", r.Counter("fs_direct_sequences"), 10000)
	r.Require("fs_calls_created", r.Counter("calls_C"), 1000)
	r.Require("fs_calls_updated", r.Counter("calls_U"), 1000)
	r.Require("fs_calls_deleted", r.Counter("calls_D"), 1000)
	r.Require("fs_unchanged_no_call_steps", r.Counter("steps_unchanged_expect_no_call"), 1000)
	r.Require("fs_invalid_kept_steps", r.Counter("steps_invalid_expect_previous_kept"), 500)
	r.Require("fs_watch_steps_quiesced", r.Counter("fs_watch_steps_quiesced"), 50)
	pprof.StopCPUProfile()
	r.End()
}

// vfsCalibrate checks the harness' own inputs against the real parser: valid parses, invalid docs are
// rejected with something else than "empty", empty is reported as empty.
func vfsCalibrate(r *core.Run) bool {
	ok := true
	if _, err := vfrc2.ParseRules("application/yaml", strings.NewReader(vfPad(vfRuleSetYAML("x#1"))), false); err != nil {
		r.Inconclusive("calibration: valid rule set rejected: " + err.Error())
		ok = false
	}
	for i, d := range vfInvalidDocs {
		_, err := vfrc2.ParseRules("application/yaml", strings.NewReader(d), false)
		if err == nil || errors.Is(err, vfrc2.ErrEmptyRuleSet) {
			r.Inconclusive(fmt.Sprintf("calibration: invalid doc %d not rejected as invalid: %v", i, err))
			ok = false
		}
	}
	if _, err := vfrc2.ParseRules("application/yaml", strings.NewReader(""), false); !errors.Is(err, vfrc2.ErrEmptyRuleSet) {
		r.Inconclusive("calibration: empty content is not reported as empty")
		ok = false
	}
	return ok
}

var vfsGCTick int64

// vfsFeed hands one event to the provider's decision function. The provider never closes the files
// it opens (only their finalizers do), so the harness forces a collection every 1000 events; running
// out of descriptors would otherwise look like "provider made no call".
func vfsFeed(r *core.Run, p *Provider, evt fsnotify.Event) {
	if atomic.AddInt64(&vfsGCTick, 1)%1000 == 0 {
		runtime.GC()
	}
	for try := 0; ; try++ {
		err := p.ruleSetsChanged(evt)
		if err == nil || !strings.Contains(err.Error(), "too many open files") {
			return
		}
		if try == 20 {
			r.Inconclusive("fs: out of file descriptors (provider leaks open files)")
			return
		}
		r.Count("fs_emfile_retries", 1)
		runtime.GC()
		time.Sleep(10 * time.Millisecond)
	}
}

func vfsDirect(r *core.Run) {
	maxLen := r.Pick(4, 5)
	// scratch directory of the enumeration: tmpfs when available (10^6 create/rename/remove operations;
	// nothing in it is needed after the run), else the run directory. The watch mode always uses the run directory.
	base := vfRunDir("c18fs")
	if d, err := os.MkdirTemp("/dev/shm", "verif-c18fs-"); err == nil {
		base = d
		defer os.RemoveAll(d)
	}
	inits := []string{"empty-dir", "a-present-at-start"}
	type combo struct{ mode, init int }
	for n := 1; n <= maxLen; n++ {
		perLen := vfPow(vfsN, n)
		// the longest length runs with the three distinct delivery lags from an empty directory; the
		// duplicate-delivery schedule and the "file present at start" state are added for all shorter ones
		combos := []combo{{0, 0}, {1, 0}, {2, 0}}
		if n < maxLen {
			combos = append(combos, combo{3, 0}, combo{0, 1}, combo{1, 1}, combo{2, 1}, combo{3, 1})
		}
		total := perLen * len(combos)
		vfParallel(r, total, func(wk int) (func(int, *vfStats), func()) {
			dir := filepath.Join(base, fmt.Sprintf("w%d", wk))
			_ = os.MkdirAll(dir, 0o755)
			world := &vfsWorld{dir: dir, files: map[string]*vfsFile{}}
			book := &vfCaseBook{}
			digits := make([]int, n)
			run := func(idx int, st *vfStats) {
				seqIdx := idx % perLen
				mode, init := combos[idx/perLen].mode, combos[idx/perLen].init
				vfDigits(seqIdx, vfsN, n, digits)
				nOK, bad := vfsRunDirect(r, world, digits, mode, init, st)
				key := fmt.Sprint("fs|", digits, mode, init)
				book.add(key, nOK >= 2)
				st.add("fs_direct_sequences", 1)
				if bad {
					st.add("fs_direct_sequences_with_mismatch", 1)
				}
				if idx == total/2 && n == 3 {
					r.Sample(map[string]any{"provider": "file_system", "mode": "direct/" + vfsModes[mode], "init": inits[init], "sequence": vfsSeqNames(digits)})
				}
			}
			return run, func() { book.flush(r); world.reset() }
		})
	}
	r.Set("fs_alphabet", vfsNames[:])
	r.Set("fs_delivery_schedules", vfsModes)
	r.Set("fs_max_sequence_length", maxLen)
}

func vfsSeqNames(d []int) []string {
	out := make([]string, len(d))
	for i, s := range d {
		out[i] = vfsNames[s]
	}
	return out
}

// vfsRunDirect executes one sequence in direct mode.
func vfsRunDirect(r *core.Run, w *vfsWorld, seq []int, mode, init int, st *vfStats) (int, bool) {
	w.reset()
	w.salt, w.st = vfDocSalt(seq, 4*mode+init), st
	rec := vfNewRecorder()
	o := vfNewOracle(st)
	step := 0
	deliver := func(p *Provider, ev vfsEvent, twice bool) {
		times := 1
		if twice {
			times = 2
		}
		for k := 0; k < times; k++ {
			step++
			cur := w.state(ev.l)
			ctx := map[string]string{}
			stt := cur
			switch {
			case ev.op == fsnotify.Remove || ev.op == fsnotify.Rename:
				if cur.Kind != vfGone {
					stt = vfState{Kind: vfSignalGone}
				} else if ev.op == fsnotify.Rename {
					ctx["renamed-away:"+ev.l] = "1"
				}
			}
			s := &vfStep{Action: fmt.Sprintf("event %s %s", ev.op, ev.l), States: map[string]vfState{ev.l: stt}, Holder: w.holder,
				Classify: vfsClassify, Generic: vfGenericFS, Ctx: ctx}
			vfsFeed(r, p, fsnotify.Event{Name: w.path(ev.l), Op: ev.op})
			o.step(step, s, rec.take())
			st.add("fs_events_"+ev.op.String(), 1)
		}
	}
	if init == 1 {
		if _, err := w.apply(vfsWnA); err != nil {
			r.Inconclusive("fs: " + err.Error())
			return 0, false
		}
	}
	p, err := vfsNewProvider(w.dir, rec, false)
	if err != nil {
		r.Inconclusive("fs: NewProvider: " + err.Error())
		return 0, false
	}
	// Start without watcher = initial load of the directory
	step++
	initStates := map[string]vfState{}
	if init == 1 {
		initStates["a"] = w.state("a")
	}
	if err := p.Start(context.Background()); err != nil {
		r.Inconclusive("fs: Start: " + err.Error())
		return 0, false
	}
	o.step(step, &vfStep{Action: "Start (initial load)", States: initStates, Holder: w.holder, Classify: vfsClassify, Generic: vfGenericFS}, rec.take())

	var pending [][]vfsEvent
	for _, sym := range seq {
		if sym == vfsFail {
			rec.armFailure()
			pending = append(pending, nil)
		} else {
			evs, err := w.apply(sym)
			if err != nil {
				r.Inconclusive("fs: mutation failed: " + err.Error())
				return 0, false
			}
			pending = append(pending, evs)
		}
		switch mode {
		case 0, 3:
			for _, ev := range pending[len(pending)-1] {
				deliver(p, ev, mode == 3)
			}
			pending = pending[:0]
		case 1:
			for len(pending) > 1 {
				for _, ev := range pending[0] {
					deliver(p, ev, false)
				}
				pending = pending[1:]
			}
		}
	}
	for _, evs := range pending {
		for _, ev := range evs {
			deliver(p, ev, false)
		}
	}
	truth := map[string]vfState{"a": w.state("a"), "b": w.state("b")}
	o.final(step+1, truth, rec.snapshot(), &vfStep{Classify: vfsClassify, Generic: vfGenericFS})
	bad := o.report(r, "file_system", "direct/"+vfsModes[mode], vfsSeqNames(seq), fmt.Sprintf(" init=%d docs=%v", init, w.docs))
	return o.nOK, bad
}

// ---------------------------------------------------------------------------------------------
// watch mode: real fsnotify loop

func vfsWatch(r *core.Run) {
	nSeq := r.Pick(60, 600)
	seqLen := r.Pick(6, 8)
	rng := r.Stream("c18-fs-watch")
	base := vfRunDir("c18fs-watch")
	st := &vfStats{}
	book := &vfCaseBook{}
	defer func() {
		for k, v := range st.m {
			r.Count(k, v)
		}
		book.flush(r)
	}()
	// fixed witnesses first, then seeded sequences
	fixed := [][]int{
		{vfsWnA, vfsMvAB, vfsRmB},
		{vfsWnA, vfsWsA, vfsChA, vfsWnA, vfsWiA, vfsWnA, vfsWeA, vfsWnA, vfsRmA},
		{vfsWnA, vfsWnB, vfsWiA, vfsWnB, vfsRmB, vfsWnA},
	}
	for n := 0; n < nSeq; n++ {
		var seq []int
		if n < len(fixed) {
			seq = fixed[n]
		} else {
			seq = make([]int, seqLen)
			for i := range seq {
				seq[i] = rng.IntN(vfsN)
			}
		}
		dir := filepath.Join(base, fmt.Sprintf("s%d", n))
		_ = os.MkdirAll(dir, 0o755)
		nOK, ok := vfsRunWatch(r, dir, n, seq, st)
		if !ok {
			return
		}
		book.add(fmt.Sprint("fsw|", seq), nOK >= 2)
		st.add("fs_watch_sequences", 1)
		if n == len(fixed) {
			r.Sample(map[string]any{"provider": "file_system", "mode": "watch", "sequence": vfsSeqNames(seq)})
		}
		_ = os.RemoveAll(dir)
	}
}

// vfsStartOverExistingFiles: files are already there when the provider starts, and they keep being touched while the
// (slow) initial load is under way - an editor saving, a config-management run. Content is applied exactly once.
func vfsStartOverExistingFiles(r *core.Run) {
	base := vfRunDir("c18fs-start")
	rounds := r.Pick(12, 60)
	for n := 0; n < rounds; n++ {
		dir := filepath.Join(base, fmt.Sprintf("s%d", n))
		_ = os.MkdirAll(dir, 0o755)
		ids := []string{fmt.Sprintf("st%d-a", n), fmt.Sprintf("st%d-b", n), fmt.Sprintf("st%d-c", n)}
		for _, id := range ids {
			if err := os.WriteFile(filepath.Join(dir, id+".yaml"), []byte(vfRuleSetYAML(id)), 0o600); err != nil {
				r.Inconclusive("fs start: " + err.Error())
				return
			}
		}
		rec := vfNewRecorder()
		sentinel := make(chan struct{})
		var once, change sync.Once
		// every second round the sources also really change while the initial load is under way: one file gets new content,
		// one file appears. The latest content has to win once things are quiet.
		changing := n%2 == 1
		changedID, addedID := fmt.Sprintf("st%d-a-v2", n), fmt.Sprintf("st%d-d", n)
		rec.notify = func(c vfCall) {
			if strings.HasPrefix(c.Content, "sentinel-") {
				once.Do(func() { close(sentinel) })
				return
			}
			if changing {
				change.Do(func() {
					_ = os.WriteFile(filepath.Join(dir, ids[0]+".yaml"), []byte(vfRuleSetYAML(changedID)), 0o600)
					_ = os.WriteFile(filepath.Join(dir, addedID+".yaml"), []byte(vfRuleSetYAML(addedID)), 0o600)
				})
				time.Sleep(15 * time.Millisecond)
				return
			}
			// every processor call takes a while, and meanwhile all files are touched (same content, new mtime, write event)
			now := time.Now()
			for _, id := range ids {
				_ = os.Chtimes(filepath.Join(dir, id+".yaml"), now, now)
				_ = os.WriteFile(filepath.Join(dir, id+".yaml"), []byte(vfRuleSetYAML(id)), 0o600)
			}
			time.Sleep(15 * time.Millisecond)
		}
		p, err := vfsNewProvider(dir, rec, true)
		if err != nil {
			r.Inconclusive("fs start: NewProvider: " + err.Error())
			return
		}
		if err := p.Start(context.Background()); err != nil {
			r.Inconclusive("fs start: Start: " + err.Error())
			return
		}
		// flush: a sentinel file moved into the directory is processed after everything that happened before
		tmp := filepath.Join(base, fmt.Sprintf("tmp-sentinel-%d", n))
		_ = os.WriteFile(tmp, []byte(vfRuleSetYAML(fmt.Sprintf("sentinel-start-%d", n))), 0o600)
		_ = os.Rename(tmp, filepath.Join(dir, "zz-sentinel.yaml"))
		select {
		case <-sentinel:
		case <-time.After(20 * time.Second):
			_ = p.Stop(context.Background())
			r.Inconclusive("fs start: sentinel not observed within the watchdog")
			return
		}
		_ = p.Stop(context.Background())
		perContent := map[string][]string{}
		var all []string
		for _, c := range rec.take() {
			if strings.HasPrefix(c.Content, "sentinel-") || strings.Contains(c.Source, "zz-sentinel") {
				continue
			}
			perContent[c.Content] = append(perContent[c.Content], c.Op)
			all = append(all, c.String())
		}
		r.Case(fmt.Sprintf("fs|start-over-existing-files|%d", n), true)
		r.Eval(1)
		r.Count("fs_starts_over_existing_files", 1)
		if changing {
			r.Count("fs_starts_with_sources_changing_during_the_initial_load", 1)
			active := map[string]bool{}
			for src, content := range rec.snapshot() {
				if !strings.Contains(src, "zz-sentinel") {
					active[content] = true
				}
			}
			want := map[string]bool{changedID: true, ids[1]: true, ids[2]: true, addedID: true}
			if !reflect.DeepEqual(active, want) {
				r.Violation("fs-changes-during-initial-load-lost", fmt.Sprintf("file_system: while the initial load was running, %s.yaml got new content (%s) and %s.yaml appeared; active afterwards: %v, latest valid content: %v",
					ids[0], changedID, addedID, keysOfBool(active), keysOfBool(want)),
					map[string]any{"provider": "file_system", "mode": "start while sources change (watch: true)", "calls": all})
			}
			_ = os.RemoveAll(dir)
			continue
		}
		for _, id := range ids {
			if ops := perContent[id]; len(ops) != 1 || ops[0] != "C" {
				r.Violation("fs-content-not-applied-exactly-once", fmt.Sprintf("file_system: rule set %s, present at start and touched (unchanged) during the initial load, caused the calls %v; expected exactly one C", id, ops),
					map[string]any{"provider": "file_system", "mode": "start over existing files (watch: true)", "files": ids, "calls": all})
				break
			}
		}
		_ = os.RemoveAll(dir)
	}
}

func keysOfBool(m map[string]bool) []string {
	var out []string
	for k := range m {
		out = append(out, k)
	}
	sort.Strings(out)
	return out
}

func vfsRunWatch(r *core.Run, dir string, n int, seq []int, st *vfStats) (int, bool) {
	w := &vfsWorld{dir: dir, files: map[string]*vfsFile{}, tag: fmt.Sprintf("w%d-", n), inplace: true, salt: vfDocSalt(seq, 0), st: st}
	rec := vfNewRecorder()
	o := vfNewOracle(st)
	var mu sync.Mutex
	waiting := map[string]chan struct{}{}
	rec.notify = func(c vfCall) {
		if c.Op != "C" {
			return
		}
		mu.Lock()
		ch := waiting[c.Content]
		delete(waiting, c.Content)
		mu.Unlock()
		if ch != nil {
			close(ch)
		}
	}
	p, err := vfsNewProvider(dir, rec, true)
	if err != nil {
		r.Inconclusive("fs watch: NewProvider: " + err.Error())
		return 0, false
	}
	if err := p.Start(context.Background()); err != nil {
		r.Inconclusive("fs watch: Start: " + err.Error())
		return 0, false
	}
	defer p.Stop(context.Background()) //nolint:errcheck

	sentinelSources := map[string]bool{}
	quiesce := func(i int) bool {
		id := fmt.Sprintf("sentinel-%d-%d", n, i)
		ch := make(chan struct{})
		mu.Lock()
		waiting[id] = ch
		mu.Unlock()
		sp := filepath.Join(dir, fmt.Sprintf("zz-sentinel-%d.yaml", i))
		tmp := filepath.Join(filepath.Dir(dir), fmt.Sprintf("tmp-sentinel-%d-%d", n, i))
		// complete content first, then moved into the watched directory: one Create event, full content
		if err := os.WriteFile(tmp, []byte(vfRuleSetYAML(id)), 0o600); err != nil {
			r.Inconclusive("fs watch: " + err.Error())
			return false
		}
		if err := os.Rename(tmp, sp); err != nil {
			r.Inconclusive("fs watch: " + err.Error())
			return false
		}
		select {
		case <-ch:
		case <-time.After(20 * time.Second):
			r.Inconclusive(fmt.Sprintf("fs watch: sentinel %s not observed within the watchdog (sequence %v)", id, vfsSeqNames(seq)))
			return false
		}
		return true
	}
	filter := func(calls []vfCall) []vfCall {
		out := calls[:0]
		for _, c := range calls {
			if strings.HasPrefix(c.Content, "sentinel-") {
				sentinelSources[c.Source] = true
				continue
			}
			if sentinelSources[c.Source] {
				continue
			}
			out = append(out, c)
		}
		return out
	}
	step := 0
	for i, sym := range seq {
		step++
		if sym == vfsFail {
			rec.armFailure()
		}
		evs, err := w.apply(sym)
		if err != nil {
			r.Inconclusive("fs watch: mutation failed: " + err.Error())
			return 0, false
		}
		if sym == vfsFail || len(evs) == 0 {
			// nothing will reach the provider; an armed failure stays armed for the next mutation
			o.trace = append(o.trace, vfTraceStep{Step: step, Action: vfsNames[sym] + " (no event)", Calls: []string{}})
			continue
		}
		states := map[string]vfState{}
		ctx := map[string]string{}
		for _, ev := range evs {
			states[ev.l] = w.state(ev.l)
			if ev.op == fsnotify.Rename && w.state(ev.l).Kind == vfGone {
				ctx["renamed-away:"+ev.l] = "1"
			}
		}
		// The sentinel's own OnCreated must not consume an injected failure that is meant for this
		// mutation: when the model expects no call at all for it, the failure is disarmed.
		if rec.armed() {
			expectCall := false
			for l, s := range states {
				a, ok := o.applied[l]
				if e := vfDecide(a, ok, s); e.Op != "" {
					expectCall = true
				}
			}
			if !expectCall {
				rec.disarm()
				st.add("fs_watch_failure_disarmed_no_call_expected", 1)
			}
		}
		if !quiesce(i) {
			return 0, false
		}
		st.add("fs_watch_steps_quiesced", 1)
		calls := filter(rec.take())
		o.step(step, &vfStep{Action: vfsNames[sym] + " (real events, quiesced)", States: states, Holder: w.holder, Classify: vfsClassify, Generic: vfGenericFS, Ctx: ctx}, calls)
	}
	truth := map[string]vfState{"a": w.state("a"), "b": w.state("b")}
	active := rec.snapshot()
	for s := range sentinelSources {
		delete(active, s)
	}
	o.final(step+1, truth, active, &vfStep{Classify: vfsClassify, Generic: vfGenericFS})
	o.report(r, "file_system", "watch", vfsSeqNames(seq), fmt.Sprintf(" docs=%v", w.docs))
	return o.nOK, true
}
