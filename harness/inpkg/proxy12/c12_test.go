package proxy

// C12, in-package part for the proxy service: failures of the upstream round trip (the only failures that arise AFTER
// the pipeline succeeded) must be answered with the communication-error class, never with a success status - also when
// nobody is left to read the answer (client gone): the status then only shows up in access logs and metrics. The real
// service handler (newService(...).Handler) is driven in process with a ResponseRecorder, so that the status is
// observable even for requests whose client cancelled.

import (
	"context"
	"fmt"
	"net"
	"net/http"
	"net/http/httptest"
	"os"
	"path/filepath"
	"strings"
	"sync/atomic"
	"testing"
	"time"

	"github.com/rs/zerolog"
	"go.uber.org/fx"

	"github.com/dadrus/heimdall/internal"
	"github.com/dadrus/heimdall/internal/cache"
	"github.com/dadrus/heimdall/internal/config"
	rconfig "github.com/dadrus/heimdall/internal/rules/config"
	"github.com/dadrus/heimdall/internal/rules/rule"
	"github.com/dadrus/heimdall/internal/verif/vkit/core"
	"github.com/dadrus/heimdall/internal/verif/vkit/ports"
)

type vf12Case struct {
	Fault      string `json:"upstream_fault"`
	Override   int    `json:"communication_error_status_override"`
	Method     string `json:"method"`
	Status     int    `json:"observed_status"`
	WroteBody  int    `json:"observed_body_bytes"`
	Expected   string `json:"expected"`
	UpstreamOK bool   `json:"upstream_answered"`
}

func TestC12(t *testing.T) {
	r := core.Begin("C12", "exploration")
	r.Rule("proxy service handler driven in process: upstream faults after a successful pipeline (connection refused, connection closed before/while the response head is sent, garbage instead of " +
		"HTTP, response head slower than the read timeout, client cancelling while waiting for the upstream head at several delays) x status override for communication errors {unset, 503, 599} x methods. " +
		"Every such failure must be answered with 502 / the override, never with a 2xx. Non-trivial: every case (each is a failure).")
	dir, _ := os.MkdirTemp(os.Getenv("VERIF_RUNDIR"), "c12proxy-")
	defer os.RemoveAll(dir)
	var hits atomic.Int64
	// scripted upstream: behaviour chosen by the first path segment
	ln, err := net.Listen("tcp", "127.0.0.1:0")
	if err != nil {
		r.Inconclusive("listen: " + err.Error())
		r.End()
	}
	defer ln.Close()
	go func() {
		for {
			c, err := ln.Accept()
			if err != nil {
				return
			}
			go func(c net.Conn) {
				defer c.Close()
				buf := make([]byte, 4096)
				n, _ := c.Read(buf)
				line := string(buf[:n])
				hits.Add(1)
				switch {
				case strings.Contains(line, "/close-early"):
					return
				case strings.Contains(line, "/half-head"):
					_, _ = c.Write([]byte("HTTP/1.1 200 OK\r\nContent-Le"))
					return
				case strings.Contains(line, "/garbage"):
					_, _ = c.Write([]byte("\x00\x01\x02 this is not http\r\n\r\n"))
					return
				case strings.Contains(line, "/slow"):
					time.Sleep(3 * time.Second)
					_, _ = c.Write([]byte("HTTP/1.1 200 OK\r\nContent-Length: 2\r\n\r\nok"))
				case strings.Contains(line, "/hang"):
					time.Sleep(2 * time.Second)
					_, _ = c.Write([]byte("HTTP/1.1 200 OK\r\nContent-Length: 2\r\n\r\nok"))
				default:
					_, _ = c.Write([]byte("HTTP/1.1 200 OK\r\nContent-Length: 2\r\n\r\nok"))
				}
			}(c)
		}
	}()
	deadPort, _ := ports.Free()
	upstream := ln.Addr().String()

	for _, override := range []int{0, 503, 599} {
		port, _ := ports.Free()
		mport, _ := ports.Free()
		cfgPath := filepath.Join(dir, fmt.Sprintf("heimdall-%d.yaml", override))
		cfg := fmt.Sprintf(`
serve:
  proxy:
    host: 127.0.0.1
    port: %d
    timeout: {read: 1s, write: 5s}
  management: {host: 127.0.0.1, port: %d}
log: {level: error}
tracing: {enabled: false}
metrics: {enabled: false}
mechanisms:
  authenticators:
    - id: anon
      type: anonymous
  finalizers:
    - id: noop
      type: noop
`, port, mport)
		_ = os.WriteFile(cfgPath, []byte(cfg), 0o600)
		var (
			conf *config.Configuration
			cch  cache.Cache
			exec rule.Executor
			proc rule.SetProcessor
		)
		app := fx.New(fx.NopLogger,
			fx.Supply(config.ConfigurationPath(cfgPath), config.EnvVarPrefix("VERIFNOENV_"), config.ProxyMode),
			internal.Module,
			fx.Decorate(func(zerolog.Logger) zerolog.Logger { return zerolog.Nop() }),
			fx.Populate(&conf, &cch, &exec, &proc))
		if err := app.Err(); err != nil {
			r.Inconclusive("fx: " + err.Error())
			break
		}
		sctx, cancel := context.WithTimeout(context.Background(), 20*time.Second)
		if err := app.Start(sctx); err != nil {
			cancel()
			r.Inconclusive("fx start: " + err.Error())
			break
		}
		cancel()
		rs := &rconfig.RuleSet{Version: "1alpha4", Name: "c12p", MetaData: rconfig.MetaData{Source: "c12p", Hash: []byte("c12p")}, Rules: []rconfig.Rule{
			{ID: "up", Matcher: rconfig.Matcher{Routes: []rconfig.Route{{Path: "/up/**"}}}, Backend: &rconfig.Backend{Host: upstream, URLRewriter: &rconfig.URLRewriter{PathPrefixToCut: "/up"}},
				Execute: []config.MechanismConfig{{"authenticator": "anon"}}},
			{ID: "dead", Matcher: rconfig.Matcher{Routes: []rconfig.Route{{Path: "/dead/**"}}}, Backend: &rconfig.Backend{Host: fmt.Sprintf("127.0.0.1:%d", deadPort)},
				Execute: []config.MechanismConfig{{"authenticator": "anon"}}},
		}}
		if err := proc.OnCreated(rs); err != nil {
			r.Inconclusive("rule set: " + err.Error())
			break
		}
		c := *conf
		c.Serve.Proxy.Respond.With.CommunicationError.Code = override
		srv := newService(&c, cch, zerolog.Nop(), exec)
		want := http.StatusBadGateway
		if override != 0 {
			want = override
		}
		type fault struct {
			name, path  string
			cancelAfter time.Duration
		}
		faults := []fault{
			{"connection-refused", "/dead/x", 0}, {"closed-before-response", "/up/close-early", 0}, {"closed-within-response-head", "/up/half-head", 0},
			{"garbage-instead-of-http", "/up/garbage", 0}, {"response-head-slower-than-read-timeout", "/up/slow", 0},
		}
		for _, d := range []time.Duration{5, 20, 50, 100, 200, 400} {
			faults = append(faults, fault{fmt.Sprintf("client-cancels-after-%dms-while-waiting-for-upstream", d), "/up/hang", d * time.Millisecond})
		}
		for _, f := range faults {
			for _, method := range []string{"GET", "POST"} {
				before := hits.Load()
				ctx, cancelReq := context.WithCancel(context.Background())
				var body *strings.Reader
				if method == "POST" {
					body = strings.NewReader("payload")
				}
				var req *http.Request
				if body != nil {
					req = httptest.NewRequest(method, "http://proxy.test"+f.path, body)
				} else {
					req = httptest.NewRequest(method, "http://proxy.test"+f.path, nil)
				}
				req = req.WithContext(ctx)
				req.RemoteAddr = "127.0.0.1:4711"
				rec := httptest.NewRecorder()
				if f.cancelAfter > 0 {
					time.AfterFunc(f.cancelAfter, cancelReq)
				}
				done := make(chan struct{})
				go func() { srv.Handler.ServeHTTP(rec, req); close(done) }()
				select {
				case <-done:
				case <-time.After(20 * time.Second):
					r.Inconclusive("handler did not return for " + f.name)
				}
				cancelReq()
				cs := vf12Case{Fault: f.name, Override: override, Method: method, Status: rec.Code, WroteBody: rec.Body.Len(),
					Expected: fmt.Sprintf("%d", want), UpstreamOK: hits.Load() > before}
				r.Case(fmt.Sprintf("%s|%d|%s", f.name, override, method), true)
				r.Count("proxy_upstream_failures", 1)
				if f.cancelAfter > 0 {
					r.Count("client_cancelled_in_flight", 1)
				}
				switch {
				case rec.Code >= 200 && rec.Code < 300:
					r.Violation("proxy-success-status-on-upstream-failure", fmt.Sprintf("upstream fault %q answered with %d", f.name, rec.Code), cs)
				case rec.Code != want:
					r.Violation("proxy-upstream-failure-wrong-status", fmt.Sprintf("upstream fault %q answered with %d, expected %d", f.name, rec.Code, want), cs)
				}
				if len(faults) > 0 && r.Counter("sampled") < 3 {
					r.Count("sampled", 1)
					r.Sample(cs)
				}
			}
		}
		stopCtx, cancelStop := context.WithTimeout(context.Background(), 10*time.Second)
		_ = app.Stop(stopCtx)
		cancelStop()
	}
	r.Require("proxy_upstream_failures", r.Counter("proxy_upstream_failures"), 50)
	r.Require("client_cancelled_in_flight", r.Counter("client_cancelled_in_flight"), 20)
	r.End()
}
