package c04

import (
	"encoding/json"
	"fmt"
	"math/rand/v2"
	"sort"
	"strings"
)

// ---- chains ----------------------------------------------------------------------------------------

var overrides = []string{"unset", "false", "true"}

func pickProto(rng *rand.Rand, t string) *protoDef {
	ps := protosOfType(t)
	total := 0
	for _, p := range ps {
		total += p.Weight
	}
	n := rng.IntN(total)
	for _, p := range ps {
		if n < p.Weight {
			return p
		}
		n -= p.Weight
	}
	return ps[0]
}

func randomElem(rng *rand.Rand, t string) elem {
	e := elem{Proto: pickProto(rng, t).ID, Override: "unset"}
	if e.configurable() {
		e.Override = overrides[rng.IntN(3)]
	}
	return e
}

// typeChains enumerates all chains of length <= 3 over the six authenticator types.
func typeChains() [][]string {
	var out [][]string
	var rec func(cur []string)
	rec = func(cur []string) {
		if len(cur) > 0 {
			out = append(out, append([]string{}, cur...))
		}
		if len(cur) == 3 {
			return
		}
		for _, t := range typeNames {
			rec(append(cur, t))
		}
	}
	rec(nil)
	return out
}

// deadTail: an always-deciding authenticator (anonymous / unauthorized) before the last position.
func deadTail(tc []string) bool {
	for i, t := range tc {
		if i < len(tc)-1 && (t == "anon" || t == "unauth") {
			return true
		}
	}
	return false
}

// genChains: every type-level chain gets n(len) variant assignments (prototype variant incl.
// prototype-level fallback, alternative sources and dead endpoint; rule-level override).
func genChains(rng *rand.Rand, thorough bool) []chain {
	seen := map[string]bool{}
	var out []chain
	add := func(es []elem) {
		c := chain{Elems: es}
		c.normalise()
		k := c.key()
		if seen[k] {
			return
		}
		seen[k] = true
		c.ID = fmt.Sprintf("c%d", len(out))
		out = append(out, c)
	}
	for _, tc := range typeChains() {
		n := 1
		switch {
		case deadTail(tc):
			n = 1
			if thorough {
				n = 3
			}
		case thorough:
			n = []int{0, 12, 16, 14}[len(tc)]
		default:
			n = []int{0, 3, 2, 1}[len(tc)]
		}
		if len(tc) == 1 && thorough {
			// all variants of a single authenticator
			for _, p := range protosOfType(tc[0]) {
				for _, o := range overrides {
					e := elem{Proto: p.ID, Override: o}
					if !e.configurable() {
						e.Override = "unset"
					}
					add([]elem{e})
				}
			}
			continue
		}
		for i := 0; i < n; i++ {
			var es []elem
			for _, t := range tc {
				es = append(es, randomElem(rng, t))
			}
			add(es)
		}
	}
	// extra chains that end in an always-accepting authenticator: the discriminating shape of the statement
	extra := 150
	if thorough {
		extra = 500
	}
	for i := 0; i < extra; i++ {
		l := 2 + rng.IntN(2)
		var es []elem
		for j := 0; j < l-1; j++ {
			es = append(es, randomElem(rng, typeNames[2+rng.IntN(4)]))
		}
		es = append(es, elem{Proto: "anon", Override: "unset"})
		add(es)
	}
	return out
}

// ---- requests --------------------------------------------------------------------------------------

type reqGen struct {
	rng *rand.Rand
	m   *minter
	seq int
}

func (g *reqGen) sub() string {
	g.seq++
	return fmt.Sprintf("sub-%d-%d", g.seq, nextNonce())
}

func classesOf(kind string) []string {
	switch kind {
	case "basic":
		return basicClasses
	case "jwt":
		return jwtClasses
	case "opaque":
		return opaqueClasses
	case "sess":
		return sessClasses
	}
	return junkClasses
}

// item creates a credential item for chain position pos (element e) of the given kind/class at one of
// the sources the element reads.
func (g *reqGen) item(e elem, pos int, kind, class string, src source) placement {
	size := ""
	if g.rng.IntN(12) == 0 {
		size = g.pickSize()
	}
	if g.rng.IntN(6) == 0 {
		// characters a decoder may choke on, in values of every kind that leaves room for them
		if cv := charVariants[g.rng.IntN(len(charVariants))]; !(cv.NoCookie && src.Kind == "cookie") {
			return g.mintedItem(e, pos, kind, class, src, size, cv)
		}
	}
	return g.sizedItem(e, pos, kind, class, src, size)
}

// pickSize: 4 KiB and 8 KiB twice as often as 64 KiB.
func (g *reqGen) pickSize() string {
	return []string{"4KiB", "4KiB", "8KiB", "8KiB", "64KiB"}[g.rng.IntN(5)]
}

// statusClass: an "endpoint answers with a status code" class for credentials of the kind (meta: the failing endpoint of
// a JWT's tenant may be the metadata endpoint as well as the JWKS endpoint).
func (g *reqGen) statusClass(kind string, meta bool) string {
	code := fmt.Sprint(statusCodes[g.rng.IntN(len(statusCodes))])
	switch {
	case kind == "jwt" && meta && g.rng.IntN(2) == 0:
		return "metahttp" + code
	case kind == "jwt":
		return "jwkshttp" + code
	}
	return "http" + code
}

// sizedItem: as item, the value padded to just above the named size ("" = short).
func (g *reqGen) sizedItem(e elem, pos int, kind, class string, src source, size string) placement {
	return g.mintedItem(e, pos, kind, class, src, size, charVariant{})
}

// mintedItem: as sizedItem, the value ending with the characters of cv (cv.Name "" = none).
func (g *reqGen) mintedItem(e elem, pos int, kind, class string, src source, size string, cv charVariant) placement {
	user, pass := e.basicUser()
	if e.proto().Type != "basic" {
		user, pass = basicUsers[0].User, basicUsers[0].Pass
	}
	if class == "blank" && (src.Kind == "header" || src.Kind == "cookie") {
		class = "plain" // a header/cookie value of blanks only does not survive HTTP parsing
	}
	minLen := 0
	if size != "" {
		minLen = sizes[size] + 100 + g.rng.IntN(200)
	}
	v := g.m.mintWith(kind, class, g.sub(), user, pass, minLen, cv.Tail)
	if len(v) < minLen {
		size = "" // the kind/class leaves no room for padding
	}
	p := placement{Slot: src.slot(), Scheme: src.Scheme, Value: v, Kind: kind, Class: class, Size: size, For: pos}
	if cv.Tail != "" && strings.HasSuffix(v, cv.Tail) {
		p.Chars = cv.Name
	}
	if src.Kind == "query" && g.rng.IntN(5) == 0 {
		p = g.repeated(p, repeatVariants[g.rng.IntN(len(repeatVariants))], user, pass)
	}
	if src.Kind == "header" && src.Scheme != "" && g.rng.IntN(4) == 0 {
		// more than one blank between scheme and credentials
		p.Sep = []string{"  ", "   "}[g.rng.IntN(2)]
	}
	if src.Kind == "header" && src.Scheme != "" && g.rng.IntN(5) == 0 {
		p.SchemeOnWire = []string{strings.ToLower(src.Scheme), strings.ToUpper(src.Scheme)}[g.rng.IntN(2)]
	}
	return p
}

// repeated: the query parameter of p is sent a second time as rv says. Another value is minted for rejected credentials
// only (same kind and class: whichever occurrence an implementation reads, it is rejected); valid and large values are
// repeated unchanged resp. empty.
func (g *reqGen) repeated(p placement, rv repeatVariant, user, pass string) placement {
	if p.Slot[0] != 'Q' || strings.TrimSpace(p.Value) == "" {
		return p
	}
	second := rv.Second
	if second == "other" && (classGroup(p.Kind, p.Class) == "valid" || p.Chars != "") {
		second = "equal"
	}
	if p.Size != "" {
		second = "empty"
	}
	for _, v := range repeatVariants {
		if v.Second == second && v.Apart == rv.Apart {
			p.Repeat = v.Name
		}
	}
	switch second {
	case "equal":
		p.RepeatValue = p.Value
	case "other":
		p.RepeatValue = g.m.mintWith(p.Kind, p.Class, g.sub(), user, pass, 0, "")
	}
	return p
}

// repeatedItem: as item, the query parameter sent twice.
func (g *reqGen) repeatedItem(e elem, pos int, kind, class string, src source) placement {
	p := g.sizedItem(e, pos, kind, class, src, "")
	user, pass := e.basicUser()
	return g.repeated(p, repeatVariants[g.rng.IntN(len(repeatVariants))], user, pass)
}

// querySource: a query parameter the element reads credentials from.
func querySource(e elem) (source, bool) {
	for _, s := range e.proto().Sources {
		if s.Kind == "query" {
			return s, true
		}
	}
	return source{}, false
}

// methods: the request method is a dimension of its own for every credential location. The statement (and the
// documentation of the credential sources) knows no method for which credentials present in a request do not count.
var methods = []string{"GET", "HEAD", "DELETE", "OPTIONS", "PUT", "PATCH", "POST"}

// pathVariant: what follows the route prefix of the rule (matched by its free wildcard) in the request path: odd but
// matchable. EnvoyOnly: net/http refuses a request line with such a target before heimdall sees it (and a proxy in front
// of the HTTP decision service would do the same), Envoy hands it over as received: only the request sent through the
// Envoy entry point has that path, the HTTP decision service gets the plain one.
type pathVariant struct {
	Name, Suffix string
	EnvoyOnly    bool
}

var pathVariants = []pathVariant{
	{Name: "sub-path", Suffix: "/offers/today"},
	{Name: "encoded-slash", Suffix: "/a%2Fb/c"},
	{Name: "encoded-slash-lower-case", Suffix: "/a%2fb"},
	{Name: "encoded-non-ascii", Suffix: "/caf%C3%A9"},
	{Name: "raw-non-ascii", Suffix: "/café/ünï"},
	{Name: "encoded-percent", Suffix: "/offers/50%25/today"},
	{Name: "encoded-question-mark", Suffix: "/what%3Fnow"},
	{Name: "sub-delims", Suffix: "/a;v=1/b,c/d=e&f"},
	{Name: "literal-percent", Suffix: "/offers/50%/today", EnvoyOnly: true},
	{Name: "broken-escape", Suffix: "/%zz", EnvoyOnly: true},
	{Name: "truncated-escape", Suffix: "/file%4", EnvoyOnly: true},
	{Name: "percent-at-end", Suffix: "/100%", EnvoyOnly: true},
}

func pathVariantByName(n string) pathVariant {
	for _, p := range pathVariants {
		if p.Name == n {
			return p
		}
	}
	panic("unknown path variant " + n)
}

// dress decides what does not belong to the credentials: the request method (its own, or named by a trusted proxy
// through X-Forwarded-Method), the request path below the route prefix of the rule, and how the body credentials of a
// request (if any) are transported: form or JSON, and the spelling of the Content-Type header.
func (g *reqGen) dress(r *lreq) {
	if g.rng.IntN(5) < 2 {
		r.Method = methods[g.rng.IntN(len(methods))]
		if g.rng.IntN(3) == 0 {
			r.Carrier = []string{"GET", "POST"}[g.rng.IntN(2)]
		}
	}
	if g.rng.IntN(5) < 2 {
		r.Path = pathVariants[g.rng.IntN(len(pathVariants))].Name
	}
	if !r.hasBodyItems() {
		return
	}
	if g.rng.IntN(3) == 0 {
		r.BodyEnc = bodyEncodings[1+g.rng.IntN(len(bodyEncodings)-1)]
	}
	if g.rng.IntN(3) != 0 {
		r.CT = contentTypes[1+g.rng.IntN(len(contentTypes)-1)].Name
	}
}

func (g *reqGen) pickSource(e elem) source {
	s := e.proto().Sources
	// prefer the first source a little: it is the common case
	if g.rng.IntN(3) == 0 {
		return s[0]
	}
	return s[g.rng.IntN(len(s))]
}

func (g *reqGen) credPositions(c chain) []int {
	var ps []int
	for i, e := range c.Elems {
		if e.configurable() {
			ps = append(ps, i)
		}
	}
	return ps
}

func (g *reqGen) rejectClass(kind string) string {
	cl := classesOf(kind)
	if (kind == "jwt" || kind == "opaque" || kind == "sess") && g.rng.IntN(6) == 0 {
		return g.statusClass(kind, g.rng.IntN(2) == 0)
	}
	for {
		c := cl[g.rng.IntN(len(cl))]
		if classGroup(kind, c) != "valid" {
			return c
		}
	}
}

func (g *reqGen) anyClass(kind string) string {
	cl := classesOf(kind)
	// valid credentials are a quarter of the draws
	if g.rng.IntN(4) == 0 {
		return "valid"
	}
	return cl[g.rng.IntN(len(cl))]
}

func conflict(items []placement, p placement) bool {
	for _, it := range items {
		if it.Slot == p.Slot {
			return true
		}
	}
	return false
}

var otherSchemes = []string{"Digest", "Negotiate", "Hawk", "AWS4-HMAC-SHA256"}

// requests for one chain. n is the number of requests (>= 2).
func (g *reqGen) requests(c chain, n int) []lreq {
	var out []lreq
	seen := map[string]bool{}
	add := func(r lreq) {
		g.dress(&r)
		k := r.shapeKey()
		if seen[k] {
			return
		}
		seen[k] = true
		out = append(out, r)
	}
	add(lreq{Recipe: "none"})
	add(lreq{Recipe: "other-scheme", Items: []placement{{Slot: "H:Authorization", Scheme: otherSchemes[g.rng.IntN(len(otherSchemes))],
		Value: fmt.Sprintf("resp%d", nextNonce()), Kind: "junk", Class: "otherscheme", For: -1}}})
	ps := g.credPositions(c)
	if len(ps) == 0 {
		// only anonymous/unauthorized: any credential is irrelevant
		t := typeNames[2+g.rng.IntN(4)]
		e := elem{Proto: protosOfType(t)[0].ID}
		add(lreq{Recipe: "irrelevant", Items: []placement{g.item(e, -1, nativeKind[t], "valid", e.proto().Sources[0])}})
		return out
	}
	// valid credentials for each position (at a random source of it)
	for _, p := range ps {
		e := c.Elems[p]
		add(lreq{Recipe: "single-valid", Items: []placement{g.item(e, p, nativeKind[e.proto().Type], "valid", g.pickSource(e))}})
	}
	// a well-formed invalid / failing / malformed credential for each position
	for _, p := range ps {
		e := c.Elems[p]
		k := nativeKind[e.proto().Type]
		add(lreq{Recipe: "single-invalid", Items: []placement{g.item(e, p, k, g.rejectClass(k), g.pickSource(e))}})
	}
	// authenticators that discover their endpoints per token issuer: a correctly signed token whose issuer makes the
	// discovery url unusable (found, cannot be validated), at any of the sources
	for _, p := range ps {
		if e := c.Elems[p]; e.proto().Meta {
			add(lreq{Recipe: "single-invalid", Items: []placement{g.item(e, p, "jwt", "issbreaksurl", g.pickSource(e))}})
		}
	}
	// authenticators whose configured endpoint (url or header) is templated with the token issuer: a valid JWT (it names
	// the tenant), a correctly signed JWT that names no issuer / names something that is not a string, and a reference
	// token (no claims at all), at any of the sources
	for _, p := range ps {
		e := c.Elems[p]
		if e.proto().Tpl == "" {
			continue
		}
		add(lreq{Recipe: "single-valid", Items: []placement{g.item(e, p, "jwt", "valid", g.pickSource(e))}})
		add(lreq{Recipe: "single-invalid", Items: []placement{g.item(e, p, "jwt", []string{"noiss", "issnotstring"}[g.rng.IntN(2)], g.pickSource(e))}})
		if e.proto().Type == "intro" {
			add(lreq{Recipe: "single-invalid", Items: []placement{g.item(e, p, "opaque", g.anyClass("opaque"), g.pickSource(e))}})
		}
	}
	// the remote system an authenticator presents the credentials to (identity, introspection, JWKS, metadata endpoint)
	// answers with a status code instead of a usable document: found, presented, not validated
	for _, p := range ps {
		e := c.Elems[p]
		t := e.proto().Type
		if t == "basic" {
			continue
		}
		k := nativeKind[t]
		if t == "intro" && e.proto().Meta && g.rng.IntN(2) == 0 {
			k = "jwt" // the tenant of a JWT formatted access token is discovered through its issuer
		}
		add(lreq{Recipe: "single-endpoint-status", Items: []placement{g.sizedItem(e, p, k, g.statusClass(k, false), g.pickSource(e), "")}})
		if e.proto().Meta { // the tenant of a JWT is discovered through its issuer: the metadata endpoint is the one that fails
			code := statusCodes[g.rng.IntN(len(statusCodes))]
			add(lreq{Recipe: "single-endpoint-status", Items: []placement{g.sizedItem(e, p, "jwt", fmt.Sprintf("metahttp%d", code), g.pickSource(e), "")}})
		}
	}
	// dates far outside of every integer range in a correctly signed JWT resp. in the answer of the authorization server
	for _, p := range ps {
		e := c.Elems[p]
		if t := e.proto().Type; t == "jwt" || t == "intro" {
			cl := []string{"nbfoutofrange", "expoutofrange"}[g.rng.IntN(2)]
			add(lreq{Recipe: "single-invalid", Items: []placement{g.item(e, p, nativeKind[t], cl, g.pickSource(e))}})
		}
	}
	// the credential query parameter sent more than once: a rejected value (second occurrence empty, equal or another
	// rejected one, next to the first or apart from it) and, sometimes, a valid one
	for _, p := range ps {
		e := c.Elems[p]
		src, ok := querySource(e)
		if !ok {
			continue
		}
		k := nativeKind[e.proto().Type]
		add(lreq{Recipe: "repeated-query-parameter-invalid", Items: []placement{g.repeatedItem(e, p, k, g.rejectClass(k), src)}})
		if g.rng.IntN(3) == 0 {
			add(lreq{Recipe: "repeated-query-parameter-valid", Items: []placement{g.repeatedItem(e, p, k, "valid", src)}})
		}
	}
	// credentials of 4 KiB, 8 KiB, 64 KiB: a valid and a rejected one at any position and source
	for _, class := range []string{"valid", ""} {
		p := ps[g.rng.IntN(len(ps))]
		e := c.Elems[p]
		k := nativeKind[e.proto().Type]
		recipe := "large-valid"
		if class == "" {
			class, recipe = g.rejectClass(k), "large-invalid"
		}
		if it := g.sizedItem(e, p, k, class, g.pickSource(e), g.pickSize()); it.Size != "" {
			add(lreq{Recipe: recipe, Items: []placement{it}})
		}
	}
	// characters a decoder may choke on inside a valid and a rejected value (the kinds whose format leaves room for them)
	for _, class := range []string{"valid", ""} {
		p := ps[g.rng.IntN(len(ps))]
		e := c.Elems[p]
		k := nativeKind[e.proto().Type]
		recipe := "special-characters-valid"
		if class == "" {
			class, recipe = g.rejectClass(k), "special-characters-invalid"
		}
		src := g.pickSource(e)
		cv := charVariants[g.rng.IntN(len(charVariants))]
		if cv.NoCookie && src.Kind == "cookie" {
			cv = charVariants[0]
		}
		if it := g.mintedItem(e, p, k, class, src, "", cv); it.Chars != "" {
			add(lreq{Recipe: recipe, Items: []placement{it}})
		}
	}
	for tries := 0; len(out) < n && tries < n*20; tries++ {
		p := ps[g.rng.IntN(len(ps))]
		e := c.Elems[p]
		k := nativeKind[e.proto().Type]
		switch x := g.rng.IntN(100); {
		case x < 35: // one credential of the native kind
			add(lreq{Recipe: "single", Items: []placement{g.item(e, p, k, g.anyClass(k), g.pickSource(e))}})
		case x < 70: // two credentials for two positions (or two sources of the same authenticator)
			first := g.item(e, p, k, g.rejectClass(k), g.pickSource(e))
			p2 := ps[g.rng.IntN(len(ps))]
			e2 := c.Elems[p2]
			k2 := nativeKind[e2.proto().Type]
			cl2 := "valid"
			if g.rng.IntN(3) == 0 {
				cl2 = g.anyClass(k2)
			}
			second := g.item(e2, p2, k2, cl2, g.pickSource(e2))
			if first.Slot == second.Slot {
				continue
			}
			items := []placement{first, second}
			if g.rng.IntN(2) == 0 {
				items = []placement{second, first}
			}
			add(lreq{Recipe: "pair", Items: items})
		case x < 85: // a credential of a foreign kind where this authenticator looks
			kinds := []string{"jwt", "opaque", "sess", "junk"}
			fk := kinds[g.rng.IntN(len(kinds))]
			if fk == k {
				continue
			}
			cl := "valid"
			if fk == "junk" || g.rng.IntN(2) == 0 {
				cl = classesOf(fk)[g.rng.IntN(len(classesOf(fk)))]
			}
			add(lreq{Recipe: "foreign-kind", Items: []placement{g.item(e, p, fk, cl, g.pickSource(e))}})
		default: // credentials for an authenticator type that is not part of the chain + maybe a native one
			t := typeNames[2+g.rng.IntN(4)]
			fe := elem{Proto: protosOfType(t)[g.rng.IntN(len(protosOfType(t)))].ID}
			items := []placement{g.item(fe, -1, nativeKind[t], g.anyClass(nativeKind[t]), fe.proto().Sources[g.rng.IntN(len(fe.proto().Sources))])}
			if g.rng.IntN(2) == 0 {
				it := g.item(e, p, k, g.anyClass(k), g.pickSource(e))
				if !conflict(items, it) {
					items = append(items, it)
				}
			}
			add(lreq{Recipe: "irrelevant", Items: items})
		}
	}
	return out
}

// hostile: the catalogue of one chain for the order-sensitive part of the workload: for every authenticator that reads
// credentials every class of its native kind (the valid ones, every way to be rejected, every way its remote system can
// fail), a remote system answering with a status code, and one value of every foreign kind, each at one of its sources.
func (g *reqGen) hostile(c chain) []lreq {
	out := []lreq{{Recipe: "none"}}
	for _, p := range g.credPositions(c) {
		e := c.Elems[p]
		k := nativeKind[e.proto().Type]
		for _, cl := range classesOf(k) {
			out = append(out, lreq{Recipe: "sequence-native", Items: []placement{g.item(e, p, k, cl, g.pickSource(e))}})
		}
		if k != "basic" {
			out = append(out, lreq{Recipe: "sequence-native", Items: []placement{g.item(e, p, k, g.statusClass(k, e.proto().Meta), g.pickSource(e))}})
		}
		for _, fk := range []string{"jwt", "opaque", "sess", "junk"} {
			if fk != k {
				cl := classesOf(fk)[g.rng.IntN(len(classesOf(fk)))]
				out = append(out, lreq{Recipe: "sequence-foreign-kind", Items: []placement{g.item(e, p, fk, cl, g.pickSource(e))}})
			}
		}
	}
	for i := range out {
		g.dress(&out[i])
	}
	return out
}

// ---- wire format ---------------------------------------------------------------------------------------

type wire struct {
	Method  string            `json:"method"`
	Target  string            `json:"target"`
	Headers map[string]string `json:"headers"`
	// ContentType: the Content-Type header lines of a request with a body (more than one: the header is sent twice)
	ContentType []string `json:"content_type,omitempty"`
	Body        string   `json:"body,omitempty"`
	// Chunked: the body is sent with Transfer-Encoding: chunked (no Content-Length) - the same credentials, another framing
	Chunked bool     `json:"chunked_body,omitempty"`
	Noise   []string `json:"noise,omitempty"`
}

func queryEscape(s string) string {
	var b strings.Builder
	for i := 0; i < len(s); i++ {
		ch := s[i]
		if ch >= 'a' && ch <= 'z' || ch >= 'A' && ch <= 'Z' || ch >= '0' && ch <= '9' || ch == '-' || ch == '_' || ch == '.' || ch == '~' {
			b.WriteByte(ch)
		} else {
			fmt.Fprintf(&b, "%%%02X", ch)
		}
	}
	return b.String()
}

// malformedCookiePairs: no "=", a value with a non ASCII character / a backslash / blanks and an unbalanced quote, no
// name, a name that is not a token. net/http's Request.Cookie skips such pairs.
var malformedCookiePairs = []string{"consent", "name=Jürgen", `path=c:\temp`, `pref="a b`, "=orphan", "bad name=1", "lang=de,en"}

// wire: the request as sent to the HTTP decision service resp. (envoy) as presented to the Envoy entry point.
func (r lreq) wire(path string, envoy bool) wire {
	w := wire{Method: "GET", Target: path, Headers: map[string]string{}}
	if r.Path != "" {
		if pv := pathVariantByName(r.Path); envoy || !pv.EnvoyOnly {
			w.Target += pv.Suffix
		}
	}
	var q, body, cookies []string
	jsonBody := map[string]string{}
	items := append([]placement{}, r.Items...)
	sort.SliceStable(items, func(i, j int) bool { return items[i].Slot < items[j].Slot })
	for _, it := range items {
		name := it.Slot[2:]
		switch it.Slot[0] {
		case 'H':
			v := it.Value
			if it.Scheme != "" {
				scheme := it.Scheme
				if it.SchemeOnWire != "" {
					scheme = it.SchemeOnWire
				}
				v = scheme + it.sep() + it.Value
			}
			w.Headers[name] = v
		case 'C':
			cookies = append(cookies, name+"="+it.Value)
		case 'Q':
			q = append(q, name+"="+queryEscape(it.Value))
			if it.Repeat != "" {
				if repeatVariantByName(it.Repeat).Apart {
					q = append(q, "page=2")
				}
				q = append(q, name+"="+queryEscape(it.RepeatValue))
			}
		case 'B':
			body = append(body, name+"="+queryEscape(it.Value))
			jsonBody[name] = it.Value
		}
	}
	// noise that carries no credentials: it must not change what an authenticator finds (seeded by the request itself)
	noise := 0
	for _, s := range [][]string{q, body, cookies} {
		for _, x := range s {
			for i := 0; i < len(x); i++ {
				noise = noise*31 + int(x[i])
			}
		}
	}
	if noise < 0 {
		noise = -noise
	}
	if len(cookies) > 0 {
		if noise%3 == 1 {
			// the same cookie name again, empty, after the real one (net/http: the first one counts)
			name, _, _ := strings.Cut(cookies[0], "=")
			cookies = append(cookies, "theme=dark", name+"=")
			w.Noise = append(w.Noise, "duplicate-empty-cookie")
		}
		if noise%3 == 2 {
			// an unrelated cookie pair a strict cookie parser refuses (RFC 6265 4.1.1), before or after the real ones: what
			// an authenticator finds in the well-formed pairs must not depend on it
			bad := malformedCookiePairs[noise/3%len(malformedCookiePairs)]
			if noise/3/len(malformedCookiePairs)%2 == 0 {
				cookies = append(cookies, bad)
			} else {
				cookies = append([]string{bad}, cookies...)
			}
			w.Noise = append(w.Noise, "malformed-sibling-cookie")
		}
		w.Headers["Cookie"] = strings.Join(cookies, "; ")
	}
	if len(q) > 0 {
		if noise%3 == 0 {
			// unrelated parameters which net/url cannot parse; the credential pair itself is well-formed
			q = append(q, []string{"filter=a;b", "q=100%", "redirect=%zz", "x=%"}[noise/3%4])
			w.Noise = append(w.Noise, "unparsable-unrelated-query-parameter")
		}
		w.Target += "?" + strings.Join(q, "&")
	}
	if len(body) > 0 {
		w.Method = "POST"
		w.ContentType = ctByName(r.CT).lines(mediaTypes[r.BodyEnc])
		w.Body = strings.Join(body, "&")
		if r.BodyEnc != "" {
			b, _ := json.Marshal(jsonBody)
			w.Body = string(b)
		}
		sum := 0
		for i := 0; i < len(w.Body); i++ {
			sum += int(w.Body[i])
		}
		w.Chunked = sum%2 == 1
	}
	if r.Method != "" {
		w.Method = r.Method
		if r.Carrier != "" && !envoy {
			w.Method = r.Carrier
			w.Headers["X-Forwarded-Method"] = r.Method
		}
	}
	return w
}

// effectiveMethod: the method of the (original) request.
func (r lreq) effectiveMethod() string {
	switch {
	case r.Method != "":
		return r.Method
	case r.hasBodyItems():
		return "POST"
	}
	return "GET"
}
