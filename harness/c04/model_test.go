package c04

import (
	"encoding/base64"
	"fmt"
	"strings"
)

// ---- configuration side ---------------------------------------------------------------------------

type source struct {
	Kind   string `json:"kind"` // header | cookie | query | body
	Name   string `json:"name"`
	Scheme string `json:"scheme,omitempty"`
}

func (s source) slot() string {
	switch s.Kind {
	case "header":
		return "H:" + s.Name
	case "cookie":
		return "C:" + s.Name
	case "query":
		return "Q:" + s.Name
	}
	return "B:" + s.Name
}

func (s source) config() map[string]any {
	switch s.Kind {
	case "header":
		m := map[string]any{"header": s.Name}
		if s.Scheme != "" {
			m["scheme"] = s.Scheme
		}
		return m
	case "cookie":
		return map[string]any{"cookie": s.Name}
	case "query":
		return map[string]any{"query_parameter": s.Name}
	}
	return map[string]any{"body_parameter": s.Name}
}

// protoDef is one authenticator prototype (mechanisms.authenticators entry).
type protoDef struct {
	ID      string   `json:"id"`
	Type    string   `json:"type"`              // anon | unauth | basic | jwt | intro | gen
	FB      bool     `json:"proto_fallback"`    // allow_fallback_on_error in the prototype
	Down    bool     `json:"endpoint_down"`     // endpoint points to a closed port (connection refused)
	Sources []source `json:"sources,omitempty"` // ordered, as documented for the type / configured
	Custom  bool     `json:"custom_sources"`    // sources configured explicitly (jwt_source/token_source)
	// Meta: the jwks/introspection endpoint is not configured but discovered through a metadata_endpoint whose
	// url is templated with the issuer of the token (the documented multi tenant set-up)
	Meta bool `json:"metadata_endpoint,omitempty"`
	// Tpl: the configured jwks/introspection endpoint itself is templated with the issuer of the token, in its url
	// ("url": one endpoint path per tenant) or in a request header ("header": X-Tenant names the tenant)
	Tpl    string `json:"endpoint_templated_with_issuer,omitempty"`
	Weight int    `json:"-"`
}

var bearerDefault = []source{{"header", "Authorization", "Bearer"}, {"query", "access_token", ""}, {"body", "access_token", ""}}
var basicSource = []source{{"header", "Authorization", "Basic"}}
var jwtAltSources = []source{{"header", "X-Jwt", ""}, {"cookie", "jwt_c", ""}, {"query", "jwt_q", ""}, {"body", "jwt_b", ""}}
var introAltSources = []source{{"cookie", "tok_c", ""}, {"header", "X-Tok", "Token"}, {"query", "tok_q", ""}}
var genSources = []source{{"cookie", "session", ""}, {"header", "X-Session", ""}, {"query", "session_q", ""}, {"body", "session_b", ""}}
var genBearerSources = []source{{"header", "Authorization", "Bearer"}}
var genCookieSources = []source{{"cookie", "session", ""}} // the documentation's session-cookie example

var protos = []protoDef{
	{ID: "anon", Type: "anon", Weight: 1},
	{ID: "unauth", Type: "unauth", Weight: 1},
	{ID: "basic", Type: "basic", Sources: basicSource, Weight: 3},
	{ID: "basic_fb", Type: "basic", FB: true, Sources: basicSource, Weight: 2},
	{ID: "jwt", Type: "jwt", Sources: bearerDefault, Weight: 3},
	{ID: "jwt_fb", Type: "jwt", FB: true, Sources: bearerDefault, Weight: 2},
	{ID: "jwt_alt", Type: "jwt", Sources: jwtAltSources, Custom: true, Weight: 2},
	{ID: "jwt_down", Type: "jwt", Down: true, Sources: bearerDefault, Weight: 1},
	{ID: "jwt_meta", Type: "jwt", Meta: true, Sources: bearerDefault, Weight: 2},
	{ID: "jwt_tplhdr", Type: "jwt", Tpl: "header", Sources: bearerDefault, Weight: 1},
	{ID: "intro", Type: "intro", Sources: bearerDefault, Weight: 3},
	{ID: "intro_fb", Type: "intro", FB: true, Sources: bearerDefault, Weight: 2},
	{ID: "intro_alt", Type: "intro", Sources: introAltSources, Custom: true, Weight: 2},
	{ID: "intro_down", Type: "intro", Down: true, Sources: bearerDefault, Weight: 1},
	{ID: "intro_meta", Type: "intro", Meta: true, Sources: bearerDefault, Weight: 2},
	{ID: "intro_tplurl", Type: "intro", Tpl: "url", Sources: bearerDefault, Weight: 2},
	{ID: "intro_tplhdr", Type: "intro", Tpl: "header", Sources: introAltSources, Custom: true, Weight: 1},
	{ID: "gen", Type: "gen", Sources: genSources, Custom: true, Weight: 3},
	{ID: "gen_fb", Type: "gen", FB: true, Sources: genSources, Custom: true, Weight: 2},
	{ID: "gen_bearer", Type: "gen", Sources: genBearerSources, Custom: true, Weight: 2},
	{ID: "gen_cookie", Type: "gen", Sources: genCookieSources, Custom: true, Weight: 2},
	{ID: "gen_down", Type: "gen", Down: true, Sources: genSources, Custom: true, Weight: 1},
}

var typeNames = []string{"anon", "unauth", "basic", "jwt", "intro", "gen"}

var nativeKind = map[string]string{"basic": "basic", "jwt": "jwt", "intro": "opaque", "gen": "sess"}

func protoByID(id string) *protoDef {
	for i := range protos {
		if protos[i].ID == id {
			return &protos[i]
		}
	}
	return nil
}

func protosOfType(t string) []*protoDef {
	var out []*protoDef
	for i := range protos {
		if protos[i].Type == t {
			out = append(out, &protos[i])
		}
	}
	return out
}

// elem is one authenticator reference inside a rule.
type elem struct {
	Proto    string `json:"authenticator"`
	Override string `json:"rule_level_allow_fallback_on_error"` // unset | false | true
	// position dependent rule level configuration
	User    string `json:"user_id,omitempty"` // basic: rule level user_id/password override ("" = prototype: alice)
	Pass    string `json:"-"`
	Subject string `json:"subject,omitempty"` // anon: rule level subject override
}

func (e elem) proto() *protoDef { return protoByID(e.Proto) }

func (e elem) configurable() bool {
	t := e.proto().Type
	return t != "anon" && t != "unauth"
}

// fallbackAllowed: documented semantics of the overridable option allow_fallback_on_error.
func (e elem) fallbackAllowed() bool {
	if !e.configurable() {
		return false
	}
	switch e.Override {
	case "true":
		return true
	case "false":
		return false
	}
	return e.proto().FB
}

func (e elem) key() string {
	return e.Proto + "/" + e.Override + "/" + e.User + e.Subject
}

type chain struct {
	ID    string `json:"rule"`
	Elems []elem `json:"authenticators"`
}

func (c chain) key() string {
	var p []string
	for _, e := range c.Elems {
		p = append(p, e.key())
	}
	return strings.Join(p, ">")
}

func (c chain) typeKey() string {
	var p []string
	for _, e := range c.Elems {
		p = append(p, e.proto().Type)
	}
	return strings.Join(p, ">")
}

// normalise assigns the position dependent settings: the k-th basic_auth authenticator of a chain
// verifies user k (rule level user_id/password override), the k-th anonymous one creates "anon<k>".
func (c *chain) normalise() {
	nb, na := 0, 0
	for i := range c.Elems {
		e := &c.Elems[i]
		switch e.proto().Type {
		case "basic":
			if nb > 0 {
				e.User, e.Pass = basicUsers[nb].User, basicUsers[nb].Pass
			}
			nb++
		case "anon":
			if na > 0 {
				e.Subject = fmt.Sprintf("anon%d", na)
			}
			na++
		}
	}
}

func (e elem) basicUser() (string, string) {
	if e.User != "" {
		return e.User, e.Pass
	}
	return basicUsers[0].User, basicUsers[0].Pass
}

func (e elem) anonSubject() string {
	if e.Subject != "" {
		return e.Subject
	}
	return "anonymous"
}

// ---- request side ----------------------------------------------------------------------------------

type placement struct {
	Slot   string `json:"slot"`             // H:<name> | C:<name> | Q:<name> | B:<name>
	Scheme string `json:"scheme,omitempty"` // header only
	// Sep: what separates scheme and value on the wire ("" = one blank). RFC 9110: credentials = auth-scheme 1*SP token68
	Sep string `json:"scheme_separator,omitempty"`
	// SchemeOnWire: the scheme as spelled in the request ("" = as configured). RFC 9110 11.1: auth-scheme is case-insensitive
	SchemeOnWire string `json:"scheme_spelling,omitempty"`
	Value        string `json:"value"`
	Kind         string `json:"kind"`
	Class        string `json:"class"`
	// Size: the value is padded to just above that size ("" = as short as the kind allows; see sizes)
	Size string `json:"size,omitempty"`
	// Chars: the value contains characters a decoder on the way may choke on or rewrite (name of an entry of
	// charVariants; "" = letters, digits, '_', '-', '.' only). The remote side knows exactly that byte string.
	Chars string `json:"special_characters,omitempty"`
	// Repeat: the query parameter is sent once more after this one (name of an entry of repeatVariants; "" = sent once),
	// with the value RepeatValue. The first occurrence is the one that carries the credentials.
	Repeat      string `json:"query_parameter_repeated,omitempty"`
	RepeatValue string `json:"repeated_with_value,omitempty"`
	For         int    `json:"for_position"` // chain position the item was generated for (-1: none)
}

// repeatVariant: how a credential query parameter is sent a second time: with no value, the same value, or another value
// of the same kind and class (rejected credentials only), right after the first occurrence or apart from it (an
// unrelated parameter in between). Whatever an implementation makes of the second occurrence, the request carries
// credentials of that kind: a rejected value can never count as "no credentials".
type repeatVariant struct {
	Name, Second string
	Apart        bool
}

var repeatVariants = []repeatVariant{
	{Name: "empty-next", Second: "empty"},
	{Name: "empty-apart", Second: "empty", Apart: true},
	{Name: "equal-next", Second: "equal"},
	{Name: "equal-apart", Second: "equal", Apart: true},
	{Name: "other-next", Second: "other"},
	{Name: "other-apart", Second: "other", Apart: true},
}

func repeatVariantByName(n string) repeatVariant {
	for _, v := range repeatVariants {
		if v.Name == n {
			return v
		}
	}
	panic("unknown repeat variant " + n)
}

type lreq struct {
	Recipe string      `json:"recipe"`
	Items  []placement `json:"items"`
	// how body credentials (slots B:...) are transported: encoding ("" = form, "json") and the spelling of the
	// Content-Type header (name of an entry of contentTypes; "" = the plain media type)
	BodyEnc string `json:"body_encoding,omitempty"`
	CT      string `json:"content_type_spelling,omitempty"`
	// Method: the method of the request ("" = GET, POST when credentials travel in the body). Carrier != "": the decision
	// service is called by a trusted proxy with the method Carrier, the method of the original request is named by
	// X-Forwarded-Method (the Envoy entry point gets Method in the method attribute).
	Method  string `json:"method,omitempty"`
	Carrier string `json:"method_of_the_proxy_call,omitempty"`
	// Path: what follows the route prefix of the rule in the request path (name of an entry of pathVariants; "" = nothing)
	Path string `json:"path_variant,omitempty"`
}

func (r lreq) shapeKey() string {
	var p []string
	for _, it := range r.Items {
		sep := ""
		if it.Sep != "" {
			sep = fmt.Sprintf("sep%q", it.Sep)
		}
		size := ""
		if it.Size != "" {
			size = "+" + it.Size
		}
		if it.Chars != "" {
			size += "+chars-" + it.Chars
		}
		if it.Repeat != "" {
			size += "+repeated-" + it.Repeat
		}
		p = append(p, fmt.Sprintf("%s[%s%s]=%s-%s%s@%d", it.Slot, it.Scheme, sep, it.Kind, it.Class, size, it.For))
	}
	k := r.Recipe + "{" + strings.Join(p, ",") + "}"
	if r.BodyEnc != "" || r.CT != "" {
		k += "body:" + r.BodyEnc + "/" + r.CT
	}
	if r.Method != "" {
		k += "method:" + r.Method
		if r.Carrier != "" {
			k += "-forwarded-by-" + r.Carrier
		}
	}
	if r.Path != "" {
		k += "path:" + r.Path
	}
	return k
}

func (r lreq) hasBodyItems() bool {
	for _, it := range r.Items {
		if it.Slot[0] == 'B' {
			return true
		}
	}
	return false
}

// withoutBody: the same request as seen by a reader that does not decode the body.
func (r lreq) withoutBody() lreq {
	out := lreq{Recipe: r.Recipe, BodyEnc: r.BodyEnc, CT: r.CT, Method: r.Method, Carrier: r.Carrier, Path: r.Path}
	for _, it := range r.Items {
		if it.Slot[0] != 'B' {
			out.Items = append(out.Items, it)
		}
	}
	return out
}

// ctSpelling is one way to write the Content-Type of a form / JSON body.
//
// Documentation of the body parameter strategy: "The Content-Type of the request must also either be set to
// application/x-www-form-urlencoded or to a MIME type, which contains json". Parameters (well-formed or not)
// and a header line sent twice do not change the media type: the body stays usable. Media types are
// case-insensitive (RFC 9110, 8.3.1) while the documentation spells them in lower case: whether a body with
// another casing of the type is usable is left open (Open: both readings are allowed).
type ctSpelling struct {
	Name  string
	Lines []string // header lines; %s = the media type
	Title bool     // media type written as Application/Json
	Open  bool
}

func (c ctSpelling) lines(mediaType string) []string {
	if c.Title {
		b := []byte(mediaType)
		for i := range b {
			if (i == 0 || b[i-1] == '/' || b[i-1] == '-' || b[i-1] == '+' || b[i-1] == '.') && b[i] >= 'a' && b[i] <= 'z' {
				b[i] -= 'a' - 'A'
			}
		}
		mediaType = string(b)
	}
	var out []string
	for _, l := range c.Lines {
		out = append(out, strings.ReplaceAll(l, "%s", mediaType))
	}
	return out
}

var contentTypes = []ctSpelling{
	{Name: "", Lines: []string{"%s"}},
	{Name: "charset", Lines: []string{"%s; charset=utf-8"}},
	{Name: "charset-compact-upper", Lines: []string{"%s;charset=UTF-8"}},
	{Name: "param-name-case-quoted", Lines: []string{`%s; Charset="utf-8"`}},
	{Name: "two-params", Lines: []string{"%s; charset=utf-8; boundary=x"}},
	{Name: "trailing-semicolon", Lines: []string{"%s;"}},
	{Name: "param-without-value", Lines: []string{"%s; charset"}},
	{Name: "param-unterminated-quote", Lines: []string{`%s; charset="utf-8`}},
	{Name: "param-without-name", Lines: []string{"%s; =utf-8"}},
	{Name: "sent-twice", Lines: []string{"%s", "%s"}},
	{Name: "sent-twice-one-with-param", Lines: []string{"%s", "%s; charset=utf-8"}},
	{Name: "type-title-case", Lines: []string{"%s"}, Title: true},
	{Name: "type-title-case-charset", Lines: []string{"%s; charset=utf-8"}, Title: true},
}

// body encodings and their media types ("" = form)
var bodyEncodings = []string{"", "json", "json-suffix", "json-text"}
var mediaTypes = map[string]string{"": "application/x-www-form-urlencoded", "json": "application/json", "json-suffix": "application/vnd.api+json", "json-text": "text/json"}

func ctByName(n string) ctSpelling {
	for _, c := range contentTypes {
		if c.Name == n {
			return c
		}
	}
	panic("unknown content type spelling " + n)
}

// sep: the blanks between scheme and value. Any number (>= 1) of blanks separates the two (RFC 9110, 11.4);
// they are not part of the credentials.
func (p placement) sep() string {
	if p.Sep == "" {
		return " "
	}
	return p.Sep
}

func (r lreq) at(slot string) (placement, bool) {
	for _, it := range r.Items {
		if it.Slot == slot {
			return it, true
		}
	}
	return placement{}, false
}

// ---- oracle -------------------------------------------------------------------------------------------

type verdict int

const (
	vNone   verdict = iota // no usable credentials of its kind in the request
	vAccept                // accepted(subject)
	vReject                // found credentials and rejected them / could not validate them
	vAmbig                 // the statement leaves open whether this is vNone or vReject; never vAccept
)

func (v verdict) String() string { return [...]string{"none", "accept", "reject", "ambiguous"}[v] }

type stepView struct {
	Verdict verdict `json:"-"`
	V       string  `json:"class"`
	Sub     string  `json:"subject,omitempty"`
	Seen    string  `json:"seen"` // what the authenticator sees: "absent" | "other-scheme" | "<kind>-<class>"
	Slot    string  `json:"slot,omitempty"`
	Size    string  `json:"size,omitempty"` // size class of the value it sees ("" = short)
	Chars   string  `json:"special_characters,omitempty"`
	// Repeat: the query parameter it reads is present more than once (see repeatVariants)
	Repeat string `json:"query_parameter_repeated,omitempty"`
}

// what: Seen, the size class of the value and the special characters in it (part of violation signatures).
func (v stepView) what() string {
	s := v.Seen
	if v.Size != "" {
		s += "+" + v.Size
	}
	if v.Chars != "" {
		s += "+chars-" + v.Chars
	}
	if v.Repeat != "" {
		s += "+repeated-" + v.Repeat
	}
	return s
}

// extract follows the documentation of "Authentication Data Source": strategies in order, a later one
// is used only if the previous could not retrieve a value; a header strategy with a scheme does not
// retrieve anything if the scheme is not present.
func extract(srcs []source, r lreq) (raw string, p placement, found bool, otherScheme bool) {
	for _, s := range srcs {
		it, ok := r.at(s.slot())
		if !ok {
			continue
		}
		if s.Kind == "header" {
			if s.Scheme != "" {
				if it.Scheme != s.Scheme {
					otherScheme = true
					continue
				}
			} else if it.Scheme != "" {
				// header without configured scheme: the whole value is the credential
				return strings.TrimSpace(it.Scheme + it.sep() + it.Value), it, true, otherScheme
			}
			if strings.TrimSpace(it.Value) == "" {
				// "Bearer" followed by nothing: the scheme token alone
				otherScheme = true
				continue
			}
		}
		if it.Value == "" {
			continue
		}
		return strings.TrimSpace(it.Value), it, true, otherScheme
	}
	return "", placement{}, false, otherScheme
}

func seenName(kind, class string) string { return kind + "-" + class }

// classify is the per-type 3-way classification (plus "ambiguous") written from the documentation.
func classify(e elem, r lreq) stepView {
	p := e.proto()
	switch p.Type {
	case "anon":
		return stepView{Verdict: vAccept, Sub: e.anonSubject(), Seen: "n/a"}
	case "unauth":
		return stepView{Verdict: vReject, Seen: "n/a"}
	}
	raw, it, found, other := extract(p.Sources, r)
	if !found {
		if other {
			return stepView{Verdict: vNone, Seen: "other-scheme"}
		}
		return stepView{Verdict: vNone, Seen: "absent"}
	}
	sv := stepView{Seen: seenName(it.Kind, it.Class), Slot: it.Slot, Size: it.Size, Chars: it.Chars, Repeat: it.Repeat}
	if raw == "" { // whitespace only value
		sv.Verdict = vAmbig
		return sv
	}
	info, known := lookup(raw)
	switch p.Type {
	case "basic":
		user, pass := e.basicUser()
		dec, err := base64.StdEncoding.DecodeString(raw)
		if err != nil {
			sv.Verdict = vAmbig // not a Basic credential at all (RFC 7617 requires base64)
			return sv
		}
		parts := strings.SplitN(string(dec), ":", 2)
		if len(parts) != 2 {
			sv.Verdict = vAmbig // no user-id:password structure
			return sv
		}
		if parts[0] == user && parts[1] == pass {
			sv.Verdict, sv.Sub = vAccept, user
			return sv
		}
		sv.Verdict = vReject
		return sv
	case "jwt":
		if !known || info.Kind != "jwt" {
			sv.Verdict = vAmbig // not a JWT: "not of its kind" or "malformed" is left open
			return sv
		}
		if p.Down {
			sv.Verdict = vReject // found a JWT, cannot validate it
			return sv
		}
		if info.Class == "valid" || info.Class == "validnokid" {
			sv.Verdict, sv.Sub = vAccept, info.Sub
			return sv
		}
		sv.Verdict = vReject
		return sv
	case "intro":
		// "does not care about the token format, thus will feel responsible for the request as soon as
		// it finds a bearer token"
		if p.Down {
			sv.Verdict = vReject
			return sv
		}
		if p.Tpl != "" && !(known && info.Kind == "jwt") {
			// one introspection endpoint per issuer: a bearer token that does not name its issuer (it is not a JWT)
			// was found but cannot be presented to anybody
			sv.Verdict = vReject
			return sv
		}
		if known && (info.Kind == "opaque" && info.Class == "valid" || info.Kind == "jwt" && (info.Class == "valid" || info.Class == "validnokid")) {
			sv.Verdict, sv.Sub = vAccept, info.Sub
			return sv
		}
		sv.Verdict = vReject
		return sv
	case "gen":
		if p.Down {
			sv.Verdict = vReject
			return sv
		}
		if known && info.Kind == "sess" && info.Class == "valid" {
			sv.Verdict, sv.Sub = vAccept, info.Sub
			return sv
		}
		sv.Verdict = vReject
		return sv
	}
	panic("unknown type " + p.Type)
}

// outcome is one behaviour the statement allows for (chain, request).
type outcome struct {
	Allow    bool     `json:"authenticated"`
	Sub      string   `json:"subject,omitempty"`
	Executed []string `json:"executed"`           // authenticator ids in execution order
	Stop     string   `json:"stop_reason"`        // why the chain ended
	Res      []string `json:"ambiguity_resolved"` // per ambiguous step: none|reject
}

// model: chain semantics of the statement. Where the usability of the body is left open (see ctSpelling) the
// behaviours of both readings are allowed; the per authenticator views are those of the reading "usable".
func model(c chain, r lreq) (views []stepView, outs []outcome) {
	views, outs = modelOf(c, r)
	if r.hasBodyItems() && ctByName(r.CT).Open {
		_, alt := modelOf(c, r.withoutBody())
		for i := range alt {
			alt[i].Res = append(alt[i].Res, "body-not-usable")
		}
		outs = append(outs, alt...)
	}
	return views, outs
}

// modelOf: chain semantics of the statement. Ambiguous steps are resolved both ways.
func modelOf(c chain, r lreq) (views []stepView, outs []outcome) {
	for _, e := range c.Elems {
		sv := classify(e, r)
		sv.V = sv.Verdict.String()
		views = append(views, sv)
	}
	var rec func(i int, executed []string, res []string)
	rec = func(i int, executed []string, res []string) {
		if i == len(c.Elems) {
			outs = append(outs, outcome{Allow: false, Executed: append([]string{}, executed...), Stop: "no authenticator left", Res: append([]string{}, res...)})
			return
		}
		e := c.Elems[i]
		executed = append(executed, e.Proto)
		v := views[i]
		cont := func(r2 []string) { rec(i+1, executed, r2) }
		stop := func(r2 []string) {
			outs = append(outs, outcome{Allow: false, Executed: append([]string{}, executed...),
				Stop: fmt.Sprintf("#%d %s rejected %s and does not allow fallback", i, e.Proto, v.Seen), Res: append([]string{}, r2...)})
		}
		switch v.Verdict {
		case vAccept:
			outs = append(outs, outcome{Allow: true, Sub: v.Sub, Executed: append([]string{}, executed...),
				Stop: fmt.Sprintf("#%d %s accepted", i, e.Proto), Res: append([]string{}, res...)})
		case vNone:
			cont(res)
		case vReject:
			if e.fallbackAllowed() {
				cont(res)
			} else {
				stop(res)
			}
		case vAmbig:
			cont(append(append([]string{}, res...), "none"))
			if !e.fallbackAllowed() {
				stop(append(append([]string{}, res...), "reject"))
			}
		}
	}
	rec(0, nil, nil)
	return views, outs
}
