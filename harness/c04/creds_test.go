package c04

import (
	"crypto/ecdsa"
	"crypto/elliptic"
	"crypto/hmac"
	"crypto/rand"
	"crypto/sha256"
	"encoding/base64"
	"encoding/json"
	"fmt"
	"sync"
	"sync/atomic"
	"time"
)

// ---- credential values ---------------------------------------------------------------------------
//
// A credential value is a string placed somewhere in a request (slot). Every value minted by the
// harness is registered with its kind/class/subject; the test servers answer as a pure function of
// the value they receive (looked up in the registry), the oracle classifies per authenticator type
// from the same registry (never from heimdall's behaviour).

type credInfo struct {
	Kind  string `json:"kind"`  // basic | jwt | opaque | sess | junk
	Class string `json:"class"` // see classes below
	Sub   string `json:"sub,omitempty"`
	User  string `json:"user,omitempty"` // basic: user part
	Pass  string `json:"-"`
	Note  string `json:"note,omitempty"`
}

var registry sync.Map // value -> credInfo

func lookup(v string) (credInfo, bool) {
	x, ok := registry.Load(v)
	if !ok {
		return credInfo{}, false
	}
	return x.(credInfo), true
}

var nonce atomic.Int64

func nextNonce() int64 { return nonce.Add(1) }

// classes per kind. "accept" classes are the ones the native authenticator type must accept.
var (
	basicClasses  = []string{"valid", "wrongpw", "wronguser", "colonpw", "nocolon", "badb64"}
	jwtClasses    = []string{"valid", "validnokid", "badsig", "expired", "notyet", "wrongiss", "wrongaud", "unknownkid", "hs256", "unsupalg", "badpayload", "jwks500", "jwksgarbage", "jwksdrop", "meta500", "issbreaksurl", "noiss", "issnotstring"}
	opaqueClasses = []string{"valid", "inactive", "expired", "wrongiss", "wrongaud", "nosub", "e500", "garbage", "drop"}
	sessClasses   = []string{"valid", "denied", "inactive", "expired", "nosub", "e500", "garbage", "drop"}
	junkClasses   = []string{"plain", "threedots", "blank"}
)

// classGroup groups the classes the way the task's catalogue names them (for coverage counters).
func classGroup(kind, class string) string {
	switch {
	case class == "valid" || class == "validnokid":
		return "valid"
	case kind == "junk" || class == "nocolon" || class == "badb64":
		return "malformed"
	case class == "e500" || class == "garbage" || class == "drop" || class == "jwks500" || class == "jwksgarbage" || class == "jwksdrop" || class == "meta500" || class == "issbreaksurl":
		return "endpoint-failing"
	}
	return "wellformed-invalid"
}

const (
	issOK      = "iss-ok"
	issEvil    = "iss-evil"
	iss500     = "iss-500"
	issGarbage = "iss-garbage"
	issDrop    = "iss-drop"
	issMeta500 = "iss-meta-500" // the metadata endpoint of this issuer answers 500 (its JWKS is fine, it is not a trusted issuer)
	audOK      = "aud-ok"
	kidOK      = "k1"
)

// basic auth users by occurrence of a basic_auth authenticator inside a chain
var basicUsers = []struct{ User, Pass string }{{"alice", "pw-alice"}, {"bob", "pw-bob"}, {"carol", "pw-carol"}}

type minter struct {
	key     *ecdsa.PrivateKey
	evilKey *ecdsa.PrivateKey
	secret  []byte
}

func newMinter() (*minter, error) {
	k, err := ecdsa.GenerateKey(elliptic.P256(), rand.Reader)
	if err != nil {
		return nil, err
	}
	e, err := ecdsa.GenerateKey(elliptic.P256(), rand.Reader)
	if err != nil {
		return nil, err
	}
	s := make([]byte, 32)
	if _, err := rand.Read(s); err != nil {
		return nil, err
	}
	return &minter{key: k, evilKey: e, secret: s}, nil
}

var b64u = base64.RawURLEncoding

func (m *minter) jwks() []byte {
	p := &m.key.PublicKey
	doc := map[string]any{"keys": []any{map[string]any{
		"kty": "EC", "crv": "P-256", "use": "sig", "alg": "ES256", "kid": kidOK,
		"x": b64u.EncodeToString(p.X.FillBytes(make([]byte, 32))),
		"y": b64u.EncodeToString(p.Y.FillBytes(make([]byte, 32))),
	}}}
	b, _ := json.Marshal(doc)
	return b
}

func es256(k *ecdsa.PrivateKey, input string) string {
	d := sha256.Sum256([]byte(input))
	r, s, err := ecdsa.Sign(rand.Reader, k, d[:])
	if err != nil {
		panic(err)
	}
	out := make([]byte, 64)
	r.FillBytes(out[:32])
	s.FillBytes(out[32:])
	return b64u.EncodeToString(out)
}

func (m *minter) jwt(class, sub string) string {
	now := time.Now()
	hdr := map[string]any{"alg": "ES256", "typ": "JWT", "kid": kidOK}
	claims := map[string]any{
		"iss": issOK, "sub": sub, "aud": []string{audOK}, "jti": fmt.Sprintf("j%d", nextNonce()),
		"iat": now.Add(-time.Minute).Unix(), "nbf": now.Add(-time.Minute).Unix(), "exp": now.Add(2 * time.Hour).Unix(),
	}
	key := m.key
	switch class {
	case "valid":
	case "validnokid":
		delete(hdr, "kid")
	case "badsig":
		key = m.evilKey
	case "expired":
		claims["iat"] = now.Add(-3 * time.Hour).Unix()
		claims["nbf"] = now.Add(-3 * time.Hour).Unix()
		claims["exp"] = now.Add(-2 * time.Hour).Unix()
	case "notyet":
		claims["nbf"] = now.Add(time.Hour).Unix()
	case "wrongiss":
		claims["iss"] = issEvil
	case "wrongaud":
		claims["aud"] = []string{"aud-other"}
	case "unknownkid":
		hdr["kid"] = "k-unknown"
	case "hs256":
		hdr["alg"] = "HS256"
	case "unsupalg":
		// an algorithm outside of the set the authenticator supports: "none" (RFC 7519 unsecured JWT) or ES256K
		hdr["alg"] = []string{"none", "ES256K"}[nextNonce()%2]
	case "jwks500":
		claims["iss"] = iss500
	case "jwksgarbage":
		claims["iss"] = issGarbage
	case "jwksdrop":
		claims["iss"] = issDrop
	case "meta500":
		claims["iss"] = issMeta500
	case "issbreaksurl":
		// correctly signed, but the issuer makes every endpoint url templated with .TokenIssuer unusable: invalid
		// percent escapes, a control character
		claims["iss"] = issOK + []string{"%zz", "%", "\x7f"}[nextNonce()%3]
	case "noiss":
		// correctly signed, but the token does not say who issued it
		delete(claims, "iss")
	case "issnotstring":
		// RFC 7519: iss is a StringOrURI; a number, a list or an object is not an issuer name
		claims["iss"] = []any{42, []string{issOK}, map[string]any{"name": issOK}, true}[nextNonce()%4]
	case "badpayload":
	default:
		panic("unknown jwt class " + class)
	}
	hb, _ := json.Marshal(hdr)
	cb, _ := json.Marshal(claims)
	if class == "badpayload" {
		cb = []byte(fmt.Sprintf("this is not json %d", nextNonce()))
	}
	input := b64u.EncodeToString(hb) + "." + b64u.EncodeToString(cb)
	var sig string
	switch class {
	case "hs256":
		h := hmac.New(sha256.New, m.secret)
		h.Write([]byte(input))
		sig = b64u.EncodeToString(h.Sum(nil))
	case "unsupalg":
		sig = ""
		if hdr["alg"] != "none" {
			sig = es256(m.evilKey, input)
		}
	default:
		sig = es256(key, input)
	}
	return input + "." + sig
}

// mint creates and registers a value of the given kind/class. user/pass are only used for basic.
func (m *minter) mint(kind, class, sub string, user, pass string) string {
	n := nextNonce()
	var v string
	info := credInfo{Kind: kind, Class: class, Sub: sub}
	switch kind {
	case "basic":
		info.Sub = ""
		var plain string
		switch class {
		case "valid":
			plain = user + ":" + pass
			info.User, info.Pass = user, pass
		case "wrongpw":
			plain = fmt.Sprintf("%s:bad-%d", user, n)
			info.User = user
		case "wronguser":
			plain = fmt.Sprintf("mallory%d:%s", n, pass)
		case "colonpw":
			plain = fmt.Sprintf("%s:%s:x%d", user, pass, n)
			info.User = user
		case "nocolon":
			plain = fmt.Sprintf("%s-%d", user, n)
		case "badb64":
			v = fmt.Sprintf("!!not*base64*%d!!", n)
		default:
			panic("unknown basic class " + class)
		}
		if v == "" {
			v = base64.StdEncoding.EncodeToString([]byte(plain))
		}
	case "jwt":
		v = m.jwt(class, sub)
	case "opaque":
		v = fmt.Sprintf("op_%s_%d", class, n)
	case "sess":
		v = fmt.Sprintf("sess_%s_%d", class, n)
	case "junk":
		info.Sub = ""
		switch class {
		case "plain":
			v = fmt.Sprintf("zzz%d", n)
		case "threedots":
			v = fmt.Sprintf("a%d.b.c", n)
		case "blank":
			v = " "
		default:
			panic("unknown junk class " + class)
		}
	default:
		panic("unknown kind " + kind)
	}
	if class != "blank" {
		registry.Store(v, info)
	}
	return v
}
