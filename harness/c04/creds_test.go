package c04

import (
	"crypto/ecdsa"
	"crypto/elliptic"
	"crypto/hmac"
	"crypto/rand"
	"crypto/sha256"
	"encoding/base64"
	"encoding/json"
	"fmt"
	"strconv"
	"strings"
	"sync"
	"sync/atomic"
	"time"
)

// ---- credential values ---------------------------------------------------------------------------
//
// A credential value is a string placed somewhere in a request (slot). Every value minted by the
// harness is registered with its kind/class/subject; the test servers answer as a pure function of
// the value they receive (looked up in the registry), the oracle classifies per authenticator type
// from the same registry (never from heimdall's behaviour).

type credInfo struct {
	Kind  string `json:"kind"`  // basic | jwt | opaque | sess | junk
	Class string `json:"class"` // see classes below
	Sub   string `json:"sub,omitempty"`
	User  string `json:"user,omitempty"` // basic: user part
	Pass  string `json:"-"`
	Note  string `json:"note,omitempty"`
}

var registry sync.Map // value -> credInfo

func lookup(v string) (credInfo, bool) {
	x, ok := registry.Load(v)
	if !ok {
		return credInfo{}, false
	}
	return x.(credInfo), true
}

var nonce atomic.Int64

func nextNonce() int64 { return nonce.Add(1) }

// classes per kind. "accept" classes are the ones the native authenticator type must accept.
var (
	basicClasses  = []string{"valid", "wrongpw", "wronguser", "colonpw", "nocolon", "badb64"}
	jwtClasses    = []string{"valid", "validnokid", "badsig", "expired", "notyet", "wrongiss", "wrongaud", "unknownkid", "hs256", "unsupalg", "badpayload", "jwks500", "jwksgarbage", "jwksdrop", "meta500", "issbreaksurl", "noiss", "issnotstring", "nbfoutofrange", "expoutofrange"}
	opaqueClasses = []string{"valid", "inactive", "expired", "wrongiss", "wrongaud", "nosub", "nbfoutofrange", "expoutofrange", "e500", "garbage", "drop"}
	sessClasses   = []string{"valid", "denied", "inactive", "expired", "nosub", "e500", "garbage", "drop"}
	junkClasses   = []string{"plain", "threedots", "blank"}
)

// statusCodes: what a remote system (identity endpoint, introspection endpoint, JWKS endpoint, metadata endpoint) may
// answer to presented credentials instead of a usable document. The classes "http<code>" (reference tokens, sessions),
// "jwkshttp<code>" and "metahttp<code>" (JWTs whose issuer names a tenant with such an endpoint) carry the code.
var statusCodes = []int{400, 401, 403, 404, 409, 422, 429, 500, 502, 503}

const (
	issJWKSStatus = "iss-jwks-http-" // + code: the JWKS endpoint of this issuer answers with that status
	issMetaStatus = "iss-meta-http-" // + code: the metadata endpoint of this issuer answers with that status
)

// statusOf: the remote system and the status code a status class names.
func statusOf(class string) (string, int, bool) {
	for _, p := range []string{"jwkshttp", "metahttp", "http"} {
		if rest, ok := strings.CutPrefix(class, p); ok {
			if n, err := strconv.Atoi(rest); err == nil {
				return p, n, true
			}
		}
	}
	return "", 0, false
}

// statusIssuers: the issuers whose JWKS endpoint answers with a status code (trusted issuers of the jwt authenticators).
func statusIssuers() []any {
	var out []any
	for _, c := range statusCodes {
		out = append(out, issJWKSStatus+strconv.Itoa(c))
	}
	return out
}

// extremeDates: NumericDate values (RFC 7519: "a JSON numeric value") far outside of what a 64 bit integer, a float64 or
// any time library holds. A correctly signed token / an introspection response that is not valid before such a date
// (class "nbfoutofrange") or expired at the negative of it (class "expoutofrange") was found and is not acceptable.
var extremeDates = []string{"1e19", "9223372036854775808", "1E+25", "123456789012345678901234567890", "1.7976931348623157e308", "1e400", "1e999999"}

// extremeDate: one of extremeDates (chosen by salt), negative: its negative.
func extremeDate(negative bool, salt int64) json.RawMessage {
	if salt < 0 {
		salt = -salt
	}
	d := extremeDates[salt%int64(len(extremeDates))]
	if negative {
		d = "-" + d
	}
	return json.RawMessage(d)
}

// saltOf: a number that is a function of the string only.
func saltOf(s string) int64 {
	var h int64
	for i := 0; i < len(s); i++ {
		h = (h*31 + int64(s[i])) & 0xffffffff
	}
	return h
}

// sizes of credential values: "" = as short as the kind allows, the others are padded to just above the named size.
var sizes = map[string]int{"4KiB": 4 << 10, "8KiB": 8 << 10, "64KiB": 64 << 10}

// padding: n characters that are legal in headers, cookies, base64 and JSON strings.
func padding(n int, salt int64) string {
	const abc = "abcdefghijklmnopqrstuvwxyzABCDEFGHIJKLMNOPQRSTUVWXYZ0123456789"
	b := make([]byte, n)
	x := uint64(salt)*2654435761 + 12345
	for i := range b {
		x = x*6364136223846793005 + 1442695040888963407
		b[i] = abc[(x>>33)%uint64(len(abc))]
	}
	return string(b)
}

// classGroup groups the classes the way the task's catalogue names them (for coverage counters).
func classGroup(kind, class string) string {
	if _, _, ok := statusOf(class); ok {
		return "endpoint-failing"
	}
	switch {
	case class == "valid" || class == "validnokid":
		return "valid"
	case kind == "junk" || class == "nocolon" || class == "badb64":
		return "malformed"
	case class == "e500" || class == "garbage" || class == "drop" || class == "jwks500" || class == "jwksgarbage" || class == "jwksdrop" || class == "meta500" || class == "issbreaksurl":
		return "endpoint-failing"
	}
	return "wellformed-invalid"
}

const (
	issOK      = "iss-ok"
	issEvil    = "iss-evil"
	iss500     = "iss-500"
	issGarbage = "iss-garbage"
	issDrop    = "iss-drop"
	issMeta500 = "iss-meta-500" // the metadata endpoint of this issuer answers 500 (its JWKS is fine, it is not a trusted issuer)
	audOK      = "aud-ok"
	kidOK      = "k1"
)

// basic auth users by occurrence of a basic_auth authenticator inside a chain
var basicUsers = []struct{ User, Pass string }{{"alice", "pw-alice"}, {"bob", "pw-bob"}, {"carol", "pw-carol"}}

type minter struct {
	key     *ecdsa.PrivateKey
	evilKey *ecdsa.PrivateKey
	secret  []byte
}

func newMinter() (*minter, error) {
	k, err := ecdsa.GenerateKey(elliptic.P256(), rand.Reader)
	if err != nil {
		return nil, err
	}
	e, err := ecdsa.GenerateKey(elliptic.P256(), rand.Reader)
	if err != nil {
		return nil, err
	}
	s := make([]byte, 32)
	if _, err := rand.Read(s); err != nil {
		return nil, err
	}
	return &minter{key: k, evilKey: e, secret: s}, nil
}

var b64u = base64.RawURLEncoding

func (m *minter) jwks() []byte {
	p := &m.key.PublicKey
	doc := map[string]any{"keys": []any{map[string]any{
		"kty": "EC", "crv": "P-256", "use": "sig", "alg": "ES256", "kid": kidOK,
		"x": b64u.EncodeToString(p.X.FillBytes(make([]byte, 32))),
		"y": b64u.EncodeToString(p.Y.FillBytes(make([]byte, 32))),
	}}}
	b, _ := json.Marshal(doc)
	return b
}

func es256(k *ecdsa.PrivateKey, input string) string {
	d := sha256.Sum256([]byte(input))
	r, s, err := ecdsa.Sign(rand.Reader, k, d[:])
	if err != nil {
		panic(err)
	}
	out := make([]byte, 64)
	r.FillBytes(out[:32])
	s.FillBytes(out[32:])
	return b64u.EncodeToString(out)
}

// jwt mints a token of the class; minLen > 0: a claim "pad" makes the compact form at least minLen bytes long.
func (m *minter) jwt(class, sub string, minLen int) string {
	now := time.Now()
	hdr := map[string]any{"alg": "ES256", "typ": "JWT", "kid": kidOK}
	claims := map[string]any{
		"iss": issOK, "sub": sub, "aud": []string{audOK}, "jti": fmt.Sprintf("j%d", nextNonce()),
		"iat": now.Add(-time.Minute).Unix(), "nbf": now.Add(-time.Minute).Unix(), "exp": now.Add(2 * time.Hour).Unix(),
	}
	key := m.key
	switch class {
	case "valid":
	case "validnokid":
		delete(hdr, "kid")
	case "badsig":
		key = m.evilKey
	case "expired":
		claims["iat"] = now.Add(-3 * time.Hour).Unix()
		claims["nbf"] = now.Add(-3 * time.Hour).Unix()
		claims["exp"] = now.Add(-2 * time.Hour).Unix()
	case "notyet":
		claims["nbf"] = now.Add(time.Hour).Unix()
	case "wrongiss":
		claims["iss"] = issEvil
	case "wrongaud":
		claims["aud"] = []string{"aud-other"}
	case "unknownkid":
		hdr["kid"] = "k-unknown"
	case "hs256":
		hdr["alg"] = "HS256"
	case "unsupalg":
		// an algorithm outside of the set the authenticator supports: "none" (RFC 7519 unsecured JWT) or ES256K
		hdr["alg"] = []string{"none", "ES256K"}[nextNonce()%2]
	case "jwks500":
		claims["iss"] = iss500
	case "jwksgarbage":
		claims["iss"] = issGarbage
	case "jwksdrop":
		claims["iss"] = issDrop
	case "meta500":
		claims["iss"] = issMeta500
	case "issbreaksurl":
		// correctly signed, but the issuer makes every endpoint url templated with .TokenIssuer unusable: invalid
		// percent escapes, a control character
		claims["iss"] = issOK + []string{"%zz", "%", "\x7f"}[nextNonce()%3]
	case "noiss":
		// correctly signed, but the token does not say who issued it
		delete(claims, "iss")
	case "issnotstring":
		// RFC 7519: iss is a StringOrURI; a number, a list or an object is not an issuer name
		claims["iss"] = []any{42, []string{issOK}, map[string]any{"name": issOK}, true}[nextNonce()%4]
	case "nbfoutofrange":
		// correctly signed, never valid before a date beyond every integer range
		claims["nbf"] = extremeDate(false, nextNonce())
	case "expoutofrange":
		// correctly signed, expired at a date below every integer range
		claims["exp"] = extremeDate(true, nextNonce())
	case "badpayload":
	default:
		switch ep, code, ok := statusOf(class); {
		case ok && ep == "jwkshttp":
			claims["iss"] = issJWKSStatus + strconv.Itoa(code)
		case ok && ep == "metahttp":
			claims["iss"] = issMetaStatus + strconv.Itoa(code)
		default:
			panic("unknown jwt class " + class)
		}
	}
	hb, _ := json.Marshal(hdr)
	cb, _ := json.Marshal(claims)
	if short := len(b64u.EncodeToString(hb)) + len(b64u.EncodeToString(cb)) + 88; minLen > short {
		claims["pad"] = padding((minLen-short)*3/4+16, nextNonce())
		cb, _ = json.Marshal(claims)
	}
	if class == "badpayload" {
		cb = []byte(fmt.Sprintf("this is not json %d", nextNonce()))
		if minLen > 0 {
			cb = append(cb, " "+padding(minLen*3/4, nextNonce())...)
		}
	}
	input := b64u.EncodeToString(hb) + "." + b64u.EncodeToString(cb)
	var sig string
	switch class {
	case "hs256":
		h := hmac.New(sha256.New, m.secret)
		h.Write([]byte(input))
		sig = b64u.EncodeToString(h.Sum(nil))
	case "unsupalg":
		sig = ""
		if hdr["alg"] != "none" {
			sig = es256(m.evilKey, input)
		}
	default:
		sig = es256(key, input)
	}
	return input + "." + sig
}

// mint creates and registers a value of the given kind/class. user/pass are only used for basic.
func (m *minter) mint(kind, class, sub string, user, pass string) string {
	return m.mintSized(kind, class, sub, user, pass, 0)
}

// mintSized: as mint; minLen > 0 asks for a value of at least minLen bytes (where the kind and class leave room for it:
// the valid Basic credentials are what the configuration says).
func (m *minter) mintSized(kind, class, sub string, user, pass string, minLen int) string {
	return m.mintWith(kind, class, sub, user, pass, minLen, "")
}

// charVariant: characters inside a credential value which a decoder on the way (percent-decoding, form decoding, cookie
// or header parsing) may refuse or rewrite. Credentials are opaque byte strings: the value registered - and known to the
// remote system - is exactly the one minted, so a valid one stays valid and a rejected one stays rejected only if it
// arrives unchanged. NoCookie: not a legal cookie-value character (RFC 6265), never placed in a cookie.
type charVariant struct {
	Name, Tail string
	NoCookie   bool
}

var charVariants = []charVariant{
	{Name: "percent-at-end", Tail: "_100%"},
	{Name: "percent-non-hex", Tail: "%zz_x"},
	{Name: "percent-truncated", Tail: "_%4"},
	{Name: "percent-valid-escape", Tail: "%41%2Fb"},
	{Name: "percent-encoded-percent", Tail: "_%25zz"},
	{Name: "plus", Tail: "a+b+"},
	{Name: "equals", Tail: "=x=="},
	{Name: "mixed", Tail: "%+=%zz/~"},
	{Name: "quotes", Tail: `_"q"_'`, NoCookie: true},
}

func charVariantByName(n string) charVariant {
	for _, c := range charVariants {
		if c.Name == n {
			return c
		}
	}
	panic("unknown character variant " + n)
}

// mintWith: as mintSized; tail != "": the value ends with these characters where the kind leaves room for it (reference
// tokens, sessions, unstructured junk: the formats of Basic credentials and JWTs are fixed).
func (m *minter) mintWith(kind, class, sub string, user, pass string, minLen int, tail string) string {
	n := nextNonce()
	var v string
	pad := func(have int) string {
		if minLen <= have {
			return ""
		}
		return "_" + padding(minLen-have, n)
	}
	info := credInfo{Kind: kind, Class: class, Sub: sub}
	switch kind {
	case "basic":
		info.Sub = ""
		var plain string
		switch class {
		case "valid":
			plain = user + ":" + pass
			info.User, info.Pass = user, pass
		case "wrongpw":
			plain = fmt.Sprintf("%s:bad-%d", user, n)
			plain += pad(len(plain) * 4 / 3)
			info.User = user
		case "wronguser":
			plain = fmt.Sprintf("mallory%d%s:%s", n, pad(len(pass)*4/3+16), pass)
		case "colonpw":
			plain = fmt.Sprintf("%s:%s:x%d", user, pass, n)
			info.User = user
		case "nocolon":
			plain = fmt.Sprintf("%s-%d", user, n)
		case "badb64":
			v = fmt.Sprintf("!!not*base64*%d!!", n)
		default:
			panic("unknown basic class " + class)
		}
		if v == "" {
			v = base64.StdEncoding.EncodeToString([]byte(plain))
		}
	case "jwt":
		v = m.jwt(class, sub, minLen)
	case "opaque":
		v = fmt.Sprintf("op_%s_%d", class, n)
		v += pad(len(v)) + tail
	case "sess":
		v = fmt.Sprintf("sess_%s_%d", class, n)
		v += pad(len(v)) + tail
	case "junk":
		info.Sub = ""
		switch class {
		case "plain":
			v = fmt.Sprintf("zzz%d", n)
			v += pad(len(v)) + tail
		case "threedots":
			v = fmt.Sprintf("a%d%s.b.c", n, pad(8))
		case "blank":
			v = " "
		default:
			panic("unknown junk class " + class)
		}
	default:
		panic("unknown kind " + kind)
	}
	if class != "blank" {
		registry.Store(v, info)
	}
	return v
}
