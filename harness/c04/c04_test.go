// Package c04 checks property C04 ("Authenticators fall back only on missing credentials or explicit
// opt-in") on an fx-assembled decision service with real authenticators chained by the real rule
// factory. See DESIGN.md section 5, C04.
package c04

import (
	"bytes"
	"fmt"
	"io"
	"math/rand/v2"
	"net"
	"net/http"
	"sort"
	"strings"
	"sync"
	"sync/atomic"
	"testing"
	"time"

	"github.com/dadrus/heimdall/internal/config"
	rconfig "github.com/dadrus/heimdall/internal/rules/config"
	"github.com/dadrus/heimdall/internal/verif/vkit/app"
	"github.com/dadrus/heimdall/internal/verif/vkit/core"
)

var heimdallType = map[string]string{"anon": "anonymous", "unauth": "unauthorized", "basic": "basic_auth", "jwt": "jwt", "intro": "oauth2_introspection", "gen": "generic"}

const deadEndpoint = "http://127.0.0.1:1" // nothing listens on tcpmux: connection refused

func srcList(s []source) []any {
	var out []any
	for _, x := range s {
		out = append(out, x.config())
	}
	return out
}

// metadataEndpoint: the test issuers are plain names, not URLs, so the issuer identifier cannot be derived from the
// metadata URL (verification disabled, a documented option); no HTTP cache: every request reaches the test server.
func metadataEndpoint(url string) map[string]any {
	return map[string]any{"url": url, "disable_issuer_identifier_verification": true, "http_cache": map[string]any{"enabled": false}}
}

// readLimit: buffer_limit.read of the decision service (a documented option; default 4KB, which net/http turns into a
// limit of 8 KiB for request line + headers): credentials of 64 KiB in a header, cookie or query must reach the authenticators.
const readLimit = 256 << 10

// trustedProxies: the peers (the harness itself, on loopback) whose X-Forwarded-Method names the method of the original
// request (a documented option of the decision service).
var trustedProxies = []string{"127.0.0.1/32", "::1/128"}

func prototypes(c *config.Configuration, srv string) {
	c.Serve.Decision.BufferLimit.Read = readLimit
	c.Serve.Decision.TrustedProxies = &trustedProxies
	p := c.Prototypes
	for _, d := range protos {
		base := srv
		if d.Down {
			base = deadEndpoint
		}
		var m config.Mechanism
		switch d.Type {
		case "anon":
			continue // "anon" is part of the base configuration of the kit (type anonymous, default subject)
		case "unauth":
			m = config.Mechanism{ID: d.ID, Type: "unauthorized"}
		case "basic":
			m = config.Mechanism{ID: d.ID, Type: "basic_auth", Config: config.MechanismConfig{"user_id": basicUsers[0].User, "password": basicUsers[0].Pass}}
		case "jwt":
			m = config.Mechanism{ID: d.ID, Type: "jwt", Config: config.MechanismConfig{
				"jwks_endpoint": map[string]any{"url": base + "/jwks/{{ .TokenIssuer }}"},
				"assertions":    map[string]any{"issuers": append([]any{issOK, iss500, issGarbage, issDrop}, statusIssuers()...), "audience": []any{audOK}},
			}}
			if d.Meta { // the issuer (and with it the trusted issuer) and the JWKS endpoint come from the metadata document
				m.Config = config.MechanismConfig{
					"metadata_endpoint": metadataEndpoint(base + "/meta/{{ .TokenIssuer }}/.well-known/openid-configuration"),
					"assertions":        map[string]any{"audience": []any{audOK}},
				}
			}
			if d.Tpl == "header" { // one JWKS url for all tenants, the tenant is named by a request header
				m.Config["jwks_endpoint"] = map[string]any{"url": base + "/jwks", "headers": map[string]any{"X-Tenant": "{{ .TokenIssuer }}"}}
			}
			if d.ID != "jwt_fb" { // jwt_fb keeps the default key cache (10m), all others fetch every time
				m.Config["cache_ttl"] = "0s"
			}
			if d.Custom {
				m.Config["jwt_source"] = srcList(d.Sources)
			}
		case "intro":
			m = config.Mechanism{ID: d.ID, Type: "oauth2_introspection", Config: config.MechanismConfig{
				"introspection_endpoint": map[string]any{"url": base + "/introspect"},
				"assertions":             map[string]any{"issuers": []any{issOK}, "audience": []any{audOK}},
				"cache_ttl":              "0s",
			}}
			if d.Meta { // .TokenIssuer is only available for tokens in JWT format: all others belong to the default tenant
				delete(m.Config, "introspection_endpoint")
				m.Config["metadata_endpoint"] = metadataEndpoint(base + `/meta/{{ .TokenIssuer | default "` + issOK + `" }}/.well-known/openid-configuration`)
				m.Config["assertions"] = map[string]any{"audience": []any{audOK}}
			}
			switch d.Tpl { // .TokenIssuer is only available for tokens in JWT format: all others have no tenant, hence no endpoint
			case "url":
				m.Config["introspection_endpoint"] = map[string]any{"url": base + "/introspect/{{ .TokenIssuer }}"}
			case "header":
				m.Config["introspection_endpoint"] = map[string]any{"url": base + "/introspect", "headers": map[string]any{"X-Tenant": "{{ .TokenIssuer }}"}}
			}
			if d.Custom {
				m.Config["token_source"] = srcList(d.Sources)
			}
		case "gen":
			m = config.Mechanism{ID: d.ID, Type: "generic", Config: config.MechanismConfig{
				"identity_info_endpoint":     map[string]any{"url": base + "/identity", "method": "POST", "headers": map[string]any{"Content-Type": "application/json"}},
				"authentication_data_source": srcList(d.Sources),
				"payload":                    `{"tok": {{ quote .AuthenticationData }}}`,
				"subject":                    map[string]any{"id": "id"},
				"session_lifespan":           map[string]any{"active": "active", "not_after": "expires_at"},
			}}
		}
		if d.FB {
			m.Config["allow_fallback_on_error"] = true
		}
		p.Authenticators = append(p.Authenticators, m)
	}
	p.Finalizers = append(p.Finalizers, config.Mechanism{ID: "subfin", Type: "header", Config: config.MechanismConfig{"headers": map[string]any{"X-Sub": "{{ .Subject.ID }}"}}})
}

// rule: the chain on a route prefix of its own: the prefix itself and, through a free wildcard, everything below it
// (encoded slashes allowed, decoded or not: both documented settings let such a path reach the pipeline).
func (c chain) rule() rconfig.Rule {
	r := rconfig.Rule{ID: c.ID, Matcher: rconfig.Matcher{Routes: []rconfig.Route{{Path: "/" + c.ID}, {Path: "/" + c.ID + "/**"}}}}
	r.EncodedSlashesHandling = rconfig.EncodedSlashesOn
	if len(c.Elems)%2 == 0 {
		r.EncodedSlashesHandling = rconfig.EncodedSlashesOnNoDecode
	}
	for _, e := range c.Elems {
		step := config.MechanismConfig{"authenticator": e.Proto}
		conf := map[string]any{}
		switch e.Override {
		case "true":
			conf["allow_fallback_on_error"] = true
		case "false":
			conf["allow_fallback_on_error"] = false
		}
		if e.User != "" {
			conf["user_id"], conf["password"] = e.User, e.Pass
		}
		if e.Subject != "" {
			conf["subject"] = e.Subject
		}
		if len(conf) > 0 {
			step["config"] = conf
		}
		r.Execute = append(r.Execute, step)
	}
	r.Execute = append(r.Execute, config.MechanismConfig{"finalizer": "subfin"})
	return r
}

// ---- observation -------------------------------------------------------------------------------------

type traceStep struct {
	Mech    string `json:"authenticator"`
	Outcome string `json:"outcome"`
}

type observed struct {
	Status    int         `json:"status"`
	Sub       string      `json:"x_sub,omitempty"`
	Trace     []traceStep `json:"authenticators_run"`
	Transport string      `json:"transport_error,omitempty"`
}

var reqCounter, chunkedBodies, noisyRequests atomic.Int64

// entry is one entry point of heimdall serving the rule set: the HTTP decision service or the Envoy ext_authz gRPC
// decision service. Both run the same prototypes and rules in an instance of their own.
type entry struct {
	Name string
	send func(w wire) observed
}

const (
	entryHTTP  = "decision-http"
	entryEnvoy = "decision-envoy-grpc"
)

func trace(pr *app.Probes, id string) []traceStep {
	var out []traceStep
	for _, e := range pr.Take(id) {
		if e.Stage == "authn" {
			out = append(out, traceStep{e.Mech, e.Outcome})
		}
	}
	return out
}

// sendEnvoy presents the same logical request as a CheckRequest, the way Envoy does: lower-case header names, one value
// per header name (of a Content-Type sent twice the first line), path and query in separate fields, the body buffered
// (as text, or as bytes where the HTTP entry point gets it chunked: pack_as_bytes).
func sendEnvoy(ev *app.Envoy, pr *app.Probes, w wire) observed {
	id := fmt.Sprintf("c04-%d", reqCounter.Add(1))
	hdrs := map[string]string{app.HdrReq: id}
	for k, v := range w.Headers {
		hdrs[k] = v
	}
	if len(w.ContentType) > 0 {
		hdrs["Content-Type"] = w.ContentType[0]
	}
	var body string
	var raw []byte
	if w.Chunked {
		raw = []byte(w.Body)
	} else {
		body = w.Body
	}
	res := ev.Check(w.Method, "http", "svc.test", w.Target, hdrs, body, raw)
	var o observed
	switch {
	case res.RPCErr != "":
		o.Transport, o.Status = res.RPCErr, -1
	case res.OK:
		o.Status, o.Sub = http.StatusOK, res.Header("X-Sub")
	default:
		o.Status = res.Status
		if o.Status == 0 || o.Status == http.StatusOK {
			o.Status = 1000 + res.Code // denied without a usable HTTP status: still "authentication failed"
		}
	}
	o.Trace = trace(pr, id)
	return o
}

func send(cl *http.Client, a *app.App, pr *app.Probes, w wire) observed {
	id := fmt.Sprintf("c04-%d", reqCounter.Add(1))
	var body io.Reader
	if w.Body != "" {
		body = bytes.NewReader([]byte(w.Body))
		if w.Chunked {
			body = struct{ io.Reader }{body} // length unknown to the client: chunked transfer encoding
		}
	}
	var o observed
	req, err := http.NewRequest(w.Method, "http://"+a.Addr()+"/", body)
	if err != nil {
		o.Transport = err.Error()
		return o
	}
	req.URL.Opaque = "//" + a.Addr() + w.Target
	req.Host = "svc.test"
	for k, v := range w.Headers {
		req.Header.Set(k, v)
	}
	if len(w.ContentType) > 0 {
		req.Header["Content-Type"] = w.ContentType
	}
	req.Header.Set(app.HdrReq, id)
	resp, err := cl.Do(req)
	if err != nil {
		o.Transport = err.Error()
		o.Status = -1
	} else {
		_, _ = io.Copy(io.Discard, resp.Body)
		resp.Body.Close()
		o.Status = resp.StatusCode
		o.Sub = resp.Header.Get("X-Sub")
	}
	if w.Chunked {
		chunkedBodies.Add(1)
	}
	if len(w.Noise) > 0 {
		noisyRequests.Add(1)
	}
	o.Trace = trace(pr, id)
	return o
}

// ---- judgement ---------------------------------------------------------------------------------------

type elemView struct {
	elem
	Type              string `json:"type"`
	EffectiveFallback bool   `json:"effective_allow_fallback_on_error"`
	ProtoFallback     bool   `json:"prototype_allow_fallback_on_error"`
	EndpointDown      bool   `json:"endpoint_down,omitempty"`
}

type c04Case struct {
	Chain    []elemView `json:"chain"`
	Rule     string     `json:"rule"`
	Request  lreq       `json:"request"`
	Wire     wire       `json:"wire"`
	Views    []stepView `json:"oracle_per_authenticator"`
	Allowed  []outcome  `json:"allowed_outcomes"`
	Entry    string     `json:"entry_point"`
	Observed observed   `json:"observed"`
	// OtherEntry: what the HTTP decision service answered to the same request (cases of the Envoy entry point)
	OtherEntry *observed `json:"observed_at_http_decision_service,omitempty"`
	// Sequence: the request was part of the serial request sequence (order-sensitive part of the workload)
	Sequence *seqView `json:"sequence,omitempty"`
}

// seqView: where in the serial sequence a request was sent, and what the same instances were asked right before it.
type seqView struct {
	Step      int      `json:"step"`
	Preceding []string `json:"preceding_requests"` // oldest first: "<chain> <- <request>"
}

// sequence is the state of the order-sensitive part of the workload: requests sent one after the other to the same
// instances; the model has no memory, so every decision must be the one the request would get from a fresh process.
type sequence struct {
	step    int
	history []string
	last    map[string]string // authenticator type -> oracle class of the request it saw last
}

const historyKept = 12

func (s *sequence) view() *seqView {
	return &seqView{Step: s.step, Preceding: append([]string{}, s.history...)}
}

func (s *sequence) done(c chain, lr lreq) {
	s.step++
	s.history = append(s.history, c.key()+" <- "+lr.shapeKey())
	if len(s.history) > historyKept {
		s.history = s.history[1:]
	}
}

func (o observed) ids() []string {
	var s []string
	for _, t := range o.Trace {
		s = append(s, t.Mech)
	}
	return s
}

func commonPrefix(a, b []string) int {
	n := 0
	for n < len(a) && n < len(b) && a[n] == b[n] {
		n++
	}
	return n
}

func matches(o observed, exp outcome) bool {
	if (o.Status == http.StatusOK) != exp.Allow {
		return false
	}
	if exp.Allow && o.Sub != exp.Sub {
		return false
	}
	if !exp.Allow && o.Sub != "" {
		return false
	}
	ids := o.ids()
	if len(ids) != len(exp.Executed) || commonPrefix(ids, exp.Executed) != len(ids) {
		return false
	}
	for i, t := range o.Trace {
		last := i == len(o.Trace)-1
		if (t.Outcome == "ok") != (last && exp.Allow) {
			return false
		}
	}
	return true
}

func matchesAny(o observed, outs []outcome) bool {
	for _, x := range outs {
		if matches(o, x) {
			return true
		}
	}
	return false
}

// signature computes the narrow class of a disagreement from the failing case.
func signature(c chain, views []stepView, outs []outcome, o observed) (string, string) {
	ids := o.ids()
	best, bestK := outs[0], -1
	for _, x := range outs {
		if k := commonPrefix(ids, x.Executed); k > bestK {
			best, bestK = x, k
		}
	}
	ty := func(i int) string { return heimdallType[c.Elems[i].proto().Type] }
	fbDesc := func(i int) string {
		return fmt.Sprintf("rule-%s/prototype-%v", c.Elems[i].Override, c.Elems[i].proto().FB)
	}
	if o.Status == -1 {
		return "transport-error", "no HTTP answer: " + o.Transport
	}
	switch {
	case len(ids) == 0:
		return "no-authenticator-ran", "trace is empty"
	case bestK == len(best.Executed) && len(ids) > len(best.Executed):
		i := len(best.Executed) - 1
		if best.Allow {
			return fmt.Sprintf("valid-credentials-not-accepted:%s:%s", ty(i), views[i].what()),
				fmt.Sprintf("#%d %s must accept %s but the chain went on", i, c.Elems[i].Proto, views[i].what())
		}
		return fmt.Sprintf("fallback-after-rejection:%s:%s", ty(i), views[i].what()),
			fmt.Sprintf("#%d %s found %s, does not allow fallback (%s), but %s was consulted afterwards", i, c.Elems[i].Proto, views[i].what(), fbDesc(i), ids[i+1])
	case bestK == len(ids) && len(ids) < len(best.Executed):
		i := len(ids) - 1
		v := views[i]
		switch {
		case o.Trace[i].Outcome == "ok":
			return fmt.Sprintf("unexpected-acceptance:%s:%s", ty(i), v.what()), fmt.Sprintf("#%d %s accepted %s", i, c.Elems[i].Proto, v.what())
		case v.Verdict == vNone:
			return fmt.Sprintf("no-fallback-on-missing-credentials:%s:%s", ty(i), v.what()),
				fmt.Sprintf("#%d %s has no credentials of its kind (%s) but the next authenticator %s was not consulted", i, c.Elems[i].Proto, v.what(), best.Executed[i+1])
		case v.Verdict == vReject && c.Elems[i].fallbackAllowed():
			return fmt.Sprintf("fallback-opt-in-ignored:%s:%s", ty(i), fbDesc(i)),
				fmt.Sprintf("#%d %s rejected %s and allows fallback (%s) but %s was not consulted", i, c.Elems[i].Proto, v.what(), fbDesc(i), best.Executed[i+1])
		}
		return "mismatch", "chain stopped earlier than any allowed behaviour"
	case bestK == len(ids) && len(ids) == len(best.Executed):
		i := len(ids) - 1
		okObs := o.Status == http.StatusOK
		switch {
		case best.Allow && !okObs:
			return fmt.Sprintf("valid-credentials-not-accepted:%s:%s", ty(i), views[i].what()), fmt.Sprintf("#%d %s must accept %s; status %d", i, c.Elems[i].Proto, views[i].what(), o.Status)
		case !best.Allow && okObs:
			return fmt.Sprintf("unexpected-acceptance:%s:%s", ty(i), views[i].what()), fmt.Sprintf("#%d %s accepted %s (subject %q)", i, c.Elems[i].Proto, views[i].what(), o.Sub)
		case best.Allow && o.Sub != best.Sub:
			return fmt.Sprintf("wrong-subject:%s", ty(i)), fmt.Sprintf("subject %q instead of %q", o.Sub, best.Sub)
		}
		return "trace-inconsistent", "status/subject/trace do not fit together"
	}
	return "order-mismatch", fmt.Sprintf("authenticators ran as %v, allowed %v", ids, best.Executed)
}

type stats struct {
	mu      sync.Mutex
	classes map[string]map[string]bool // authenticator type -> seen classes
}

func (s *stats) seen(t, class string) {
	s.mu.Lock()
	if s.classes[t] == nil {
		s.classes[t] = map[string]bool{}
	}
	s.classes[t][class] = true
	s.mu.Unlock()
}

func TestC04(t *testing.T) {
	r := core.Begin("C04", "exploration")
	r.Rule("All 258 type-level chains of length <=3 over {anonymous, unauthorized, basic_auth, jwt, generic, oauth2_introspection}, each with sampled variant assignments " +
		"(prototype with/without allow_fallback_on_error, default vs. explicitly configured credential sources, live vs. refusing endpoint, jwks/introspection endpoint " +
		"configured vs. discovered through a metadata_endpoint templated with the token issuer, jwks/introspection endpoint url or request header templated with the token issuer; " +
		"rule-level override unset/false/true; " +
		"rule-level user_id/password resp. subject per position), one rule per chain on its own route of one fx-assembled decision service (real MechanismFactory, real rule factory, " +
		"header finalizer echoing the subject) and of one fx-assembled Envoy ext_authz gRPC decision service with the same prototypes and rules; every request is presented to both " +
		"entry points (CheckRequest: lower-case header names, path/query in separate fields, body as text or bytes). Requests per chain from a credential catalogue (none; Authorization with a foreign scheme; per type valid / well-formed invalid / " +
		"endpoint failing (incl. issuers that make the templated endpoint url unusable) / malformed; correctly signed JWTs without iss / with an iss that is not a string, " +
		"reference tokens for issuer-templated endpoints; credentials of a foreign kind; two credentials at once; every configured " +
		"location header/query/cookie/body; one or several blanks between scheme and credentials; body credentials form or JSON encoded with Content-Type spellings: " +
		"parameters, parameter casing, malformed parameters, header sent twice, other casing of the media type; credential-free noise: an unparsable unrelated query parameter, " +
		"the credential cookie repeated empty, an unrelated malformed cookie pair before/after the credential cookies); remote systems (identity, introspection, JWKS, metadata endpoint) answering " +
		"presented credentials with the status codes 400, 401, 403, 404, 409, 422, 429, 500, 502, 503; credential values (valid and rejected ones, every kind) padded to just above 4 KiB, 8 KiB, " +
		"64 KiB in every location. Dimensions that are not credentials, for every location: the request method (GET, HEAD, DELETE, OPTIONS, PUT, PATCH, POST - bodies with every one of them; its own " +
		"method, or the method named by X-Forwarded-Method of a trusted proxy calling the decision service with GET/POST, the Envoy entry point gets it in the method attribute); the request path below the " +
		"route prefix of the rule (every rule also matches <prefix>/** with encoded slashes allowed): sub path, encoded slashes, encoded and raw non-ASCII, encoded '%' and '?', sub-delims, and - through the " +
		"Envoy entry point only, whose client sends every second target with the query inside the path attribute as Envoy does - a literal '%', broken and truncated escapes; characters inside reference " +
		"tokens, sessions and junk values (valid and rejected ones; the remote system knows exactly the minted byte string) that a decoder may refuse or rewrite: '%' at the end / before non-hex / truncated, " +
		"valid escapes, '+', '=', quotes (not in cookies). Correctly signed JWTs and introspection responses whose nbf / exp is a number far outside of every integer range (1e19, 2^63, 1E+25, " +
		"30 digits, the largest float64, 1e400, 1e999999; exp: their negatives): found, never valid. The credential query parameter sent twice (second occurrence empty, the same value, or - rejected " +
		"credentials - another rejected value of the same kind; right after the first or apart from it). Order-sensitive part, run first against the fresh instances: for a sub-pool of chains in which a rejection must end the authentication, the whole class catalogue " +
		"of every authenticator (every valid / rejected / endpoint-failing / malformed class, a status code, one value of every foreign kind) plus the random mix, sent one request at a time in " +
		"seeded random order, twice in two orders, judged by the same per-request model (what an instance was asked before must not matter). Oracle: documentation-based " +
		"3-way classification per authenticator + chain semantics of the statement; compared with status, echoed subject and the recorded sequence of executed authenticators. " +
		"A case is non-trivial when the model makes at least one fallback decision (an authenticator that does not accept is followed by another one).")
	r.Assume("a cookie pair that is not well-formed (RFC 6265) does not hide the well-formed pairs of the same Cookie header (net/http's Request.Cookie, which both entry points use, skips it)",
		"an issuer-templated introspection/JWKS endpoint exists for the issuer of the installation only; a bearer token that names no issuer was found and cannot be validated (never: no credentials)",
		"the Envoy client of the kit carries one value per header name: of a Content-Type sent twice the first line",
		"test JWKS/introspection/identity endpoints are loopback httptest servers answering as a function of the received credential",
		"a remote system answering presented credentials with a status code outside 2xx (whatever the code) did not validate them: found and not accepted, never 'no credentials'",
		"the statement knows no size limit for credentials; buffer_limit.read of the decision services is set to 256KB (documented option) so that a 64 KiB header, cookie or query value reaches the authenticators",
		"the introspection test server reports valid JWTs as active (it stands for the issuer of these tokens), everything unknown as inactive",
		"an HTTP answer 200 of the decision service = authenticated; any other status = authentication failed (401/5xx not distinguished by the statement)",
		"credential shapes the statement leaves open (undecodable/unstructured Basic value, non-JWT for jwt, blank value) are only required never to be accepted by that authenticator",
		"credentials present in a request count whatever its method is (GET, HEAD, DELETE, OPTIONS with a body included; neither the statement nor the documentation of the credential sources names a method) "+
			"and whatever the path matched by the rule looks like",
		"a credential value is an opaque byte string: header, cookie (RFC 6265 cookie-octets) and JSON values are taken as they are, query and form values are percent-encoded by the client; "+
			"the remote system accepts exactly the byte string that was issued",
		"a request whose query names the credential parameter more than once carries credentials of that kind: the first occurrence counts (a valid value repeated unchanged or empty is valid, "+
			"a rejected one followed by an empty, equal or another rejected value is rejected), it is never a request without credentials",
		"a token whose nbf lies beyond / whose exp lies below every representable date is not valid now, whatever number type an implementation uses: found and rejected",
		"a request target net/http refuses (broken percent escape in the path) cannot reach the HTTP decision service: such paths are presented to the Envoy entry point only",
		"parameters of a Content-Type (well-formed or not) and a repeated Content-Type line with the same media type do not make a form/JSON body unusable; "+
			"a media type written with upper case letters leaves open whether the body is usable (both readings allowed)")

	mt, err := newMinter()
	if err != nil {
		r.Inconclusive("cannot create keys: " + err.Error())
		r.End()
	}
	srv := newServers(mt.jwks())
	defer srv.close()

	chains := genChains(r.Stream("chains"), r.Thorough())
	nReq := r.Pick(12, 30)

	probes := app.NewProbes()
	a, err := app.New(app.Options{Service: app.SvcDecision, Probes: probes, Mutate: func(c *config.Configuration) { prototypes(c, srv.url()) }})
	if err != nil {
		r.Inconclusive("cannot assemble decision service: " + err.Error())
		r.End()
	}
	defer a.Stop()
	// the same prototypes and rules behind the second entry point
	eprobes := app.NewProbes()
	ea, err := app.New(app.Options{Service: app.SvcGRPC, Probes: eprobes, Mutate: func(c *config.Configuration) { prototypes(c, srv.url()) }})
	if err != nil {
		r.Inconclusive("cannot assemble envoy grpc decision service: " + err.Error())
		r.End()
	}
	defer ea.Stop()
	rs := &rconfig.RuleSet{Version: "1alpha4", Name: "c04", MetaData: rconfig.MetaData{Source: "c04", Hash: []byte("c04")}}
	for _, c := range chains {
		rs.Rules = append(rs.Rules, c.rule())
	}
	for _, x := range []*app.App{a, ea} {
		if err := x.Proc.OnCreated(rs); err != nil {
			r.Inconclusive("real rule factory rejected the generated rule set: " + err.Error())
			r.End()
		}
	}
	r.Set("chains", len(chains))
	r.Set("requests_per_chain_target", nReq)

	st := &stats{classes: map[string]map[string]bool{}}
	newClient := func() *http.Client {
		return &http.Client{Timeout: 30 * time.Second,
			CheckRedirect: func(*http.Request, []*http.Request) error { return http.ErrUseLastResponse },
			Transport:     &http.Transport{MaxIdleConnsPerHost: 4, DisableCompression: true, DialContext: (&net.Dialer{Timeout: 3 * time.Second}).DialContext}}
	}

	// order-sensitive part, first (the instances are fresh): the requests of a sub-pool of chains, one after the other in
	// seeded random order (twice, in two orders), to the same two instances
	func() {
		cl := newClient()
		defer cl.CloseIdleConnections()
		eps := []entry{{entryHTTP, func(w wire) observed { return send(cl, a, probes, w) }}}
		ev, err := app.NewEnvoy(ea.Addr())
		if err != nil {
			r.Inconclusive("cannot create envoy client: " + err.Error())
			return
		}
		defer ev.Close()
		eps = append(eps, entry{entryEnvoy, func(w wire) observed { return sendEnvoy(ev, eprobes, w) }})
		pool := sequencePool(r.Stream("sequence-pool"), chains, r.Pick(24, 150))
		r.Set("sequence_chains", len(pool))
		t0 := time.Now()
		runSequence(r, st, eps, mt, pool, 2)
		r.Set("sequence_wall_s", time.Since(t0).Seconds())
	}()

	typeChainsSeen := sync.Map{}
	var wg sync.WaitGroup
	ch := make(chan chain, 64)
	for w := 0; w < 8; w++ {
		wg.Add(1)
		go func() {
			defer wg.Done()
			cl := newClient()
			defer cl.CloseIdleConnections()
			eps := []entry{{entryHTTP, func(w wire) observed { return send(cl, a, probes, w) }}}
			if ev, err := app.NewEnvoy(ea.Addr()); err != nil {
				r.Inconclusive("cannot create envoy client: " + err.Error())
			} else {
				defer ev.Close()
				eps = append(eps, entry{entryEnvoy, func(w wire) observed { return sendEnvoy(ev, eprobes, w) }})
			}
			for c := range ch {
				typeChainsSeen.Store(c.typeKey(), true)
				g := &reqGen{rng: r.Stream("req|" + c.key()), m: mt}
				for _, lr := range g.requests(c, nReq) {
					runCase(r, st, eps, c, lr, nil)
				}
			}
		}()
	}
	for _, c := range chains {
		ch <- c
	}
	close(ch)
	wg.Wait()

	n := 0
	typeChainsSeen.Range(func(_, _ any) bool { n++; return true })
	r.Set("type_level_chains_covered", n)
	cls := map[string][]string{}
	for t, m := range st.classes {
		for c := range m {
			cls[heimdallType[t]] = append(cls[heimdallType[t]], c)
		}
		sort.Strings(cls[heimdallType[t]])
	}
	r.Set("credential_classes_seen_per_type", cls)
	r.Set("endpoint_calls", map[string]int64{"jwks": srv.calls.jwks.Load(), "introspection": srv.calls.introspect.Load(), "introspection_per_tenant": srv.calls.introspectTenant.Load(), "identity": srv.calls.identity.Load(), "metadata": srv.calls.metadata.Load()})

	answers := srv.statusAnswers()
	r.Set("endpoint_status_answers", answers)
	for _, code := range statusCodes {
		for _, sys := range []string{"identity", "introspection", "jwks"} {
			k := fmt.Sprintf("%s_%d", sys, code)
			r.Require("endpoint_answered_"+k, answers[k], 2)
		}
		k := fmt.Sprintf("remote_status_code_%d", code)
		r.Require(k, r.Counter(k), 10)
	}
	for sys, min := range map[string]int64{"identity": 50, "introspection": 50, "jwks": 50, "metadata": 8} {
		r.Require("remote_status_of_"+sys, r.Counter("remote_status_of_"+sys), min)
	}
	r.Require("remote_status_rejections_before_another_authenticator", r.Counter("remote_status_rejections_before_another_authenticator"), 100)
	for size := range sizes {
		for _, loc := range []string{"header", "cookie", "query", "body"} {
			k := "credential_size_" + size + "_in_" + loc
			r.Require(k, r.Counter(k), 5)
		}
		for _, v := range []string{"accept", "reject"} {
			k := "credential_size_" + size + "_" + v
			r.Require(k, r.Counter(k), 20)
		}
	}
	// method, path and characters of the value as dimensions of every credential location
	for _, v := range []string{"accept", "reject"} {
		min := map[string]int64{"accept": 1, "reject": 3}[v]
		r.Require("body_credentials_with_bodyless_method_"+v, r.Counter("body_credentials_with_bodyless_method_"+v), 8*min)
		r.Require("body_credentials_with_forwarded_bodyless_method_"+v, r.Counter("body_credentials_with_forwarded_bodyless_method_"+v), 2*min)
		r.Require("undecodable_path_credentials_in_query_"+v, r.Counter("undecodable_path_credentials_in_query_"+v), 6*min)
		for _, loc := range []string{"header", "cookie", "query", "body"} {
			k := "credential_chars_in_" + loc + "_" + v
			r.Require(k, r.Counter(k), 2*min)
		}
	}
	r.Count("envoy_requests_with_query_inside_path_attribute", int(app.EnvoyTargetsWithQueryInPath.Load()))
	r.Require("envoy_requests_with_query_inside_path_attribute", app.EnvoyTargetsWithQueryInPath.Load(), 200)
	r.Require("sequence_steps", r.Counter("sequence_steps"), 500)
	// which authenticator type meets which transition how often depends on the seed (a single cell may well stay at 1 or 2): the
	// evidence lists every cell, required are the totals per transition and per type
	perType := map[string]int64{}
	for _, tr := range []string{"none_then_reject", "reject_then_none", "reject_then_reject", "reject_then_accept", "accept_then_reject"} {
		var sum int64
		for _, t := range []string{"basic", "jwt", "intro", "gen"} {
			c := r.Counter("sequence_" + heimdallType[t] + "_" + tr)
			sum += c
			perType[t] += c
		}
		r.Require("sequence_any_type_"+tr, sum, 6)
	}
	for _, t := range []string{"basic", "jwt", "intro", "gen"} {
		r.Require("sequence_"+heimdallType[t]+"_transitions", perType[t], 6)
	}
	r.Require("sequence_jwt_ambiguous_then_reject", r.Counter("sequence_jwt_ambiguous_then_reject"), 3)

	total := r.Counter("answer_authenticated") + r.Counter("answer_failed")
	r.Count("requests_with_chunked_body", int(chunkedBodies.Load()))
	r.Count("requests_with_credential_free_noise", int(noisyRequests.Load()))
	r.Require("type_level_chains", int64(n), 258)
	r.Require("authenticated_answers", r.Counter("answer_authenticated"), total/10)
	r.Require("failed_answers", r.Counter("answer_failed"), total/10)
	r.Require("fallbacks_on_missing_credentials", r.Counter("model_fallback_on_missing_credentials"), 200)
	r.Require("fallbacks_by_opt_in", r.Counter("model_fallback_by_opt_in"), 50)
	r.Require("stops_on_rejection_although_later_would_accept", r.Counter("model_stop_on_rejection_with_later_acceptor"), 50)
	r.Require("stops_on_endpoint_failure", r.Counter("model_stop_on_endpoint_failure"), 30)
	r.Require("observed_multi_authenticator_runs", r.Counter("observed_runs_with_fallback"), 200)
	for _, v := range []string{"accept", "reject"} {
		r.Require("header_credentials_with_several_blanks_after_scheme_"+v, r.Counter("header_credentials_with_several_blanks_after_scheme_"+v), 30)
		r.Require("body_credentials_with_other_content_type_"+v, r.Counter("body_credentials_with_other_content_type_"+v), 30)
	}
	r.Require("metadata_discovery_issuer_breaks_url", r.Counter("metadata_discovery_issuer_breaks_url"), 20)
	r.Require("date_out_of_range_rejections_before_another_authenticator", r.Counter("date_out_of_range_rejections_before_another_authenticator"), 20)
	r.Require("query_parameter_repeated_rejections_before_another_authenticator", r.Counter("query_parameter_repeated_rejections_before_another_authenticator"), 20)
	r.Require("query_parameter_repeated_accept", r.Counter("query_parameter_repeated_accept"), 5)
	r.Require("requests_"+entryEnvoy, r.Counter("requests_"+entryEnvoy), r.Counter("requests_"+entryHTTP))
	for _, ep := range []string{entryHTTP, entryEnvoy} {
		for _, v := range []string{"accept", "reject"} {
			k := "cookie_credentials_beside_malformed_cookie_" + ep + "_" + v
			r.Require(k, r.Counter(k), 15)
		}
	}
	for _, k := range []string{"issuer_templated_endpoint_oauth2_introspection_token_without_issuer", "issuer_templated_endpoint_oauth2_introspection_token_with_issuer",
		"issuer_templated_endpoint_jwt_token_without_issuer", "issuer_templated_endpoint_jwt_token_with_issuer"} {
		r.Require(k, r.Counter(k), 10)
	}
	for _, t := range []string{"basic", "jwt", "intro", "gen"} {
		for _, v := range []string{"none", "accept", "reject"} {
			r.Require("oracle_"+heimdallType[t]+"_"+v, r.Counter("oracle_"+heimdallType[t]+"_"+v), 20)
		}
	}
	r.End()
}

// remoteSystem: the endpoint that answers with the status code a credential of class cls (kind k) names, when an
// authenticator of prototype p presents it ("" = it does not get that far, or asks somebody else).
func remoteSystem(p *protoDef, k, cls string) (string, int) {
	ep, code, ok := statusOf(cls)
	switch {
	case !ok || p.Down:
	case p.Type == "gen" && k == "sess" && ep == "http":
		return "identity", code
	case p.Type == "intro" && k == "opaque" && ep == "http" && p.Tpl == "":
		return "introspection", code
	case p.Type == "jwt" && k == "jwt" && ep == "jwkshttp":
		return "jwks", code
	case (p.Type == "jwt" || p.Type == "intro") && p.Meta && k == "jwt" && ep == "metahttp":
		return "metadata", code
	}
	return "", 0
}

// runCase sends one request to every entry point and compares the answers with the model. seq != nil: the request is a
// step of the serial sequence.
func runCase(r *core.Run, st *stats, eps []entry, c chain, lr lreq, seq *sequence) {
	w := lr.wire("/"+c.ID, false)
	views, outs := model(c, lr)
	o := eps[0].send(w)

	// bookkeeping over the model (first outcome = ambiguous steps read as "no credentials")
	prim := outs[0]
	nontrivial := false
	for i := range prim.Executed {
		v := views[i]
		p := c.Elems[i].proto()
		tn := heimdallType[p.Type]
		r.Count("oracle_"+tn+"_"+v.Verdict.String(), 1)
		if c.Elems[i].configurable() {
			st.seen(p.Type, v.Seen)
			if k, cls, ok := strings.Cut(v.Seen, "-"); ok && v.Seen != "other-scheme" {
				if k == nativeKind[p.Type] {
					r.Count("class_group_"+tn+"_"+classGroup(k, cls), 1)
				} else {
					r.Count("class_group_"+tn+"_foreign-kind", 1)
				}
			} else {
				r.Count("class_group_"+tn+"_"+v.Seen, 1)
			}
			if v.Slot != "" {
				loc := map[byte]string{'H': "header", 'C': "cookie", 'Q': "query", 'B': "body"}[v.Slot[0]]
				r.Count("location_"+tn+"_"+loc, 1)
				if v.Size != "" {
					r.Count("credential_size_"+v.Size+"_"+tn+"_"+v.Verdict.String(), 1)
					r.Count("credential_size_"+v.Size+"_"+v.Verdict.String(), 1)
					r.Count("credential_size_"+v.Size+"_in_"+loc, 1)
				}
				if it, _ := lr.at(v.Slot); v.Verdict == vReject {
					if sys, code := remoteSystem(p, it.Kind, it.Class); sys != "" {
						r.Count(fmt.Sprintf("remote_status_%s_%s_%d", tn, sys, code), 1)
						r.Count("remote_status_of_"+sys, 1)
						r.Count(fmt.Sprintf("remote_status_code_%d", code), 1)
						r.Count("remote_status_rejections", 1)
						if i < len(c.Elems)-1 && !c.Elems[i].fallbackAllowed() {
							r.Count("remote_status_rejections_before_another_authenticator", 1)
						}
					}
				}
				if it, _ := lr.at(v.Slot); it.Sep != "" {
					r.Count("header_credentials_with_several_blanks_after_scheme_"+v.Verdict.String(), 1)
				}
				if v.Repeat != "" {
					r.Count("query_parameter_repeated_"+v.Repeat+"_"+v.Verdict.String(), 1)
					r.Count("query_parameter_repeated_"+tn+"_"+v.Verdict.String(), 1)
					r.Count("query_parameter_repeated_"+v.Verdict.String(), 1)
					if v.Verdict == vReject && i < len(c.Elems)-1 && !c.Elems[i].fallbackAllowed() {
						r.Count("query_parameter_repeated_rejections_before_another_authenticator", 1)
					}
				}
				if strings.HasSuffix(v.Seen, "outofrange") && v.Verdict == vReject {
					r.Count("date_out_of_range_"+tn+"_"+v.Seen, 1)
					if i < len(c.Elems)-1 && !c.Elems[i].fallbackAllowed() {
						r.Count("date_out_of_range_rejections_before_another_authenticator", 1)
					}
				}
				// the dimensions that do not belong to the credentials: what the authenticator reading this location has to
				// decide for which method, below which path, with which characters in the value
				method := lr.effectiveMethod()
				if lr.Carrier != "" {
					method += "_forwarded"
				}
				r.Count("method_"+method+"_credentials_in_"+loc, 1)
				if loc == "body" && requestMethodUsuallyLacksBody(lr.effectiveMethod()) {
					r.Count("body_credentials_with_bodyless_method_"+v.Verdict.String(), 1)
					if lr.Carrier != "" {
						r.Count("body_credentials_with_forwarded_bodyless_method_"+v.Verdict.String(), 1)
					}
				}
				if lr.Path != "" {
					r.Count("path_"+lr.Path+"_credentials_in_"+loc, 1)
					if pathVariantByName(lr.Path).EnvoyOnly {
						r.Count("undecodable_path_credentials_in_"+loc+"_"+v.Verdict.String(), 1)
					}
				}
				if v.Chars != "" {
					r.Count("credential_chars_"+v.Chars+"_in_"+loc, 1)
					r.Count("credential_chars_in_"+loc+"_"+v.Verdict.String(), 1)
					r.Count("credential_chars_"+tn+"_"+v.Verdict.String(), 1)
				}
				if v.Slot[0] == 'B' && (lr.CT != "" || lr.BodyEnc != "") {
					r.Count("body_credentials_with_other_content_type_"+v.Verdict.String(), 1)
				}
			}
			if p.Meta {
				r.Count("metadata_discovery_"+tn+"_"+v.Verdict.String(), 1)
				if v.Seen == "jwt-issbreaksurl" {
					r.Count("metadata_discovery_issuer_breaks_url", 1)
				}
			}
		}
		if v.Verdict != vAccept && i < len(c.Elems)-1 {
			nontrivial = true
		}
		if seq != nil {
			// what an authenticator of this type is asked to judge right after what (first reading of open shapes)
			if prev := seq.last[tn]; prev != "" {
				r.Count("sequence_"+tn+"_"+prev+"_then_"+v.Verdict.String(), 1)
			}
			seq.last[tn] = v.Verdict.String()
		}
		cont := i < len(prim.Executed)-1
		switch {
		case v.Verdict == vNone && cont:
			r.Count("model_fallback_on_missing_credentials", 1)
		case v.Verdict == vReject && cont:
			r.Count("model_fallback_by_opt_in", 1)
		case v.Verdict == vReject && !cont && i < len(c.Elems)-1:
			later := false
			for j := i + 1; j < len(c.Elems); j++ {
				if classify(c.Elems[j], lr).Verdict == vAccept {
					later = true
				}
			}
			if later {
				r.Count("model_stop_on_rejection_with_later_acceptor", 1)
			}
			if k, cls, ok := strings.Cut(v.Seen, "-"); ok && (p.Down || k == nativeKind[p.Type] && classGroup(k, cls) == "endpoint-failing") {
				r.Count("model_stop_on_endpoint_failure", 1)
			}
		}
	}
	if len(outs) > 1 {
		r.Count("cases_with_open_classification", 1)
	}
	r.Count("recipe_"+lr.Recipe, 1)
	if seq != nil {
		r.Count("sequence_steps", 1)
		defer seq.done(c, lr)
	}
	if lr.hasBodyItems() {
		ct := lr.CT
		if ct == "" {
			ct = "plain"
		}
		r.Count("body_content_type_spelling_"+ct, 1)
		r.Count("body_media_type_"+mediaTypes[lr.BodyEnc], 1)
		if ctByName(lr.CT).Open {
			// which reading heimdall follows where the statement leaves the usability of the body open
			_, used := modelOf(c, lr)
			_, unused := modelOf(c, lr.withoutBody())
			switch a, b := matchesAny(o, used), matchesAny(o, unused); {
			case a && !b:
				r.Count("open_content_type_body_used", 1)
			case b && !a:
				r.Count("open_content_type_body_not_used", 1)
			}
		}
	}
	r.Count(fmt.Sprintf("chain_length_%d", len(c.Elems)), 1)
	for _, n := range w.Noise {
		r.Count("noise_"+n, 1)
	}
	if len(o.Trace) > 1 {
		r.Count("observed_runs_with_fallback", 1)
	}
	// what a cookie credential accompanied by a malformed sibling pair is for the authenticator reading it
	cookieBesideMalformed := func(ep string) {
		if len(w.Noise) == 0 || w.Noise[0] != "malformed-sibling-cookie" {
			return
		}
		for i := range prim.Executed {
			if v := views[i]; v.Slot != "" && v.Slot[0] == 'C' {
				r.Count("cookie_credentials_beside_malformed_cookie_"+ep+"_"+v.Verdict.String(), 1)
			}
		}
	}
	for i := range prim.Executed {
		if p := c.Elems[i].proto(); p.Tpl != "" {
			k, _, _ := strings.Cut(views[i].Seen, "-")
			if views[i].Seen == "jwt-noiss" || views[i].Seen == "jwt-issnotstring" || k == "opaque" || k == "sess" || k == "junk" {
				r.Count("issuer_templated_endpoint_"+heimdallType[p.Type]+"_token_without_issuer", 1)
			} else if k == "jwt" {
				r.Count("issuer_templated_endpoint_"+heimdallType[p.Type]+"_token_with_issuer", 1)
			}
		}
	}
	r.Sample(map[string]any{"chain": c.key(), "request": lr.shapeKey(), "allowed": outs, "observed": o})

	var atHTTP *observed
	for n, ep := range eps {
		if n > 0 {
			w = lr.wire("/"+c.ID, ep.Name == entryEnvoy)
			o = ep.send(w)
		}
		if lr.Path != "" {
			r.Count("path_"+lr.Path+"_"+ep.Name, 1)
		}
		if o.Status == http.StatusOK {
			r.Count("answer_authenticated", 1)
		} else {
			r.Count("answer_failed", 1)
			r.Count(fmt.Sprintf("status_%d", o.Status), 1)
		}
		r.Count("requests_"+ep.Name, 1)
		cookieBesideMalformed(ep.Name)
		r.Case(ep.Name+"|"+c.key()+"|"+lr.shapeKey(), nontrivial)

		ok := matchesAny(o, outs)
		if ep.Name == entryHTTP {
			x := o
			atHTTP = &x
		} else if ok == matchesAny(*atHTTP, outs) && o.Status == http.StatusOK == (atHTTP.Status == http.StatusOK) && o.Sub == atHTTP.Sub {
			r.Count("entry_points_agree", 1)
		}
		if ok {
			continue
		}
		sig, what := signature(c, views, outs, o)
		if sig == "transport-error" {
			r.Count("transport_errors", 1)
			if r.Counter("transport_errors") > 5 {
				r.Inconclusive(ep.Name + " did not answer: " + o.Transport)
			}
			continue
		}
		cs := c04Case{Rule: c.ID, Request: lr, Wire: w, Views: views, Allowed: outs, Entry: ep.Name, Observed: o}
		for _, e := range c.Elems {
			cs.Chain = append(cs.Chain, elemView{e, heimdallType[e.proto().Type], e.fallbackAllowed(), e.proto().FB, e.proto().Down})
		}
		if ep.Name != entryHTTP {
			cs.OtherEntry = atHTTP
			if matchesAny(*atHTTP, outs) {
				sig += ":" + ep.Name + "-only" // the HTTP decision service behaves as the statement says for this request
			}
		}
		where := ep.Name
		if seq != nil {
			cs.Sequence = seq.view()
			where = fmt.Sprintf("%s, step %d of the serial request sequence", ep.Name, seq.step)
		}
		r.Violation(sig, fmt.Sprintf("%s: chain %s, request %s%s: %s (status %d, subject %q, ran %v)", where, c.key(), lr.shapeKey(), noiseNote(w), what, o.Status, o.Sub, o.ids()), cs)
	}
}

// sequencePool: n chains in which the order of the authenticators matters most: a configurable authenticator without
// fallback on error is followed by another authenticator.
func sequencePool(rng *rand.Rand, chains []chain, n int) []chain {
	var cand []chain
	for _, c := range chains {
		for i, e := range c.Elems {
			if i < len(c.Elems)-1 && e.configurable() && !e.fallbackAllowed() {
				cand = append(cand, c)
				break
			}
		}
	}
	rng.Shuffle(len(cand), func(i, j int) { cand[i], cand[j] = cand[j], cand[i] })
	if len(cand) > n {
		cand = cand[:n]
	}
	return cand
}

// runSequence sends the requests of the chains one at a time, interleaved in seeded random order (passes times, each in
// an order of its own). Every answer is judged by the per-request model: what an instance was asked before must not matter.
func runSequence(r *core.Run, st *stats, eps []entry, mt *minter, chains []chain, passes int) {
	type step struct {
		c  chain
		lr lreq
	}
	var steps []step
	for _, c := range chains {
		g := &reqGen{rng: r.Stream("sequence|" + c.key()), m: mt}
		for _, lr := range append(g.hostile(c), g.requests(c, 8)...) {
			steps = append(steps, step{c, lr})
		}
	}
	rng := r.Stream("sequence-order")
	seq := &sequence{last: map[string]string{}}
	for p := 0; p < passes; p++ {
		rng.Shuffle(len(steps), func(i, j int) { steps[i], steps[j] = steps[j], steps[i] })
		for _, s := range steps {
			runCase(r, st, eps, s.c, s.lr, seq)
		}
	}
}

// requestMethodUsuallyLacksBody: the methods for which a body is unusual (not forbidden).
func requestMethodUsuallyLacksBody(m string) bool {
	return m == "GET" || m == "HEAD" || m == "DELETE" || m == "OPTIONS"
}

func noiseNote(w wire) string {
	if len(w.Noise) == 0 {
		return ""
	}
	return " + " + strings.Join(w.Noise, ", ")
}
