package c04

import (
	"encoding/json"
	"io"
	"net/http"
	"net/http/httptest"
	"net/url"
	"strconv"
	"strings"
	"sync"
	"sync/atomic"
)

// servers: one loopback server with the JWKS, introspection and identity-info endpoints. Every
// answer is a function of the received request (and the static credential registry) only.
type servers struct {
	srv   *httptest.Server
	jwks  []byte
	calls struct{ jwks, introspect, introspectTenant, identity, metadata atomic.Int64 }
	// answered: "<endpoint>_<status>" -> how often the endpoint answered presented credentials with that status class
	mu       sync.Mutex
	answered map[string]int64
}

// status answers with the status code the credential (or the tenant it names) asks for: a small JSON error document,
// as identity providers send them.
func (s *servers) status(w http.ResponseWriter, endpoint string, code int) {
	s.mu.Lock()
	if s.answered == nil {
		s.answered = map[string]int64{}
	}
	s.answered[endpoint+"_"+strconv.Itoa(code)]++
	s.mu.Unlock()
	writeJSON(w, code, map[string]any{"error": http.StatusText(code)})
}

func (s *servers) statusAnswers() map[string]int64 {
	s.mu.Lock()
	defer s.mu.Unlock()
	out := map[string]int64{}
	for k, v := range s.answered {
		out[k] = v
	}
	return out
}

// statusTenant: the status code a tenant (issuer) name with the given prefix carries.
func statusTenant(tenant, prefix string) (int, bool) {
	rest, ok := strings.CutPrefix(tenant, prefix)
	if !ok {
		return 0, false
	}
	n, err := strconv.Atoi(rest)
	return n, err == nil && n >= 300 && n <= 599
}

const farFuture = 4102444800 // 2100-01-01
const longAgo = 978307200    // 2001-01-01

func newServers(jwks []byte) *servers {
	s := &servers{jwks: jwks}
	mux := http.NewServeMux()
	mux.HandleFunc("/jwks/", s.handleJWKS)
	mux.HandleFunc("/meta/", s.handleMetadata)
	mux.HandleFunc("/jwks", s.handleJWKS)
	mux.HandleFunc("/introspect", s.handleIntrospect)
	mux.HandleFunc("/introspect/", s.handleIntrospect)
	mux.HandleFunc("/identity", s.handleIdentity)
	s.srv = httptest.NewServer(mux)
	return s
}

func (s *servers) url() string { return s.srv.URL }
func (s *servers) close()      { s.srv.Close() }

func drop(w http.ResponseWriter) {
	if hj, ok := w.(http.Hijacker); ok {
		if c, _, err := hj.Hijack(); err == nil {
			_ = c.Close()
			return
		}
	}
	w.WriteHeader(http.StatusInternalServerError)
}

func writeJSON(w http.ResponseWriter, status int, v any) {
	w.Header().Set("Content-Type", "application/json")
	w.WriteHeader(status)
	_ = json.NewEncoder(w).Encode(v)
}

func garbage(w http.ResponseWriter) {
	w.Header().Set("Content-Type", "application/json")
	w.WriteHeader(http.StatusOK)
	_, _ = w.Write([]byte("<<< this is not json >>>"))
}

func (s *servers) handleJWKS(w http.ResponseWriter, r *http.Request) {
	s.calls.jwks.Add(1)
	// the tenant (issuer) is named by the path or, for /jwks, by the X-Tenant header
	tenant := strings.TrimPrefix(r.URL.Path, "/jwks/")
	if r.URL.Path == "/jwks" {
		tenant = r.Header.Get("X-Tenant")
	}
	if code, ok := statusTenant(tenant, issJWKSStatus); ok {
		s.status(w, "jwks", code)
		return
	}
	switch tenant {
	case iss500:
		w.WriteHeader(http.StatusInternalServerError)
	case issGarbage:
		garbage(w)
	case issDrop:
		drop(w)
	default:
		w.Header().Set("Content-Type", "application/json")
		_, _ = w.Write(s.jwks)
	}
}

// handleMetadata: OAuth2 authorization server metadata per issuer (tenant): /meta/<issuer>/.well-known/openid-configuration.
// Only the issuers this installation knows have a document; the endpoints named there are the ones above.
func (s *servers) handleMetadata(w http.ResponseWriter, r *http.Request) {
	s.calls.metadata.Add(1)
	iss, ok := strings.CutSuffix(strings.TrimPrefix(r.URL.Path, "/meta/"), "/.well-known/openid-configuration")
	code, metaFailing := statusTenant(iss, issMetaStatus)
	_, jwksFailing := statusTenant(iss, issJWKSStatus)
	switch {
	case !ok:
		w.WriteHeader(http.StatusNotFound)
	case metaFailing:
		s.status(w, "metadata", code)
	case jwksFailing: // the tenant exists; it is its JWKS endpoint that does not deliver
		writeJSON(w, 200, map[string]any{"issuer": iss, "jwks_uri": s.srv.URL + "/jwks/" + iss, "introspection_endpoint": s.srv.URL + "/introspect"})
	case iss == issMeta500:
		w.WriteHeader(http.StatusInternalServerError)
	case iss == issOK || iss == iss500 || iss == issGarbage || iss == issDrop:
		writeJSON(w, 200, map[string]any{"issuer": iss, "jwks_uri": s.srv.URL + "/jwks/" + iss, "introspection_endpoint": s.srv.URL + "/introspect"})
	default:
		w.WriteHeader(http.StatusNotFound)
	}
}

// failing handles the endpoint-failure classes shared by introspection and identity endpoints.
func failing(w http.ResponseWriter, class string) bool {
	switch class {
	case "e500":
		w.WriteHeader(http.StatusInternalServerError)
	case "garbage":
		garbage(w)
	case "drop":
		drop(w)
	default:
		return false
	}
	return true
}

func (s *servers) handleIntrospect(w http.ResponseWriter, r *http.Request) {
	s.calls.introspect.Add(1)
	// one introspection endpoint per tenant, named by the path (/introspect/<issuer>) or by the X-Tenant header: only
	// the issuer of the installation has one
	tenant, named := strings.CutPrefix(r.URL.Path, "/introspect/")
	if h, ok := r.Header["X-Tenant"]; ok && !named {
		tenant, named = strings.Join(h, ","), true
	}
	if named {
		s.calls.introspectTenant.Add(1)
		if tenant != issOK {
			w.WriteHeader(http.StatusNotFound)
			return
		}
	}
	body, _ := io.ReadAll(r.Body)
	form, _ := url.ParseQuery(string(body))
	tok := form.Get("token")
	info, ok := lookup(tok)
	inactive := map[string]any{"active": false}
	if !ok {
		writeJSON(w, 200, inactive)
		return
	}
	switch info.Kind {
	case "opaque":
		if failing(w, info.Class) {
			return
		}
		if _, code, ok := statusOf(info.Class); ok {
			s.status(w, "introspection", code)
			return
		}
		resp := map[string]any{"active": true, "sub": info.Sub, "iss": issOK, "aud": []string{audOK}, "exp": farFuture, "token_type": "Bearer"}
		switch info.Class {
		case "valid":
		case "inactive":
			resp = inactive
		case "expired":
			resp["exp"] = longAgo
		case "wrongiss":
			resp["iss"] = issEvil
		case "wrongaud":
			resp["aud"] = []string{"aud-other"}
		case "nosub":
			delete(resp, "sub")
		case "nbfoutofrange":
			resp["nbf"] = extremeDate(false, saltOf(tok))
		case "expoutofrange":
			resp["exp"] = extremeDate(true, saltOf(tok))
		default:
			resp = inactive
		}
		writeJSON(w, 200, resp)
	case "jwt":
		// an authorization server knows the tokens it issued: valid JWTs are active, all others are not
		if info.Class == "valid" || info.Class == "validnokid" {
			writeJSON(w, 200, map[string]any{"active": true, "sub": info.Sub, "iss": issOK, "aud": []string{audOK}, "exp": farFuture})
			return
		}
		writeJSON(w, 200, inactive)
	default:
		writeJSON(w, 200, inactive)
	}
}

func (s *servers) handleIdentity(w http.ResponseWriter, r *http.Request) {
	s.calls.identity.Add(1)
	body, _ := io.ReadAll(r.Body)
	var in struct {
		Tok string `json:"tok"`
	}
	_ = json.Unmarshal(body, &in)
	info, ok := lookup(in.Tok)
	if !ok || info.Kind != "sess" {
		writeJSON(w, http.StatusUnauthorized, map[string]any{"error": "unknown session"})
		return
	}
	if failing(w, info.Class) {
		return
	}
	if _, code, ok := statusOf(info.Class); ok {
		s.status(w, "identity", code)
		return
	}
	resp := map[string]any{"id": info.Sub, "active": true, "expires_at": farFuture}
	switch info.Class {
	case "valid":
	case "denied":
		writeJSON(w, http.StatusUnauthorized, map[string]any{"error": "denied"})
		return
	case "inactive":
		resp["active"] = false
	case "expired":
		resp["expires_at"] = longAgo
	case "nosub":
		delete(resp, "id")
	default:
		writeJSON(w, http.StatusUnauthorized, map[string]any{"error": "denied"})
		return
	}
	writeJSON(w, 200, resp)
}
