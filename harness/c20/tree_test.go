package c20

import (
	"encoding/json"
	"fmt"
	"regexp"
	"sort"
	"strconv"
	"strings"

	"gopkg.in/yaml.v3"
)

// A generated configuration is a tree of map[string]any, []any and *sc (scalar leaves).

// sc is one scalar leaf of a generated configuration.
type sc struct {
	V     any  // the value the configuration is meant to have: string | int | bool
	Alt   any  // a different value of the same type (used as the losing side of a conflict); == V if Fixed
	Req   bool // the file schema requires this leaf whenever its parent exists
	Fixed bool // discriminator (type, strategy ...): a conflicting value would describe another configuration
	Discr bool // the `type` of a mechanism or of the cache: the leaf that tells the definitions of the schema apart
}

type seg struct {
	K   string
	I   int
	Idx bool
}

type leaf struct {
	Path []seg
	S    *sc
}

func pathString(p []seg) string {
	parts := make([]string, len(p))
	for i, s := range p {
		if s.Idx {
			parts[i] = strconv.Itoa(s.I)
		} else {
			parts[i] = s.K
		}
	}
	return strings.Join(parts, ".")
}

// flatten lists the scalar leaves of a tree in a deterministic order.
func flatten(n any) []leaf {
	var out []leaf
	var walk func(n any, p []seg)
	walk = func(n any, p []seg) {
		switch t := n.(type) {
		case map[string]any:
			keys := make([]string, 0, len(t))
			for k := range t {
				keys = append(keys, k)
			}
			sort.Strings(keys)
			for _, k := range keys {
				walk(t[k], append(append([]seg{}, p...), seg{K: k}))
			}
		case []any:
			for i, e := range t {
				walk(e, append(append([]seg{}, p...), seg{I: i, Idx: true}))
			}
		case *sc:
			out = append(out, leaf{Path: p, S: t})
		default:
			panic(fmt.Sprintf("c20 generator: unexpected node %T at %s", n, pathString(p)))
		}
	}
	walk(n, nil)
	return out
}

// assignment of one leaf in a load
type placed struct {
	Path []seg
	Val  any
}

// build reconstructs a plain tree (map[string]any / []any / scalars) from placed leaves. Lists are
// dense up to the highest index present; a missing element becomes an empty mapping (the callers
// make sure that this happens for lists of mappings only).
func build(ls []placed) map[string]any {
	root := map[string]any{}
	for _, l := range ls {
		var cur any = root
		var setParent func(v any)
		for i, s := range l.Path {
			last := i == len(l.Path)-1
			var next any
			if !last {
				if l.Path[i+1].Idx {
					next = []any{}
				} else {
					next = map[string]any{}
				}
			}
			if !s.Idx {
				m := cur.(map[string]any)
				if last {
					m[s.K] = l.Val
					break
				}
				if m[s.K] == nil {
					m[s.K] = next
				}
				k := s.K
				setParent = func(v any) { m[k] = v }
				cur = m[s.K]
			} else {
				sl := cur.([]any)
				for len(sl) <= s.I {
					sl = append(sl, nil)
				}
				setParent(sl)
				if last {
					sl[s.I] = l.Val
					break
				}
				if sl[s.I] == nil {
					sl[s.I] = next
				}
				idx := s.I
				setParent = func(v any) { sl[idx] = v }
				cur = sl[s.I]
			}
		}
	}
	fillHoles(root)
	return root
}

func fillHoles(n any) {
	switch t := n.(type) {
	case map[string]any:
		for _, v := range t {
			fillHoles(v)
		}
	case []any:
		for i, v := range t {
			if v == nil {
				t[i] = map[string]any{}
			} else {
				fillHoles(v)
			}
		}
	}
}

func toYAML(tree map[string]any) string {
	if len(tree) == 0 {
		return ""
	}
	b, err := yaml.Marshal(tree)
	if err != nil {
		panic(err)
	}
	return string(b)
}

// ---------------------------------------------------------------------------------------------
// environment naming rules as documented in docs/content/docs/operations/configuration.adoc:
// prefix, `_` separates hierarchy levels, `__` is a literal underscore, list elements are
// addressed by their index.

func envName(p []seg) string {
	parts := make([]string, len(p))
	for i, s := range p {
		if s.Idx {
			parts[i] = strconv.Itoa(s.I)
		} else {
			parts[i] = strings.ToUpper(strings.ReplaceAll(s.K, "_", "__"))
		}
	}
	return envPrefix + strings.Join(parts, "_")
}

var plainSafe = regexp.MustCompile(`^[A-Za-z/][A-Za-z0-9_./:@=+-]*$`)

var yamlWords = map[string]bool{
	"true": true, "false": true, "null": true, "yes": true, "no": true, "on": true, "off": true, "y": true, "n": true,
	"nan": true, "inf": true,
}

// envValue renders a scalar as the text of a YAML scalar with the same value and type: the loader
// hands environment values to a YAML parser to find their type, exactly as it does with the file.
func envValue(v any, forceQuote bool) string {
	switch t := v.(type) {
	case int:
		return strconv.Itoa(t)
	case bool:
		return strconv.FormatBool(t)
	case string:
		if !forceQuote && plainSafe.MatchString(t) && !yamlWords[strings.ToLower(t)] && !strings.Contains(t, ": ") && !strings.HasSuffix(t, ":") {
			return t
		}
		b, _ := json.Marshal(t)
		s := string(b)
		// json escapes <, >, & as < ...: valid in YAML double quoted scalars as well
		return s
	}
	panic(fmt.Sprintf("c20: unsupported scalar %T", v))
}

// listPrefix returns the path up to (excluding) the first index segment, "" if the path has no
// index. Environment variables with equal non-empty listPrefix address the same list.
func listPrefix(p []seg) (string, int) {
	for i, s := range p {
		if s.Idx {
			return pathString(p[:i]), i
		}
	}
	return "", 0
}

// sectionVars renders a configuration as one environment variable per top-level key whose value is
// the whole section as JSON. The loader types environment values with a YAML parser, so a flow
// mapping/sequence becomes a sub-tree. This form is not part of the documented naming rules; it is a
// way through the real loader that involves neither the file schema nor list reconstruction.
func sectionVars(tree map[string]any) []envLeaf {
	keys := make([]string, 0, len(tree))
	for k := range tree {
		keys = append(keys, k)
	}
	sort.Strings(keys)
	var out []envLeaf
	for _, k := range keys {
		var val string
		switch t := tree[k].(type) {
		case map[string]any, []any:
			b, err := json.Marshal(t)
			if err != nil {
				panic(err)
			}
			val = string(b)
		default:
			val = envValue(t, false)
		}
		p := []seg{{K: k}}
		out = append(out, envLeaf{p, envVar{envName(p), val}})
	}
	return out
}
