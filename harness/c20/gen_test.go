package c20

import (
	"fmt"
	"math/rand/v2"
)

// Grammar of the documented static configuration (docs/content/docs/configuration/reference.adoc,
// schema/config.schema.json, internal/config/*.go and the mechanisms' config structs). Only options
// which both the file schema and the loader know are produced here; the spellings on which the two
// disagree are the subject of the equivalence table (table_test.go).

type gen struct {
	r     *rand.Rand
	w     *world
	nid   int
	light bool // "list-light": every list has exactly one scalar leaf, no mechanisms
}

func (g *gen) p(prob float64) bool { return g.r.Float64() < prob }

func pick[T any](g *gen, xs ...T) T { return xs[g.r.IntN(len(xs))] }

func (g *gen) two(pool []string) (string, string) {
	i := g.r.IntN(len(pool))
	j := g.r.IntN(len(pool) - 1)
	if j >= i {
		j++
	}
	return pool[i], pool[j]
}

func (g *gen) str(pool ...string) *sc     { a, b := g.two(pool); return &sc{V: a, Alt: b} }
func (g *gen) req(s *sc) *sc             { s.Req = true; return s }
func fixed(v any) *sc                    { return &sc{V: v, Alt: v, Fixed: true, Req: true} }
func (g *gen) boolean() *sc              { v := g.p(0.5); return &sc{V: v, Alt: !v} }
func (g *gen) integer(lo, hi int) *sc    { v := lo + g.r.IntN(hi-lo); return &sc{V: v, Alt: v + 1 + g.r.IntN(7)} }
func (g *gen) enum(vals ...string) *sc   { return g.str(vals...) }
func (g *gen) dur() *sc                  { return g.str("1s", "2s", "7s", "30s", "2m", "5m", "1h", "250ms", "11s") }
func (g *gen) size() *sc                 { return g.str("1KB", "4KB", "10KB", "16KB", "1MB", "512B") }
func (g *gen) word() *sc                 { return g.str(words...) }
func (g *gen) id(kind string) string     { g.nid++; return fmt.Sprintf("%s_%d", kind, g.nid) }

// discr is the `type` leaf of a mechanism or of the cache: it tells the definitions of the schema apart. Req says
// whether the schema requires it in the file (schemaRequiresType; calibrated on the unchanged tree, see discr_test.go).
func discr(kind, typ string) *sc {
	return &sc{V: typ, Alt: typ, Fixed: true, Req: schemaRequiresType(kind, typ), Discr: true}
}

func (g *gen) url() *sc {
	return g.str("http://foo.bar/a", "https://idp.example.com/oauth2/introspect", "http://127.0.0.1:4433/sessions/whoami",
		"http://hydra:4445/x", "https://example.org/.well-known/jwks.json", "http://my-authz/check")
}

var words = []string{"foo", "bar", "baz", "zab", "alpha", "beta", "x-y", "my_value", "Some Value", "v1.2", "a:b", "with space",
	"Authorization", "X-Api-Key", "true-ish", "007x", "étoile", "semi;colon", "hash#tag"}

var tricky = []string{"12", "true", "null", "1e3", "0x1f", "~", "- dash", "{{ .Subject.ID }}", "a: b", "[x]", "yes", "'q'", "#c", "*star", "10.5"}

var celExprs = []string{`true`, `Request.Method == "GET"`, `Subject.ID != "anonymous"`, `"admin" in Subject.Attributes.groups`,
	`Request.URL.Path.startsWith("/api")`, `1 < 2`}

var errCelExprs = []string{`true`, `type(Error) == authentication_error`, `type(Error) == authorization_error && Request.Method == "GET"`,
	`Error.Source == "foo"`}

var templates = []string{`{{ .Subject.ID }}`, `plain-text`, `{ "sub": {{ quote .Subject.ID }} }`, `https://foo.bar/{{ .Subject.ID }}`,
	`{{ .Request.Method }} x`, `a=b&c=d`}

var keyPool = []string{"x-a", "x-b", "foo", "bar_baz", "some-key", "k1", "accept-language", "x_user"}

// strList: a list of distinct strings (schema: uniqueItems in places)
func (g *gen) strList(min, max int, pool ...string) []any {
	n := min
	if max > min {
		n += g.r.IntN(max - min + 1)
	}
	if g.light {
		n = 1
	}
	perm := g.r.Perm(len(pool))
	var out []any
	for i := 0; i < n && i < len(pool); i++ {
		// the conflicting value comes from a disjoint part of the pool (lists with uniqueItems stay valid)
		s := &sc{V: pool[perm[i]], Alt: pool[perm[i]], Fixed: true}
		if n+i < len(pool) {
			s.Alt, s.Fixed = pool[perm[n+i]], false
		}
		out = append(out, s)
	}
	return out
}

func (g *gen) strMap(min, max int, vals []string) map[string]any {
	n := min + g.r.IntN(max-min+1)
	perm := g.r.Perm(len(keyPool))
	m := map[string]any{}
	for i := 0; i < n; i++ {
		a, b := g.two(vals)
		m[keyPool[perm[i]]] = &sc{V: a, Alt: b, Req: i == 0}
	}
	return m
}

// ---- serve ----

func (g *gen) tls() map[string]any {
	m := map[string]any{"key_store": map[string]any{"path": g.req(g.str(g.w.pemKey, "/path/to/keystore.pem", "/opt/ks.pem"))}}
	if g.p(0.4) {
		m["key_store"].(map[string]any)["password"] = g.str("VerySecure!", "secret", "pw")
	}
	if g.p(0.4) {
		m["key_id"] = g.word()
	}
	if g.p(0.5) {
		m["min_version"] = g.enum("TLS1.2", "TLS1.3")
	}
	if g.p(0.5) {
		m["cipher_suites"] = g.strList(1, 3, "TLS_ECDHE_RSA_WITH_AES_256_GCM_SHA384", "TLS_ECDHE_ECDSA_WITH_AES_256_GCM_SHA384",
			"TLS_ECDHE_RSA_WITH_CHACHA20_POLY1305_SHA256", "TLS_ECDHE_ECDSA_WITH_CHACHA20_POLY1305_SHA256", "TLS_ECDHE_RSA_WITH_AES_128_GCM_SHA256")
	}
	return m
}

func (g *gen) cors() map[string]any {
	m := map[string]any{}
	if g.p(0.7) {
		m["allowed_origins"] = g.strList(1, 3, "example.org", "https://foo.bar", "*.example.com", "localhost")
	}
	if g.p(0.6) {
		m["allowed_methods"] = g.strList(1, 3, "GET", "POST", "PUT", "DELETE", "PATCH", "HEAD")
	}
	if g.p(0.5) {
		m["allowed_headers"] = g.strList(1, 2, "Authorization", "Content-Type", "X-Foo")
	}
	if g.p(0.4) {
		m["exposed_headers"] = g.strList(1, 2, "X-My-Header", "X-Other", "ETag")
	}
	if g.p(0.5) {
		m["allow_credentials"] = g.boolean()
	}
	if g.p(0.5) || len(m) == 0 {
		m["max_age"] = g.dur()
	}
	return m
}

func (g *gen) respond() map[string]any {
	m := map[string]any{}
	if g.p(0.6) {
		m["verbose"] = g.boolean()
	}
	with := map[string]any{}
	for _, k := range []string{"accepted", "authentication_error", "authorization_error", "communication_error", "internal_error", "no_rule_error"} {
		if g.p(0.3) {
			with[k] = map[string]any{"code": g.integer(200, 599)}
		}
	}
	if len(with) > 0 || len(m) == 0 {
		if len(with) == 0 {
			with["authentication_error"] = map[string]any{"code": g.integer(400, 499)}
		}
		m["with"] = with
	}
	return m
}

func (g *gen) service(name string) map[string]any {
	m := map[string]any{}
	if g.p(0.5) {
		m["host"] = g.str("127.0.0.1", "localhost", "0.0.0.0", "::1")
	}
	if g.p(0.6) {
		m["port"] = g.integer(1024, 60000)
	}
	if g.p(0.5) {
		t := map[string]any{}
		for _, k := range []string{"read", "write", "idle"} {
			if g.p(0.6) {
				t[k] = g.dur()
			}
		}
		if len(t) > 0 {
			m["timeout"] = t
		}
	}
	if g.p(0.4) {
		b := map[string]any{}
		for _, k := range []string{"read", "write"} {
			if g.p(0.7) {
				b[k] = g.size()
			}
		}
		if len(b) > 0 {
			m["buffer_limit"] = b
		}
	}
	if name == "proxy" && g.p(0.4) {
		c := map[string]any{}
		for _, k := range []string{"max_per_host", "max_idle", "max_idle_per_host"} {
			if g.p(0.6) {
				c[k] = g.integer(1, 500)
			}
		}
		if len(c) > 0 {
			m["connections_limit"] = c
		}
	}
	if name != "decision" && g.p(0.35) {
		m["cors"] = g.cors()
	}
	if g.p(0.3) {
		m["tls"] = g.tls()
	}
	if g.p(0.5) {
		m["trusted_proxies"] = g.strList(1, 3, "192.168.1.0/24", "10.0.0.1", "172.16.0.0/12", "192.168.2.0/24", "fd00::/8")
	}
	if name != "management" && g.p(0.45) {
		m["respond"] = g.respond()
	}
	if len(m) == 0 {
		m["port"] = g.integer(1024, 60000)
	}
	return m
}

// ---- cache ----

func (g *gen) cache() map[string]any {
	switch pick(g, "in-memory", "noop", "redis", "redis-cluster", "redis-sentinel") {
	case "in-memory":
		return map[string]any{"type": discr("cache", "in-memory")}
	case "noop":
		return map[string]any{"type": discr("cache", "noop")}
	case "redis":
		c := g.redisBase()
		c["address"] = g.req(g.str("foo:6379", "redis.local:1234", "10.0.0.7:6379"))
		if g.p(0.4) {
			c["db"] = g.integer(0, 15)
		}
		return map[string]any{"type": discr("cache", "redis"), "config": c}
	case "redis-cluster":
		c := g.redisBase()
		c["nodes"] = g.reqFirst(g.strList(1, 3, "foo:1234", "bar:1234", "baz:7000", "n4:7001"))
		return map[string]any{"type": discr("cache", "redis-cluster"), "config": c}
	default:
		c := g.redisBase()
		c["nodes"] = g.reqFirst(g.strList(1, 3, "foo:1234", "bar:1234", "baz:7000", "n4:7001"))
		c["master"] = g.req(g.str("whatever", "mymaster", "m1"))
		if g.p(0.4) {
			c["db"] = g.integer(0, 15)
		}
		return map[string]any{"type": discr("cache", "redis-sentinel"), "config": c}
	}
}

func (g *gen) reqFirst(l []any) []any { l[0].(*sc).Req = true; return l }

func (g *gen) redisBase() map[string]any {
	c := map[string]any{}
	if g.p(0.4) {
		if g.p(0.5) {
			c["credentials"] = map[string]any{"path": g.str("/path/to/credentials.yaml", "/etc/creds")}
		} else {
			c["credentials"] = map[string]any{"username": g.word(), "password": g.str("pw1", "pw2", "s3cr3t")}
		}
	}
	if g.p(0.4) {
		cc := map[string]any{}
		if g.p(0.5) {
			cc["disabled"] = g.boolean()
		}
		if g.p(0.5) {
			cc["ttl"] = g.dur()
		}
		if g.p(0.5) || len(cc) == 0 {
			cc["size_per_connection"] = g.str("128MB", "1GB", "64MB")
		}
		c["client_cache"] = cc
	}
	if g.p(0.3) {
		c["max_flush_delay"] = g.str("20us", "100us", "1ms")
	}
	if g.p(0.3) {
		c["timeout"] = map[string]any{"read": g.dur(), "write": g.dur()}
	}
	if g.p(0.3) {
		t := g.tls()
		if g.p(0.5) {
			t["disabled"] = g.boolean()
		}
		c["tls"] = t
	}
	return c
}

// ---- mechanisms ----

func (g *gen) endpoint(authOK bool) any {
	if g.p(0.25) {
		return g.req(g.url())
	}
	m := map[string]any{"url": g.req(g.url())}
	if g.p(0.4) {
		m["method"] = g.enum("GET", "POST", "PUT")
	}
	if g.p(0.4) {
		m["headers"] = g.strMap(1, 3, []string{"bla", "application/json", "foo-bar", "{{ .Subject.ID }}", "v"})
	}
	if g.p(0.35) {
		r := map[string]any{}
		if g.p(0.7) {
			r["give_up_after"] = g.dur()
		}
		if g.p(0.7) || len(r) == 0 {
			r["max_delay"] = g.str("100ms", "300ms", "1s")
		}
		m["retry"] = r
	}
	if g.p(0.3) {
		h := map[string]any{}
		if g.p(0.7) {
			h["enabled"] = g.boolean()
		}
		if g.p(0.6) || len(h) == 0 {
			h["default_ttl"] = g.dur()
		}
		m["http_cache"] = h
	}
	if authOK && g.p(0.45) {
		m["auth"] = g.endpointAuth()
	}
	return m
}

func (g *gen) clientCredentials() map[string]any {
	c := map[string]any{
		"token_url":     g.req(g.str("https://my-oauth-provider.com/token", "http://bar.foo/token")),
		"client_id":     g.req(g.word()),
		"client_secret": g.req(g.str("VerySecret!", "s3cr3t", "topsecret")),
	}
	if g.p(0.5) {
		c["auth_method"] = g.enum("basic_auth", "request_body")
	}
	if g.p(0.5) {
		c["cache_ttl"] = g.dur()
	}
	if g.p(0.5) {
		c["scopes"] = g.strList(1, 3, "foo", "bar", "baz", "read", "write")
	}
	if g.p(0.4) {
		h := map[string]any{"name": g.req(g.str("X-Token", "X-Foo", "Authorization"))}
		if g.p(0.5) {
			h["scheme"] = g.str("Bar", "Bearer", "Token")
		}
		c["header"] = h
	}
	return c
}

func (g *gen) endpointAuth() map[string]any {
	switch pick(g, "basic_auth", "api_key", "oauth2_client_credentials") {
	case "basic_auth":
		return map[string]any{"type": fixed("basic_auth"), "config": map[string]any{
			"user": g.req(g.word()), "password": g.req(g.str("pw", "VerySecure!", "geheim"))}}
	case "api_key":
		return map[string]any{"type": fixed("api_key"), "config": map[string]any{
			"in": g.req(g.enum("header", "cookie", "query")), "name": g.req(g.str("X-Api-Key", "api_key", "token")),
			"value": g.req(g.str(append([]string{"VerySecret!", "super duper secret"}, tricky...)...))}}
	default:
		return map[string]any{"type": fixed("oauth2_client_credentials"), "config": g.clientCredentials()}
	}
}

func (g *gen) dataSource() []any {
	n := 1 + g.r.IntN(3)
	var out []any
	for i := 0; i < n; i++ {
		switch pick(g, "header", "cookie", "query_parameter", "body_parameter") {
		case "header":
			e := map[string]any{"header": g.req(g.str("Authorization", "X-Auth", "X-Token"))}
			if g.p(0.6) {
				e["scheme"] = g.str("Bearer", "Basic", "Token")
			}
			out = append(out, e)
		case "cookie":
			out = append(out, map[string]any{"cookie": g.req(g.str("ory_kratos_session", "session", "sid"))})
		case "query_parameter":
			out = append(out, map[string]any{"query_parameter": g.req(g.str("access_token", "token", "t"))})
		default:
			out = append(out, map[string]any{"body_parameter": g.req(g.str("access_token", "token", "t"))})
		}
	}
	return out
}

func (g *gen) assertions(needIssuers bool) map[string]any {
	a := map[string]any{}
	if needIssuers || g.p(0.5) {
		a["issuers"] = g.strList(1, 2, "http://127.0.0.1:4444/", "https://idp.example.com", "iss-a", "iss-b")
	}
	if g.p(0.5) {
		a["audience"] = g.strList(1, 3, "bla", "aud-a", "aud-b", "https://api")
	}
	if g.p(0.5) {
		if g.p(0.5) {
			a["scopes"] = g.strList(1, 3, "foo", "bar", "read", "write")
		} else {
			a["scopes"] = map[string]any{"matching_strategy": g.enum("hierarchic", "exact", "wildcard"), "values": g.strList(1, 3, "foo", "bar", "read", "write")}
		}
	}
	if g.p(0.4) {
		a["allowed_algorithms"] = g.strList(1, 3, "RS256", "ES256", "PS384", "ES512")
	}
	if g.p(0.4) || len(a) == 0 {
		a["validity_leeway"] = g.dur()
	}
	return a
}

func (g *gen) subject() map[string]any {
	s := map[string]any{"id": g.req(g.str("sub", "identity.id", "user.id"))}
	if g.p(0.5) {
		s["attributes"] = g.str("@this", "identity.traits", "attrs")
	}
	return s
}

func (g *gen) authenticator() map[string]any {
	t := pick(g, "anonymous", "unauthorized", "basic_auth", "generic", "oauth2_introspection", "jwt", "jwt", "anonymous")
	m := map[string]any{"id": g.req(&sc{V: g.id("authn"), Alt: g.id("authn_alt")}), "type": discr("authenticators", t)}
	switch t {
	case "anonymous":
		if g.p(0.5) {
			m["config"] = map[string]any{"subject": g.str("anon", "guest", "nobody")}
		}
	case "basic_auth":
		// string options whose text YAML would read as another type: quoted alike in file and environment
		c := map[string]any{"user_id": g.req(g.word()), "password": g.req(g.str(tricky...))}
		if g.p(0.5) {
			c["allow_fallback_on_error"] = g.boolean()
		}
		m["config"] = c
	case "generic":
		c := map[string]any{"identity_info_endpoint": g.endpoint(true), "authentication_data_source": g.dataSource(), "subject": g.subject()}
		if g.p(0.4) {
			c["forward_headers"] = g.strList(1, 2, "X-Foo", "Accept", "User-Agent")
		}
		if g.p(0.4) {
			c["forward_cookies"] = g.strList(1, 2, "ory_kratos_session", "sid", "lang")
		}
		if g.p(0.3) {
			c["payload"] = g.str(templates...)
		}
		if g.p(0.3) {
			sl := map[string]any{}
			for _, k := range []string{"active", "issued_at", "not_before", "not_after", "time_format"} {
				if g.p(0.4) {
					sl[k] = g.str("active", "iat", "nbf", "exp", "2006-01-02", "issued")
				}
			}
			if g.p(0.5) || len(sl) == 0 {
				sl["validity_leeway"] = g.dur()
			}
			c["session_lifespan"] = sl
		}
		if g.p(0.4) {
			c["cache_ttl"] = g.dur()
		}
		if g.p(0.4) {
			c["allow_fallback_on_error"] = g.boolean()
		}
		m["config"] = c
	case "oauth2_introspection", "jwt":
		c := map[string]any{}
		ep, src := "introspection_endpoint", "token_source"
		if t == "jwt" {
			ep, src = "jwks_endpoint", "jwt_source"
		}
		if g.p(0.3) {
			// the plain string form of metadata_endpoint is a table entry (schema and loader disagree on it)
			me := g.endpoint(true)
			mm, ok := me.(map[string]any)
			if !ok {
				mm = map[string]any{"url": me}
			}
			if g.p(0.5) {
				mm["disable_issuer_identifier_verification"] = g.boolean()
			}
			c["metadata_endpoint"] = mm
			if g.p(0.5) {
				c["assertions"] = g.assertions(false)
			}
		} else {
			c[ep] = g.endpoint(true)
			c["assertions"] = g.assertions(true)
		}
		if g.p(0.5) {
			c[src] = g.dataSource()
		}
		if g.p(0.4) {
			c["subject"] = g.subject()
		}
		if g.p(0.4) {
			c["cache_ttl"] = g.dur()
		}
		if g.p(0.4) {
			c["allow_fallback_on_error"] = g.boolean()
		}
		if t == "jwt" && g.p(0.3) {
			c["validate_jwk"] = g.boolean()
		}
		if t == "jwt" && g.p(0.2) {
			c["trust_store"] = fixed(g.w.pemCert)
		}
		m["config"] = c
	}
	return m
}

func (g *gen) expressions() []any {
	n := 1 + g.r.IntN(3)
	perm := g.r.Perm(len(celExprs))
	var out []any
	for i := 0; i < n; i++ {
		e := map[string]any{"expression": &sc{V: celExprs[perm[i]], Alt: celExprs[perm[(i+n)%len(celExprs)]], Req: true}}
		if g.p(0.4) {
			e["message"] = g.str("not allowed", "denied", "nope")
		}
		out = append(out, e)
	}
	return out
}

func (g *gen) authorizer() map[string]any {
	t := pick(g, "allow", "deny", "cel", "remote")
	m := map[string]any{"id": g.req(&sc{V: g.id("authz"), Alt: g.id("authz_alt")}), "type": discr("authorizers", t)}
	switch t {
	case "cel":
		m["config"] = map[string]any{"expressions": g.expressions()}
	case "remote":
		c := map[string]any{"endpoint": g.endpoint(true), "payload": g.req(g.str(templates...))}
		if g.p(0.4) {
			c["expressions"] = g.expressions()
		}
		if g.p(0.4) {
			c["forward_response_headers_to_upstream"] = g.strList(1, 2, "bla-bar", "X-Foo", "X-Bar")
		}
		if g.p(0.4) {
			c["cache_ttl"] = g.dur()
		}
		if g.p(0.4) {
			c["values"] = g.strMap(1, 2, []string{"some-value", "v2", "{{ .Subject.ID }}"})
		}
		m["config"] = c
	}
	return m
}

func (g *gen) contextualizer() map[string]any {
	c := map[string]any{"endpoint": g.endpoint(true)}
	if g.p(0.4) {
		c["forward_headers"] = g.strList(1, 2, "X-Foo", "Accept", "User-Agent")
	}
	if g.p(0.3) {
		c["forward_cookies"] = g.strList(1, 2, "sid", "lang", "x")
	}
	if g.p(0.4) {
		c["payload"] = g.str(templates...)
	}
	if g.p(0.4) {
		c["cache_ttl"] = g.dur()
	}
	if g.p(0.4) {
		c["continue_pipeline_on_error"] = g.boolean()
	}
	if g.p(0.3) {
		c["values"] = g.strMap(1, 2, []string{"some-value", "v2", "{{ .Subject.ID }}"})
	}
	return map[string]any{"id": g.req(&sc{V: g.id("ctx"), Alt: g.id("ctx_alt")}), "type": discr("contextualizers", "generic"), "config": c}
}

func (g *gen) finalizer() map[string]any {
	t := pick(g, "noop", "jwt", "header", "cookie", "oauth2_client_credentials")
	m := map[string]any{"id": g.req(&sc{V: g.id("fin"), Alt: g.id("fin_alt")}), "type": discr("finalizers", t)}
	switch t {
	case "jwt":
		signer := map[string]any{"key_store": map[string]any{"path": fixed(g.w.pemKey)}}
		if g.p(0.4) {
			signer["name"] = g.str("foobar", "heimdall", "issuer-x")
		}
		c := map[string]any{"signer": signer}
		if g.p(0.5) {
			c["ttl"] = g.str("5m", "10m", "30s", "1h")
		}
		if g.p(0.4) {
			c["claims"] = g.str(`{"user": {{ quote .Subject.ID }} }`, `{"a": "b"}`, `{ {{ if .Subject.ID }}"x": 1{{ end }} }`)
		}
		if g.p(0.4) {
			h := map[string]any{"name": g.req(g.str("Foo", "X-JWT", "Authorization"))}
			if g.p(0.5) {
				h["scheme"] = g.str("Bar", "Bearer", "JWT")
			}
			c["header"] = h
		}
		m["config"] = c
	case "header":
		m["config"] = map[string]any{"headers": g.strMap(1, 3, templates)}
	case "cookie":
		m["config"] = map[string]any{"cookies": g.strMap(1, 3, templates)}
	case "oauth2_client_credentials":
		m["config"] = g.clientCredentials()
	}
	return m
}

func (g *gen) errorHandler() map[string]any {
	t := pick(g, "default", "redirect")
	m := map[string]any{"id": g.req(&sc{V: g.id("eh"), Alt: g.id("eh_alt")}), "type": discr("error_handlers", t)}
	if t == "redirect" {
		c := map[string]any{"to": g.req(g.str("http://127.0.0.1:4433/login?return_to={{ .Request.URL | urlenc }}", "https://login.example.com", "http://foo.bar/signin"))}
		if g.p(0.5) {
			c["code"] = g.req(&sc{V: 301, Alt: 302})
			if g.p(0.5) {
				c["code"] = g.req(&sc{V: 302, Alt: 301})
			}
		}
		m["config"] = c
	}
	return m
}

func listOf(n int, f func() map[string]any) []any {
	var out []any
	for i := 0; i < n; i++ {
		out = append(out, f())
	}
	return out
}

func idOf(m any) string { return m.(map[string]any)["id"].(*sc).V.(string) }
func typeOf(m any) string { return m.(map[string]any)["type"].(*sc).V.(string) }

func (g *gen) mechanisms(root map[string]any) {
	mech := map[string]any{
		"authenticators": listOf(1+g.r.IntN(3), g.authenticator),
		"finalizers":     listOf(1+g.r.IntN(3), g.finalizer),
	}
	if g.p(0.6) {
		mech["authorizers"] = listOf(1+g.r.IntN(3), g.authorizer)
	}
	if g.p(0.4) {
		mech["contextualizers"] = listOf(1+g.r.IntN(2), g.contextualizer)
	}
	if g.p(0.5) {
		mech["error_handlers"] = listOf(1+g.r.IntN(2), g.errorHandler)
	}
	root["mechanisms"] = mech
	if g.p(0.6) {
		// default rule referring to catalogue entries
		var exec []any
		auths := mech["authenticators"].([]any)
		a := auths[g.r.IntN(len(auths))]
		e := map[string]any{"authenticator": fixed(idOf(a))}
		exec = append(exec, e)
		if l, ok := mech["authorizers"].([]any); ok && g.p(0.6) {
			exec = append(exec, map[string]any{"authorizer": fixed(idOf(l[g.r.IntN(len(l))]))})
		}
		if l, ok := mech["contextualizers"].([]any); ok && g.p(0.6) {
			exec = append(exec, map[string]any{"contextualizer": fixed(idOf(l[g.r.IntN(len(l))]))})
		}
		if g.p(0.7) {
			l := mech["finalizers"].([]any)
			f := map[string]any{"finalizer": fixed(idOf(l[g.r.IntN(len(l))]))}
			if g.p(0.3) {
				f["if"] = g.str(celExprs...)
			}
			exec = append(exec, f)
		}
		dr := map[string]any{"execute": exec}
		if g.p(0.5) {
			dr["backtracking_enabled"] = g.boolean()
		}
		if l, ok := mech["error_handlers"].([]any); ok && g.p(0.7) {
			eh := map[string]any{"error_handler": fixed(idOf(l[g.r.IntN(len(l))]))}
			if g.p(0.5) {
				eh["if"] = g.str(errCelExprs...)
			}
			dr["on_error"] = []any{eh}
		}
		root["default_rule"] = dr
	}
	// the ids referred to by the default rule must not be replaced by a conflicting value
	if dr, ok := root["default_rule"].(map[string]any); ok {
		used := map[string]bool{}
		for _, l := range flatten(dr) {
			if s, ok := l.S.V.(string); ok {
				used[s] = true
			}
		}
		for _, k := range []string{"authenticators", "authorizers", "contextualizers", "finalizers", "error_handlers"} {
			if l, ok := mech[k].([]any); ok {
				for _, e := range l {
					id := e.(map[string]any)["id"].(*sc)
					if used[id.V.(string)] {
						id.Alt, id.Fixed = id.V, true
					}
				}
			}
		}
	}
}

// ---- providers ----

func (g *gen) providers() map[string]any {
	p := map[string]any{}
	if g.p(0.5) {
		fs := map[string]any{"src": g.req(g.str("test_rules.yaml", "/etc/heimdall/rules", "rules/"))}
		if g.p(0.5) {
			fs["watch"] = g.boolean()
		}
		if g.p(0.3) {
			fs["env_vars_enabled"] = g.boolean()
		}
		p["file_system"] = fs
	}
	if g.p(0.4) && !g.light {
		he := map[string]any{"endpoints": []any{}}
		n := 1 + g.r.IntN(2)
		var eps []any
		for i := 0; i < n; i++ {
			ep := g.endpoint(true)
			if s, ok := ep.(*sc); ok { // keep mappings: the element must be addressable key-wise
				ep = map[string]any{"url": s}
			}
			eps = append(eps, ep)
		}
		he["endpoints"] = eps
		if g.p(0.5) {
			he["watch_interval"] = g.dur()
		}
		p["http_endpoint"] = he
	}
	if g.p(0.4) && !g.light {
		n := 1 + g.r.IntN(2)
		var bs []any
		for i := 0; i < n; i++ {
			b := map[string]any{"url": g.req(g.str("gs://my-bucket", "s3://other-bucket/rules", "azblob://c"))}
			if g.p(0.5) {
				b["prefix"] = g.str("service1", "team-a", "x/")
			}
			bs = append(bs, b)
		}
		cb := map[string]any{"buckets": bs}
		if g.p(0.5) {
			cb["watch_interval"] = g.dur()
		}
		p["cloud_blob"] = cb
	}
	if g.p(0.3) {
		k := map[string]any{}
		if g.p(0.7) {
			k["auth_class"] = g.str("foo", "heimdall", "default")
		}
		if g.p(0.4) || len(k) == 0 {
			k["tls"] = g.tls()
		}
		p["kubernetes"] = k
	}
	if len(p) == 0 {
		p["file_system"] = map[string]any{"src": g.req(g.str("test_rules.yaml", "/etc/heimdall/rules"))}
	}
	return p
}

// config generates one configuration tree.
func (g *gen) config() map[string]any {
	root := map[string]any{}
	if g.p(0.8) {
		s := map[string]any{}
		for _, n := range []string{"decision", "proxy", "management"} {
			if g.p(0.55) {
				s[n] = g.service(n)
			}
		}
		if len(s) > 0 {
			root["serve"] = s
		}
	}
	if g.p(0.6) {
		l := map[string]any{}
		if g.p(0.8) {
			l["level"] = g.enum("trace", "debug", "info", "error", "fatal", "panic")
		}
		if g.p(0.5) || len(l) == 0 {
			l["format"] = g.enum("text", "gelf")
		}
		root["log"] = l
	}
	if g.p(0.4) {
		t := map[string]any{}
		if g.p(0.6) {
			t["enabled"] = g.boolean()
		}
		if g.p(0.6) || len(t) == 0 {
			t["span_processor"] = g.enum("simple", "batch")
		}
		root["tracing"] = t
	}
	if g.p(0.3) {
		root["metrics"] = map[string]any{"enabled": g.boolean()}
	}
	if g.p(0.3) {
		pr := map[string]any{"enabled": g.boolean()}
		if g.p(0.5) {
			pr["host"] = g.str("0.0.0.0", "127.0.0.1", "localhost")
		}
		if g.p(0.5) {
			pr["port"] = g.integer(1024, 60000)
		}
		root["profiling"] = pr
	}
	if g.p(0.3) {
		root["secrets_reload_enabled"] = g.boolean()
	}
	if g.p(0.5) {
		root["cache"] = g.cache()
	}
	if !g.light && g.p(0.85) {
		g.mechanisms(root)
	}
	if g.p(0.5) {
		root["providers"] = g.providers()
	}
	if len(root) == 0 {
		root["log"] = map[string]any{"level": g.enum("trace", "debug", "info", "error")}
	}
	return root
}
