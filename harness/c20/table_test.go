package c20

import (
	"fmt"
	"strconv"
	"strings"

	"github.com/dadrus/heimdall/internal/config"
)

// Schema equivalence table: every mechanism type, endpoint authentication type and option is given
// once by file and once by environment.
//
// Observations per entry X (a small complete configuration in which the leaves of the type/option
// under test are marked):
//   schemaOK    config.ValidateConfig accepts the file form of X
//   fileUsable  NewConfiguration(file X) loads and the mechanism catalogue/default rule can be built
//   envUsable   the same for the environment form (the marked leaves come from the environment)
//   effective   the marked leaves change the resulting Configuration (an option the loader silently
//               drops is not "supported")
// Oracle: schemaOK <=> envUsable && effective ("the schema accepts exactly what the loader supports"),
// and for documented entries fileUsable <=> envUsable with equal Configuration values.
//
// The environment form is "skeleton in the file + marked leaves in the environment" where the
// skeleton is schema-valid (a type under test conflicts with another, valid type in the file), or,
// if there is no valid skeleton, everything in the environment. An environment form that runs into
// one of the two list defects (see c20_test.go) does not decide the entry; it is reported under the
// list defect's signature instead and counted as undecided.

type tleaf struct {
	path  string
	v     any
	alt   any  // conflicting value used in the skeleton; nil: the leaf is absent from the skeleton
	opt   bool // belongs to the type/option under test
	xonly bool // part of the file form only (needed to make the file form complete for the schema)
}

type entry struct {
	label  string
	doc    bool // documented as supported (docs/content): both oracles apply
	leaves []tleaf
	key    string // defect key if it differs from the label (see defectKey)
}

// defectKey names the disagreement an entry belongs to: entries that can only fail together (the two
// services sharing one respond section, an option of a type the schema does not know) share a key,
// every other entry is its own class.
func (e entry) defectKey() string {
	if e.key != "" {
		return e.key
	}
	l := e.label
	for _, g := range []struct{ contains, key string }{
		{"error_handlers.www_authenticate", "error_handlers.www_authenticate"},
		{"error_handlers.www-authenticate", "error_handlers.www-authenticate"},
		{"endpoint.auth.http_message_signatures", "endpoint.auth.http_message_signatures"},
		{".respond.with.argument_error", "serve.respond.with.argument_error"},
		{".respond.with.precondition_error", "serve.respond.with.precondition_error"},
		{"option:log.level=warn", "log.level=warn|disabled"},
		{"option:log.level=disabled", "log.level=warn|disabled"},
		{".metadata_endpoint-as-string", "metadata_endpoint-as-string"},
	} {
		if strings.Contains(l, g.contains) {
			return g.key
		}
	}
	return l
}

func parsePath(p string) []seg {
	var out []seg
	for _, s := range strings.Split(p, ".") {
		if n, err := strconv.Atoi(s); err == nil {
			out = append(out, seg{I: n, Idx: true})
		} else {
			out = append(out, seg{K: s})
		}
	}
	return out
}

// kv builds leaves below prefix from alternating relative path / value arguments.
func kv(prefix string, pairs ...any) []tleaf {
	var out []tleaf
	for i := 0; i+1 < len(pairs); i += 2 {
		p := pairs[i].(string)
		if prefix != "" {
			p = prefix + "." + p
		}
		out = append(out, tleaf{path: p, v: pairs[i+1]})
	}
	return out
}

func opt(ls []tleaf) []tleaf {
	for i := range ls {
		ls[i].opt = true
	}
	return ls
}

func cat(ls ...[]tleaf) []tleaf {
	var out []tleaf
	for _, l := range ls {
		out = append(out, l...)
	}
	return out
}

func (w *world) validate(yamlText string) error {
	if yamlText == "" {
		return nil
	}
	p := w.writeFile(yamlText)
	return config.ValidateConfig(p)
}

type tableReport struct {
	Entry      string   `json:"entry"`
	Documented bool     `json:"documented"`
	File       string   `json:"file_form_yaml"`
	EnvForm    string   `json:"environment_form"`
	Skeleton   string   `json:"environment_form_file_part_yaml,omitempty"`
	Env        []envVar `json:"environment_form_variables"`
	SchemaOK   bool     `json:"schema_accepts_file_form"`
	SchemaErr  string   `json:"schema_error,omitempty"`
	FileUsable bool     `json:"usable_from_file"`
	FileErr    string   `json:"file_error,omitempty"`
	EnvUsable  bool     `json:"usable_from_environment"`
	EnvErr     string   `json:"environment_error,omitempty"`
	Effective  bool     `json:"marked_leaves_change_the_configuration"`
}

func toPlaced(ls []tleaf, pick func(tleaf) (any, bool)) []placed {
	var out []placed
	for _, l := range ls {
		if v, ok := pick(l); ok {
			out = append(out, placed{parsePath(l.path), v})
		}
	}
	return out
}

func (h *harness) runEntry(e entry) {
	r, w := h.r, h.w
	r.Count("table_entries", 1)
	fileYAML := toYAML(build(toPlaced(e.leaves, func(l tleaf) (any, bool) { return l.v, true })))
	rep := tableReport{Entry: e.label, Documented: e.doc, File: fileYAML}
	if err := w.validate(fileYAML); err != nil {
		rep.SchemaErr = short(err.Error(), 300)
	} else {
		rep.SchemaOK = true
	}
	fo := w.load(fileYAML, nil)
	w.checkUsable(fo)
	rep.FileUsable, rep.FileErr = fo.usable(), fo.LoadErr+fo.UseErr

	// environment forms
	type form struct {
		name     string
		skeleton []placed
		env      []envLeaf
		without  []envLeaf
	}
	var forms []form
	{
		f := form{name: "skeleton in file, leaves under test in environment"}
		f.skeleton = toPlaced(e.leaves, func(l tleaf) (any, bool) {
			if l.xonly {
				return nil, false
			}
			if l.opt {
				return l.alt, l.alt != nil
			}
			return l.v, true
		})
		for _, l := range e.leaves {
			if l.opt && !l.xonly {
				f.env = append(f.env, envLeaf{parsePath(l.path), envVar{envName(parsePath(l.path)), envValue(l.v, false)}})
			}
		}
		forms = append(forms, f)
	}
	{
		f := form{name: "everything in environment"}
		for _, l := range e.leaves {
			ev := envLeaf{parsePath(l.path), envVar{envName(parsePath(l.path)), envValue(l.v, false)}}
			f.env = append(f.env, ev)
			if !l.opt {
				f.without = append(f.without, ev)
			}
		}
		forms = append(forms, f)
	}

	{
		f := form{name: "one variable per top-level section holding the section as JSON"}
		f.env = sectionVars(build(toPlaced(e.leaves, func(l tleaf) (any, bool) { return l.v, true })))
		f.without = sectionVars(build(toPlaced(e.leaves, func(l tleaf) (any, bool) { return l.v, !l.opt })))
		forms = append(forms, f)
	}

	decided := false
	for _, f := range forms {
		skel := toYAML(build(f.skeleton))
		if skel != "" && w.validate(skel) != nil {
			continue // no schema-valid skeleton: this form cannot be used
		}
		p := parts{file: f.skeleton, env: f.env, filePath: map[string]bool{}}
		for _, s := range f.skeleton {
			for i := 1; i <= len(s.Path); i++ {
				p.filePath[pathString(s.Path[:i])] = true
			}
		}
		t := findTriggers(p)
		vars := envIn(orders(len(f.env), 1, nil)[0], f.env)
		eo := w.load(skel, vars)
		w.checkUsable(eo)
		wo := w.load(skel, envIn(orders(len(f.without), 1, nil)[0], f.without))
		r.Count("table_loads", 4)
		effective := eo.loaded() && wo.loaded() && eo.Canon != wo.Canon
		if !t.none() && !h.listDefectsAbsent {
			// not decisive; if the file form works the difference is attributed by the list defect classifier
			r.Count("table_environment_forms_hitting_list_defect_trigger", 1)
			if fo.usable() {
				crep := caseReport{Case: "table:" + e.label, Plan: "table, " + f.name, File: skel, Env: vars, Intended: fileYAML}
				if h.judge(crep, sigAllEnv, fo, eo, t, f.env, func() map[string]string { return wo.Leaves }) && eo.usable() && effective {
					// agreed with the file form although a trigger was present (e.g. after a repair)
					decided = true
				}
			}
			if !decided {
				continue
			}
		}
		decided = true
		rep.EnvForm, rep.Skeleton, rep.Env = f.name, skel, vars
		rep.EnvUsable, rep.EnvErr, rep.Effective = eo.usable(), eo.LoadErr+eo.UseErr, effective
		supports := eo.usable() && effective
		switch {
		case !rep.SchemaOK && supports:
			r.Violation("schema-rejects-supported:"+e.defectKey(), "the file schema rejects what the loader supports (usable and effective from the environment): "+short(rep.SchemaErr, 160), rep)
		case rep.SchemaOK && !supports:
			why := "not usable from the environment: " + short(rep.EnvErr, 160)
			if eo.usable() {
				why = "accepted but silently without effect on the configuration"
			}
			r.Violation("schema-accepts-unsupported:"+e.defectKey(), "the file schema accepts what the loader does not support: "+why, rep)
		case e.doc && fo.usable() != eo.usable():
			r.Violation("file-env-usability-differs:"+e.defectKey(), fmt.Sprintf("usable from file: %v (%s), usable from environment: %v (%s)", fo.usable(), short(rep.FileErr, 100), eo.usable(), short(rep.EnvErr, 100)), rep)
		case e.doc && fo.usable() && eo.usable():
			crep := caseReport{Case: "table:" + e.label, Plan: "table, " + f.name, File: skel, Env: vars, Intended: fileYAML}
			if h.judge(crep, sigSplit, fo, eo, t, f.env, func() map[string]string { return wo.Leaves }) {
				r.Count("table_entries_equal_from_file_and_environment", 1)
			}
		case rep.SchemaOK:
			r.Count("table_entries_consistently_accepted", 1)
		default:
			r.Count("table_entries_consistently_rejected", 1)
		}
		r.Case("table:"+e.label, true)
		break
	}
	if decided {
		r.Count("table_entries_decided", 1)
	} else {
		r.Count("table_entries_undecided_because_of_list_defect", 1)
		h.undecided = append(h.undecided, e.label)
	}
}

func (h *harness) runTable() {
	for _, e := range h.tableEntries() {
		h.runEntry(e)
	}
	for _, e := range h.enumEntries() {
		h.runEntry(e)
		h.r.Count("table_entries_enumerated_values", 1)
	}
	for _, e := range h.shapeEntries() {
		h.runEntry(e)
	}
	h.r.Set("table_entries_undecided", h.undecided)
}

// ---------------------------------------------------------------------------------------------

func (h *harness) tableEntries() []entry {
	w := h.w
	var es []entry
	add := func(label string, doc bool, ls ...[]tleaf) {
		es = append(es, entry{label: label, doc: doc, leaves: cat(ls...)})
	}

	// minimal catalogue the schema accepts: one authenticator, one finalizer
	base := cat(kv("mechanisms.authenticators.0", "id", "a0", "type", "anonymous"), kv("mechanisms.finalizers.0", "id", "f0", "type", "noop"))
	const url = "http://foo.bar/x"
	place := map[string]string{
		"authenticators": "mechanisms.authenticators.1", "finalizers": "mechanisms.finalizers.1", "authorizers": "mechanisms.authorizers.0",
		"contextualizers": "mechanisms.contextualizers.0", "error_handlers": "mechanisms.error_handlers.0",
	}
	// minimal instance of every mechanism type: category, type, config leaves
	type mtype struct {
		cat, typ string
		cfg      []any
		decoy    string // another config-less type of the category (only for config-less types)
	}
	mtypes := []mtype{
		{"authenticators", "anonymous", nil, "unauthorized"},
		{"authenticators", "unauthorized", nil, "anonymous"},
		{"authenticators", "basic_auth", []any{"config.user_id", "foo", "config.password", "bar"}, ""},
		{"authenticators", "generic", []any{"config.identity_info_endpoint.url", url, "config.authentication_data_source.0.cookie", "sid", "config.subject.id", "sub"}, ""},
		{"authenticators", "oauth2_introspection", []any{"config.introspection_endpoint.url", url, "config.assertions.issuers.0", "iss"}, ""},
		{"authenticators", "jwt", []any{"config.jwks_endpoint.url", url, "config.assertions.issuers.0", "iss"}, ""},
		{"authorizers", "allow", nil, "deny"},
		{"authorizers", "deny", nil, "allow"},
		{"authorizers", "cel", []any{"config.expressions.0.expression", "true"}, ""},
		{"authorizers", "remote", []any{"config.endpoint.url", url, "config.payload", "foo"}, ""},
		{"contextualizers", "generic", []any{"config.endpoint.url", url}, ""},
		{"finalizers", "noop", nil, ""},
		{"finalizers", "jwt", []any{"config.signer.key_store.path", w.pemKey}, ""},
		{"finalizers", "header", []any{"config.headers.x-a", "foo"}, ""},
		{"finalizers", "cookie", []any{"config.cookies.x-a", "foo"}, ""},
		{"finalizers", "oauth2_client_credentials", []any{"config.token_url", "http://foo.bar/token", "config.client_id", "cid", "config.client_secret", "cs"}, ""},
		{"error_handlers", "default", nil, ""},
		{"error_handlers", "redirect", []any{"config.to", "http://foo.bar/login"}, ""},
		{"error_handlers", "www_authenticate", nil, "default"},
	}
	inst := func(m mtype, extra ...any) []tleaf {
		return kv(place[m.cat], append(append([]any{"id", "x1", "type", m.typ}, m.cfg...), extra...)...)
	}
	find := func(cat, typ string) mtype {
		for _, m := range mtypes {
			if m.cat == cat && m.typ == typ {
				return m
			}
		}
		panic("no such type " + cat + "/" + typ)
	}
	for _, m := range mtypes {
		ls := inst(m)
		if m.decoy != "" {
			// config-less: only the type leaf is under test, the skeleton holds another config-less type
			for i := range ls {
				if strings.HasSuffix(ls[i].path, ".type") {
					ls[i].opt, ls[i].alt = true, m.decoy
				}
			}
		} else {
			opt(ls)
		}
		add("mechanism-type:"+m.cat+"."+m.typ, true, base, ls)
	}
	// type names only one side knows
	bogusType := func(cat, typ, decoy string, doc bool, xonly ...any) {
		ls := kv(place[cat], "id", "x1", "type", typ)
		ls[1].opt = true
		if decoy != "" {
			ls[1].alt = decoy
		}
		xo := kv(place[cat], xonly...)
		for i := range xo {
			xo[i].xonly = true
		}
		add("mechanism-type:"+cat+"."+typ, doc, base, ls, xo)
	}
	bogusType("error_handlers", "www-authenticate", "default", false, "config.realm", "foo")
	bogusType("authorizers", "local", "allow", false)
	bogusType("authenticators", "noop", "anonymous", false)
	bogusType("finalizers", "bogus", "noop", false)
	bogusType("contextualizers", "bogus", "", false)
	// the schema requires mechanisms.finalizers (and authenticators)
	add("mechanisms-without-finalizers", true, opt(kv("mechanisms.authenticators.0", "type", "anonymous")))
	add("mechanisms-without-authenticators", true, opt(kv("mechanisms.finalizers.0", "type", "noop")))

	// options of the mechanisms: minimal instance + one option
	mopt := func(cat, typ, name string, doc bool, pairs ...any) {
		m := find(cat, typ)
		add("option:"+cat+"."+typ+"."+name, doc, base, inst(m), opt(kv(place[cat], pairs...)))
	}
	mopt("authenticators", "anonymous", "subject", true, "config.subject", "anon")
	mopt("authenticators", "basic_auth", "allow_fallback_on_error", true, "config.allow_fallback_on_error", true)
	for _, o := range [][]any{
		{"forward_headers", "config.forward_headers.0", "X-Foo"}, {"forward_cookies", "config.forward_cookies.0", "sid"},
		{"payload", "config.payload", "{{ .Subject.ID }}"}, {"cache_ttl", "config.cache_ttl", "5m"},
		{"allow_fallback_on_error", "config.allow_fallback_on_error", true}, {"subject.attributes", "config.subject.attributes", "@this"},
		{"session_lifespan.active", "config.session_lifespan.active", "active"}, {"session_lifespan.issued_at", "config.session_lifespan.issued_at", "iat"},
		{"session_lifespan.not_before", "config.session_lifespan.not_before", "nbf"}, {"session_lifespan.not_after", "config.session_lifespan.not_after", "exp"},
		{"session_lifespan.time_format", "config.session_lifespan.time_format", "2006-01-02"}, {"session_lifespan.validity_leeway", "config.session_lifespan.validity_leeway", "10s"},
		{"authentication_data_source.header+scheme", "config.authentication_data_source.1.header", "Authorization", "config.authentication_data_source.1.scheme", "Bearer"},
		{"authentication_data_source.query_parameter", "config.authentication_data_source.1.query_parameter", "token"},
		{"authentication_data_source.body_parameter", "config.authentication_data_source.1.body_parameter", "token"},
		{"bogus_option", "config.bogus_option", "x"},
	} {
		mopt("authenticators", "generic", o[0].(string), o[0] != "bogus_option", o[1:]...)
	}
	// endpoint options (on the generic authenticator's endpoint) and endpoint authentication types
	const ep = "config.identity_info_endpoint."
	for _, o := range [][]any{
		{"method", ep + "method", "GET"}, {"headers", ep + "headers.x-a", "foo"}, {"retry.give_up_after", ep + "retry.give_up_after", "2s"},
		{"retry.max_delay", ep + "retry.max_delay", "300ms"}, {"http_cache.enabled", ep + "http_cache.enabled", true},
		{"http_cache.default_ttl", ep + "http_cache.default_ttl", "1h"}, {"bogus_option", ep + "bogus_option", "x"},
	} {
		mopt("authenticators", "generic", "endpoint."+o[0].(string), o[0] != "bogus_option", o[1:]...)
	}
	auth := func(name string, doc bool, pairs ...any) {
		var ps []any
		for i := 0; i+1 < len(pairs); i += 2 {
			ps = append(ps, ep+"auth."+pairs[i].(string), pairs[i+1])
		}
		mopt("authenticators", "generic", "endpoint.auth."+name, doc, ps...)
	}
	auth("basic_auth", true, "type", "basic_auth", "config.user", "u", "config.password", "p")
	auth("api_key", true, "type", "api_key", "config.in", "header", "config.name", "X-Api-Key", "config.value", "secret")
	occ := []any{"type", "oauth2_client_credentials", "config.token_url", "http://foo.bar/token", "config.client_id", "cid", "config.client_secret", "cs"}
	auth("oauth2_client_credentials", true, occ...)
	auth("oauth2_client_credentials.auth_method", true, append(occ, "config.auth_method", "request_body")...)
	auth("oauth2_client_credentials.cache_ttl", true, append(occ, "config.cache_ttl", "20s")...)
	auth("oauth2_client_credentials.scopes", true, append(occ, "config.scopes.0", "foo", "config.scopes.1", "bar")...)
	auth("oauth2_client_credentials.header", true, append(occ, "config.header.name", "X-Foo", "config.header.scheme", "Bar")...)
	hms := []any{"type", "http_message_signatures", "config.signer.key_store.path", w.pemKey, "config.components.0", "@method"}
	auth("http_message_signatures", true, hms...)
	auth("http_message_signatures.ttl+label+signer.name", true, append(hms, "config.ttl", "1m", "config.label", "foo", "config.signer.name", "bar")...)
	auth("bogus_type", false, "type", "bearer", "config.token", "x")
	// endpoint given as a plain string
	add("option:endpoint-as-string", true, base, kv(place["contextualizers"], "id", "x1", "type", "generic"), opt(kv(place["contextualizers"], "config.endpoint", url)))

	for _, typ := range []string{"oauth2_introspection", "jwt"} {
		src := map[string]string{"oauth2_introspection": "token_source", "jwt": "jwt_source"}[typ]
		for _, o := range [][]any{
			{src + ".header", "config." + src + ".0.header", "Authorization"}, {src + ".cookie", "config." + src + ".0.cookie", "sid"},
			{"assertions.audience", "config.assertions.audience.0", "aud"}, {"assertions.scopes(list)", "config.assertions.scopes.0", "foo"},
			{"assertions.scopes(strategy)", "config.assertions.scopes.matching_strategy", "wildcard", "config.assertions.scopes.values.0", "foo"},
			{"assertions.allowed_algorithms", "config.assertions.allowed_algorithms.0", "ES256"}, {"assertions.validity_leeway", "config.assertions.validity_leeway", "10s"},
			{"subject.id", "config.subject.id", "sub"}, {"cache_ttl", "config.cache_ttl", "5m"}, {"allow_fallback_on_error", "config.allow_fallback_on_error", true},
		} {
			mopt("authenticators", typ, o[0].(string), true, o[1:]...)
		}
	}
	mopt("authenticators", "jwt", "validate_jwk", true, "config.validate_jwk", false)
	mopt("authenticators", "jwt", "trust_store", true, "config.trust_store", w.pemCert)
	// metadata endpoint instead of jwks/introspection endpoint
	add("option:authenticators.jwt.metadata_endpoint", true, base, kv(place["authenticators"], "id", "x1", "type", "jwt"),
		opt(kv(place["authenticators"], "config.metadata_endpoint.url", url, "config.metadata_endpoint.disable_issuer_identifier_verification", true)))
	add("option:authenticators.oauth2_introspection.metadata_endpoint", true, base, kv(place["authenticators"], "id", "x1", "type", "oauth2_introspection"),
		opt(kv(place["authenticators"], "config.metadata_endpoint.url", url)))

	for _, typ := range []string{"jwt", "oauth2_introspection"} {
		add("option:authenticators."+typ+".metadata_endpoint-as-string", true, base, kv(place["authenticators"], "id", "x1", "type", typ),
			opt(kv(place["authenticators"], "config.metadata_endpoint", url)))
		add("option:authenticators."+typ+".endpoint-as-string", true, base, kv(place["authenticators"], "id", "x1", "type", typ, "config.assertions.issuers.0", "iss"),
			opt(kv(place["authenticators"], "config."+map[string]string{"jwt": "jwks_endpoint", "oauth2_introspection": "introspection_endpoint"}[typ], url)))
	}

	mopt("authorizers", "cel", "expressions.message", true, "config.expressions.0.message", "denied")
	for _, o := range [][]any{
		{"expressions", "config.expressions.0.expression", "true"}, {"forward_response_headers_to_upstream", "config.forward_response_headers_to_upstream.0", "X-Foo"},
		{"cache_ttl", "config.cache_ttl", "5m"}, {"values", "config.values.some-key", "v"}, {"bogus_option", "config.bogus_option", "x"},
	} {
		mopt("authorizers", "remote", o[0].(string), o[0] != "bogus_option", o[1:]...)
	}
	for _, o := range [][]any{
		{"forward_headers", "config.forward_headers.0", "X-Foo"}, {"forward_cookies", "config.forward_cookies.0", "sid"}, {"payload", "config.payload", "foo"},
		{"cache_ttl", "config.cache_ttl", "5m"}, {"continue_pipeline_on_error", "config.continue_pipeline_on_error", true}, {"values", "config.values.some-key", "v"},
	} {
		mopt("contextualizers", "generic", o[0].(string), true, o[1:]...)
	}
	for _, o := range [][]any{
		{"ttl", "config.ttl", "5m"}, {"claims", "config.claims", `{"a": "b"}`}, {"header", "config.header.name", "X-Jwt", "config.header.scheme", "Foo"},
		{"signer.name", "config.signer.name", "foo"}, {"signer.key_store.password", "config.signer.key_store.password", "pw"}, {"bogus_option", "config.bogus_option", "x"},
	} {
		mopt("finalizers", "jwt", o[0].(string), o[0] != "bogus_option", o[1:]...)
	}
	for _, o := range [][]any{
		{"auth_method", "config.auth_method", "basic_auth"}, {"cache_ttl", "config.cache_ttl", "5m"}, {"scopes", "config.scopes.0", "foo"},
		{"header", "config.header.name", "X-Token", "config.header.scheme", "Foo"},
	} {
		mopt("finalizers", "oauth2_client_credentials", o[0].(string), true, o[1:]...)
	}
	mopt("error_handlers", "redirect", "code", true, "config.code", 301)
	mopt("error_handlers", "www_authenticate", "realm", true, "config.realm", "My app")
	mopt("error_handlers", "default", "catalogue-level-if", false, "if", "true")

	// default rule
	dr := func(name string, doc bool, pairs ...any) {
		add("option:default_rule."+name, doc, base, kv("default_rule.execute.0", "authenticator", "a0"), opt(kv("default_rule", pairs...)))
	}
	dr("backtracking_enabled", true, "backtracking_enabled", true)
	dr("execute.finalizer", true, "execute.1.finalizer", "f0")
	dr("execute.finalizer-with-if", true, "execute.1.finalizer", "f0", "execute.1.if", "true")
	dr("execute.config-override", true, "execute.0.config.subject", "foo")
	add("option:default_rule.on_error", true, base, kv("mechanisms.error_handlers.0", "id", "e0", "type", "default"), kv("default_rule.execute.0", "authenticator", "a0"),
		opt(kv("default_rule", "on_error.0.error_handler", "e0")))

	// service level options (no lists involved unless stated)
	single := func(label string, doc bool, path string, v any) { add(label, doc, opt(kv("", path, v))) }
	for _, svc := range []string{"decision", "proxy"} {
		for _, et := range []string{"accepted", "authentication_error", "authorization_error", "communication_error", "internal_error", "no_rule_error", "precondition_error"} {
			single("option:serve."+svc+".respond.with."+et, true, "serve."+svc+".respond.with."+et+".code", 418)
		}
		single("option:serve."+svc+".respond.with.argument_error", false, "serve."+svc+".respond.with.argument_error.code", 418)
		single("option:serve."+svc+".respond.verbose", true, "serve."+svc+".respond.verbose", true)
		single("option:serve."+svc+".trusted_proxies", true, "serve."+svc+".trusted_proxies.0", "10.0.0.1")
	}
	for _, svc := range []string{"decision", "proxy", "management"} {
		single("option:serve."+svc+".host", true, "serve."+svc+".host", "localhost")
		single("option:serve."+svc+".port", true, "serve."+svc+".port", 4711)
		single("option:serve."+svc+".timeout.read", true, "serve."+svc+".timeout.read", "7s")
		single("option:serve."+svc+".timeout.write", true, "serve."+svc+".timeout.write", "7s")
		single("option:serve."+svc+".timeout.idle", true, "serve."+svc+".timeout.idle", "7s")
		single("option:serve."+svc+".buffer_limit.read", true, "serve."+svc+".buffer_limit.read", "10KB")
		single("option:serve."+svc+".buffer_limit.write", true, "serve."+svc+".buffer_limit.write", "10KB")
		single("option:serve."+svc+".tls.key_store.path", true, "serve."+svc+".tls.key_store.path", "/path/ks.pem")
		add("option:serve."+svc+".tls.key_store.password", true, kv("serve."+svc+".tls.key_store", "path", "/path/ks.pem"), opt(kv("serve."+svc+".tls.key_store", "password", "pw")))
		add("option:serve."+svc+".tls.key_id", true, kv("serve."+svc+".tls.key_store", "path", "/path/ks.pem"), opt(kv("serve."+svc+".tls", "key_id", "k1")))
		for _, v := range []string{"TLS1.2", "TLS1.3"} {
			add("option:serve."+svc+".tls.min_version="+v, true, kv("serve."+svc+".tls.key_store", "path", "/path/ks.pem"), opt(kv("serve."+svc+".tls", "min_version", v)))
		}
		add("option:serve."+svc+".tls.cipher_suites", true, kv("serve."+svc+".tls.key_store", "path", "/path/ks.pem"),
			opt(kv("serve."+svc+".tls", "cipher_suites.0", "TLS_ECDHE_RSA_WITH_AES_256_GCM_SHA384")))
	}
	for _, svc := range []string{"proxy", "management"} {
		single("option:serve."+svc+".cors.allowed_origins", true, "serve."+svc+".cors.allowed_origins.0", "example.org")
		single("option:serve."+svc+".cors.allowed_methods", true, "serve."+svc+".cors.allowed_methods.0", "GET")
		single("option:serve."+svc+".cors.allowed_headers", true, "serve."+svc+".cors.allowed_headers.0", "Authorization")
		single("option:serve."+svc+".cors.exposed_headers", true, "serve."+svc+".cors.exposed_headers.0", "X-My-Header")
		single("option:serve."+svc+".cors.allow_credentials", true, "serve."+svc+".cors.allow_credentials", true)
		single("option:serve."+svc+".cors.max_age", true, "serve."+svc+".cors.max_age", "1m")
	}
	for _, k := range []string{"max_per_host", "max_idle", "max_idle_per_host"} {
		single("option:serve.proxy.connections_limit."+k, true, "serve.proxy.connections_limit."+k, 17)
	}
	single("option:serve.decision.bogus_option", false, "serve.decision.bogus_option", "x")

	// log, tracing, metrics, profiling
	for _, lv := range []string{"trace", "debug", "info", "warn", "fatal", "panic", "disabled"} {
		single("option:log.level="+lv, true, "log.level", lv)
	}
	// "warning" used to be listed by the schema only; since the schema repair (493fc61) no source documents it.
	// The loader maps every unknown level string to info by design, so undocumented spellings are outside the
	// property's quantifier ("all valid configurations") and are not part of the table.
	single("option:log.format=gelf", true, "log.format", "gelf")
	single("option:tracing.enabled", true, "tracing.enabled", false)
	single("option:tracing.span_processor=simple", true, "tracing.span_processor", "simple")
	single("option:metrics.enabled", true, "metrics.enabled", false)
	single("option:profiling.enabled", true, "profiling.enabled", true)
	single("option:profiling.host", true, "profiling.host", "0.0.0.0")
	single("option:profiling.port", true, "profiling.port", 9000)
	single("option:secrets_reload_enabled", true, "secrets_reload_enabled", true)

	// cache
	single("option:cache.type=noop", true, "cache.type", "noop")
	add("option:cache.type=redis", true, opt(kv("cache", "type", "redis", "config.address", "foo:6379")))
	add("option:cache.type=redis-cluster", true, opt(kv("cache", "type", "redis-cluster", "config.nodes.0", "foo:6379")))
	add("option:cache.type=redis-sentinel", true, opt(kv("cache", "type", "redis-sentinel", "config.nodes.0", "foo:6379", "config.master", "m")))
	for _, o := range [][]any{
		{"db", "config.db", 2}, {"credentials.path", "config.credentials.path", "/p"}, {"client_cache.ttl", "config.client_cache.ttl", "10m"},
		{"client_cache.disabled", "config.client_cache.disabled", true}, {"max_flush_delay", "config.max_flush_delay", "20us"},
		{"tls.disabled", "config.tls.disabled", true}, {"timeout.write", "config.timeout.write", "1s"}, {"buffer_limit.read", "config.buffer_limit.read", "1KB"},
	} {
		add("option:cache.redis."+o[0].(string), true, kv("cache", "type", "redis", "config.address", "foo:6379"), opt(kv("cache", o[1:]...)))
	}

	// providers
	single("option:providers.file_system.src", true, "providers.file_system.src", "rules.yaml")
	add("option:providers.file_system.watch", true, kv("providers.file_system", "src", "rules.yaml"), opt(kv("providers.file_system", "watch", true)))
	add("option:providers.file_system.env_vars_enabled", true, kv("providers.file_system", "src", "rules.yaml"), opt(kv("providers.file_system", "env_vars_enabled", true)))
	single("option:providers.http_endpoint.endpoints", true, "providers.http_endpoint.endpoints.0.url", url)
	add("option:providers.http_endpoint.watch_interval", true, kv("providers.http_endpoint", "endpoints.0.url", url), opt(kv("providers.http_endpoint", "watch_interval", "5m")))
	add("option:providers.http_endpoint.endpoints.http_cache", true, kv("providers.http_endpoint", "endpoints.0.url", url), opt(kv("providers.http_endpoint", "endpoints.0.http_cache.enabled", false)))
	single("option:providers.cloud_blob.buckets", true, "providers.cloud_blob.buckets.0.url", "gs://my-bucket")
	add("option:providers.cloud_blob.buckets.prefix", true, kv("providers.cloud_blob", "buckets.0.url", "gs://my-bucket"), opt(kv("providers.cloud_blob", "buckets.0.prefix", "svc")))
	add("option:providers.cloud_blob.watch_interval", true, kv("providers.cloud_blob", "buckets.0.url", "gs://my-bucket"), opt(kv("providers.cloud_blob", "watch_interval", "1m")))
	single("option:providers.kubernetes.auth_class", true, "providers.kubernetes.auth_class", "foo")
	single("option:providers.kubernetes.tls", true, "providers.kubernetes.tls.key_store.path", "/path/ks.pem")
	single("option:providers.bogus", false, "providers.bogus.src", "x")
	return es
}
