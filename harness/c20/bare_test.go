package c20

import (
	"fmt"
	"reflect"
	"sort"
	"strconv"
	"strings"

	"gopkg.in/yaml.v3"

	"github.com/dadrus/heimdall/internal/config"
)

// Unquoted values: the value of an environment variable is plain text (`HEIMDALLCFG_SERVE_PROXY_TLS_KEY__STORE_PASSWORD=20240607`).
// The exploration writes every string value as the YAML scalar the file would hold (quoted where YAML would read another
// type), so it never hands the loader a number or a boolean for a string option. Here every string option of the static
// configuration (found by walking the Configuration type) gets values whose text a YAML parser reads as integer, float,
// boolean, null or as a string other than the text (comment, quotes), unquoted in the environment, and is compared with the
// same text given (quoted) in the file; once with the option absent from the file and once with another value in the file.
// The same is done for string options of mechanisms (decoded by the mechanisms' own decoders when the catalogue is built).
//
// Signatures: the loader refusing such a value for a string option of the static configuration is sigBareRejected. On the
// unchanged tree the values are accepted, but everything a YAML parser does not print back the way it was written arrives
// changed (`0123` as "83", `1e3` as "1000", `true` as "1", `abc #1` as "abc"): sigBareRetyped, raised only when the observed
// value is exactly what YAML typing followed by the loader's weak conversion to string gives. Mechanism decoders do not
// convert: the catalogue cannot be built (sigBareMech). Everything else is sigBareDiffers.
const (
	sigBareRejected = "unquoted-env-value-rejected-for-string-option"
	sigBareRetyped  = "unquoted-env-value-retyped-by-yaml-for-string-option"
	sigBareMech     = "unquoted-env-value-rejected-by-mechanism-decoder-for-string-option"
	sigBareDiffers  = "unquoted-env-value-differs-from-quoted-file-value"
)

// bareValues: texts that are plausible passwords, key ids, host names ... and that YAML does not read as the string they are
var bareValues = []string{
	"20240607", "12", "0123", "0x10", "0o17", "1_000", "-0", "+5", // integers
	"1e3", "10.5", "1.50", ".5", // floats
	"true", "false", "True", // booleans
	"no", "yes", "on", "off", "y", // booleans of YAML 1.1 only
	"~", "null", // null
	"abc #1", "'q'", // strings other than their text
}

// staticStringOptions walks the Configuration type and returns the configuration paths of all options of type string that
// are not inside a list or a free-form map.
func staticStringOptions() []string {
	var out []string
	var walk func(t reflect.Type, path string)
	walk = func(t reflect.Type, path string) {
		switch t.Kind() {
		case reflect.Ptr:
			walk(t.Elem(), path)
		case reflect.Struct:
			for i := 0; i < t.NumField(); i++ {
				f := t.Field(i)
				name := strings.Split(f.Tag.Get("koanf"), ",")[0]
				if name == "" {
					name = strings.Split(f.Tag.Get("mapstructure"), ",")[0]
				}
				if name != "" {
					walk(f.Type, join(path, name))
				}
			}
		case reflect.String:
			out = append(out, path)
		}
	}
	walk(reflect.TypeOf(config.Configuration{}), "")
	sort.Strings(out)
	return out
}

// yamlReading tells what the text becomes when a YAML parser types it and the result is converted to a string the weak way
// (integers and floats printed in their shortest decimal form, booleans as 1/0). kind is the YAML type.
func yamlReading(text string) (asString string, kind string, isNull bool) {
	var parsed map[string]any
	_ = yaml.Unmarshal([]byte("val: "+text), &parsed)
	switch v := parsed["val"].(type) {
	case nil:
		return "", "null", true
	case string:
		return v, "string", false
	case int:
		return strconv.Itoa(v), "int", false
	case int64:
		return strconv.FormatInt(v, 10), "int", false
	case uint64:
		return strconv.FormatUint(v, 10), "int", false
	case float64:
		return strconv.FormatFloat(v, 'f', -1, 64), "float", false
	case bool:
		if v {
			return "1", "bool", false
		}
		return "0", "bool", false
	default:
		return fmt.Sprint(v), fmt.Sprintf("%T", v), false
	}
}

type bareCase struct {
	option   string  // path of the string option
	ctx      []tleaf // what the file needs besides the option
	mech     bool    // option of a mechanism: judged by usability
	template bool    // the option's value is a template
}

func (h *harness) bareCases() []bareCase {
	var cs []bareCase
	for _, p := range staticStringOptions() {
		c := bareCase{option: p}
		if i := strings.Index(p, ".tls."); i >= 0 && !strings.HasSuffix(p, ".key_store.path") {
			c.ctx = kv(p[:i+4], "key_store.path", "/path/ks.pem") // required by the schema
		}
		cs = append(cs, c)
	}
	h.r.Count("unquoted_value_static_string_options", len(cs))

	base := cat(kv("mechanisms.authenticators.0", "id", "a0", "type", "anonymous"), kv("mechanisms.finalizers.0", "id", "f0", "type", "noop"))
	const url = "http://foo.bar/x"
	gen := kv("mechanisms.authenticators.1", "id", "x1", "type", "generic", "config.identity_info_endpoint.url", url, "config.authentication_data_source.0.cookie", "sid", "config.subject.id", "sub")
	const auth = "mechanisms.authenticators.1.config.identity_info_endpoint.auth"
	mech := func(template bool, ctx []tleaf, options ...string) {
		for _, o := range options {
			cs = append(cs, bareCase{option: o, ctx: cat(base, ctx), mech: true, template: template})
		}
	}
	mech(false, kv("mechanisms.authenticators.1", "id", "x1", "type", "basic_auth", "config.user_id", "foo", "config.password", "bar"),
		"mechanisms.authenticators.1.config.user_id", "mechanisms.authenticators.1.config.password")
	mech(false, kv("mechanisms.authenticators.1", "id", "x1", "type", "anonymous"), "mechanisms.authenticators.1.config.subject")
	mech(false, cat(gen, kv(auth, "type", "basic_auth", "config.user", "u", "config.password", "p")), auth+".config.user", auth+".config.password")
	mech(false, cat(gen, kv(auth, "type", "api_key", "config.in", "header", "config.name", "X-Api-Key", "config.value", "secret")), auth+".config.value")
	mech(false, kv("mechanisms.finalizers.1", "id", "x1", "type", "oauth2_client_credentials", "config.token_url", "http://foo.bar/token", "config.client_id", "cid", "config.client_secret", "cs"),
		"mechanisms.finalizers.1.config.client_id", "mechanisms.finalizers.1.config.client_secret")
	mech(false, kv("mechanisms.finalizers.1", "id", "x1", "type", "jwt", "config.signer.key_store.path", h.w.pemKey), "mechanisms.finalizers.1.config.signer.name")
	mech(false, kv("mechanisms.error_handlers.0", "id", "x1", "type", "www_authenticate"), "mechanisms.error_handlers.0.config.realm")
	mech(true, kv("mechanisms.finalizers.1", "id", "x1", "type", "header", "config.headers.x-a", "foo"), "mechanisms.finalizers.1.config.headers.x-a")
	mech(true, kv("mechanisms.authorizers.0", "id", "x1", "type", "remote", "config.endpoint.url", url, "config.payload", "foo"), "mechanisms.authorizers.0.config.payload")
	return cs
}

func (h *harness) unquotedValues() {
	r := h.r
	h.validFiles = map[string]bool{}
	var static, enumerated []bareCase
	for _, c := range h.bareCases() {
		switch {
		case c.mech:
			h.bareMech = append(h.bareMech, c)
			// options of mechanisms one by one (a catalogue reports its first error only), over another value in the file
			values := []string{"12345", "true", "1e3"}
			if c.template {
				values = append(values, "{{ .Subject.ID }}")
			}
			for _, text := range values {
				h.unquotedRun([]bareCase{c}, text, true)
			}
		case h.w.load(toYAML(build(toPlaced(append(append([]tleaf{}, c.ctx...), tleaf{path: c.option, v: "verif-free-text"}), func(l tleaf) (any, bool) { return l.v, true }))), nil).loaded():
			static = append(static, c)
		default:
			enumerated = append(enumerated, c) // the schema enumerates the values: none of the texts is a valid value
		}
	}
	h.bareStatic = static
	r.Count("unquoted_value_static_string_options_free_text", len(static))
	r.Count("unquoted_value_static_string_options_enumerated", len(enumerated))
	// all free-text options of the static configuration take the text in one load; they are separated when that load fails
	for _, text := range bareValues {
		h.unquotedRun(static, text, false)
	}
}

// unquotedRun gives the options of cs the text: reference = a file holding the text (quoted by the YAML writer where
// needed) for all of them, observed = the text as value of their environment variables, with the options absent from the
// file and with another value in the file.
func (h *harness) unquotedRun(cs []bareCase, text string, conflictOnly bool) {
	r, w := h.r, h.w
	mech := cs[0].mech
	options := map[string]bareCase{}
	for _, c := range cs {
		options[c.option] = c
	}
	separately := func() {
		for _, c := range cs {
			h.unquotedRun([]bareCase{c}, text, conflictOnly)
		}
	}
	// the contexts of all cases plus the options holding val (nil: absent)
	placedWith := func(val any) []placed {
		var ls []tleaf
		seen := map[string]bool{}
		for _, c := range cs {
			for _, l := range c.ctx {
				if _, isOption := options[l.path]; !isOption && !seen[l.path] {
					seen[l.path] = true
					ls = append(ls, l)
				}
			}
		}
		if val != nil {
			for _, c := range cs {
				ls = append(ls, tleaf{path: c.option, v: val})
			}
		}
		return toPlaced(ls, func(l tleaf) (any, bool) { return l.v, true })
	}
	refYAML := toYAML(build(placedWith(text)))
	ref := w.load(refYAML, nil)
	r.Count("loads_with_file", 1)
	if mech {
		w.checkUsable(ref)
	}
	if !ref.usable() {
		if len(cs) > 1 {
			separately()
			return
		}
		// the text is no valid value of this option: nothing to compare
		r.Count("unquoted_value_cases_not_valid_from_file", 1)
		return
	}
	reading, kind, isNull := yamlReading(text)
	plans := []struct {
		name string
		file []placed
	}{{"options absent from the file", placedWith(nil)}, {"another value in the file", placedWith("filevalue")}}
	if conflictOnly {
		plans = plans[1:]
	}
	for _, plan := range plans {
		fileYAML := toYAML(build(plan.file))
		if fileYAML != "" {
			valid, known := h.validFiles[fileYAML]
			if !known {
				valid = w.validate(fileYAML) == nil
				h.validFiles[fileYAML] = valid
			}
			if !valid {
				if len(cs) > 1 {
					separately()
					return
				}
				continue // the file part alone is no valid file (option required by the schema)
			}
		}
		var vars []envVar
		for _, c := range cs {
			vars = append(vars, envVar{envName(parsePath(c.option)), text})
		}
		obs := w.load(fileYAML, vars)
		if fileYAML == "" {
			r.Count("loads_env_only", 1)
		} else {
			r.Count("loads_with_file", 1)
		}
		if !obs.loaded() && len(cs) > 1 {
			separately()
			return
		}
		r.Count("unquoted_value_loads", 1)
		r.Count("unquoted_value_options_given_text_yaml_reads_as_"+kind, len(cs))
		for _, c := range cs {
			r.Case("unquoted|"+c.option+"|"+text+"|"+plan.name, true)
		}
		name := cs[0].option
		if len(cs) > 1 {
			name = fmt.Sprintf("%d string options of the static configuration", len(cs))
		}
		rep := caseReport{Case: "unquoted-value:" + name, Plan: "unquoted value in the environment, " + plan.name, File: fileYAML, Env: vars, Intended: refYAML,
			Expected: "as the file holding the same text (quoted): " + strconv.Quote(text)}
		if !obs.loaded() {
			rep.Observed = "load error: " + obs.LoadErr
			r.Violation(sigBareRejected, fmt.Sprintf("%s: the text %q loads from the file (quoted) and is refused as value of the environment variable (YAML reads it as %s): %s",
				name, text, kind, short(obs.LoadErr, 160)), rep)
			continue
		}
		if mech {
			if o := obs.Leaves[cs[0].option]; isNull && o == "null" {
				rep.Observed = name + " has no value"
				r.Count("unquoted_value_options_retyped_"+kind, 1)
				r.Violation(sigBareRetyped, fmt.Sprintf("%s: the text %q given as value of the environment variable is dropped (a YAML parser cannot read it, the option has no value); the file holding the same text gives it",
					name, text), rep)
				continue
			}
			w.checkUsable(obs)
			if !obs.usable() {
				rep.Observed = obs.UseErr
				sig := sigBareDiffers
				if strings.Contains(obs.UseErr, "expected type 'string', got unconvertible type") || strings.Contains(obs.UseErr, "expected type 'template.Template', got '") {
					sig = sigBareMech
				}
				r.Violation(sig, fmt.Sprintf("%s: the text %q is usable from the file (quoted); as value of the environment variable (YAML reads it as %s) the mechanism catalogue cannot be built: %s",
					name, text, kind, short(obs.UseErr, 400)), rep)
				continue
			}
		}
		// the canonical form of an untyped mechanism option carries the YAML type: compare the text
		textOf := func(l string) string {
			if i := strings.IndexByte(l, ':'); mech && i >= 0 {
				return "s:" + l[i+1:]
			}
			return l
		}
		equal := len(cs)
		var retyped []leafDiff
		for _, d := range describeDiff(ref.Leaves, obs.Leaves, 1000) {
			if textOf(d.Expected) == textOf(d.Observed) {
				continue
			}
			rep.Diff = []leafDiff{d}
			rep.Observed = fmt.Sprintf("%s = %s", d.Path, d.Observed)
			if _, isOption := options[d.Path]; !isOption {
				r.Violation(sigBareDiffers, fmt.Sprintf("%s: the text %q as value of the environment variable: %s expected %s observed %s", name, text, d.Path, d.Expected, d.Observed), rep)
				continue
			}
			equal--
			want := "s:" + reading
			if isNull {
				// "no value": the option keeps its default
				want = "s:"
				if dv, ok := h.defaults.Leaves[d.Path]; ok {
					want = dv
				}
			}
			if textOf(d.Observed) == want {
				retyped = append(retyped, d)
				continue
			}
			r.Violation(sigBareDiffers, fmt.Sprintf("%s: the text %q as value of the environment variable: expected %s observed %s", d.Path, text, d.Expected, d.Observed), rep)
		}
		if len(retyped) > 0 {
			// exactly what YAML typing of the text followed by the weak conversion to string gives
			rep.Diff = retyped
			rep.Observed = fmt.Sprintf("%d options hold %s", len(retyped), retyped[0].Observed)
			r.Count("unquoted_value_options_retyped_"+kind, len(retyped))
			r.Violation(sigBareRetyped, fmt.Sprintf("%s (and %d other options): the text %q given as value of the environment variable arrives as %s (YAML reads the text as %s); the file holding the same text gives %s",
				retyped[0].Path, len(retyped)-1, text, retyped[0].Observed, kind, retyped[0].Expected), rep)
		}
		r.Count("unquoted_value_options_equal_to_quoted_file_value", equal)
	}
}
