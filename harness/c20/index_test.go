package c20

import (
	"fmt"
	"math/rand/v2"
	"strconv"
	"strings"

	"github.com/dadrus/heimdall/internal/verif/vkit/core"
)

// Index spellings: "numeric segments as list indices". The generated configurations have short lists
// and the harness writes every index without padding. Here lists with more than ten elements are
// given (a) completely by the environment, (b) by the file with one element overridden by the
// environment, (c) by the file up to an element, the rest appended by the environment; every plan is
// loaded with the indices in the variable names written plainly (`_8_`, `_10_`), zero-padded to two
// and three digits (`_08_`, `_010_`: the usual way to keep more than ten variables sorted) and with
// the width chosen per variable. The spelling of an index must not change which element is addressed.
//
// The documentation is silent about leading zeros; on the unchanged tree every all-digit segment is
// read as a decimal number (`^\d+$` + strconv.Atoi: `_08` is element 8, `_010` element 10), which is
// recorded as an assumption.
const sigIndexSpelling = "env-index-spelling-changes-addressed-element"

type spelling struct {
	name string
	f    func(i int, rng *rand.Rand) string
}

var spellings = []spelling{
	{"zero-padded to two digits", func(i int, _ *rand.Rand) string { return fmt.Sprintf("%02d", i) }},
	{"zero-padded to three digits", func(i int, _ *rand.Rand) string { return fmt.Sprintf("%03d", i) }},
	{"width chosen per variable (one to four digits)", func(i int, rng *rand.Rand) string { return fmt.Sprintf("%0*d", 1+rng.IntN(4), i) }},
}

func envNameSpelled(p []seg, sp spelling, rng *rand.Rand) string {
	parts := make([]string, len(p))
	for i, s := range p {
		if s.Idx {
			parts[i] = sp.f(s.I, rng)
		} else {
			parts[i] = strings.ToUpper(strings.ReplaceAll(s.K, "_", "__"))
		}
	}
	return envPrefix + strings.Join(parts, "_")
}

// indexCatalogue is a configuration with one long list; elemOf tells which element of that list a
// leaf belongs to (-1: none).
type indexCatalogue struct {
	name   string
	leaves []tleaf // alt = the value an override gives the leaf (nil: the leaf is never overridden)
	n      int     // elements of the long list
	elemOf func(l tleaf) int
}

func indexCatalogues(rng *rand.Rand) []indexCatalogue {
	var out []indexCatalogue
	elemAt := func(prefix string) func(l tleaf) int {
		return func(l tleaf) int {
			if !strings.HasPrefix(l.path, prefix+".") {
				return -1
			}
			n, err := strconv.Atoi(strings.SplitN(strings.TrimPrefix(l.path, prefix+"."), ".", 2)[0])
			if err != nil {
				return -1
			}
			return n
		}
	}
	withAlt := func(ls []tleaf, alt any) []tleaf {
		ls[len(ls)-1].alt = alt
		return ls
	}
	base := cat(kv("mechanisms.authenticators.0", "id", "a0", "type", "anonymous"), kv("mechanisms.finalizers.0", "id", "f0", "type", "noop"))
	{
		// list of scalars
		c := indexCatalogue{name: "serve.decision.trusted_proxies (scalars)", n: 11 + rng.IntN(4), elemOf: elemAt("serve.decision.trusted_proxies")}
		for i := 0; i < c.n; i++ {
			c.leaves = append(c.leaves, withAlt(kv("serve.decision.trusted_proxies", strconv.Itoa(i), fmt.Sprintf("10.%d.0.0/16", i)), fmt.Sprintf("172.16.%d.0/24", i))...)
		}
		out = append(out, c)
	}
	{
		// list of mappings with a nested option map
		c := indexCatalogue{name: "mechanisms.authenticators (mappings)", n: 11 + rng.IntN(3), elemOf: elemAt("mechanisms.authenticators")}
		c.leaves = kv("mechanisms.finalizers.0", "id", "f0", "type", "noop")
		for i := 0; i < c.n; i++ {
			p := "mechanisms.authenticators." + strconv.Itoa(i)
			c.leaves = append(c.leaves, withAlt(kv(p, "id", fmt.Sprintf("auth%d", i), "type", "anonymous", "config.subject", fmt.Sprintf("anon%d", i)), fmt.Sprintf("other%d", i))...)
		}
		out = append(out, c)
	}
	{
		// a long list inside a list element (the index under test is the second one in the name)
		const p = "mechanisms.authenticators.1.config.authentication_data_source"
		c := indexCatalogue{name: "authentication_data_source inside mechanisms.authenticators.1 (mappings inside a list element)", n: 11 + rng.IntN(2), elemOf: elemAt(p)}
		c.leaves = cat(base, kv("mechanisms.authenticators.1", "id", "a1", "type", "generic", "config.identity_info_endpoint.url", "http://foo.bar/x", "config.subject.id", "sub"))
		for i := 0; i < c.n; i++ {
			c.leaves = append(c.leaves, withAlt(kv(p, strconv.Itoa(i)+".header", fmt.Sprintf("x-session-%d", i)), fmt.Sprintf("x-other-%d", i))...)
		}
		out = append(out, c)
	}
	{
		// the default rule's pipeline: every step refers to its own mechanism
		c := indexCatalogue{name: "default_rule.execute (mappings referring to mechanisms)", n: 11 + rng.IntN(2), elemOf: elemAt("default_rule.execute")}
		c.leaves = cat(base, kv("default_rule.execute.0", "authenticator", "a0"), kv("mechanisms.contextualizers.0", "id", "cx", "type", "generic", "config.endpoint.url", "http://foo.bar/x"))
		for i := 1; i < c.n; i++ {
			id := fmt.Sprintf("c%d", i)
			c.leaves = append(c.leaves, kv("mechanisms.contextualizers."+strconv.Itoa(i), "id", id, "type", "generic", "config.endpoint.url", "http://foo.bar/"+id)...)
			c.leaves = append(c.leaves, withAlt(kv("default_rule.execute."+strconv.Itoa(i), "contextualizer", id), "cx")...)
		}
		out = append(out, c)
	}
	return out
}

func (h *harness) indexSpellings() {
	r := h.r
	r.Assume("the documentation does not say how a list index with leading zeros in a variable name is read; every all-digit segment is taken as a decimal " +
		"number (`_08` is element 8, `_010` element 10), which is what the unchanged loader does (`^\\d+$` + strconv.Atoi)")
	rng := r.Stream("index-spellings")
	for _, c := range indexCatalogues(rng) {
		type plan struct {
			name     string
			intended []placed
			p        parts
			generic  string
		}
		var plans []plan
		mkPlan := func(name, generic string, mode func(l tleaf) int) {
			pl := plan{name: name, generic: generic, p: parts{filePath: map[string]bool{}}}
			for _, l := range c.leaves {
				path := parsePath(l.path)
				switch mode(l) {
				case mFile:
					pl.intended = append(pl.intended, placed{path, l.v})
					pl.p.file = append(pl.p.file, placed{path, l.v})
				case mEnv:
					pl.intended = append(pl.intended, placed{path, l.v})
					pl.p.env = append(pl.p.env, envLeaf{path, envVar{envName(path), envValue(l.v, false)}})
				case mBoth:
					pl.intended = append(pl.intended, placed{path, l.alt})
					pl.p.file = append(pl.p.file, placed{path, l.v})
					pl.p.env = append(pl.p.env, envLeaf{path, envVar{envName(path), envValue(l.alt, false)}})
					pl.p.nBoth++
				}
			}
			for _, f := range pl.p.file {
				for i := 1; i <= len(f.Path); i++ {
					pl.p.filePath[pathString(f.Path[:i])] = true
				}
			}
			plans = append(plans, pl)
		}
		mkPlan("all-env", sigAllEnv, func(tleaf) int { return mEnv })
		over := map[int]bool{0: true, 7: true, 8: true, 9: true, 10: true, c.n - 1: true, rng.IntN(c.n): true}
		for k := 0; k < c.n; k++ {
			if !over[k] {
				continue
			}
			k := k
			mkPlan(fmt.Sprintf("file complete, environment overrides element %d of %d", k, c.n), sigSplit, func(l tleaf) int {
				if c.elemOf(l) == k && l.alt != nil {
					return mBoth
				}
				return mFile
			})
		}
		for _, first := range []int{8, 10} {
			first := first
			mkPlan(fmt.Sprintf("file holds elements 0..%d, environment appends %d..%d", first-1, first, c.n-1), sigSplit, func(l tleaf) int {
				if c.elemOf(l) >= first {
					return mEnv
				}
				return mFile
			})
		}

		for _, pl := range plans {
			intended := toYAML(build(pl.intended))
			exp := h.w.load(intended, nil)
			h.w.checkUsable(exp)
			r.Count("loads_with_file", 1)
			if !exp.usable() {
				r.Count("index_spelling_catalogues_not_usable_from_file", 1)
				fmt.Printf("[verif] C20 note: index spelling catalogue %s not usable from file: %s%s\n", c.name, exp.LoadErr, exp.UseErr)
				break
			}
			fileYAML := toYAML(build(pl.p.file))
			t := findTriggers(pl.p)
			if h.listDefectsAbsent {
				t = triggers{}
			}
			fileOnly := func() map[string]string {
				if fileYAML == "" {
					return h.defaults.Leaves
				}
				if o := h.w.load(fileYAML, nil); o.loaded() {
					return o.Leaves
				}
				return map[string]string{}
			}
			// reference: the indices written plainly. Judged by the existing oracles (lists with more than ten elements).
			refOK, nOrd := true, 2
			if len(pl.p.env) == 1 {
				nOrd = 1
			}
			for _, ord := range orders(len(pl.p.env), nOrd, rng) {
				vars := envIn(ord, pl.p.env)
				obs := h.w.load(fileYAML, vars)
				r.Count("index_spelling_loads_plain_decimal", 1)
				r.Case(core.Hash([]any{fileYAML, vars}), true)
				rep := caseReport{Case: "index:" + c.name, Plan: pl.name + ", indices written plainly", File: fileYAML, Env: vars, Intended: intended}
				if !h.judge(rep, pl.generic, exp, obs, t, pl.p.env, fileOnly) {
					refOK = false
				}
			}
			if !refOK {
				r.Count("index_spelling_plans_skipped_because_plain_spelling_differs", 1)
				continue
			}
			r.Count("index_spelling_plans", 1)
			if c.n > 10 {
				r.Count("index_spelling_plans_with_more_than_ten_elements", 1)
			}
			for _, sp := range spellings {
				for _, ord := range orders(len(pl.p.env), nOrd, rng) {
					vars := envIn(ord, pl.p.env)
					padded := 0
					for i, k := range ord {
						vars[i].Name = envNameSpelled(pl.p.env[k].Path, sp, rng)
						if vars[i].Name != pl.p.env[k].Var.Name {
							padded++
						}
					}
					obs := h.w.load(fileYAML, vars)
					r.Count("index_spelling_loads", 1)
					r.Count("index_spelling_variables_with_leading_zeros", padded)
					r.Case(core.Hash([]any{fileYAML, vars}), padded > 0)
					rep := caseReport{Case: "index:" + c.name, Plan: pl.name + ", indices " + sp.name, File: fileYAML, Env: vars, Intended: intended,
						Expected: "the configuration obtained with the indices written plainly (equal to the all-file load, see intended_configuration_yaml)"}
					switch {
					case !obs.loaded():
						rep.Observed = "load error: " + obs.LoadErr
						r.Violation(sigIndexSpelling, fmt.Sprintf("%s (%s): loads with the indices written plainly, fails with indices %s: %s", c.name, pl.name, sp.name, short(obs.LoadErr, 120)), rep)
					case obs.Canon != exp.Canon:
						rep.Diff = describeDiff(exp.Leaves, obs.Leaves, 12)
						rep.Observed = fmt.Sprintf("%d leaves differ", len(diffLeaves(exp.Leaves, obs.Leaves)))
						r.Violation(sigIndexSpelling, fmt.Sprintf("%s (%s): indices %s address other elements than the same indices written plainly: %s expected %s observed %s",
							c.name, pl.name, sp.name, rep.Diff[0].Path, rep.Diff[0].Expected, rep.Diff[0].Observed), rep)
					default:
						r.Count("index_spelling_loads_equal", 1)
					}
				}
			}
		}
	}
}
