package c20

import (
	"fmt"
	"strings"

	"github.com/dadrus/heimdall/internal/verif/vkit/core"
)

// Keys that start with a digit: "numeric segments as list indices". The names in the free-form maps of the
// configuration (values of contextualizers and authorizers, header maps of endpoints and of the header finalizer)
// are chosen by the user and may start with a digit without being a number (`2fa`, `3ds_mode`, `1st-key`). In a
// file such a name is a key of the map; by the documented rule the segment of the variable name
// (`..._VALUES_2FA`, `..._VALUES_3DS__MODE`) is a key as well, because only numeric segments are indices. Every
// such key is given by one environment variable (added to the map of the file, over another value in the file,
// as the only entry of a map absent from the file) and compared with the file holding the same key.
// Purely numeric names are not used: for them the rule says index.
const sigDigitKey = "env-map-key-starting-with-digit-differs-from-file"

var digitKeys = []string{"2fa", "3ds_mode", "1st-key", "007x", "4_eyes", "10th", "5g_", "k1", "x2"}

type freeMap struct {
	name     string
	base     []tleaf // a usable configuration without the map
	path     string  // the free-form map
	required bool    // the mechanism is not usable without an entry in the map
}

func freeMaps() []freeMap {
	anon := kv("mechanisms.authenticators.0", "id", "a0", "type", "anonymous")
	return []freeMap{
		{name: "values of a generic contextualizer", path: "mechanisms.contextualizers.0.config.values",
			base: cat(anon, kv("mechanisms.contextualizers.0", "id", "cx", "type", "generic", "config.endpoint.url", "http://foo.bar/x"))},
		{name: "endpoint headers of a generic contextualizer", path: "mechanisms.contextualizers.0.config.endpoint.headers",
			base: cat(anon, kv("mechanisms.contextualizers.0", "id", "cx", "type", "generic", "config.endpoint.url", "http://foo.bar/x"))},
		{name: "values of a remote authorizer", path: "mechanisms.authorizers.0.config.values",
			base: cat(anon, kv("mechanisms.authorizers.0", "id", "az", "type", "remote", "config.endpoint.url", "http://foo.bar/x", "config.payload", "a=b"))},
		{name: "headers of a header finalizer (second element of its list)", path: "mechanisms.finalizers.1.config.headers", required: true,
			base: cat(anon, kv("mechanisms.finalizers.0", "id", "f0", "type", "noop"), kv("mechanisms.finalizers.1", "id", "f1", "type", "header"))},
		{name: "identity info endpoint headers of a generic authenticator", path: "mechanisms.authenticators.1.config.identity_info_endpoint.headers",
			base: cat(anon, kv("mechanisms.authenticators.1", "id", "a1", "type", "generic", "config.identity_info_endpoint.url", "http://foo.bar/id",
				"config.authentication_data_source.0.header", "x-session", "config.subject.id", "sub"))},
	}
}

func (h *harness) digitKeys() {
	r := h.r
	for _, m := range freeMaps() {
		for _, key := range digitKeys {
			leafPath := m.path + "." + key
			other := kv(m.path, "x-base", "base-value")
			intendedWith := func(others bool) string {
				ls := cat(m.base, kv(m.path, key, "the-value"))
				if others {
					ls = cat(ls, other)
				}
				return toYAML(build(toPlaced(ls, func(l tleaf) (any, bool) { return l.v, true })))
			}
			fileOf := func(ls []tleaf) string {
				return toYAML(build(toPlaced(ls, func(l tleaf) (any, bool) { return l.v, true })))
			}
			plans := []struct {
				name, file, intended string
			}{
				{"file holds the map with another key, the environment adds the key", fileOf(cat(m.base, other)), intendedWith(true)},
				{"file holds the key with another value, the environment overrides it", fileOf(cat(m.base, other, kv(m.path, key, "file-value"))), intendedWith(true)},
			}
			if !m.required {
				plans = append(plans, struct{ name, file, intended string }{"map absent from the file, the environment gives its only key", fileOf(m.base), intendedWith(false)})
			}
			vars := []envVar{{Name: envName(parsePath(leafPath)), Value: "the-value"}}
			digitFirst := key[0] >= '0' && key[0] <= '9'
			for _, pl := range plans {
				exp := h.w.load(pl.intended, nil)
				h.w.checkUsable(exp)
				r.Count("loads_with_file", 1)
				if !exp.usable() {
					r.Count("digit_key_catalogues_not_usable_from_file", 1)
					fmt.Printf("[verif] C20 note: digit key catalogue %s (%s) not usable from file: %s%s\n", m.name, key, exp.LoadErr, exp.UseErr)
					continue
				}
				if _, ok := exp.Leaves[leafPath]; !ok {
					r.Count("digit_key_not_a_map_key_in_file_form", 1)
					fmt.Printf("[verif] C20 note: digit key catalogue %s: the file form has no leaf %s\n", m.name, leafPath)
					continue
				}
				obs := h.w.load(pl.file, vars)
				r.Count("loads_with_file", 1)
				r.Count("digit_key_loads", 1)
				if digitFirst {
					r.Count("env_variables_with_non_numeric_segment_starting_with_digit", 1)
				}
				if strings.Contains(key, "_") {
					r.Count("env_variables_with_digit_first_segment_and_literal_underscore", 1)
				}
				r.Case(core.Hash([]any{"digit-key", pl.file, vars}), digitFirst)
				rep := caseReport{Case: "digit-key:" + m.name + ":" + key, Plan: pl.name, File: pl.file, Env: vars, Intended: pl.intended,
					Expected: "the configuration obtained from the file holding the same key (see intended_configuration_yaml)"}
				switch {
				case !obs.loaded():
					rep.Observed = "load error: " + obs.LoadErr
					r.Violation(sigDigitKey, fmt.Sprintf("%s: key %q given by %s: %s: the load fails: %s", m.name, key, vars[0].Name, pl.name, short(obs.LoadErr, 140)), rep)
				case obs.Canon != exp.Canon:
					rep.Diff = describeDiff(exp.Leaves, obs.Leaves, 12)
					rep.Observed = fmt.Sprintf("%d leaves differ", len(diffLeaves(exp.Leaves, obs.Leaves)))
					r.Violation(sigDigitKey, fmt.Sprintf("%s: key %q given by %s (%s) does not arrive as in the file: %s expected %s observed %s",
						m.name, key, vars[0].Name, pl.name, rep.Diff[0].Path, rep.Diff[0].Expected, rep.Diff[0].Observed), rep)
				default:
					r.Count("digit_key_loads_equal", 1)
					h.w.checkUsable(obs)
					if !obs.usable() {
						r.Violation(sigUsable, "equal configuration values but different usability: "+obs.UseErr, rep)
					}
				}
			}
		}
	}
}
