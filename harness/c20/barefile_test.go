package c20

import (
	"fmt"
	"strconv"
	"strings"
)

// Unquoted values in the FILE. toYAML writes every string the way a YAML writer does: it quotes what could be read as
// another type, also by older parsers (`"no"`, `"0123"`). A person writes `subject: no`, `realm: Yes`, `user_id: off`.
// What such a plain scalar is, is decided by the YAML version of the parser: the loader reads the file and types the
// environment values with a YAML 1.2 parser (yaml.v3), for which `yes no on off y n` in all spellings, sexagesimal
// numbers (`1:30`) and the like are strings. For every text that this parser reads as the very string (yamlReading),
// the plain scalar in the file, the quoted scalar in the file and the value of the environment variable describe the
// same configuration: every string option of the static configuration and the string options of the mechanisms get the
// text in these three ways, the results must be equal (and the file accepted by the schema in both forms). Texts that
// the loader's parser reads as another type are the subject of unquotedValues (open findings) and are not judged here.
const (
	sigBareFileSchema  = "unquoted-file-value-rejected-by-schema-for-string-option"
	sigBareFileDiffers = "unquoted-file-value-differs-from-quoted-file-value"
)

// fileBareValues: bareValues plus further texts whose type depends on the YAML version or dialect
var fileBareValues = append(append([]string{}, bareValues...),
	"n", "N", "Y", "Yes", "No", "YES", "NO", "On", "Off", "ON", "OFF", // booleans of YAML 1.1 only, other spellings
	"017", "0b1", "0x_1f", "1_000.5", "+.5", "0.", // numbers of one of the versions
	"1:30", "190:20:30", "-1:30.5", // sexagesimal
	".inf", "-.INF", ".NaN", "<<", "=", "2001-12-14", // infinity, not a number, merge key, value key, timestamp
)

const rawMarker = "verif-raw-scalar-placeholder"

// barePlaced: the contexts of all cases plus the options holding val (nil: absent)
func barePlaced(cs []bareCase, val any) []placed {
	options := map[string]bool{}
	for _, c := range cs {
		options[c.option] = true
	}
	var ls []tleaf
	seen := map[string]bool{}
	for _, c := range cs {
		for _, l := range c.ctx {
			if !options[l.path] && !seen[l.path] {
				seen[l.path] = true
				ls = append(ls, l)
			}
		}
	}
	if val != nil {
		for _, c := range cs {
			ls = append(ls, tleaf{path: c.option, v: val})
		}
	}
	return toPlaced(ls, func(l tleaf) (any, bool) { return l.v, true })
}

func (h *harness) unquotedFileValues() {
	r := h.r
	var texts []string
	for _, text := range fileBareValues {
		if reading, kind, _ := yamlReading(text); kind != "string" || reading != text {
			r.Count("unquoted_file_value_texts_the_loaders_yaml_parser_reads_as_another_type", 1)
			continue
		}
		texts = append(texts, text)
	}
	r.Count("unquoted_file_value_texts", len(texts))
	if len(texts) == 0 {
		return
	}
	for _, text := range texts {
		h.unquotedFileRun(h.bareStatic, text)
	}
	// the options of mechanisms one by one (a catalogue reports its first error only), three texts each
	off := h.r.Stream("unquoted-file-values").IntN(len(texts))
	for i, c := range h.bareMech {
		for j := 0; j < 3 && j < len(texts); j++ {
			h.unquotedFileRun([]bareCase{c}, texts[(off+3*i+j)%len(texts)])
		}
	}
}

func (h *harness) unquotedFileRun(cs []bareCase, text string) {
	r, w := h.r, h.w
	if len(cs) == 0 {
		return
	}
	mech := cs[0].mech
	refYAML := toYAML(build(barePlaced(cs, text)))
	ref := w.load(refYAML, nil)
	r.Count("loads_with_file", 1)
	if mech {
		w.checkUsable(ref)
	}
	if !ref.usable() {
		if len(cs) > 1 {
			for _, c := range cs {
				h.unquotedFileRun([]bareCase{c}, text)
			}
			return
		}
		r.Count("unquoted_file_value_cases_not_valid_from_file", 1) // the text is no valid value of this option
		return
	}
	name := cs[0].option
	if len(cs) > 1 {
		name = fmt.Sprintf("%d string options of the static configuration", len(cs))
	}
	for _, c := range cs {
		r.Case("unquoted-in-file|"+c.option+"|"+text, true)
	}
	r.Count("unquoted_file_value_options_given_text", len(cs))

	// (1) the plain scalar in the file
	rawYAML := strings.ReplaceAll(toYAML(build(barePlaced(cs, rawMarker))), rawMarker, text)
	raw := w.load(rawYAML, nil)
	r.Count("loads_with_file", 1)
	r.Count("unquoted_file_value_loads", 1)
	rep := caseReport{Case: "unquoted-file-value:" + name, Plan: "plain (unquoted) scalar in the file", File: rawYAML, Intended: refYAML,
		Expected: "as the file holding the same text quoted (the loader's YAML parser reads the plain scalar as the string " + strconv.Quote(text) + ")"}
	if mech && raw.loaded() {
		w.checkUsable(raw)
	}
	switch {
	case !raw.loaded() && raw.Schema:
		rep.Observed = "file rejected by the schema: " + raw.LoadErr
		r.Violation(sigBareFileSchema, fmt.Sprintf("%s: the text %q is accepted quoted in the file and as value of the environment variable; written plainly in the file (a string for the loader's YAML parser) the schema refuses it: %s",
			name, text, short(raw.LoadErr, 300)), rep)
		return
	case !raw.usable():
		rep.Observed = "load error: " + raw.LoadErr + raw.UseErr
		r.Violation(sigBareFileDiffers, fmt.Sprintf("%s: the text %q is usable quoted in the file, written plainly it is not: %s", name, text, short(raw.LoadErr+raw.UseErr, 300)), rep)
		return
	}
	if ds := describeDiff(ref.Leaves, raw.Leaves, 12); len(ds) > 0 {
		rep.Diff, rep.Observed = ds, fmt.Sprintf("%s = %s", ds[0].Path, ds[0].Observed)
		r.Violation(sigBareFileDiffers, fmt.Sprintf("%s: the text %q written plainly in the file: %s expected %s observed %s", name, text, ds[0].Path, ds[0].Expected, ds[0].Observed), rep)
		return
	}
	r.Count("unquoted_file_value_loads_equal_to_quoted_file_value", 1)

	// (2) the same text as value of the environment variables, over another value in the file
	fileYAML := toYAML(build(barePlaced(cs, "filevalue")))
	valid, known := h.validFiles[fileYAML]
	if !known {
		valid = w.validate(fileYAML) == nil
		h.validFiles[fileYAML] = valid
	}
	if !valid {
		return
	}
	var vars []envVar
	for _, c := range cs {
		vars = append(vars, envVar{envName(parsePath(c.option)), text})
	}
	obs := w.load(fileYAML, vars)
	r.Count("loads_with_file", 1)
	r.Count("unquoted_file_value_loads_compared_with_environment", 1)
	rep = caseReport{Case: "unquoted-file-value:" + name, Plan: "unquoted value in the environment, another value in the file", File: fileYAML, Env: vars, Intended: rawYAML,
		Expected: "as the file holding the same text as plain scalar: " + strconv.Quote(text)}
	if mech && obs.loaded() {
		w.checkUsable(obs)
	}
	if !obs.usable() {
		rep.Observed = "load error: " + obs.LoadErr + obs.UseErr
		r.Violation(sigBareRejected, fmt.Sprintf("%s: the text %q is usable as plain scalar in the file and refused as value of the environment variable: %s", name, text, short(obs.LoadErr+obs.UseErr, 300)), rep)
		return
	}
	if ds := describeDiff(raw.Leaves, obs.Leaves, 12); len(ds) > 0 {
		rep.Diff, rep.Observed = ds, fmt.Sprintf("%s = %s", ds[0].Path, ds[0].Observed)
		r.Violation(sigBareDiffers, fmt.Sprintf("%s: the text %q as value of the environment variable: %s expected %s (plain scalar in the file) observed %s", name, text, ds[0].Path, ds[0].Expected, ds[0].Observed), rep)
		return
	}
	r.Count("unquoted_file_value_loads_equal_to_environment_value", 1)
}
