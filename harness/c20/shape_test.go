package c20

import (
	"fmt"
	"net"
	"net/url"
	"regexp"
	"sort"
	"strconv"
	"strings"
	"time"
)

// Value shapes: options whose values have a documented form (IP addresses and address ranges in CIDR notation, the Duration
// and ByteSize types of configuration/types.adoc, URLs) are given every class of that form - IPv4 and IPv6 addresses in all
// their notations, ranges with every kind of prefix length up to /32 and /128, every unit of the duration and size types with
// numbers of one to six digits, URLs with ports, user info, IPv6 hosts, queries and fragments - once by file and once by
// environment. Which values are valid is decided here by the definition the documentation refers to (net.ParseIP /
// net.ParseCIDR, the documented patterns), not by the schema or the loader. A valid value must be accepted by the file
// schema, must load from the environment, and both must give the value the harness computes.

var (
	docDuration = regexp.MustCompile(`^[0-9]+(ns|us|ms|s|m|h)$`) // types.adoc, Duration
	docByteSize = regexp.MustCompile(`^[0-9]+(B|KB|MB)$`)        // types.adoc, ByteSize
)

func ipShapes() []string {
	vs := []string{
		"10.0.0.1", "0.0.0.0", "255.255.255.255", "192.168.001.1",
		"::1", "::", "2001:db8::1", "2001:DB8::A", "2001:0db8:0000:0000:0000:0000:0000:0001", "1:2:3:4:5:6:7:8", "fe80::1", "::ffff:10.0.0.1", "64:ff9b::192.0.2.33",
	}
	for _, n := range []int{0, 1, 8, 9, 10, 16, 24, 31, 32} {
		vs = append(vs, fmt.Sprintf("10.0.0.0/%d", n))
	}
	for _, n := range []int{0, 7, 8, 10, 32, 48, 64, 96, 99, 100, 104, 112, 120, 127, 128} {
		vs = append(vs, fmt.Sprintf("2001:db8::/%d", n))
	}
	vs = append(vs, "::1/128", "2001:db8::1/128", "::/0", "::ffff:10.0.0.0/104", "fd00::/8", "192.168.1.17/32")
	var out []string
	for _, v := range vs {
		// valid = what the documentation asks for: an IP address or an address range in CIDR notation
		_, _, err := net.ParseCIDR(v)
		if net.ParseIP(v) != nil || err == nil {
			out = append(out, v)
		}
	}
	return out
}

func durationShapes() map[string]string {
	out := map[string]string{}
	for _, u := range []string{"ns", "us", "ms", "s", "m", "h"} {
		for _, n := range []string{"0", "7", "45", "300", "86400", "007"} {
			v := n + u
			if d, err := time.ParseDuration(v); err == nil && docDuration.MatchString(v) {
				out[v] = "i:" + strconv.FormatInt(int64(d), 10)
			}
		}
	}
	return out
}

func sizeShapes() map[string]string {
	out := map[string]string{}
	for u, f := range map[string]int64{"B": 1, "KB": 1 << 10, "MB": 1 << 20} {
		for _, n := range []int64{0, 1, 64, 512, 1024, 100000} {
			if v := strconv.FormatInt(n, 10) + u; docByteSize.MatchString(v) {
				out[v] = "i:" + strconv.FormatInt(n*f, 10)
			}
		}
	}
	return out
}

func urlShapes() []string {
	var out []string
	for _, v := range []string{
		"http://foo.bar", "http://foo.bar/", "https://foo.bar:8443/a/b", "http://127.0.0.1:8080/x", "http://[::1]:8080/x", "http://[2001:db8::1]/x",
		"http://user:pw@foo.bar/x", "http://foo.bar/x?a=b&c=d", "http://foo.bar/x#frag", "http://foo.bar/a%20b", "HTTP://FOO.BAR/X", "http://foo.bar/x;p=1",
		"http://foo-bar.example.co.uk/~user/", "https://xn--bcher-kva.example/", "http://foo.bar:80", "http://localhost/a/b/c/d/e/f/g/h/i/j/k/l/m/n/o/p",
	} {
		if u, err := url.Parse(v); err == nil && u.Host != "" && u.Scheme != "" {
			out = append(out, v)
		}
	}
	return out
}

type shapeGroup struct {
	name   string
	list   bool              // the options are lists of such values
	paths  []string          // options of the static configuration holding such a value
	values map[string]string // value -> canonical form of the loaded option
}

func (h *harness) shapeGroups() []shapeGroup {
	ips := map[string]string{}
	for _, v := range ipShapes() {
		ips[v] = "s:" + v
	}
	gs := []shapeGroup{{name: "trusted_proxies", list: true, values: ips}, {name: "duration", values: durationShapes()}, {name: "byte-size", values: sizeShapes()}}
	for _, svc := range []string{"decision", "proxy", "management"} {
		gs[0].paths = append(gs[0].paths, "serve."+svc+".trusted_proxies")
		gs[1].paths = append(gs[1].paths, "serve."+svc+".timeout.read", "serve."+svc+".timeout.write", "serve."+svc+".timeout.idle")
		gs[2].paths = append(gs[2].paths, "serve."+svc+".buffer_limit.read", "serve."+svc+".buffer_limit.write")
	}
	gs[1].paths = append(gs[1].paths, "serve.proxy.cors.max_age", "serve.management.cors.max_age")
	return gs
}

type shapeReport struct {
	Option    string   `json:"option"`
	Value     string   `json:"value"`
	Valid     string   `json:"valid_because"`
	File      string   `json:"file_form_yaml"`
	Env       []envVar `json:"environment_form_variables"`
	SchemaErr string   `json:"schema_error,omitempty"`
	FileErr   string   `json:"file_load_error,omitempty"`
	EnvErr    string   `json:"environment_load_error,omitempty"`
	Expected  string   `json:"expected_loaded_value"`
	FromFile  string   `json:"loaded_value_from_file,omitempty"`
	FromEnv   string   `json:"loaded_value_from_environment,omitempty"`
}

func shapeClass(group, v string) string {
	if group != "trusted_proxies" {
		return "unit-" + strings.TrimLeft(v, "0123456789")
	}
	class := "ipv4"
	if strings.Contains(v, ":") {
		class = "ipv6"
	}
	if strings.Contains(v, "/") {
		return class + "-range"
	}
	return class + "-address"
}

type shapeCase struct {
	group, option, value, want string
	element                    bool // the option is an element of a list
}

func (c shapeCase) envVar() envVar {
	// the text itself where YAML reads it as that string, the quoted YAML scalar otherwise
	val := envValue(c.value, true)
	if reading, kind, _ := yamlReading(c.value); kind == "string" && reading == c.value {
		val = c.value
	}
	return envVar{envName(parsePath(c.option)), val}
}

// valueShapes gives every option of a group every value of the group. One load carries one value for every option (the
// values rotate, lists hold several), first from a file, then from the environment; only if such a pair of loads is not
// what the harness expects the cases it holds are repeated one by one to find the option and the value.
func (h *harness) valueShapes() {
	r, w := h.r, h.w
	groups := h.shapeGroups()
	rounds := 0
	sorted := map[string][]string{}
	for _, g := range groups {
		vs := make([]string, 0, len(g.values))
		for v := range g.values {
			vs = append(vs, v)
		}
		sort.Strings(vs)
		sorted[g.name] = vs
		if len(vs) > rounds && !g.list {
			rounds = len(vs)
		}
	}
	for k := 0; k < rounds; k++ {
		var batch []shapeCase
		for _, g := range groups {
			vs := sorted[g.name]
			for i, p := range g.paths {
				if !g.list {
					v := vs[(k+i)%len(vs)]
					batch = append(batch, shapeCase{g.name, p, v, g.values[v], false})
					continue
				}
				// a list takes its share of the values in every round (one element per round while list reconstruction is broken)
				per := (len(vs) + rounds - 1) / rounds
				if !h.listDefectsAbsent {
					per = 1
				}
				for j := 0; j < per; j++ {
					v := vs[(k*per+j+i*7)%len(vs)]
					batch = append(batch, shapeCase{g.name, p + "." + strconv.Itoa(j), v, g.values[v], true})
				}
			}
		}
		var file []placed
		var vars []envVar
		for _, c := range batch {
			file = append(file, placed{parsePath(c.option), c.value})
			vars = append(vars, c.envVar())
			r.Count("value_shape_cases", 1)
			r.Count("value_shape_cases_"+c.group+"_"+shapeClass(c.group, c.value), 1)
			r.Case("shape|"+c.option+"|"+c.value, true)
		}
		fo := w.load(toYAML(build(file)), nil)
		eo := w.load("", vars)
		r.Count("loads_with_file", 1)
		r.Count("loads_env_only", 1)
		r.Count("value_shape_rounds", 1)
		ok := fo.loaded() && eo.loaded() && fo.Canon == eo.Canon
		for _, c := range batch {
			ok = ok && fo.Leaves[c.option] == c.want
		}
		if ok {
			r.Count("value_shape_cases_equal_from_file_and_environment", len(batch))
			continue
		}
		for _, c := range batch {
			h.shapeSingle(c)
		}
	}
}

func (h *harness) shapeSingle(c shapeCase) {
	r, w := h.r, h.w
	p, v := c.option, c.value
	if c.element {
		p = p[:strings.LastIndexByte(p, '.')] + ".0" // alone in its list
	}
	fileYAML := toYAML(build([]placed{{parsePath(p), v}}))
	c.option = p
	vars := []envVar{c.envVar()}
	rep := shapeReport{Option: p, Value: v, Valid: "a " + c.group + " value as documented", File: fileYAML, Env: vars, Expected: c.want}
	// one class of values per signature: the kind of address or range, the unit
	key := "shape:" + c.group + ":" + shapeClass(c.group, v)
	eo := w.load("", vars)
	fo := w.load(fileYAML, nil)
	r.Count("loads_env_only", 1)
	r.Count("loads_with_file", 1)
	r.Count("value_shape_cases_repeated_alone", 1)
	rep.EnvErr, rep.FromEnv = eo.LoadErr, eo.Leaves[p]
	rep.FileErr, rep.FromFile = fo.LoadErr, fo.Leaves[p]
	envOK := eo.loaded() && eo.Leaves[p] == c.want
	schemaRejects := !fo.loaded() && fo.Schema
	if schemaRejects {
		rep.SchemaErr = rep.FileErr
	}
	switch {
	case schemaRejects && envOK:
		r.Violation("schema-rejects-supported:"+key, fmt.Sprintf("%s: the valid value %q is rejected by the file schema and accepted (and effective) from the environment: %s", p, v, short(rep.SchemaErr, 160)), rep)
	case schemaRejects:
		r.Violation("valid-value-rejected-by-file-and-environment:"+key, fmt.Sprintf("%s: the valid value %q is usable from neither source: %s", p, v, short(rep.SchemaErr+" / "+eo.LoadErr, 200)), rep)
	case fo.loaded() && fo.Leaves[p] == c.want && !envOK:
		r.Violation("schema-accepts-unsupported:"+key, fmt.Sprintf("%s: the valid value %q is accepted by the file schema; from the environment it gives %q (expected %s) %s", p, v, rep.FromEnv, c.want, short(eo.LoadErr, 120)), rep)
	case !fo.loaded() || !eo.loaded() || fo.Canon != eo.Canon || fo.Leaves[p] != c.want:
		r.Violation("file-env-value-differs:"+key, fmt.Sprintf("%s: the value %q (expected %s) gives %q from the file and %q from the environment %s", p, v, c.want, rep.FromFile, rep.FromEnv, short(fo.LoadErr+eo.LoadErr, 120)), rep)
	default:
		r.Count("value_shape_cases_equal_from_file_and_environment", 1)
	}
}

// shapeEntries: URLs live in the mechanisms' options, so they go through the equivalence table (mechanism catalogue built
// from the file form and from the environment form).
func (h *harness) shapeEntries() []entry {
	var es []entry
	base := cat(kv("mechanisms.authenticators.0", "id", "a0", "type", "anonymous"), kv("mechanisms.finalizers.0", "id", "f0", "type", "noop"))
	const std = "http://foo.bar/std"
	ctxs := []struct {
		name, option string
		ctx          []tleaf
	}{
		{"authenticators.generic.identity_info_endpoint.url", "mechanisms.authenticators.1.config.identity_info_endpoint.url",
			kv("mechanisms.authenticators.1", "id", "x1", "type", "generic", "config.authentication_data_source.0.cookie", "sid", "config.subject.id", "sub")},
		{"authenticators.jwt.jwks_endpoint.url", "mechanisms.authenticators.1.config.jwks_endpoint.url",
			kv("mechanisms.authenticators.1", "id", "x1", "type", "jwt", "config.assertions.issuers.0", "iss")},
		{"authorizers.remote.endpoint.url", "mechanisms.authorizers.0.config.endpoint.url", kv("mechanisms.authorizers.0", "id", "x1", "type", "remote", "config.payload", "foo")},
		{"finalizers.oauth2_client_credentials.token_url", "mechanisms.finalizers.1.config.token_url",
			kv("mechanisms.finalizers.1", "id", "x1", "type", "oauth2_client_credentials", "config.client_id", "cid", "config.client_secret", "cs")},
	}
	for i, v := range urlShapes() {
		// the endpoint options are of one type, decoded by one hook: the values take turns on them, the first ones go everywhere
		for j, c := range ctxs {
			if i >= 1 && (i+j)%len(ctxs) != 0 {
				continue
			}
			es = append(es, entry{label: "shape:" + c.name + "=" + v, doc: true, key: "shape:url=" + v,
				leaves: cat(base, c.ctx, []tleaf{{path: c.option, v: v, alt: std, opt: true}})})
		}
	}
	h.r.Count("value_shape_cases_url", len(es))
	return es
}
