package c20

import (
	"fmt"
	"strings"
	"unicode"

	"github.com/dadrus/heimdall/internal/verif/vkit/core"
)

// The environment prefix: "If not specified while starting heimdall, all variables start with `HEIMDALLCFG_`"; another prefix
// is given with `--env-config-prefix` (config.EnvVarPrefix). Names of environment variables are case-sensitive, so the
// prefix is used as it was given. Generated configurations are loaded under prefixes in upper, lower and mixed case, with
// digits and underscores, without a trailing underscore and with prefixes of which one starts with another. In every
// load the environment additionally holds decoys: the same variable names under look-alike prefixes (the other case
// variants of the prefix, the other prefixes of the pool, the prefix shortened and extended) with other values. The
// oracle is the one of the main exploration: the result equals the all-file load; a decoy that had any effect, or a
// correctly named variable that had none, shows as a difference.
const sigPrefix = "env-prefix-not-honoured"

var prefixPool = []string{"HEIMDALLCFG_", "HeimdallCfg_", "heimdallcfg_", "heimdall_", "My_App2_", "x9__", "Cfg7", "APP_", "APP_CFG_", "app_Cfg_"}

func swapCase(s string) string {
	return strings.Map(func(r rune) rune {
		if unicode.IsUpper(r) {
			return unicode.ToLower(r)
		}
		return unicode.ToUpper(r)
	}, s)
}

// lookAlikes lists the prefixes under which decoys are placed while the loader works with prefix p. None of them starts
// with p followed by the name of a configuration key, so no decoy is a variable of p by the naming rules.
func lookAlikes(p string) []string {
	seen := map[string]bool{p: true}
	var out []string
	add := func(q string) {
		if q != "" && !seen[q] {
			seen[q] = true
			out = append(out, q)
		}
	}
	add(strings.ToUpper(p))
	add(strings.ToLower(p))
	add(swapCase(p))
	add(p[1:])
	add(p + "X9_")
	add(strings.TrimSuffix(p, "_") + "X9_")
	for _, q := range prefixPool {
		add(q)
	}
	return out
}

// decoyValue is a value of another meaning than v which is harmless as long as it is ignored.
func decoyValue(v string) string {
	switch v {
	case "true":
		return "false"
	case "false":
		return "true"
	}
	if strings.HasSuffix(v, `"`) {
		return v[:len(v)-1] + `9"`
	}
	return v + "9"
}

func (h *harness) envPrefixes() {
	r := h.r
	rng := r.Stream("env-prefixes")
	for pi, prefix := range prefixPool {
		decoyPrefixes := lookAlikes(prefix)
		for k := 0; k < r.Pick(2, 6); k++ {
			// without the repaired list reconstruction only list-light configurations can be compared strictly
			g := &gen{r: rng, w: h.w, light: k%2 == 1 || !h.listDefectsAbsent}
			leaves := flatten(g.config())
			id := fmt.Sprintf("prefix-%d-cfg-%d", pi, k)
			intended := toYAML(build(makeParts(leaves, make([]int, len(leaves)), nil).file))
			exp := h.w.load(intended, nil)
			r.Count("loads_with_file", 1)
			if !exp.loaded() {
				r.Count("generated_configurations_not_usable_from_file", 1)
				continue
			}
			allEnv := make([]int, len(leaves))
			split := make([]int, len(leaves))
			for i := range leaves {
				allEnv[i] = mEnv
				split[i] = []int{mFile, mEnv, mEnv, mBoth}[rng.IntN(4)]
			}
			densify(leaves, split, true)
			for _, pl := range []struct {
				name  string
				modes []int
			}{{"all-env", allEnv}, {"split", split}} {
				p := makeParts(leaves, pl.modes, rng)
				if len(p.env) == 0 {
					continue
				}
				fileYAML := toYAML(build(p.file))
				var vars []envVar
				for _, e := range p.env {
					rest := strings.TrimPrefix(e.Var.Name, envPrefix)
					vars = append(vars, envVar{prefix + rest, e.Var.Value})
					// every variable has a decoy under one look-alike prefix, the first one under all of them
					qs := []string{decoyPrefixes[rng.IntN(len(decoyPrefixes))]}
					if len(vars) == 1 {
						qs = decoyPrefixes
					}
					for _, q := range qs {
						vars = append(vars, envVar{q + rest, decoyValue(e.Var.Value)})
						r.Count("env_prefix_decoy_variables", 1)
					}
				}
				rng.Shuffle(len(vars), func(i, j int) { vars[i], vars[j] = vars[j], vars[i] })
				obs := h.w.loadP(prefix, fileYAML, vars)
				r.Count("env_prefix_loads", 1)
				if prefix != strings.ToUpper(prefix) {
					r.Count("env_prefix_loads_with_lower_case_letters_in_prefix", 1)
				}
				r.Case(core.Hash([]any{prefix, fileYAML, vars}), true)
				rep := caseReport{Case: id, Plan: fmt.Sprintf("%s under the environment prefix %q with decoys under %q", pl.name, prefix, decoyPrefixes),
					File: fileYAML, Env: vars, Intended: intended}
				fileOnly := func() map[string]string {
					if fileYAML == "" {
						return h.defaults.Leaves
					}
					if o := h.w.load(fileYAML, nil); o.loaded() {
						return o.Leaves
					}
					return map[string]string{}
				}
				t := triggers{}
				if !h.listDefectsAbsent {
					t = findTriggers(p)
				}
				if !obs.loaded() && !obs.Schema && t.none() {
					rep.Observed = "load error: " + obs.LoadErr
					r.Violation(sigPrefix, fmt.Sprintf("%s: loads from the file, fails with the environment prefix %q: %s", pl.name, prefix, short(obs.LoadErr, 160)), rep)
					continue
				}
				if h.judge(rep, sigPrefix, exp, obs, t, p.env, fileOnly) {
					r.Count("env_prefix_loads_equal_to_all_file", 1)
				}
			}
		}
		r.Count("env_prefixes", 1)
	}
}
