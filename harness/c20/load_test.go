package c20

import (
	"crypto/ecdsa"
	"crypto/elliptic"
	"crypto/rand"
	"crypto/x509"
	"crypto/x509/pkix"
	"encoding/pem"
	"errors"
	"fmt"
	"math/big"
	"os"
	"path/filepath"
	"reflect"
	"sort"
	"strconv"
	"strings"
	"time"

	"github.com/go-jose/go-jose/v4"
	"github.com/rs/zerolog"

	"github.com/dadrus/heimdall/internal/cache"
	_ "github.com/dadrus/heimdall/internal/cache/memory" // registers the in-memory cache
	_ "github.com/dadrus/heimdall/internal/cache/redis"  // registers the redis caches
	"github.com/dadrus/heimdall/internal/config"
	"github.com/dadrus/heimdall/internal/keyholder"
	"github.com/dadrus/heimdall/internal/otel/metrics/certificate"
	"github.com/dadrus/heimdall/internal/rules"
	"github.com/dadrus/heimdall/internal/rules/mechanisms"
	"github.com/dadrus/heimdall/internal/watcher"
)

const envPrefix = "HEIMDALLCFG_"

// ---------------------------------------------------------------------------------------------
// process environment control. Everything that touches the environment runs on the test goroutine.

type envVar struct {
	Name  string `json:"name"`
	Value string `json:"value"`
}

type world struct {
	dir     string            // work directory (cwd while loading; contains no heimdall.yaml)
	saved   []string          // environment at start, restored before End()
	keep    map[string]string // variables that stay defined during loads
	pemKey  string            // key store with a private key and a certificate
	pemCert string            // trust store
	nfile   int

	cacheTypes map[string]bool // cache type -> known to the cache factory registry
}

func newWorld() (*world, error) {
	w := &world{saved: os.Environ(), keep: map[string]string{}, cacheTypes: map[string]bool{}}
	base := os.Getenv("VERIF_RUNDIR")
	if base == "" {
		base = os.TempDir()
	}
	dir, err := os.MkdirTemp(base, "c20-")
	if err != nil {
		return nil, err
	}
	w.dir = dir
	if err := os.MkdirAll(filepath.Join(dir, "cwd"), 0o755); err != nil {
		return nil, err
	}
	if err := os.Chdir(filepath.Join(dir, "cwd")); err != nil {
		return nil, err
	}
	// HOME points to a directory without .config/heimdall.yaml; nothing else is needed by the loader
	w.keep["HOME"] = filepath.Join(dir, "cwd")
	for _, kv := range w.saved {
		i := strings.IndexByte(kv, '=')
		if i <= 0 {
			continue
		}
		// what the harness and the Go runtime need stays defined; nothing of it starts with the loader's prefix
		if k := kv[:i]; k == "PATH" || k == "TMPDIR" || strings.HasPrefix(k, "VERIF_") || strings.HasPrefix(k, "GO") {
			w.keep[k] = kv[i+1:]
		}
	}
	if err := w.writeKeys(); err != nil {
		return nil, err
	}
	return w, nil
}

func (w *world) writeKeys() error {
	key, err := ecdsa.GenerateKey(elliptic.P256(), rand.Reader)
	if err != nil {
		return err
	}
	der, err := x509.MarshalECPrivateKey(key)
	if err != nil {
		return err
	}
	tmpl := &x509.Certificate{
		SerialNumber: big.NewInt(20), Subject: pkix.Name{CommonName: "c20"},
		NotBefore: time.Now().Add(-time.Hour), NotAfter: time.Now().Add(240 * time.Hour),
		KeyUsage: x509.KeyUsageDigitalSignature | x509.KeyUsageCertSign, IsCA: true, BasicConstraintsValid: true,
	}
	cert, err := x509.CreateCertificate(rand.Reader, tmpl, tmpl, &key.PublicKey, key)
	if err != nil {
		return err
	}
	keyPEM := pem.EncodeToMemory(&pem.Block{Type: "EC PRIVATE KEY", Bytes: der})
	certPEM := pem.EncodeToMemory(&pem.Block{Type: "CERTIFICATE", Bytes: cert})
	w.pemKey = filepath.Join(w.dir, "keystore.pem")
	w.pemCert = filepath.Join(w.dir, "truststore.pem")
	if err := os.WriteFile(w.pemKey, append(append([]byte{}, keyPEM...), certPEM...), 0o600); err != nil {
		return err
	}
	return os.WriteFile(w.pemCert, certPEM, 0o600)
}

// setEnv replaces the whole process environment by keep + vars (in this order).
func (w *world) setEnv(vars []envVar) {
	os.Clearenv()
	keys := make([]string, 0, len(w.keep))
	for k := range w.keep {
		keys = append(keys, k)
	}
	sort.Strings(keys)
	for _, k := range keys {
		os.Setenv(k, w.keep[k])
	}
	for _, v := range vars {
		os.Setenv(v.Name, v.Value)
	}
}

// restore brings back the environment the harness was started with (VERIF_*, HOME, PATH ...).
func (w *world) restore() {
	os.Clearenv()
	for _, kv := range w.saved {
		if i := strings.IndexByte(kv, '='); i > 0 {
			os.Setenv(kv[:i], kv[i+1:])
		}
	}
}

func (w *world) writeFile(content string) string {
	w.nfile++
	p := filepath.Join(w.dir, "cfg-"+strconv.Itoa(w.nfile%8)+".yaml")
	_ = os.WriteFile(p, []byte(content), 0o600)
	return p
}

// ---------------------------------------------------------------------------------------------
// one observed load

type outcome struct {
	LoadErr  string            `json:"load_error,omitempty"`   // NewConfiguration failed
	Schema   bool              `json:"schema_rejected"`        // ... and the failure is the file's schema validation
	UseErr   string            `json:"usability_error,omitempty"` // mechanism catalogue / default rule could not be created
	errLines []string          // the individual messages of a load error
	Canon    string            `json:"-"`
	Leaves   map[string]string `json:"-"`
	conf     *config.Configuration
}

func (o *outcome) loaded() bool { return o.LoadErr == "" }
func (o *outcome) usable() bool { return o.LoadErr == "" && o.UseErr == "" }

func short(s string, n int) string {
	s = strings.ReplaceAll(s, "\n", " ")
	if len(s) > n {
		return s[:n] + "..."
	}
	return s
}

// load runs the real loader with the given file content ("" = no file) and environment under the default prefix.
func (w *world) load(file string, vars []envVar) *outcome { return w.loadP(envPrefix, file, vars) }

// loadP runs the real loader told to read the environment variables starting with prefix (--env-config-prefix).
func (w *world) loadP(prefix, file string, vars []envVar) *outcome {
	w.setEnv(vars)
	path := ""
	if file != "" {
		path = w.writeFile(file)
	}
	o := &outcome{}
	func() {
		defer func() {
			if p := recover(); p != nil {
				o.LoadErr = "panic: " + short(fmt.Sprint(p), 300)
				o.errLines = []string{o.LoadErr}
			}
		}()
		c, err := config.NewConfiguration(config.EnvVarPrefix(prefix), config.ConfigurationPath(path))
		if err != nil {
			o.LoadErr = short(err.Error(), 400)
			for _, l := range strings.Split(err.Error(), "\n") {
				if l = strings.TrimSpace(l); l != "" {
					o.errLines = append(o.errLines, l)
				}
			}
			if path != "" && config.ValidateConfig(path) != nil {
				o.Schema = true
			}
			return
		}
		o.conf = c
	}()
	if o.conf != nil {
		o.Leaves = canonLeaves(o.conf)
		o.Canon = canonString(o.Leaves)
	}
	return o
}

// checkUsable decides whether heimdall could start with the loaded configuration as far as the
// configuration is concerned: mechanism catalogue and default rule are created by the real code.
func (w *world) checkUsable(o *outcome) {
	if o.conf == nil {
		return
	}
	func() {
		defer func() {
			if p := recover(); p != nil {
				o.UseErr = "panic: " + short(fmt.Sprint(p), 300)
			}
		}()
		logger := zerolog.Nop()
		mf, err := mechanisms.NewMechanismFactory(o.conf, logger, nopWatcher{}, &registry{}, nopObserver{})
		if err != nil {
			o.UseErr = "mechanisms: " + short(err.Error(), 700)
			return
		}
		if _, err = rules.NewRuleFactory(mf, o.conf, config.DecisionMode, logger); err != nil {
			o.UseErr = "default_rule: " + short(err.Error(), 300)
			return
		}
		if !w.cacheTypeKnown(o.conf.Cache.Type) {
			o.UseErr = "cache: type '" + o.conf.Cache.Type + "' is unsupported"
		}
	}()
}

// cacheTypeKnown asks the real cache factory registry (the one the application's cache module uses at start-up)
// whether it knows the type. The back end is not created with the configured options (it would connect): the
// factory is called without options, everything but "unsupported type" counts as known.
func (w *world) cacheTypeKnown(typ string) bool {
	if known, ok := w.cacheTypes[typ]; ok {
		return known
	}
	known := true
	func() {
		defer func() { _ = recover() }()
		// a cache created here has not been started: nothing to stop (the redis factories fail without options)
		if _, err := cache.Create(typ, map[string]any{}, nopWatcher{}, nopObserver{}); err != nil {
			known = !errors.Is(err, cache.ErrUnsupportedCacheType)
		}
	}()
	w.cacheTypes[typ] = known
	return known
}

type nopWatcher struct{}

func (nopWatcher) Add(string, watcher.ChangeListener) error { return nil }

type nopObserver struct{}

func (nopObserver) Add(certificate.Supplier) {}
func (nopObserver) Start() error              { return nil }

type registry struct{ khs []keyholder.KeyHolder }

func (r *registry) AddKeyHolder(kh keyholder.KeyHolder) { r.khs = append(r.khs, kh) }
func (r *registry) Keys() []jose.JSONWebKey              { return nil }

// ---------------------------------------------------------------------------------------------
// reflective canonicaliser: Configuration -> map "config path" -> typed value text. Struct fields are
// named by their koanf tag, so paths read like the configuration keys (serve.decision.port,
// mechanisms.authenticators.1.config.jwks_endpoint.url). nil and empty slices/maps are the same
// (path.# = 0); a nil pointer is "null" and differs from a pointer to a zero value.

func canonLeaves(c *config.Configuration) map[string]string {
	out := map[string]string{}
	canonValue(reflect.ValueOf(c).Elem(), "", out)
	return out
}

func canonString(leaves map[string]string) string {
	keys := make([]string, 0, len(leaves))
	for k := range leaves {
		keys = append(keys, k)
	}
	sort.Strings(keys)
	var b strings.Builder
	for _, k := range keys {
		b.WriteString(k)
		b.WriteByte('=')
		b.WriteString(leaves[k])
		b.WriteByte('\n')
	}
	return b.String()
}

func join(path, seg string) string {
	if path == "" {
		return seg
	}
	return path + "." + seg
}

func canonValue(v reflect.Value, path string, out map[string]string) {
	switch v.Kind() {
	case reflect.Ptr:
		if v.IsNil() {
			out[path] = "null"
			return
		}
		canonValue(v.Elem(), path, out)
	case reflect.Interface:
		if v.IsNil() {
			out[path] = "null"
			return
		}
		canonValue(v.Elem(), path, out)
	case reflect.Struct:
		t := v.Type()
		for i := 0; i < t.NumField(); i++ {
			f := t.Field(i)
			name := strings.Split(f.Tag.Get("koanf"), ",")[0]
			if name == "" {
				name = strings.Split(f.Tag.Get("mapstructure"), ",")[0]
			}
			if name == "" {
				name = "~" + f.Name
			}
			canonValue(v.Field(i), join(path, name), out)
		}
	case reflect.Slice, reflect.Array:
		if v.Len() == 0 {
			out[join(path, "#")] = "0"
			return
		}
		out[join(path, "#")] = strconv.Itoa(v.Len())
		for i := 0; i < v.Len(); i++ {
			canonValue(v.Index(i), join(path, strconv.Itoa(i)), out)
		}
	case reflect.Map:
		if v.Len() == 0 {
			out[join(path, "#")] = "0"
			return
		}
		out[join(path, "#")] = strconv.Itoa(v.Len())
		iter := v.MapRange()
		for iter.Next() {
			k := iter.Key()
			for k.Kind() == reflect.Interface {
				k = k.Elem()
			}
			var ks string
			if k.Kind() == reflect.String {
				ks = k.String()
			} else {
				ks = "~" + fmt.Sprint(k)
			}
			canonValue(iter.Value(), join(path, ks), out)
		}
	case reflect.String:
		out[path] = "s:" + v.String()
	case reflect.Bool:
		out[path] = "b:" + strconv.FormatBool(v.Bool())
	case reflect.Int, reflect.Int8, reflect.Int16, reflect.Int32, reflect.Int64:
		out[path] = "i:" + strconv.FormatInt(v.Int(), 10)
	case reflect.Uint, reflect.Uint8, reflect.Uint16, reflect.Uint32, reflect.Uint64, reflect.Uintptr:
		out[path] = "i:" + strconv.FormatUint(v.Uint(), 10)
	case reflect.Float32, reflect.Float64:
		f := v.Float()
		if f == float64(int64(f)) {
			out[path] = "i:" + strconv.FormatInt(int64(f), 10)
		} else {
			out[path] = "f:" + strconv.FormatFloat(f, 'g', -1, 64)
		}
	default:
		out[path] = "?" + v.Kind().String()
	}
}

// diffLeaves lists the paths at which two canonical configurations differ.
func diffLeaves(a, b map[string]string) []string {
	var d []string
	for k, va := range a {
		if vb, ok := b[k]; !ok || vb != va {
			d = append(d, k)
		}
	}
	for k := range b {
		if _, ok := a[k]; !ok {
			d = append(d, k)
		}
	}
	sort.Strings(d)
	return d
}

type leafDiff struct {
	Path     string `json:"path"`
	Expected string `json:"expected"`
	Observed string `json:"observed"`
}

func describeDiff(exp, obs map[string]string, max int) []leafDiff {
	var out []leafDiff
	for _, p := range diffLeaves(exp, obs) {
		e, ok1 := exp[p]
		o, ok2 := obs[p]
		if !ok1 {
			e = "<absent>"
		}
		if !ok2 {
			o = "<absent>"
		}
		out = append(out, leafDiff{p, e, o})
		if len(out) >= max {
			break
		}
	}
	return out
}
