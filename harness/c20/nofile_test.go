package c20

import (
	"fmt"
	"os"
	"path/filepath"

	"github.com/dadrus/heimdall/internal/verif/vkit/core"
)

// Property-less files: one of the splits of a configuration between file and environment moves every leaf into
// the environment while the file is still there (a commented template baked into the image, the actual settings
// injected as variables). Such a file exists, is not zero bytes long and defines no property: comments, blank
// lines, document markers, an empty mapping. It must not change anything: the load has to give exactly what the
// same environment gives without a file (same configuration or same error). The file is given by --config and
// found as heimdall.yaml in the working directory (first lookup directory).
//
// A file of zero bytes is refused on purpose ("empty config file", heimdall's own TestValidateEmptyConfigFile) and
// is not part of the shapes.
const sigPropertyLessFile = "property-less-file-changes-result-of-environment"

type fileShape struct{ name, text string }

var propertyLessShapes = []fileShape{
	{"comment only", "# everything is configured via environment variables\n"},
	{"comment without final newline", "# nothing here"},
	{"newline only", "\n"},
	{"blanks and newlines", "  \n\n   \n"},
	{"comments with CRLF line ends", "# log:\r\n#   level: info\r\n"},
	{"document start marker", "---\n"},
	{"document start marker and commented template", "---\n# log:\n#   level: info\n# serve:\n#   decision:\n#     port: 4456\n"},
	{"comment before the document start marker", "# template\n---\n"},
	{"document start and end markers", "---\n...\n"},
	{"empty flow mapping", "{}\n"},
	{"document start marker and empty flow mapping", "--- {}\n"},
	{"empty flow mapping with comment", "{} # nothing\n"},
}

// loadLookup runs the loader without --config while the working directory holds heimdall.yaml with the given content.
func (w *world) loadLookup(content string, vars []envVar) *outcome {
	p := filepath.Join(w.dir, "cwd", "heimdall.yaml")
	_ = os.WriteFile(p, []byte(content), 0o600)
	defer os.Remove(p)
	return w.load("", vars)
}

// propertyLess loads vars once more together with a property-less file and compares with ref, the load of the
// same variables (same order) without any file.
func (h *harness) propertyLess(caseID, plan string, vars []envVar, ref *outcome, sh fileShape, lookup bool) {
	r := h.r
	var obs *outcome
	how := "given by --config"
	if lookup {
		obs = h.w.loadLookup(sh.text, vars)
		how = "found as heimdall.yaml in the working directory"
	} else {
		obs = h.w.load(sh.text, vars)
	}
	r.Count("loads_with_property_less_file", 1)
	if lookup {
		r.Count("loads_with_property_less_file_found_in_lookup_directory", 1)
	}
	if len(vars) >= 3 {
		r.Count("loads_with_property_less_file_and_whole_configuration_in_environment", 1)
	}
	r.Case(core.Hash([]any{"property-less", sh.text, lookup, vars}), len(vars) >= 3)
	rep := caseReport{Case: caseID, Plan: plan + " + file without any property (" + sh.name + ", " + how + ")", File: sh.text, Env: vars,
		Expected: "what the same environment gives without a file"}
	switch {
	case obs.LoadErr != ref.LoadErr:
		rep.Expected += ": " + loadText(ref)
		rep.Observed = loadText(obs)
		r.Violation(sigPropertyLessFile, fmt.Sprintf("a file that defines no property (%s, %s) changes whether the configuration given by the environment loads: without file %s, with file %s",
			sh.name, how, short(loadText(ref), 100), short(loadText(obs), 160)), rep)
	case obs.Canon != ref.Canon:
		rep.Diff = describeDiff(ref.Leaves, obs.Leaves, 12)
		rep.Observed = fmt.Sprintf("%d leaves differ", len(diffLeaves(ref.Leaves, obs.Leaves)))
		r.Violation(sigPropertyLessFile, fmt.Sprintf("a file that defines no property (%s, %s) changes the configuration given by the environment: %s expected %s observed %s",
			sh.name, how, rep.Diff[0].Path, rep.Diff[0].Expected, rep.Diff[0].Observed), rep)
	default:
		r.Count("loads_with_property_less_file_equal", 1)
	}
}

func loadText(o *outcome) string {
	if o.loaded() {
		return "loads"
	}
	return "load error: " + o.LoadErr
}

// propertyLessFiles: every shape, by --config and by lookup, with an empty environment (defaults), with a small
// catalogue completely in the environment (one variable per leaf) and with one variable per top-level section.
func (h *harness) propertyLessFiles() {
	ls := cat(
		kv("log", "level", "debug"),
		kv("serve.decision", "port", 4000, "trusted_proxies.0", "192.168.1.0/24"),
		kv("mechanisms.authenticators.0", "id", "a0", "type", "anonymous"),
		kv("mechanisms.finalizers.0", "id", "f0", "type", "noop"),
		kv("default_rule.execute.0", "authenticator", "a0"),
	)
	var leafVars []envVar
	for _, l := range ls {
		leafVars = append(leafVars, envVar{envName(parsePath(l.path)), envValue(l.v, false)})
	}
	tree := build(toPlaced(ls, func(l tleaf) (any, bool) { return l.v, true }))
	secVars := envIn(orders(len(sectionVars(tree)), 1, nil)[0], sectionVars(tree))
	envs := []struct {
		name string
		vars []envVar
	}{{"empty environment", nil}, {"all-env", leafVars}, {"all-env, one variable per top-level section (JSON value)", secVars}}
	for _, e := range envs {
		ref := h.w.load("", e.vars)
		h.r.Count("loads_env_only", 1)
		for _, sh := range propertyLessShapes {
			for _, lookup := range []bool{false, true} {
				h.propertyLess("property-less-file:"+e.name, e.name, e.vars, ref, sh, lookup)
			}
		}
	}
}
