package c20

import (
	"regexp"
	"strconv"
	"strings"
)

// Types from the environment: the entries of mechanisms.authenticators / authorizers / contextualizers / finalizers /
// error_handlers and the cache are told apart by their `type` leaf. A split may leave exactly that leaf to the
// environment (`HEIMDALLCFG_MECHANISMS_AUTHENTICATORS_0_TYPE=anonymous`) while the rest of the entry - id, config -
// stays in the file. The file part then has entries without `type`.
//
// Which of these file parts are valid files is a fact about the schema's `required` lists, calibrated on the unchanged
// tree (schemaRequiresType): the definitions of the authenticators, the authorizers, the noop finalizer and the cache
// do not require `type`, those of the contextualizer, the other finalizers and the error handlers do. Where the type is
// required its absence from the file is the open finding sigSplitSchema (the schema is applied to the file alone);
// where it is not, the file part holds everything the schema requires and the split must give the all-file result.
//
// typeSplits does this for every kind of mechanism (and config variants that several definitions of the schema could
// match) one by one and for a catalogue holding all of them; the exploration (runCase) has two plans doing the same on
// the generated configurations.

// schemaRequiresType: the definition of the schema for this kind lists `type` among its required properties
func schemaRequiresType(kind, typ string) bool {
	switch kind {
	case "authenticators", "authorizers", "cache":
		return false
	case "finalizers":
		return typ != "noop"
	}
	return true // contextualizers, error_handlers
}

var schemaErrAt = regexp.MustCompile(`at '(/[^']*)': (.*)`)

// schemaErrorPlaces names the places a schema error complains about, without list indices and without the containers
// that merely hold a failing place: `at '/mechanisms/authenticators/0': oneOf failed ...` -> mechanisms.authenticators
func schemaErrorPlaces(lines []string) []string {
	var out []string
	seen := map[string]bool{}
	for _, l := range lines {
		m := schemaErrAt.FindStringSubmatch(l)
		if m == nil || strings.HasPrefix(m[2], "validation failed") {
			continue
		}
		var segs []string
		for _, s := range strings.Split(strings.Trim(m[1], "/"), "/") {
			if s != "" && strings.Trim(s, "0123456789") != "" {
				segs = append(segs, s)
			}
		}
		if p := strings.Join(segs, "."); !seen[p] {
			seen[p] = true
			out = append(out, p)
		}
	}
	if len(out) == 0 {
		return []string{"unknown-place"}
	}
	return out
}

type typeKind struct {
	kind, typ, variant string
	cfg                []any // leaves below the entry besides id and type
}

func (h *harness) typeKinds() []typeKind {
	const url = "http://foo.bar/x"
	return []typeKind{
		{"authenticators", "anonymous", "", nil},
		{"authenticators", "anonymous", "subject", []any{"config.subject", "anon"}},
		{"authenticators", "unauthorized", "", nil},
		{"authenticators", "basic_auth", "", []any{"config.user_id", "foo", "config.password", "bar"}},
		{"authenticators", "generic", "", []any{"config.identity_info_endpoint.url", url, "config.authentication_data_source.0.cookie", "sid", "config.subject.id", "sub"}},
		{"authenticators", "oauth2_introspection", "introspection_endpoint", []any{"config.introspection_endpoint.url", url, "config.assertions.issuers.0", "iss"}},
		{"authenticators", "oauth2_introspection", "metadata_endpoint", []any{"config.metadata_endpoint.url", url}},
		{"authenticators", "oauth2_introspection", "metadata_endpoint+assertions+subject", []any{"config.metadata_endpoint.url", url, "config.assertions.audience.0", "aud",
			"config.subject.id", "sub", "config.cache_ttl", "5m", "config.allow_fallback_on_error", true}},
		{"authenticators", "jwt", "jwks_endpoint", []any{"config.jwks_endpoint.url", url, "config.assertions.issuers.0", "iss"}},
		{"authenticators", "jwt", "metadata_endpoint", []any{"config.metadata_endpoint.url", url}},
		{"authenticators", "jwt", "metadata_endpoint+assertions+subject", []any{"config.metadata_endpoint.url", url, "config.assertions.audience.0", "aud",
			"config.subject.id", "sub", "config.cache_ttl", "5m", "config.allow_fallback_on_error", true}},
		{"authorizers", "allow", "", nil},
		{"authorizers", "deny", "", nil},
		{"authorizers", "cel", "", []any{"config.expressions.0.expression", "true"}},
		{"authorizers", "remote", "", []any{"config.endpoint.url", url, "config.payload", "foo"}},
		{"authorizers", "remote", "expressions", []any{"config.endpoint.url", url, "config.payload", "foo", "config.expressions.0.expression", "true"}},
		{"contextualizers", "generic", "", []any{"config.endpoint.url", url}},
		{"finalizers", "noop", "", nil},
		{"finalizers", "jwt", "", []any{"config.signer.key_store.path", h.w.pemKey}},
		{"finalizers", "header", "", []any{"config.headers.x-a", "foo"}},
		{"finalizers", "cookie", "", []any{"config.cookies.x-a", "foo"}},
		{"finalizers", "oauth2_client_credentials", "", []any{"config.token_url", "http://foo.bar/token", "config.client_id", "cid", "config.client_secret", "cs"}},
		{"error_handlers", "default", "", nil},
		{"error_handlers", "redirect", "", []any{"config.to", "http://foo.bar/login"}},
		{"error_handlers", "www_authenticate", "", nil},
		{"error_handlers", "www_authenticate", "realm", []any{"config.realm", "My app"}},
		{"cache", "redis", "", []any{"config.address", "foo:6379", "config.db", 2}},
		{"cache", "redis-cluster", "", []any{"config.nodes.0", "foo:6379", "config.nodes.1", "bar:6379"}},
		{"cache", "redis-sentinel", "", []any{"config.nodes.0", "foo:6379", "config.master", "m", "config.db", 2}},
	}
}

// typeSplit loads the configuration given by ls completely from a file and with the leaves sel picks (the types) taken
// out of the file and given by the environment. complete: none of the leaves taken out is required by the schema.
func (h *harness) typeSplit(id, plan string, ls []tleaf, sel func(tleaf) bool, complete bool) {
	r, w := h.r, h.w
	intended := toYAML(build(toPlaced(ls, func(l tleaf) (any, bool) { return l.v, true })))
	exp := w.load(intended, nil)
	w.checkUsable(exp)
	r.Count("loads_with_file", 1)
	if !exp.usable() {
		// the table reports what is not usable from a file (e.g. a kind the schema does not know)
		r.Count("type_split_cases_not_usable_from_file", 1)
		return
	}
	p := parts{filePath: map[string]bool{}}
	for _, l := range ls {
		path := parsePath(l.path)
		if sel(l) {
			p.env = append(p.env, envLeaf{path, envVar{envName(path), envValue(l.v, false)}})
			continue
		}
		p.file = append(p.file, placed{path, l.v})
		for i := 1; i <= len(path); i++ {
			p.filePath[pathString(path[:i])] = true
		}
	}
	fileYAML := toYAML(build(p.file))
	t := findTriggers(p)
	n := 1
	if len(p.env) > 1 {
		n = 2
	}
	for _, ord := range orders(len(p.env), n, nil) {
		vars := envIn(ord, p.env)
		obs := w.load(fileYAML, vars)
		r.Count("loads_with_file", 1)
		r.Count("type_split_loads", 1)
		r.Count("loads_with_types_from_environment_and_the_rest_in_the_file", 1)
		r.Case("type-split|"+id+"|"+plan+"|"+varNames(vars), true)
		rep := caseReport{Case: "type-split:" + id, Plan: plan, File: fileYAML, Env: vars, Intended: intended, complete: complete}
		var fo map[string]string
		ok := h.judge(rep, sigSplit, exp, obs, t, p.env, func() map[string]string {
			if fo == nil {
				fo = map[string]string{}
				if o := w.load(fileYAML, nil); o.loaded() {
					fo = o.Leaves
				}
			}
			return fo
		})
		switch {
		case ok:
			r.Count("type_split_loads_equal_to_all_file", 1)
			w.checkUsable(obs)
			if !obs.usable() {
				r.Violation(sigUsable, "equal configuration values but different usability: "+obs.UseErr, rep)
			}
		case obs.Schema && !complete:
			r.Count("type_split_file_parts_lacking_a_type_the_schema_requires", 1)
		}
		if obs.Schema {
			break // the same for every order
		}
	}
}

func varNames(vars []envVar) string {
	var b strings.Builder
	for _, v := range vars {
		b.WriteString(v.Name)
		b.WriteByte(',')
	}
	return b.String()
}

func (h *harness) typeSplits() {
	r := h.r
	base := cat(kv("mechanisms.authenticators.0", "id", "a0", "type", "anonymous", "config.subject", "base"), kv("mechanisms.finalizers.0", "id", "f0", "type", "noop"))
	place := map[string]string{
		"authenticators": "mechanisms.authenticators.1", "finalizers": "mechanisms.finalizers.1", "authorizers": "mechanisms.authorizers.0",
		"contextualizers": "mechanisms.contextualizers.0", "error_handlers": "mechanisms.error_handlers.0", "cache": "cache",
	}
	isType := func(l tleaf) bool { return l.opt }
	inst := func(k typeKind, at string) []tleaf {
		var ls []tleaf
		if k.kind != "cache" {
			ls = kv(at, "id", "x-"+strings.ReplaceAll(at, ".", "-"))
		}
		ty := kv(at, "type", k.typ)
		ty[0].opt = true
		return cat(ls, ty, kv(at, k.cfg...))
	}
	kinds := h.typeKinds()
	for _, k := range kinds {
		name := k.kind + "." + k.typ
		if k.variant != "" {
			name += "(" + k.variant + ")"
		}
		req := schemaRequiresType(k.kind, k.typ)
		if req {
			r.Count("type_split_kinds_with_type_required_by_schema", 1)
		} else {
			r.Count("type_split_kinds_with_type_not_required_by_schema", 1)
		}
		h.typeSplit(name, "the type of one entry in the environment, the rest of the entry in the file", cat(base, inst(k, place[k.kind])), isType, !req)
	}
	// catalogues: every kind whose type the schema does not require, all types from the environment; one catalogue
	// per cache kind
	var mech []tleaf
	n := map[string]int{"authenticators": 1, "finalizers": 1}
	for _, k := range kinds {
		if k.kind == "cache" || schemaRequiresType(k.kind, k.typ) {
			continue
		}
		at := "mechanisms." + k.kind + "." + strconv.Itoa(n[k.kind])
		n[k.kind]++
		mech = append(mech, inst(k, at)...)
	}
	for _, k := range kinds {
		if k.kind == "cache" {
			h.typeSplit("catalogue+"+k.kind+"."+k.typ, "the types of all entries whose definition does not require it in the environment, the rest in the file",
				cat(base, mech, inst(k, "cache")), isType, true)
		}
	}
}
