package c20

import (
	"fmt"
	"math/rand/v2"
	"sort"
	"strings"
	"testing"

	"github.com/dadrus/heimdall/internal/verif/vkit/core"
)

// Signatures. Each distinct defect has its own narrow class computed from the failing case; every
// other divergence gets one of the generic signatures and is therefore never suppressed.
const (
	// lists below the top level: of several environment variables addressing one list only one survives
	sigSiblingsLost = "env-nested-list-siblings-lost"
	// a variable `<list>_<i>_<k1>_<k2>...` (two or more key levels below a list element) is dropped
	// when element i does not exist yet when the variable is merged
	sigNestedKeyLost = "env-list-element-nested-key-lost"
	// a split whose file part lacks a leaf that the schema requires is rejected although the
	// environment supplies the leaf
	sigSplitSchema = "split-file-part-rejected-by-schema"
	// ... the file part is rejected although it holds every leaf the schema requires (what the environment supplies
	// is optional for the schema, e.g. the `type` of a mechanism whose definition does not require it); followed
	// by the place the schema complains about
	sigSplitComplete = "split-file-part-with-all-required-leaves-rejected-by-schema:"

	sigAllEnv   = "all-env-differs-from-all-file"
	sigSplit    = "split-differs-from-all-file"
	sigLoadFail = "load-fails-for-equivalent-sources"
	sigUsable   = "usability-differs"
	sigDefaults = "defaults-not-kept"
)

type harness struct {
	r        *core.Run
	w        *world
	defaults *outcome

	undecided []string // table entries whose environment form ran into a list defect trigger

	// listDefectsAbsent: the canary (calibrate) found neither list defect in this build, so a trigger in
	// the environment form of a table entry does not make the entry undecidable
	listDefectsAbsent bool
	sampled           int
	nShape            int        // rotates through the property-less file shapes
	discrRng          *rand.Rand // stream of the plans that move `type` leaves to the environment

	validFiles map[string]bool // unquotedValues: file part -> accepted by the schema
	bareStatic []bareCase      // unquotedValues: the free-text string options of the static configuration
	bareMech   []bareCase      // ... and the string options of mechanisms
}

// calibrate loads a tiny catalogue completely from the environment many times: several variables per
// list, nested keys below elements that exist nowhere else. If every load equals the file load the
// loader under test is free of the two list defects.
func (h *harness) calibrate() {
	ls := cat(
		kv("mechanisms.authenticators.0", "id", "a0", "type", "anonymous", "config.subject", "canary"),
		kv("mechanisms.authenticators.1", "id", "a1", "type", "basic_auth", "config.user_id", "u", "config.password", "p"),
		kv("mechanisms.finalizers.0", "id", "f0", "type", "header", "config.headers.x-a", "1a", "config.headers.x-b", "b"),
		kv("serve.decision", "trusted_proxies.0", "10.0.0.1", "trusted_proxies.1", "10.0.0.2"),
		kv("providers.http_endpoint", "endpoints.0.url", "http://foo.bar/x", "endpoints.0.retry.max_delay", "1s", "endpoints.0.retry.give_up_after", "5s"),
	)
	file := toYAML(build(toPlaced(ls, func(l tleaf) (any, bool) { return l.v, true })))
	exp := h.w.load(file, nil)
	var env []envLeaf
	for _, l := range ls {
		env = append(env, envLeaf{parsePath(l.path), envVar{envName(parsePath(l.path)), envValue(l.v, false)}})
	}
	rng := h.r.Stream("canary")
	clean := exp.loaded()
	n := 40
	for _, ord := range orders(len(env), n, rng) {
		o := h.w.load("", envIn(ord, env))
		if !o.loaded() || o.Canon != exp.Canon {
			clean = false
			h.r.Count("canary_loads_differing", 1)
		}
	}
	h.r.Count("canary_loads", n)
	h.listDefectsAbsent = clean
	h.r.Set("list_defects_absent_in_this_build", clean)
}

// ---------------------------------------------------------------------------------------------
// plans: which source provides which leaf

const (
	mFile = iota // file only
	mEnv         // environment only
	mBoth        // conflict: the file holds another value (Alt), the environment the intended one
)

type envLeaf struct {
	Path []seg
	Var  envVar
}

type parts struct {
	file     []placed
	env      []envLeaf
	nBoth    int
	filePath map[string]bool // every prefix of every file leaf path
	reqInEnv int             // leaves the schema requires that only the environment holds
}

func makeParts(leaves []leaf, modes []int, rng *rand.Rand) parts {
	p := parts{filePath: map[string]bool{}}
	for i, l := range leaves {
		switch modes[i] {
		case mFile:
			p.file = append(p.file, placed{l.Path, l.S.V})
		case mBoth:
			p.file = append(p.file, placed{l.Path, l.S.Alt})
			if !l.S.Fixed {
				p.nBoth++
			}
			fallthrough
		case mEnv:
			if l.S.Req && modes[i] == mEnv {
				p.reqInEnv++
			}
			p.env = append(p.env, envLeaf{l.Path, envVar{envName(l.Path), envValue(l.S.V, rng != nil && rng.IntN(5) == 0)}})
		}
	}
	for _, f := range p.file {
		for i := 1; i <= len(f.Path); i++ {
			p.filePath[pathString(f.Path[:i])] = true
		}
	}
	return p
}

// densify makes the file part expressible as YAML: in every list the file part fills all indices
// below the highest one it uses (an element wholly assigned to the environment gets one of its
// leaves as a conflict instead). With reqAware the leaves the schema requires stay in the file.
func densify(leaves []leaf, modes []int, reqAware bool) {
	if reqAware {
		for i, l := range leaves {
			if l.S.Req && modes[i] == mEnv {
				modes[i] = mBoth
			}
		}
	}
	for changed := true; changed; {
		changed = false
		type elem struct {
			inFile bool
			first  int
			req    int
		}
		lists := map[string]map[int]*elem{}
		for i, l := range leaves {
			for j, s := range l.Path {
				if !s.Idx {
					continue
				}
				key := pathString(l.Path[:j])
				if lists[key] == nil {
					lists[key] = map[int]*elem{}
				}
				e := lists[key][s.I]
				if e == nil {
					e = &elem{first: i, req: -1}
					lists[key][s.I] = e
				}
				if modes[i] != mEnv {
					e.inFile = true
				}
				if l.S.Req && e.req < 0 {
					e.req = i
				}
			}
		}
		for _, elems := range lists {
			max := -1
			for idx, e := range elems {
				if e.inFile && idx > max {
					max = idx
				}
			}
			for idx, e := range elems {
				if idx < max && !e.inFile {
					k := e.first
					if e.req >= 0 {
						k = e.req
					}
					modes[k] = mBoth
					changed = true
				}
			}
		}
	}
}

// ---------------------------------------------------------------------------------------------
// triggers of the two list defects, computed from the inputs only

type triggers struct {
	sibRoots, sibLists map[string]bool
	dotRoots, dotLists map[string]bool
	sibVars, dotVars   int
	nestedVars         int // variables addressing list elements at all
	dotPaths           []string
}

func findTriggers(p parts) triggers {
	t := triggers{sibRoots: map[string]bool{}, sibLists: map[string]bool{}, dotRoots: map[string]bool{}, dotLists: map[string]bool{}}
	groups := map[string][]envLeaf{}
	for _, e := range p.env {
		pre, n := listPrefix(e.Path)
		if pre == "" {
			continue
		}
		t.nestedVars++
		if n >= 2 {
			groups[pre] = append(groups[pre], e)
		}
	}
	for pre, g := range groups {
		if len(g) < 2 {
			continue
		}
		t.sibLists[pre] = true
		for _, e := range g {
			_, n := listPrefix(e.Path)
			t.sibRoots[pathString(e.Path[:n+1])] = true
			t.sibVars++
		}
	}
	for _, e := range p.env {
		hit := false
		for j, s := range e.Path {
			if !s.Idx {
				continue
			}
			keys := 0
			for _, s2 := range e.Path[j+1:] {
				if s2.Idx {
					break
				}
				keys++
			}
			root := pathString(e.Path[:j+1])
			if keys >= 2 && !p.filePath[root] {
				t.dotRoots[root] = true
				t.dotLists[pathString(e.Path[:j])] = true
				hit = true
			}
		}
		if hit {
			t.dotVars++
			t.dotPaths = append(t.dotPaths, pathString(e.Path))
		}
	}
	return t
}

// dottedVarExplains: p is the leaf of a nested-key variable, lies below it, or is a container on the way to it
func (t triggers) dottedVarExplains(p string) bool {
	x := strings.TrimSuffix(p, ".#")
	for _, q := range t.dotPaths {
		if q == x || strings.HasPrefix(x, q+".") || strings.HasPrefix(q, x+".") {
			return true
		}
	}
	return false
}

func (t triggers) none() bool { return len(t.sibRoots) == 0 && len(t.dotRoots) == 0 }

func under(p string, roots, lists map[string]bool) bool {
	for l := range lists {
		if p == l || p == l+".#" {
			return true
		}
	}
	for r := range roots {
		if p == r || strings.HasPrefix(p, r+".") {
			return true
		}
	}
	return false
}

func isZero(v string) bool {
	switch v {
	case "s:", "i:0", "b:false", "null", "0":
		return true
	}
	return false
}

// lossLike: the observed value at p is what remains when environment values are dropped: absent,
// zero, a shorter list, or the value the file alone yields. A wrong value coming from somewhere else
// is not loss-like.
func lossLike(p string, exp, obs, fileOnly map[string]string) bool {
	ov, ok := obs[p]
	if !ok {
		return true
	}
	if strings.HasSuffix(p, ".#") {
		ev, ok := exp[p]
		if !ok {
			return ov == "0"
		}
		var a, b int
		fmt.Sscan(ov, &a)
		fmt.Sscan(ev, &b)
		return a <= b
	}
	if isZero(ov) {
		return true
	}
	if fv, ok := fileOnly[p]; ok && fv == ov {
		return true
	}
	return false
}

// ---------------------------------------------------------------------------------------------

type caseReport struct {
	Case     string     `json:"case"`
	Plan     string     `json:"plan"`
	File     string     `json:"file_yaml"`
	Env      []envVar   `json:"environment_in_setenv_order"`
	Intended string     `json:"intended_configuration_yaml,omitempty"`
	Expected string     `json:"expected"`
	Observed string     `json:"observed"`
	Diff     []leafDiff `json:"differing_leaves,omitempty"`
	Triggers any        `json:"list_defect_triggers,omitempty"`

	// complete: the file part holds every leaf the schema requires (as far as the harness knows the schema's
	// `required` lists): its rejection by the schema is not the open finding sigSplitSchema
	complete bool
}

func keysOf(m map[string]bool) []string {
	out := make([]string, 0, len(m))
	for k := range m {
		out = append(out, k)
	}
	sort.Strings(out)
	return out
}

func (t triggers) report() any {
	if t.none() {
		return nil
	}
	return map[string]any{"lists_with_two_or_more_env_variables": keysOf(t.sibLists), "elements_absent_from_file_addressed_with_nested_key": keysOf(t.dotRoots)}
}

func pickDiffs(all []leafDiff, sel []string, max int) []leafDiff {
	set := map[string]bool{}
	for _, s := range sel {
		set[s] = true
	}
	var out []leafDiff
	for _, d := range all {
		if set[d.Path] {
			out = append(out, d)
			if len(out) >= max {
				break
			}
		}
	}
	return out
}

// judge compares one observed load with the expected configuration and reports violations.
// Returns true when the load agreed.
func (h *harness) judge(rep caseReport, generic string, exp, obs *outcome, t triggers, envLeaves []envLeaf, fileOnly func() map[string]string) bool {
	r := h.r
	if !obs.loaded() {
		if obs.Schema && rep.complete {
			rep.Observed = "file part rejected by the schema: " + obs.LoadErr
			for _, place := range schemaErrorPlaces(obs.errLines) {
				r.Violation(sigSplitComplete+place, "a split of a valid configuration is rejected by the schema at "+place+" although the file part holds every leaf the schema requires ("+
					rep.Plan+"): "+short(obs.LoadErr, 200), rep)
			}
			return false
		}
		if obs.Schema {
			rep.Observed = "file part rejected by the schema: " + obs.LoadErr
			r.Violation(sigSplitSchema, "a split of a valid configuration is rejected because the file part alone does not satisfy the schema ("+rep.Plan+")", rep)
			return false
		}
		rep.Observed = "load error: " + obs.LoadErr
		rep.Triggers = t.report()
		if sig := h.explainLoadError(rep.File, envLeaves, obs, t); sig != "" {
			r.Violation(sig, "load fails because environment variables of a list are dropped ("+rep.Plan+"): "+short(obs.LoadErr, 120), rep)
			return false
		}
		r.Violation(sigLoadFail, "configuration loads from the file but not from "+rep.Plan+": "+short(obs.LoadErr, 120), rep)
		return false
	}
	diffs := diffLeaves(exp.Leaves, obs.Leaves)
	if len(diffs) == 0 {
		return true
	}
	all := describeDiff(exp.Leaves, obs.Leaves, 1000)
	var d1, d2, rest []string
	var fo map[string]string
	if !t.none() {
		fo = fileOnly()
	}
	// a lost leaf below a list with several variables can be explained by either defect; it is put down
	// to the nested-key defect only if every such leaf of this load belongs to a nested-key variable
	// (the sibling defect also drops variables like `<list>_0_ID`)
	var sibOnly bool
	kind := map[string]int{}
	for _, p := range diffs {
		ll := lossLike(p, exp.Leaves, obs.Leaves, fo)
		sib := under(p, t.sibRoots, t.sibLists) && ll
		dot := under(p, t.dotRoots, t.dotLists) && t.dottedVarExplains(p) && (ll || strings.HasSuffix(p, ".#"))
		switch {
		case sib && dot:
			kind[p] = 3
		case sib:
			kind[p], sibOnly = 1, true
		case dot:
			kind[p] = 2
		}
	}
	for _, p := range diffs {
		switch k := kind[p]; {
		case k == 1 || (k == 3 && sibOnly):
			d1 = append(d1, p)
		case k == 2 || k == 3:
			d2 = append(d2, p)
		default:
			rest = append(rest, p)
		}
	}
	rep.Triggers = t.report()
	rep.Expected = "the configuration obtained from the all-file load (see intended_configuration_yaml)"
	if len(d1) > 0 {
		rep.Diff = pickDiffs(all, d1, 12)
		rep.Observed = fmt.Sprintf("%d leaves below lists addressed by several environment variables fell back to file/default/zero", len(d1))
		r.Violation(sigSiblingsLost, fmt.Sprintf("%s: values of sibling environment variables of a nested list are lost, e.g. %s", rep.Plan, d1[0]), rep)
	}
	if len(d2) > 0 {
		rep.Diff = pickDiffs(all, d2, 12)
		rep.Observed = fmt.Sprintf("%d leaves of list elements that exist only in the environment are lost (nested key)", len(d2))
		r.Violation(sigNestedKeyLost, fmt.Sprintf("%s: environment variable with a nested key below a list element absent from the file is dropped, e.g. %s", rep.Plan, d2[0]), rep)
	}
	if len(rest) > 0 {
		rep.Diff = pickDiffs(all, rest, 12)
		rep.Observed = fmt.Sprintf("%d leaves differ", len(rest))
		r.Violation(generic, fmt.Sprintf("%s: %s expected %s observed %s", rep.Plan, rep.Diff[0].Path, rep.Diff[0].Expected, rep.Diff[0].Observed), rep)
	}
	return false
}

// explainLoadError decides whether a failing load is a consequence of one of the list defects by
// emulating the loss with the real loader: for a list addressed by several variables exactly one
// variable survives; a variable with a nested key below a new element is dropped. If the emulated
// load fails with the same error the failure belongs to that defect.
func (h *harness) explainLoadError(fileYAML string, env []envLeaf, obs *outcome, t triggers) string {
	if t.none() || len(obs.errLines) == 0 {
		return ""
	}
	// several independent messages may be combined in one error: each must be reproduced
	missing := map[string]bool{}
	for _, l := range obs.errLines {
		missing[l] = true
	}
	budget := 150
	try := func(keep func(e envLeaf) bool) {
		if budget <= 0 || len(missing) == 0 {
			return
		}
		budget--
		var vars []envVar
		for _, e := range env {
			if keep(e) {
				vars = append(vars, e.Var)
			}
		}
		h.r.Count("emulation_loads", 1)
		for _, l := range h.w.load(fileYAML, vars).errLines {
			delete(missing, l)
		}
	}
	inGroup := func(e envLeaf) string {
		pre, n := listPrefix(e.Path)
		if pre != "" && n >= 2 && t.sibLists[pre] {
			return pre
		}
		return ""
	}
	// lists named by the error first, the others afterwards (within the budget)
	for pass := 0; pass < 2; pass++ {
		for _, s := range env {
			g := inGroup(s)
			if g == "" {
				continue
			}
			named := false
			for l := range missing {
				if strings.Contains(l, "'"+g+"'") {
					named = true
				}
			}
			if named == (pass == 0) {
				name := s.Var.Name
				try(func(e envLeaf) bool { return inGroup(e) == "" || e.Var.Name == name })
			}
		}
	}
	if len(missing) == 0 {
		return sigSiblingsLost
	}
	if len(t.sibLists) == 0 {
		for _, s := range env {
			dotted := false
			for j := range s.Path {
				if s.Path[j].Idx && t.dotRoots[pathString(s.Path[:j+1])] {
					dotted = true
				}
			}
			if dotted {
				name := s.Var.Name
				try(func(e envLeaf) bool { return e.Var.Name != name })
			}
		}
		if len(missing) == 0 {
			return sigNestedKeyLost
		}
	}
	return ""
}

func orders(n, count int, rng *rand.Rand) [][]int {
	var out [][]int
	for k := 0; k < count; k++ {
		o := make([]int, n)
		for i := range o {
			o[i] = i
		}
		switch k {
		case 0:
		case 1:
			for i, j := 0, n-1; i < j; i, j = i+1, j-1 {
				o[i], o[j] = o[j], o[i]
			}
		default:
			rng.Shuffle(n, func(i, j int) { o[i], o[j] = o[j], o[i] })
		}
		out = append(out, o)
	}
	return out
}

func envIn(order []int, env []envLeaf) []envVar {
	out := make([]envVar, len(order))
	for i, k := range order {
		out[i] = env[k].Var
	}
	return out
}

// checkDefaults: every leaf of the result that no input leaf addresses keeps its default (or is the
// zero value where the defaults have no such leaf, e.g. inside a newly created cors section).
func (h *harness) checkDefaults(caseID, yamlText string, leaves []leaf, o *outcome) {
	in := make([]string, len(leaves))
	for i, l := range leaves {
		in[i] = pathString(l.Path)
	}
	for p, v := range o.Leaves {
		x := strings.TrimSuffix(p, ".#")
		covered := false
		for _, q := range in {
			if x == q || strings.HasPrefix(q, x+".") || strings.HasPrefix(x, q+".") {
				covered = true
				break
			}
		}
		if covered {
			continue
		}
		h.r.Count("default_leaves_checked", 1)
		dv, ok := h.defaults.Leaves[p]
		if (ok && dv == v) || (!ok && isZero(v)) {
			continue
		}
		if !ok {
			dv = "<zero>"
		}
		h.r.Violation(sigDefaults, fmt.Sprintf("leaf %s defined by neither source is %s, default is %s", p, v, dv),
			caseReport{Case: caseID, Plan: "all-file", File: yamlText, Expected: dv, Observed: v, Diff: []leafDiff{{p, dv, v}}})
		return
	}
}

// ---------------------------------------------------------------------------------------------

func (h *harness) runCase(id string, tree map[string]any, light bool, rng *rand.Rand) {
	r := h.r
	leaves := flatten(tree)
	all := make([]int, len(leaves))
	intended := toYAML(build(makeParts(leaves, all, nil).file))
	exp := h.w.load(intended, nil)
	h.w.checkUsable(exp)
	r.Count("loads_with_file", 1)
	if !exp.usable() {
		if exp.Schema {
			// rejected by the schema: does the loader itself support it (section form: no schema, no list reconstruction)?
			vars := envIn(orders(len(sectionVars(build(makeParts(leaves, all, nil).file))), 1, nil)[0], sectionVars(build(makeParts(leaves, all, nil).file)))
			o := h.w.load("", vars)
			h.w.checkUsable(o)
			if o.usable() {
				r.Violation("file-rejected-by-schema-usable-from-environment", "a generated configuration is rejected by the file schema but usable from the environment: "+short(exp.LoadErr, 200),
					caseReport{Case: id, Plan: "all-file vs. one variable per section", File: intended, Env: vars, Expected: "usable from both or from neither", Observed: "file: " + exp.LoadErr + "; environment: usable"})
			}
		}
		r.Count("generated_configurations_not_usable_from_file", 1)
		if r.Counter("generated_configurations_not_usable_from_file") <= 3 {
			fmt.Printf("[verif] C20 note: generated configuration %s not usable from file: %s%s\n%s\n", id, exp.LoadErr, exp.UseErr, intended)
		}
		return
	}
	r.Count("configurations", 1)
	r.Count("leaves_total", len(leaves))
	h.checkDefaults(id, intended, leaves, exp)

	type planT struct {
		name     string
		modes    []int
		generic  string
		nOrders  int
		reqAware bool
		sections bool
		rng      *rand.Rand // nil: the stream of the exploration
	}
	mk := func(f func(i int, l leaf) int) []int {
		m := make([]int, len(leaves))
		for i, l := range leaves {
			m[i] = f(i, l)
		}
		return m
	}
	nEnvOrders, nSplitOrders := r.Pick(5, 8), r.Pick(2, 4)
	var plans []planT
	plans = append(plans, planT{"all-env", mk(func(int, leaf) int { return mEnv }), sigAllEnv, nEnvOrders, false, false, nil})
	plans = append(plans, planT{name: "all-env, one variable per top-level section (JSON value)", generic: sigAllEnv, nOrders: 2, sections: true})
	if light || rng.IntN(4) == 0 {
		plans = append(plans, planT{"all-conflicting (file: other values, env: intended values)", mk(func(int, leaf) int { return mBoth }), sigSplit, nSplitOrders, true, false, nil})
	}
	// sparse split: at most one environment variable per list
	{
		chosen := map[string]int{}
		cnt := map[string]int{}
		for i, l := range leaves {
			if pre, _ := listPrefix(l.Path); pre != "" {
				cnt[pre]++
				if rng.IntN(cnt[pre]) == 0 {
					chosen[pre] = i
				}
			}
		}
		plans = append(plans, planT{"sparse split", mk(func(i int, l leaf) int {
			pre, _ := listPrefix(l.Path)
			if pre != "" && chosen[pre] != i {
				return mFile
			}
			switch x := rng.IntN(10); {
			case x < 4:
				return mEnv
			case x < 7:
				return mBoth
			}
			return mFile
		}), sigSplit, nSplitOrders, true, false, nil})
	}
	// discriminators: the `type` leaves that the schema does not require come from the environment (all of them, and
	// one of them alone); everything else stays in the file. The plans draw from a stream of their own.
	var discrs []int
	for i, l := range leaves {
		if l.S.Discr && !l.S.Req {
			discrs = append(discrs, i)
		}
	}
	if len(discrs) > 0 {
		r.Count("configurations_with_type_leaves_not_required_by_schema", 1)
		only := func(sel func(i int) bool) []int {
			return mk(func(i int, l leaf) int {
				if l.S.Discr && !l.S.Req && sel(i) {
					return mEnv
				}
				return mFile
			})
		}
		plans = append(plans, planT{name: "all types the schema does not require in the environment, everything else in the file", modes: only(func(int) bool { return true }),
			generic: sigSplit, nOrders: nSplitOrders, reqAware: true, rng: h.discrRng})
		if len(discrs) > 1 {
			one := discrs[h.discrRng.IntN(len(discrs))]
			plans = append(plans, planT{name: "one type the schema does not require in the environment, everything else in the file", modes: only(func(i int) bool { return i == one }),
				generic: sigSplit, nOrders: 1, reqAware: true, rng: h.discrRng})
		}
	}
	if !light {
		plans = append(plans, planT{"dense split", mk(func(int, leaf) int { return []int{mFile, mFile, mEnv, mEnv, mBoth}[rng.IntN(5)] }), sigSplit, nSplitOrders, true, false, nil})
	}
	if rng.IntN(3) == 0 {
		plans = append(plans, planT{"split ignoring required leaves", mk(func(int, leaf) int { return []int{mFile, mFile, mEnv}[rng.IntN(3)] }), sigSplit, 1, false, false, nil})
	}

	for _, pl := range plans {
		rng := rng
		if pl.rng != nil {
			rng = pl.rng
		}
		if pl.sections {
			pl.modes = make([]int, len(leaves))
		} else if pl.name != "all-env" {
			densify(leaves, pl.modes, pl.reqAware)
		}
		p := makeParts(leaves, pl.modes, rng)
		if pl.sections {
			p = parts{env: sectionVars(build(p.file)), filePath: map[string]bool{}}
		}
		if len(p.env) == 0 {
			continue
		}
		fileYAML := toYAML(build(p.file))
		t := findTriggers(p)
		var fo map[string]string
		fileOnly := func() map[string]string {
			if fo == nil {
				fo = map[string]string{}
				if fileYAML == "" {
					fo = h.defaults.Leaves
				} else if o := h.w.load(fileYAML, nil); o.loaded() {
					fo = o.Leaves
				}
			}
			return fo
		}
		class := "strict"
		if !t.none() {
			class = "with-list-defect-trigger"
		}
		r.Count("plans_"+class, 1)
		r.Count("conflicting_leaves", p.nBoth)
		if t.none() {
			r.Count("strict_env_variables", len(p.env))
			r.Count("strict_env_variables_addressing_list_elements", t.nestedVars)
		}
		outcomes := map[string]bool{}
		for k, ord := range orders(len(p.env), pl.nOrders, rng) {
			vars := envIn(ord, p.env)
			obs := h.w.load(fileYAML, vars)
			if fileYAML == "" {
				r.Count("loads_env_only", 1)
			} else {
				r.Count("loads_with_file", 1)
			}
			nontrivial := len(p.env) >= 1 && (len(p.file) > 0 || len(p.env) >= 3)
			r.Case(core.Hash([]any{fileYAML, vars}), nontrivial)
			rep := caseReport{Case: id, Plan: pl.name, File: fileYAML, Env: vars, Intended: intended, complete: p.reqInEnv == 0}
			if pl.rng != nil { // the two plans above that move types only
				r.Count("loads_with_types_from_environment_and_the_rest_in_the_file", 1)
			}
			ok := h.judge(rep, pl.generic, exp, obs, t, p.env, fileOnly)
			outcomes[obs.Canon+obs.LoadErr] = true
			if k == 0 && fileYAML == "" {
				// the whole configuration is in the environment: a file without any property must not change anything
				h.nShape++
				h.propertyLess(id, pl.name, vars, obs, propertyLessShapes[h.nShape%len(propertyLessShapes)], h.nShape/len(propertyLessShapes)%2 == 1)
			}
			if ok {
				r.Count("loads_equal_to_all_file_"+class, 1)
				if k == 0 {
					h.w.checkUsable(obs)
					if obs.usable() != exp.usable() {
						r.Violation(sigUsable, "equal configuration values but different usability: "+obs.UseErr, rep)
					}
					r.Count("usability_compared", 1)
				}
			} else {
				r.Count("loads_differing_"+class, 1)
				if obs.Schema {
					break // the same for every order
				}
			}
		}
		if len(outcomes) > 1 {
			r.Count("plans_with_order_dependent_result", 1)
		}
		if h.sampled < 4 && len(p.file) > 0 && t.none() && len(p.env) >= 3 && len(p.env) <= 12 {
			h.sampled++
			r.Sample(map[string]any{"case": id, "plan": pl.name, "file_yaml": fileYAML, "environment": envIn(orders(len(p.env), 1, rng)[0], p.env),
				"class": class, "result": "equal to the all-file load in every order"})
		}
	}
}

func TestC20(t *testing.T) {
	r := core.Begin("C20", "exploration")
	r.Rule("Configurations are generated from a grammar of the documented tree (serve.*, log, tracing, metrics, profiling, cache, mechanisms of every " +
		"type with their options incl. lists inside list elements, default_rule, providers) with scalars of the type the schema expects. Every configuration is " +
		"loaded by the real config.NewConfiguration (a) completely from a file, (b) completely from environment variables named by the documented rules " +
		"(prefix, `_` separator, `__` literal underscore, numeric segments as indices), (b') completely from the environment with one variable per top-level " +
		"section, (c) from splits of its leaves (file only / environment only / conflicting: the file holds another value, the environment the intended one; " +
		"sparse = at most one variable per list, dense = random, and splits that ignore which leaves the schema requires), each in several orders of " +
		"os.Setenv after os.Clearenv and repeated (map iteration inside the loader); the canonical form of every resulting Configuration must equal (a), " +
		"leaves addressed by neither source must keep their defaults. Usability = mechanisms.NewMechanismFactory and rules.NewRuleFactory (default rule) " +
		"succeed. A schema equivalence table gives every mechanism type, endpoint auth type and option (plus spellings only one side knows) once by file and " +
		"once by environment and compares schema verdict, usability and effect; the same is done for every value of the enumerated options (cipher suites by all " +
		"names crypto/tls has for them, TLS versions, log levels and formats, span processors, CORS methods, cache types, OAuth2 client authentication methods, api key " +
		"locations, scope matching strategies, redirect codes) incl. other spellings and unknown values where the loader checks the value itself. Lists with more than " +
		"ten elements are given by the environment (completely, as override of one element of the file, as continuation of the file) with the indices in the " +
		"variable names written plainly, zero-padded to two and three digits and with a width chosen per variable; all spellings must give the all-file result. " +
		"Value shapes: every option holding an address or address range (trusted_proxies), a Duration or a ByteSize gets every class of valid values of that type (IPv4/IPv6 " +
		"addresses in all notations, ranges with prefix lengths up to /32 and /128, every unit with numbers of one to six digits; valid = net.ParseIP/ParseCIDR resp. the " +
		"documented patterns) from a file and from the environment: the schema must accept the file and both must load the value the harness computes; URLs with ports, user " +
		"info, IPv6 hosts, queries and fragments go through the equivalence table on the mechanisms' endpoint options. Unquoted values: every string option of the static " +
		"configuration (found by walking the Configuration type) and string options of mechanisms get texts that a YAML parser reads as integer, float, boolean, null or as " +
		"another string, unquoted as value of the environment variable (with the option absent from the file and over another value in the file), compared with the file " +
		"holding the same text. Unquoted values in the file: every text the loader's YAML 1.2 parser reads as the very string although other YAML versions or dialects read a boolean or a " +
		"number (yes/no/on/off/y/n in all spellings, sexagesimal numbers ...) is written as plain scalar in the file for the same options and compared with the quoted scalar in the file and with " +
		"the value given by the environment. Types from the environment: for every kind of mechanism and of cache (and config variants several definitions of the schema could match) the `type` " +
		"leaf alone comes from the environment while the rest of the entry stays in the file, one entry at a time and for whole catalogues; the generated configurations get two more plans " +
		"(all types the schema does not require / one of them in the environment, everything else in the file). A file part that holds every leaf the schema requires must be accepted; where the " +
		"schema requires the type the rejection belongs to the finding that the schema is applied to the file alone. Environment prefix: generated configurations are loaded (all-env and split) under prefixes in upper, lower and mixed case, with digits and " +
		"underscores, without trailing underscore and one starting with another, while the environment also holds decoy variables under look-alike prefixes with other values; " +
		"the result must equal the all-file load. Files without any property (comments, blank lines, document markers, an empty mapping; not zero bytes long) are combined with the whole configuration " +
		"in the environment (a small catalogue in all shapes, every generated configuration in its all-env forms with one shape), given by --config and found in the working directory: the load must give what the same " +
		"environment gives without a file. Keys of free-form maps (values, header maps) that start with a digit without being a number (`2fa`, `3ds_mode`) are given by one environment variable each (added to the " +
		"map of the file, over the file's value, as only key of a map absent from the file) and compared with the file holding the same key: only numeric segments are indices. Loads whose inputs contain a trigger of one of the two list defects are " +
		"classified separately (class with-list-defect-trigger); all other loads are compared strictly. A load is non-trivial when it has environment " +
		"variables and either a file part or at least three variables.")
	r.Assume("free-form map keys (header names, values) are generated lower case: the environment naming rules cannot express upper case keys",
		"string values are written as YAML scalars of the same text in file and environment (quoted where YAML would otherwise read another type); the part 'unquoted values' "+
			"gives the plain text instead, as one writes the value of an environment variable",
		"'$' does not occur in values (the file is subject to ${var} substitution by design)",
		"cache back ends and rule providers are not started: their sections are compared as configuration values only; of the cache only the type is checked "+
			"against the factory registry the application uses at start-up",
		"form (b') relies on the loader typing environment values with a YAML parser (a JSON object as value becomes a sub-tree); it is not a documented "+
			"naming rule and is used as an additional way through the real loader that involves neither the file schema nor list reconstruction")

	w, err := newWorld()
	if err != nil {
		r.Inconclusive("cannot prepare work directory: " + err.Error())
		r.End()
	}
	h := &harness{r: r, w: w}
	func() {
		defer func() {
			if p := recover(); p != nil {
				w.restore()
				r.Inconclusive(fmt.Sprintf("harness panic: %v", p))
			}
		}()
		h.defaults = w.load("", nil)
		if !h.defaults.loaded() {
			r.Inconclusive("empty configuration does not load: " + h.defaults.LoadErr)
			return
		}
		h.calibrate()
		h.runTable()
		h.emptyOverrides()
		h.propertyLessFiles()
		h.digitKeys()
		h.indexSpellings()
		h.valueShapes()
		h.unquotedValues()
		h.unquotedFileValues()
		h.envPrefixes()
		h.typeSplits()
		n := r.Pick(70, 1500)
		rng := r.Stream("configs")
		h.discrRng = r.Stream("type-plans")
		for i := 0; i < n; i++ {
			g := &gen{r: rng, w: w, light: i%3 == 2}
			h.runCase(fmt.Sprintf("cfg-%d", i), g.config(), g.light, rng)
		}
	}()
	w.restore()

	r.Require("configurations", r.Counter("configurations"), int64(r.Pick(50, 1000)))
	r.Require("loads_compared_strictly", r.Counter("loads_equal_to_all_file_strict")+r.Counter("loads_differing_strict"), 300)
	r.Require("strict_env_variables_addressing_list_elements", r.Counter("strict_env_variables_addressing_list_elements"), 50)
	r.Require("conflicting_leaves", r.Counter("conflicting_leaves"), 200)
	r.Require("table_entries_decided", r.Counter("table_entries_decided"), 200)
	r.Require("table_entries_enumerated_values", r.Counter("table_entries_enumerated_values"), 100)
	r.Require("index_spelling_loads_plain_decimal", r.Counter("index_spelling_loads_plain_decimal"), 30)
	r.Require("loads_with_property_less_file_and_whole_configuration_in_environment", r.Counter("loads_with_property_less_file_and_whole_configuration_in_environment"), 100)
	r.Require("digit_key_loads", r.Counter("digit_key_loads"), 60)
	r.Require("value_shape_cases", r.Counter("value_shape_cases"), 500)
	r.Require("unquoted_value_loads", r.Counter("unquoted_value_loads"), 60)
	r.Require("unquoted_file_value_loads", r.Counter("unquoted_file_value_loads"), 40)
	r.Require("loads_with_types_from_environment_and_the_rest_in_the_file", r.Counter("loads_with_types_from_environment_and_the_rest_in_the_file"), 100)
	r.Require("env_prefix_loads_with_lower_case_letters_in_prefix", r.Counter("env_prefix_loads_with_lower_case_letters_in_prefix"), 12)
	if bad, tot := r.Counter("generated_configurations_not_usable_from_file"), r.Counter("configurations"); bad*10 > tot+bad {
		r.Inconclusive(fmt.Sprintf("%d of %d generated configurations are not usable from a file (generator or validator out of step)", bad, bad+tot))
	}
	r.End()
}
