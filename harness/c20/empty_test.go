package c20

import "fmt"

// emptyOverrides: "where both define a value the environment wins for exactly that leaf" also holds when the value
// given in the environment is the empty one (`VAR=`), e.g. to make a service listen on all interfaces although the
// file names one. The reference is the file alone with that leaf set to the empty value.
func (h *harness) emptyOverrides() {
	mech := func(method, subject string) string {
		return "mechanisms:\n  authenticators:\n  - id: anon\n    type: anonymous\n    config: {subject: " + subject + "}\n  - id: gen\n    type: generic\n    config:\n" +
			"      identity_info_endpoint: {url: \"http://127.0.0.1:9/id\", method: " + method + "}\n      authentication_data_source: [{header: X-Session}]\n      subject: {id: sub}\n"
	}
	cases := []struct{ name, file, ref, variable string }{
		{"serve.decision.host", "serve:\n  decision: {host: 127.0.0.1, port: 4456}\n", "serve:\n  decision: {host: \"\", port: 4456}\n", "SERVE_DECISION_HOST"},
		{"serve.management.host", "serve:\n  management: {host: 10.0.0.1}\n", "serve:\n  management: {host: \"\"}\n", "SERVE_MANAGEMENT_HOST"},
		{"serve.proxy.host", "serve:\n  proxy: {host: 192.168.1.1, port: 4455}\n", "serve:\n  proxy: {host: \"\", port: 4455}\n", "SERVE_PROXY_HOST"},
		{"mechanisms.authenticators.0.config.subject (inside a list element)", mech("POST", "someone"), mech("POST", "\"\""), "MECHANISMS_AUTHENTICATORS_0_CONFIG_SUBJECT"},
		{"mechanisms.authenticators.1.config.identity_info_endpoint.method (inside a list element)", mech("PATCH", "someone"), mech("\"\"", "someone"), "MECHANISMS_AUTHENTICATORS_1_CONFIG_IDENTITY__INFO__ENDPOINT_METHOD"},
	}
	for _, c := range cases {
		for _, val := range []string{"", "~", "null"} {
			ref := h.w.load(c.ref, nil)
			vars := []envVar{{Name: envPrefix + c.variable, Value: val}}
			obs := h.w.load(c.file, vars)
			h.r.Count("loads_with_file", 2)
			h.r.Case("empty-override|"+c.name+"|"+val, true)
			h.r.Count("empty_value_overrides", 1)
			// inside untyped option maps the empty string and "no value" are the same empty value
			norm := func(m map[string]string) map[string]string {
				out := make(map[string]string, len(m))
				for k, v := range m {
					if v == "null" {
						v = "s:"
					}
					out[k] = v
				}
				return out
			}
			if sel := describeDiff(norm(ref.Leaves), norm(obs.Leaves), 6); len(sel) > 0 || obs.LoadErr != ref.LoadErr {
				h.r.Violation("empty-environment-value-does-not-override-file", fmt.Sprintf("%s: the file gives a value, the environment the empty value %q: the result differs from the file with the empty value in %v (load errors: %q / %q)",
					c.name, val, sel, short(ref.LoadErr, 120), short(obs.LoadErr, 120)),
					caseReport{Case: "empty-override:" + c.name, Plan: "file value + empty environment value", File: c.file, Env: vars, Intended: c.ref,
						Expected: "as the file with this leaf empty", Observed: "differs", Diff: sel})
			}
		}
	}
}

