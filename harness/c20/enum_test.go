package c20

import (
	"crypto/tls"
	"net/http"
	"strconv"
	"strings"
)

// Enumerated option values: every option whose values are an enumeration (in the schema, in the
// documentation or in the loader's decoder) is tried with every value one of the sides could know,
// once by file and once by environment, under the oracles of the equivalence table (usable from a
// file if and only if usable from the environment; equal effect for documented values).
//
// Which values: the ones the schema and the documentation list, the names the library behind the
// decoder has for the same things (crypto/tls: names of all secure and insecure suites and the
// identifiers of its constants where they differ from the names; TLS versions the library knows;
// OAuth2 names of the client authentication methods ...), other spellings of valid values (case)
// and one value nobody knows.
//
// Values outside the documented set are tried where the loader checks the values itself (TLS, cache type,
// OAuth2 client authentication method, api key location, scopes matching strategy) and where the
// documentation does not restrict them (error_handlers redirect `code`: "Heimdall does not check the
// configured code for HTTP redirect validity"; cors `allowed_methods`: "list of methods", tried with the
// methods net/http knows). Where the documentation enumerates the values and the loader takes every
// string (log.level, log.format, tracing.span_processor) another value is not a valid configuration and
// outside the property's quantifier (see the note on log.level in table_test.go; the loader's `no` level
// belongs here as well: every other unknown string is accepted from the environment, too, and means info).

// documentedSuites: docs/content/docs/configuration/types.adoc, TLS, cipher_suites
var documentedSuites = map[string]bool{
	"TLS_ECDHE_ECDSA_WITH_AES_128_CBC_SHA256": true, "TLS_ECDHE_RSA_WITH_AES_128_CBC_SHA256": true,
	"TLS_ECDHE_RSA_WITH_AES_128_GCM_SHA256": true, "TLS_ECDHE_ECDSA_WITH_AES_128_GCM_SHA256": true,
	"TLS_ECDHE_RSA_WITH_AES_256_GCM_SHA384": true, "TLS_ECDHE_ECDSA_WITH_AES_256_GCM_SHA384": true,
	"TLS_ECDHE_RSA_WITH_CHACHA20_POLY1305_SHA256": true, "TLS_ECDHE_ECDSA_WITH_CHACHA20_POLY1305_SHA256": true,
}

// cipherSuiteSpellings: every name crypto/tls has for a cipher suite, and other spellings of valid names.
func cipherSuiteSpellings() []string {
	var names []string
	for _, s := range tls.CipherSuites() {
		names = append(names, s.Name)
	}
	for _, s := range tls.InsecureCipherSuites() {
		names = append(names, s.Name)
	}
	// identifiers of crypto/tls constants that differ from the suite's name (kept by the library for
	// compatibility; heimdall's own defaults are written with them)
	names = append(names, "TLS_ECDHE_RSA_WITH_CHACHA20_POLY1305", "TLS_ECDHE_ECDSA_WITH_CHACHA20_POLY1305")
	// other spellings of valid names: lower case, OpenSSL name; a name nobody knows
	names = append(names, "tls_ecdhe_rsa_with_aes_256_gcm_sha384", "ECDHE-RSA-AES256-GCM-SHA384", "TLS_VERIF_WITH_NOTHING")
	return names
}

func (h *harness) enumEntries() []entry {
	var es []entry
	// add: key names the disagreement (entries that can only fail together share it)
	add := func(key, label string, doc bool, ls ...[]tleaf) {
		es = append(es, entry{label: "enum:" + label, doc: doc, key: "enum:" + key, leaves: cat(ls...)})
	}
	one := func(path string, v, alt any) []tleaf { return []tleaf{{path: path, v: v, alt: alt, opt: true}} }

	base := cat(kv("mechanisms.authenticators.0", "id", "a0", "type", "anonymous"), kv("mechanisms.finalizers.0", "id", "f0", "type", "noop"))
	const url = "http://foo.bar/x"

	// TLS: every service has its own tls section of the same type, decoded by the same hooks: the values take turns on the services
	svcs := []string{"decision", "proxy", "management"}
	for i, name := range cipherSuiteSpellings() {
		svc := svcs[i%len(svcs)]
		add("tls.cipher_suites="+name, "serve."+svc+".tls.cipher_suites="+name, documentedSuites[name], kv("serve."+svc+".tls.key_store", "path", "/path/ks.pem"),
			kv("serve."+svc+".tls", "min_version", "TLS1.2"), one("serve."+svc+".tls.cipher_suites.0", name, nil))
	}
	for i, v := range []string{"TLS1.0", "TLS1.1", "TLS1.2", "TLS1.3", "tls1.2", "TLSv1.2", "1.2", "TLS 1.3", "VersionTLS12", "SSL3.0", "TLS1.4"} {
		svc, alt := svcs[i%len(svcs)], "TLS1.2"
		if v == alt {
			alt = "TLS1.3"
		}
		add("tls.min_version="+v, "serve."+svc+".tls.min_version="+v, v == "TLS1.2" || v == "TLS1.3", kv("serve."+svc+".tls.key_store", "path", "/path/ks.pem"),
			one("serve."+svc+".tls.min_version", v, alt))
	}
	for _, svc := range svcs {
		ks := kv("serve."+svc+".tls.key_store", "path", "/path/ks.pem")
		// two suites in one list: a valid one first must not let the second pass unchecked
		add("tls.cipher_suites=[valid, constant identifier]", "serve."+svc+".tls.cipher_suites=[valid, constant identifier]", false, ks,
			opt(kv("serve."+svc+".tls", "cipher_suites.0", "TLS_ECDHE_RSA_WITH_AES_256_GCM_SHA384", "cipher_suites.1", "TLS_ECDHE_ECDSA_WITH_CHACHA20_POLY1305")))
		add("tls.cipher_suites=[valid, insecure]", "serve."+svc+".tls.cipher_suites=[valid, insecure]", false, ks,
			opt(kv("serve."+svc+".tls", "cipher_suites.0", "TLS_ECDHE_RSA_WITH_AES_256_GCM_SHA384", "cipher_suites.1", "TLS_RSA_WITH_AES_128_CBC_SHA")))
	}

	// log, tracing: the loader takes every string, so only the documented values are valid configurations
	for _, lv := range []string{"trace", "debug", "info", "warn", "error", "fatal", "panic", "disabled"} {
		alt := "debug"
		if lv == alt {
			alt = "info"
		}
		add("log.level="+lv, "log.level="+lv+" (over another level in the file)", true, one("log.level", lv, alt))
	}
	add("log.format=text", "log.format=text", true, one("log.format", "text", "gelf"))
	add("log.format=gelf", "log.format=gelf", true, one("log.format", "gelf", "text"))
	add("tracing.span_processor=batch", "tracing.span_processor=batch", true, one("tracing.span_processor", "batch", "simple"))
	add("tracing.span_processor=simple", "tracing.span_processor=simple", true, one("tracing.span_processor", "simple", "batch"))
	for _, svc := range []string{"proxy", "management"} {
		for _, m := range []string{http.MethodGet, http.MethodHead, http.MethodPost, http.MethodPut, http.MethodDelete, http.MethodConnect, http.MethodTrace, http.MethodPatch, http.MethodOptions} {
			add("cors.allowed_methods="+m, "serve."+svc+".cors.allowed_methods="+m, m != http.MethodOptions, one("serve."+svc+".cors.allowed_methods.0", m, nil))
		}
	}

	// cache types (the type alone: back ends are not started)
	for _, typ := range []string{"noop", "in-memory", "memory", "in_memory", "inmemory", "IN-MEMORY", "none", "memcached", "redis_cluster", "redis-standalone", "verif-bogus"} {
		alt := "noop"
		if typ == alt {
			alt = "in-memory"
		}
		add("cache.type="+typ, "cache.type="+typ, typ == "noop" || typ == "in-memory", one("cache.type", typ, alt))
	}

	// OAuth2 client authentication method: finalizer and endpoint authentication strategy
	fin := kv("mechanisms.finalizers.1", "id", "x1", "type", "oauth2_client_credentials", "config.token_url", "http://foo.bar/token", "config.client_id", "cid", "config.client_secret", "cs")
	const ep = "mechanisms.authenticators.1.config.identity_info_endpoint."
	gen := kv("mechanisms.authenticators.1", "id", "x1", "type", "generic", "config.identity_info_endpoint.url", url, "config.authentication_data_source.0.cookie", "sid", "config.subject.id", "sub")
	occ := kv(strings.TrimSuffix(ep, "."), "auth.type", "oauth2_client_credentials", "auth.config.token_url", "http://foo.bar/token", "auth.config.client_id", "cid", "auth.config.client_secret", "cs")
	for _, v := range []string{"basic_auth", "request_body", "client_secret_basic", "client_secret_post", "BASIC_AUTH", "basic-auth", "body", "none"} {
		alt := "basic_auth"
		if v == alt {
			alt = "request_body"
		}
		doc := v == "basic_auth" || v == "request_body"
		add("oauth2_client_credentials.auth_method="+v, "finalizers.oauth2_client_credentials.auth_method="+v, doc, base, fin, one("mechanisms.finalizers.1.config.auth_method", v, alt))
		add("oauth2_client_credentials.auth_method="+v, "endpoint.auth.oauth2_client_credentials.auth_method="+v, doc, base, gen, occ, one(ep+"auth.config.auth_method", v, alt))
	}
	// api key location
	for _, v := range []string{"header", "cookie", "query", "HEADER", "body", "query_parameter", "path"} {
		alt := "header"
		if v == alt {
			alt = "cookie"
		}
		add("endpoint.auth.api_key.in="+v, "endpoint.auth.api_key.in="+v, v == "header" || v == "cookie" || v == "query", base, gen,
			kv(strings.TrimSuffix(ep, "."), "auth.type", "api_key", "auth.config.name", "X-Api-Key", "auth.config.value", "secret"), one(ep+"auth.config.in", v, alt))
	}
	// scopes matching strategy
	for _, typ := range []string{"jwt", "oauth2_introspection"} {
		endpoint := map[string]string{"jwt": "jwks_endpoint", "oauth2_introspection": "introspection_endpoint"}[typ]
		auth := kv("mechanisms.authenticators.1", "id", "x1", "type", typ, "config."+endpoint+".url", url, "config.assertions.issuers.0", "iss", "config.assertions.scopes.values.0", "foo")
		for _, v := range []string{"exact", "hierarchic", "wildcard", "EXACT", "hierarchical", "regex", "glob"} {
			alt := "exact"
			if v == alt {
				alt = "wildcard"
			}
			add("assertions.scopes.matching_strategy="+v, "authenticators."+typ+".assertions.scopes.matching_strategy="+v, v == "exact" || v == "hierarchic" || v == "wildcard",
				base, auth, one("mechanisms.authenticators.1.config.assertions.scopes.matching_strategy", v, alt))
		}
	}
	// redirect code: "Heimdall does not check the configured code for HTTP redirect validity" (error_handlers.adoc)
	eh := kv("mechanisms.error_handlers.0", "id", "x1", "type", "redirect", "config.to", "http://foo.bar/login")
	for _, code := range []int{301, 302, 303, 307, 308} {
		alt := 301
		if code == alt {
			alt = 302
		}
		key := "error_handlers.redirect.code=" + strconv.Itoa(code)
		if code != 301 && code != 302 {
			key = "error_handlers.redirect.code other than 301, 302"
		}
		add(key, "error_handlers.redirect.code="+strconv.Itoa(code), code == 301 || code == 302, base, eh,
			one("mechanisms.error_handlers.0.config.code", code, alt))
	}
	return es
}
