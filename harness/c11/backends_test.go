package c11

import (
	"crypto/sha256"
	"encoding/hex"
	"encoding/json"
	"fmt"
	"io"
	"math/rand/v2"
	"net/http"
	"net/http/httptest"
	"net/url"
	"sort"
	"strconv"
	"strings"
	"sync"
	"time"

	ck "github.com/dadrus/heimdall/internal/verif/cachekit"
)

// backends is a second loopback server with remote systems the cachekit servers do not offer. As there, every answer is a
// pure function of the received request and of static registered content; never of call counts.
//
//	/silent/authz?form=F   authorization endpoint which says "allowed" without telling anything: F = none (200, Content-Length: 0),
//	                       204, empty-object (200, "{}"), null (200, "null"); 403 when the request contains "deny"
//	/keyset/<name>         key sets per caller: which of the registered JWKS documents is returned depends on how the caller
//	                       identifies itself (X-Api-Tenant header, X-Api-Key header, basic auth user); 403 for unknown callers
//	/as/introspect[/x]     RFC 7662 endpoint of an authorization server issuing JWT formatted access tokens: active only for
//	                       exactly the tokens it issued (registered), {"active": false} for everything else
type backends struct {
	srv *httptest.Server
	URL string

	mu      sync.Mutex
	calls   int
	keysets map[string]map[string][]byte
	issued  map[string]map[string]any
}

func newBackends() *backends {
	b := &backends{keysets: map[string]map[string][]byte{}, issued: map[string]map[string]any{}}
	b.srv = httptest.NewServer(http.HandlerFunc(b.handle))
	b.URL = b.srv.URL
	return b
}

func (b *backends) Close() { b.srv.Close() }

// RegisterKeySet publishes doc under /keyset/<name> for the caller identifying itself as caller.
func (b *backends) RegisterKeySet(name, caller string, doc []byte) {
	b.mu.Lock()
	defer b.mu.Unlock()
	if b.keysets[name] == nil {
		b.keysets[name] = map[string][]byte{}
	}
	b.keysets[name][caller] = doc
}

// Issue makes the authorization server know the token: introspecting it yields resp.
func (b *backends) Issue(token string, resp map[string]any) {
	b.mu.Lock()
	b.issued[token] = resp
	b.mu.Unlock()
}

func (b *backends) Calls() int {
	b.mu.Lock()
	defer b.mu.Unlock()
	return b.calls
}

func (b *backends) handle(w http.ResponseWriter, r *http.Request) {
	body, _ := io.ReadAll(r.Body)
	b.mu.Lock()
	b.calls++
	b.mu.Unlock()
	seg := strings.SplitN(strings.TrimPrefix(r.URL.Path, "/"), "/", 3)
	switch {
	case len(seg) >= 2 && seg[0] == "silent" && seg[1] == "authz":
		names := make([]string, 0, len(r.Header))
		for k := range r.Header {
			if strings.HasPrefix(k, "X-") {
				names = append(names, k)
			}
		}
		sort.Strings(names)
		h := sha256.New()
		fmt.Fprintf(h, "%s %s\n", r.Method, r.RequestURI)
		for _, k := range names {
			fmt.Fprintf(h, "%s: %s\n", k, strings.Join(r.Header[k], "|"))
		}
		fmt.Fprintf(h, "\n%d:%s", len(body), body)
		echo := hex.EncodeToString(h.Sum(nil))[:20]
		if strings.Contains(string(body), "deny") {
			w.WriteHeader(http.StatusForbidden)
			return
		}
		w.Header().Set("X-Authz-Echo", echo)
		switch r.URL.Query().Get("form") {
		case "204":
			w.WriteHeader(http.StatusNoContent)
		case "empty-object", "null":
			doc := map[string]string{"empty-object": "{}", "null": "null"}[r.URL.Query().Get("form")]
			w.Header().Set("Content-Type", "application/json")
			w.Header().Set("Content-Length", strconv.Itoa(len(doc)))
			_, _ = io.WriteString(w, doc)
		default:
			w.Header().Set("Content-Length", "0")
			w.WriteHeader(http.StatusOK)
		}
	case len(seg) >= 2 && seg[0] == "keyset":
		caller := r.Header.Get("X-Api-Tenant")
		if caller == "" {
			caller = r.Header.Get("X-Api-Key")
		}
		if user, _, ok := r.BasicAuth(); ok && caller == "" {
			caller = user
		}
		b.mu.Lock()
		doc, ok := b.keysets[seg[1]][caller]
		b.mu.Unlock()
		if !ok {
			w.WriteHeader(http.StatusForbidden)
			return
		}
		w.Header().Set("Content-Type", "application/json")
		_, _ = w.Write(doc)
	case len(seg) >= 2 && seg[0] == "as" && seg[1] == "introspect":
		form, _ := url.ParseQuery(string(body))
		b.mu.Lock()
		resp, ok := b.issued[form.Get("token")]
		b.mu.Unlock()
		if !ok {
			resp = map[string]any{"active": false}
		}
		doc, _ := json.Marshal(resp)
		w.Header().Set("Content-Type", "application/json")
		w.Header().Set("Content-Length", strconv.Itoa(len(doc)))
		_, _ = w.Write(doc)
	default:
		http.NotFound(w, r)
	}
}

// ---------------------------------------------------------------------------------------------

// silentForms: the ways an authorization endpoint says "allowed" without a (meaningful) payload.
var silentForms = []string{"none", "204", "empty-object", "null"}

// lenientExpressions accept an answer which carries nothing ("" stands for: no expressions configured at all);
// strictExpressions require something from the payload.
var (
	lenientExpressions = []string{"", "true", "Payload == null || true"}
	strictExpressions  = []string{"Payload.allowed == true", "Payload != null && Payload.allowed == true", "has(Payload.allowed)"}
)

// keysetCallers: how two jwt authenticators sharing one jwks_endpoint.url identify themselves towards the key set endpoint
// (header, api key, basic auth); the rendering of the jwks_endpoint for tenant a / b.
var keysetCallers = map[string]func(url, tenant string) map[string]any{
	"header": func(u, tn string) map[string]any {
		return map[string]any{"url": u, "headers": map[string]any{"X-Api-Tenant": "tenant-" + tn}}
	},
	"api-key": func(u, tn string) map[string]any {
		return map[string]any{"url": u, "auth": map[string]any{"type": "api_key", "config": map[string]any{"in": "header", "name": "X-Api-Key", "value": "tenant-" + tn}}}
	},
	"basic-auth": func(u, tn string) map[string]any {
		return map[string]any{"url": u, "auth": map[string]any{"type": "basic_auth", "config": map[string]any{"user": "tenant-" + tn, "password": "pw-" + tn}}}
	},
}

const asIssuer = "https://as.verif.example"

// backendPrototypes: the catalogue entries talking to the second server.
func (e *env) backendPrototypes(addAuthn func(id, typ string, cfg map[string]any), addAuthz func(id string, cfg map[string]any)) {
	B := e.be.URL
	for _, f := range silentForms {
		addAuthz("ra-silent-"+f, map[string]any{
			"endpoint": map[string]any{"url": B + "/silent/authz?form=" + f},
			"payload":  `{"role": {{ quote .Subject.Attributes.role }} }`, "forward_response_headers_to_upstream": []string{"X-Authz-Echo"}, "cache_ttl": longTTL})
	}
	for how, ep := range keysetCallers {
		for _, tn := range []string{"a", "b"} {
			addAuthn("jw-ks-"+how+"-"+tn, "jwt", map[string]any{"jwks_endpoint": ep(B+"/keyset/shared", tn),
				"assertions": map[string]any{"issuers": []string{"iss-tenants"}}, "cache_ttl": longTTL})
		}
	}
	addAuthn("in-as", "oauth2_introspection", map[string]any{"introspection_endpoint": map[string]any{"url": B + "/as/introspect"},
		"assertions": map[string]any{"issuers": []string{asIssuer}}, "subject": map[string]any{"id": "sub"}, "cache_ttl": longTTL})
	addAuthn("in-as-tpl", "oauth2_introspection", map[string]any{"introspection_endpoint": map[string]any{"url": B + "/as/introspect/{{ .TokenIssuer | urlenc }}"},
		"assertions": map[string]any{"issuers": []string{asIssuer}}, "subject": map[string]any{"id": "sub"}, "cache_ttl": longTTL})
}

// backendPairs adds the pairs against the second server: answers without payload x lenient / strict rule level expressions;
// jwt authenticators on one key set url differing in how they identify themselves, the key sets of the two callers holding
// different keys under the same key id; JWT formatted access tokens sharing their claims (jti, iss, sub) with a token the
// authorization server issued, but not being that token.
func (e *env) backendPairs(add func(mechanism, component, class string, a, b mstep), rng *rand.Rand, round int) {
	one := "one-component"
	u1, u2 := "u"+rstr(rng, 5), "u"+rstr(rng, 5)
	r1 := "r" + rstr(rng, 3)
	x := rstr(rng, 4)
	now := time.Now()

	// ---- remote authorizer, answers which carry nothing
	withExpr := func(proto, expr string) mstep {
		var ov map[string]any
		if expr != "" {
			ov = map[string]any{"expressions": []any{map[string]any{"expression": expr}}}
		}
		return mstep{Kind: "authz", Proto: proto, Override: ov, Step: ck.Step{Subject: sub(u1, r1)}}
	}
	for _, f := range silentForms {
		for _, lenient := range lenientExpressions {
			for _, strict := range strictExpressions {
				add("remote_authorizer", "rule-level-expressions:answer-"+f, one, withExpr("ra-silent-"+f, lenient), withExpr("ra-silent-"+f, strict))
				e.r.Count("silent_answer_expression_pairs", 1)
			}
		}
	}

	// ---- jwt authenticators sharing the key set url
	if round == 0 {
		ka, _ := e.pki.NewKey("key-1", nil)
		kb, _ := e.pki.NewKey("key-1", nil)
		if ka == nil || kb == nil {
			e.r.Inconclusive("backend pairs: cannot create keys")
			return
		}
		e.be.RegisterKeySet("shared", "tenant-a", ck.JWKS(ka))
		e.be.RegisterKeySet("shared", "tenant-b", ck.JWKS(kb))
		e.tenantKeys = map[string]*ck.SigningKey{"a": ka, "b": kb}
		e.asKey, _ = e.pki.NewKey("as-1", nil)
		e.otherKey, _ = e.pki.NewKey("as-1", nil)
	}
	jw := func(proto, tenant, subj string) mstep {
		tok, _ := e.tenantKeys[tenant].SignJWT(map[string]any{"iss": "iss-tenants", "sub": subj, "exp": now.Add(2 * time.Hour).Unix(), "iat": now.Add(-30 * time.Second).Unix()})
		return mstep{Kind: "authn", Proto: proto, Step: ck.Step{Req: ck.Req{Headers: hdr("Authorization", "Bearer "+tok)}}}
	}
	hows := make([]string, 0, len(keysetCallers))
	for how := range keysetCallers {
		hows = append(hows, how)
	}
	sort.Strings(hows)
	for _, how := range hows {
		pa, pb := "jw-ks-"+how+"-a", "jw-ks-"+how+"-b"
		// each tenant's authenticator sees a token of its own tenant; both see the same token of tenant a
		add("jwt_authenticator", "jwks-endpoint-caller-of-other-prototype:"+how+":own-tokens", one, jw(pa, "a", u1), jw(pb, "b", u2))
		add("jwt_authenticator", "jwks-endpoint-caller-of-other-prototype:"+how+":token-of-tenant-a", one, jw(pa, "a", u1), jw(pb, "a", u1))
		e.r.Count("keyset_caller_pairs", 2)
	}
	// ... and differing in the kind of identification
	add("jwt_authenticator", "jwks-endpoint-caller-of-other-prototype:header-vs-api-key:token-of-tenant-a", one, jw("jw-ks-header-a", "a", u1), jw("jw-ks-api-key-b", "a", u1))
	add("jwt_authenticator", "jwks-endpoint-caller-of-other-prototype:api-key-vs-basic-auth:token-of-tenant-a", one, jw("jw-ks-api-key-a", "a", u1), jw("jw-ks-basic-auth-b", "a", u1))
	e.r.Count("keyset_caller_pairs", 2)

	// ---- JWT formatted access tokens at the introspection endpoint
	if e.asKey == nil || e.otherKey == nil {
		return
	}
	exp := now.Add(2 * time.Hour).Unix()
	claims := func(subj, jti string, more map[string]any) map[string]any {
		c := map[string]any{"iss": asIssuer, "sub": subj, "jti": jti, "exp": exp, "iat": now.Add(-30 * time.Second).Unix(), "scope": "read"}
		for k, v := range more {
			c[k] = v
		}
		return c
	}
	jti := "id-" + x
	genuine, _ := e.asKey.SignJWT(claims(u1, jti, nil))
	e.be.Issue(genuine, map[string]any{"active": true, "sub": u1, "iss": asIssuer, "scope": "read", "exp": exp, "token_type": "access_token", "jti": jti})
	second, _ := e.asKey.SignJWT(claims(u2, "id2-"+x, nil))
	e.be.Issue(second, map[string]any{"active": true, "sub": u2, "iss": asIssuer, "scope": "read", "exp": exp, "token_type": "access_token", "jti": "id2-" + x})
	others := map[string]string{}
	// the same claims, signed by somebody else: differs from the genuine token in the signature only
	others["same-claims-other-signature"], _ = e.otherKey.SignJWT(claims(u1, jti, nil))
	// the same jti / iss / sub, a further claim
	others["same-jti-iss-sub-further-claim"], _ = e.otherKey.SignJWT(claims(u1, jti, map[string]any{"scope": "read admin"}))
	// the same jti / iss, another subject
	others["same-jti-iss-other-sub"], _ = e.otherKey.SignJWT(claims(u2, jti, nil))
	// the genuine token with its signature cut off and replaced
	if i := strings.LastIndex(genuine, "."); i > 0 {
		others["same-header-and-claims-made-up-signature"] = genuine[:i+1] + strings.Repeat("A", len(genuine)-i-1)
	}
	in := func(proto, tok string) mstep {
		return mstep{Kind: "authn", Proto: proto, Step: ck.Step{Req: ck.Req{Headers: hdr("Authorization", "Bearer "+tok)}}}
	}
	kinds := make([]string, 0, len(others))
	for k := range others {
		kinds = append(kinds, k)
	}
	sort.Strings(kinds)
	for _, proto := range []string{"in-as", "in-as-tpl"} {
		add("oauth2_introspection", "credential-jwt:two-issued-tokens", one, in(proto, genuine), in(proto, second))
		for _, k := range kinds {
			if others[k] == "" || others[k] == genuine {
				continue
			}
			add("oauth2_introspection", "credential-jwt:"+k, one, in(proto, genuine), in(proto, others[k]))
			e.r.Count("jwt_formatted_access_token_pairs", 1)
		}
	}
}
