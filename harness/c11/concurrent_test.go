package c11

import (
	"context"
	"fmt"
	"os"
	"strings"
	"sync"
	"time"

	"github.com/dadrus/heimdall/internal/cache"
	ck "github.com/dadrus/heimdall/internal/verif/cachekit"
	"github.com/dadrus/heimdall/internal/verif/vkit/core"
)

// ---------------------------------------------------------------------------------------------
// (4) overlapping requests: the two requests of a pair are in flight at the same time, on one cache, while the remote
// system is slow (a gate in the test server keeps the first request until the second one arrived, or is known to be stuck
// inside heimdall). Whatever the interleaving, each request must end as the same request ends alone with the cache off.

// reqCache is the view of one request onto the shared cache (tells which request had a hit).
type reqCache struct {
	inner cache.Cache

	mu         sync.Mutex
	hits, sets int
}

var _ cache.Cache = (*reqCache)(nil)

func (c *reqCache) Start(context.Context) error { return nil }
func (c *reqCache) Stop(context.Context) error  { return nil }

func (c *reqCache) Get(ctx context.Context, key string) ([]byte, error) {
	v, err := c.inner.Get(ctx, key)
	if err == nil {
		c.mu.Lock()
		c.hits++
		c.mu.Unlock()
	}
	return v, err
}

func (c *reqCache) Set(ctx context.Context, key string, value []byte, ttl time.Duration) error {
	c.mu.Lock()
	c.sets++
	c.mu.Unlock()
	return c.inner.Set(ctx, key, value, ttl)
}

func (c *reqCache) hit() bool {
	c.mu.Lock()
	defer c.mu.Unlock()
	return c.hits > 0
}

type concStep struct {
	Which      string     `json:"which"`
	Role       string     `json:"role"` // leader (first at the remote system) | follower | afterwards (sequentially, same cache)
	CacheOn    ck.Outcome `json:"cache_on"`
	Alone      ck.Outcome `json:"alone_cache_off"`
	Equal      bool       `json:"equal"`
	Hit        bool       `json:"answered_with_cache_hit"`
	AtRemote   bool       `json:"reached_the_remote_system_before_the_release"`
	InFlightAt string     `json:"state_at_release,omitempty"`
}

type concRec struct {
	pairCase
	Leader      string     `json:"leader"`
	Overlapping bool       `json:"both_requests_in_flight_at_the_same_time"`
	Steps       []concStep `json:"steps"`
	RemoteCalls int        `json:"remote_calls"`
	Events      []ck.Event `json:"cache_events"`
}

const (
	// followerPatience: how long a follower which neither reached the remote system nor finished is waited for before the
	// gate is opened (it is stuck inside heimdall then, or the machine is slow: in both cases the verdict does not depend on it)
	followerPatience = 250 * time.Millisecond
	leaderPatience   = 5 * time.Second
	finishPatience   = 30 * time.Second
)

func (e *env) concurrent() {
	for _, pc := range e.conc {
		for _, leader := range []string{"A", "B"} {
			if !e.runOverlapping(pc, leader) {
				return
			}
		}
	}
}

// runOverlapping returns false when the harness cannot continue (a request never finished).
func (e *env) runOverlapping(pc pairCase, leader string) bool {
	lead, follow, follower := pc.A, pc.B, "B"
	if leader == "B" {
		lead, follow, follower = pc.B, pc.A, "A"
	}
	off := ck.NewNoop()
	aloneLead, aloneFollow := e.exec(lead, off), e.exec(follow, off)
	if aloneLead.Err == "create" || aloneFollow.Err == "create" {
		return true // reported by the sequential part
	}
	on := ck.NewMemory()
	cLead, cFollow := &reqCache{inner: on}, &reqCache{inner: on}
	calls0 := e.srv.All()
	gate := e.srv.Hold()
	defer gate.Release()

	type res struct {
		o    ck.Outcome
		done bool
	}
	start := func(ms mstep, c cache.Cache) chan ck.Outcome {
		ch := make(chan ck.Outcome, 1)
		go func() { ch <- e.exec(ms, c) }()
		return ch
	}
	// await: the request reached the gate (true), finished without (result kept), or neither within the patience
	await := func(ch chan ck.Outcome, r *res, patience time.Duration) bool {
		select {
		case <-gate.Arrived():
			return true
		case r.o = <-ch:
			r.done = true
		case <-time.After(patience):
		}
		return false
	}
	var rLead, rFollow res
	chLead := start(lead, cLead)
	leadHeld := await(chLead, &rLead, leaderPatience)
	chFollow := start(follow, cFollow)
	followHeld := await(chFollow, &rFollow, followerPatience)
	state := func(held bool, r res) string {
		switch {
		case held:
			return "held by the remote system"
		case r.done:
			return "finished"
		}
		return "not at the remote system (waiting inside heimdall, or not yet scheduled)"
	}
	stLead, stFollow := state(leadHeld, rLead), state(followHeld, rFollow)
	overlapping := leadHeld && !rFollow.done
	gate.Release()
	for _, w := range []struct {
		ch chan ck.Outcome
		r  *res
	}{{chLead, &rLead}, {chFollow, &rFollow}} {
		if w.r.done {
			continue
		}
		select {
		case w.r.o = <-w.ch:
			w.r.done = true
		case <-time.After(finishPatience):
			e.r.Inconclusive(fmt.Sprintf("overlapping requests %s/%s: a request did not finish within %s after the remote system answered", pc.Mechanism, pc.Component, finishPatience))
			return false
		}
	}
	rec := concRec{pairCase: pc, Leader: leader, Overlapping: overlapping}
	rec.Steps = append(rec.Steps,
		concStep{Which: leader, Role: "leader", CacheOn: rLead.o, Alone: aloneLead, Hit: cLead.hit(), AtRemote: leadHeld, InFlightAt: stLead},
		concStep{Which: follower, Role: "follower", CacheOn: rFollow.o, Alone: aloneFollow, Hit: cFollow.hit(), AtRemote: followHeld, InFlightAt: stFollow})
	// afterwards: both once more, one after the other, on the cache the overlapping requests left behind
	for i, ms := range []mstep{lead, follow} {
		c := &reqCache{inner: on}
		o := e.exec(ms, c)
		rec.Steps = append(rec.Steps, concStep{Which: []string{leader, follower}[i], Role: "afterwards", CacheOn: o, Alone: []ck.Outcome{aloneLead, aloneFollow}[i], Hit: c.hit()})
	}
	rec.RemoteCalls = e.srv.All() - calls0
	rec.Events = on.Events()
	firstBad := -1
	for i := range rec.Steps {
		st := &rec.Steps[i]
		st.Equal = st.CacheOn.Comparable() == st.Alone.Comparable()
		if !st.Equal && firstBad < 0 {
			firstBad = i
		}
	}
	nontrivial := overlapping && aloneLead.Comparable() != aloneFollow.Comparable()
	e.r.Case("overlap|"+pc.Mechanism+"|"+pc.Component+"|"+leader+"|"+core.Hash(pc), nontrivial)
	e.r.Count("concurrent_pairs", 1)
	e.r.Count("concurrent_pairs:"+pc.Mechanism, 1)
	if overlapping {
		e.r.Count("concurrent_overlapping", 1)
		e.r.Count("concurrent_overlapping:"+pc.Mechanism, 1)
		if followHeld {
			e.r.Count("concurrent_both_held_by_remote_system", 1)
		} else {
			e.r.Count("concurrent_follower_not_at_remote_system_at_release", 1)
		}
	}
	if nontrivial {
		e.r.Count("concurrent_nontrivial", 1)
	}
	if os.Getenv("VERIF_DEBUG") != "" {
		fmt.Printf("DEBUG overlap %s/%s leader=%s overlapping=%v nontrivial=%v lead=%s follow=%s\n", pc.Mechanism, pc.Component, leader, overlapping, nontrivial, stLead, stFollow)
	}
	if firstBad < 0 {
		if nontrivial {
			e.r.Sample(map[string]any{"part": "overlapping", "mechanism": pc.Mechanism, "component": pc.Component, "leader": leader, "remote_calls": rec.RemoteCalls})
		}
		return true
	}
	bad := rec.Steps[firstBad]
	e.r.Violation(concSignature(pc, rec, firstBad), fmt.Sprintf("%s, pair differing in %s, %s leads, %s overlapping (leader: %s, follower: %s): %s %s => %s, alone with the cache off => %s",
		pc.Mechanism, pc.Component, leader, map[bool]string{true: "requests", false: "requests NOT"}[overlapping], stLead, stFollow,
		bad.Role, bad.Which, brief(bad.CacheOn), brief(bad.Alone)), rec)
	return true
}

// concSignature classifies a disagreement of the overlapping part. A request which ends differently while both were in
// flight, without a cache hit, with exactly what the other request ended with, has taken over the other one's result.
func concSignature(pc pairCase, rec concRec, i int) string {
	bad := rec.Steps[i]
	if bad.Role == "afterwards" || bad.Hit {
		// the same observation as in the sequential part: a stored entry answers a request it was not computed for (on a slow
		// machine the follower may start only after the leader stored its result)
		return pairSignature(pc, stepCmp{Which: bad.Which, CacheOn: bad.CacheOn, CacheOff: bad.Alone, Hit: bad.Hit})
	}
	comp, _, _ := strings.Cut(pc.Component, ":")
	other := rec.Steps[1-i]
	if rec.Overlapping && bad.CacheOn.Comparable() == other.CacheOn.Comparable() {
		return "in-flight-result-taken-over-from-other-request:" + pc.Mechanism + ":" + comp
	}
	return "overlapping-requests-change-outcome:" + pc.Mechanism
}
