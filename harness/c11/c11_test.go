// Package c11 decides property C11 ("Cached results are reused exactly for requests equal in all they depend on") on
// executions of heimdall's real mechanisms against hash-echo test servers: (1) determinism of cache keys and reuse for
// identical requests, (2)+(3) cache-on == cache-off for pairs of related requests.
package c11

import (
	"crypto"
	"crypto/ecdsa"
	"crypto/elliptic"
	"crypto/rand"
	"fmt"
	"net/http"
	"os"
	"path/filepath"
	"sort"
	"strings"
	"testing"

	"github.com/go-jose/go-jose/v4"

	"github.com/dadrus/heimdall/internal/cache"
	"github.com/dadrus/heimdall/internal/config"
	"github.com/dadrus/heimdall/internal/keystore"
	ck "github.com/dadrus/heimdall/internal/verif/cachekit"
	"github.com/dadrus/heimdall/internal/verif/vkit/app"
	"github.com/dadrus/heimdall/internal/verif/vkit/core"
	"github.com/dadrus/heimdall/internal/x/pkix/pemx"
)

type env struct {
	r   *core.Run
	dir string
	srv *ck.Servers
	pki *ck.PKI
	// pki2 is a second, independent root CA: what one trust store accepts the other one refuses; trustBoth holds both roots
	pki2      *ck.PKI
	trustBoth string
	// conc: the pair cases which are also executed as overlapping requests against a gated remote system
	conc    []pairCase
	a       *app.App
	signer  string
	nonce   int
	det     []detConfig
	jwtKeys map[string]*ck.SigningKey
	// key stores of jwt signers: label -> PEM file; materials: name of the key material -> public key (to tell which
	// key a handed out JWT was signed with)
	stores    map[string]string
	materials map[string]crypto.PublicKey
	// be: the second server (answers without payload, key sets per caller, an authorization server issuing JWT formatted
	// access tokens) and the keys used with it
	be              *backends
	tenantKeys      map[string]*ck.SigningKey
	asKey, otherKey *ck.SigningKey
}

// ksEntry is one key of a signer key store: which key material is published under which key id.
type ksEntry struct{ kid, material string }

// writeKeyStores creates the signer key stores of the jwt finalizer prototypes: the same key material under different key
// ids, different material under the same key id, and a store holding one key under two ids.
func (e *env) writeKeyStores(dir string) error {
	e.stores = map[string]string{"default": e.signer}
	e.materials = map[string]crypto.PublicKey{}
	ks, err := keystore.NewKeyStoreFromPEMFile(e.signer, "")
	if err != nil {
		return err
	}
	for _, en := range ks.Entries() {
		e.materials["default:"+en.KeyID] = en.PrivateKey.Public()
	}
	keys := map[string]*ecdsa.PrivateKey{}
	for _, m := range []string{"key-a", "key-b"} {
		k, err := ecdsa.GenerateKey(elliptic.P256(), rand.Reader)
		if err != nil {
			return err
		}
		keys[m] = k
		e.materials[m] = k.Public()
	}
	for label, entries := range map[string][]ksEntry{
		"a-as-k1":   {{"k1", "key-a"}},
		"a-as-k2":   {{"k2", "key-a"}},
		"b-as-k1":   {{"k1", "key-b"}},
		"b-as-k2":   {{"k2", "key-b"}},
		"a-k1-b-k2": {{"k1", "key-a"}, {"k2", "key-b"}},
		"b-k1-a-k2": {{"k1", "key-b"}, {"k2", "key-a"}},
	} {
		var opts []pemx.EntryOption
		for _, en := range entries {
			opts = append(opts, pemx.WithECDSAPrivateKey(keys[en.material], pemx.WithHeader("X-Key-ID", en.kid)))
		}
		pem, err := pemx.BuildPEM(opts...)
		if err != nil {
			return err
		}
		p := filepath.Join(dir, fmt.Sprintf("signer-%s-%d.pem", label, os.Getpid()))
		if err = os.WriteFile(p, pem, 0o600); err != nil {
			return err
		}
		e.stores[label] = p
	}
	return nil
}

// signedWith tells for every JWT among the upstream headers with which of the known key materials its signature verifies.
func (e *env) signedWith(h http.Header) string {
	var notes []string
	for name, vs := range h {
		for _, v := range vs {
			_, tok, ok := strings.Cut(v, " ")
			if !ok {
				tok = v
			}
			jws, err := jose.ParseSigned(tok, []jose.SignatureAlgorithm{jose.ES256, jose.ES384, jose.ES512, jose.PS256, jose.RS256})
			if err != nil {
				continue
			}
			var by []string
			for m, pub := range e.materials {
				if _, err = jws.Verify(pub); err == nil {
					by = append(by, m)
				}
			}
			sort.Strings(by)
			e.r.Count("issued_jwts_signature_checked", 1)
			notes = append(notes, fmt.Sprintf("%s: jwt signature verifies with %v", name, by))
		}
	}
	sort.Strings(notes)
	return strings.Join(notes, "; ")
}

// writeTrustBoth writes a trust store holding the root certificates of both CAs.
func (e *env) writeTrustBoth(dir string) error {
	pem, err := pemx.BuildPEM(pemx.WithX509Certificate(e.pki.CA.Certificate), pemx.WithX509Certificate(e.pki2.CA.Certificate))
	if err != nil {
		return err
	}
	e.trustBoth = filepath.Join(dir, fmt.Sprintf("trust-both-%d.pem", os.Getpid()))
	return os.WriteFile(e.trustBoth, pem, 0o600)
}

func (e *env) next() string { e.nonce++; return fmt.Sprintf("n%d", e.nonce) }

// mstep is one mechanism execution: which mechanism (prototype + rule level config) sees which request.
type mstep struct {
	Kind     string         `json:"kind"` // authn | authz | ctx | fin
	Proto    string         `json:"prototype"`
	Override map[string]any `json:"rule_level_config,omitempty"`
	Step     ck.Step        `json:"step"`
}

// exec creates the mechanism through the real factory (fresh evaluation of the rule level config) and runs it.
func (e *env) exec(ms mstep, c cache.Cache) ck.Outcome {
	var ov config.MechanismConfig
	if ms.Override != nil {
		ov = config.MechanismConfig(deepCopy(ms.Override).(map[string]any))
	}
	switch ms.Kind {
	case "authn":
		m, err := e.a.MF.CreateAuthenticator("", ms.Proto, ov)
		if err != nil {
			return ck.Outcome{Err: "create", ErrText: err.Error()}
		}
		return ck.RunAuthn(m, ms.Step, c)
	case "authz":
		m, err := e.a.MF.CreateAuthorizer("", ms.Proto, ov)
		if err != nil {
			return ck.Outcome{Err: "create", ErrText: err.Error()}
		}
		return ck.RunExec(m, ms.Step, c)
	case "ctx":
		m, err := e.a.MF.CreateContextualizer("", ms.Proto, ov)
		if err != nil {
			return ck.Outcome{Err: "create", ErrText: err.Error()}
		}
		return ck.RunExec(m, ms.Step, c)
	case "fin":
		m, err := e.a.MF.CreateFinalizer("", ms.Proto, ov)
		if err != nil {
			return ck.Outcome{Err: "create", ErrText: err.Error()}
		}
		out, raw := ck.RunExecRaw(m, ms.Step, c)
		out.Notes = e.signedWith(raw)
		return out
	}
	return ck.Outcome{Err: "create", ErrText: "unknown kind " + ms.Kind}
}

func deepCopy(v any) any {
	switch x := v.(type) {
	case map[string]any:
		out := make(map[string]any, len(x))
		for k, vv := range x {
			out[k] = deepCopy(vv)
		}
		return out
	case []any:
		out := make([]any, len(x))
		for i, vv := range x {
			out[i] = deepCopy(vv)
		}
		return out
	case []string:
		return append([]string(nil), x...)
	}
	return v
}

func TestC11(t *testing.T) {
	r := core.Begin("C11", "exploration")
	r.Rule("(1) determinism: seeded random mechanism configurations (3-6 endpoint headers, 3-6 values, 3-6 subject attributes / pipeline outputs) for " +
		"remote authorizer, generic contextualizer, generic/jwt/oauth2_introspection authenticators, jwt and client-credentials finalizers and the HTTP cache; " +
		"the same request 60x, each time a freshly created mechanism and request context: exactly the cache keys and remote calls of the first evaluation. " +
		"(2) pairs of requests differing in exactly one component (subject id/attribute, rendered payload, one value, credential, forwarded header/cookie value, " +
		"pipeline output, rule level policy/override, other prototype with the same endpoint, subject id where no template looks at it, endpoint URL query parts net/url cannot parse) " +
		"and (3) pairs shifted across component boundaries ((ab,c) vs (a,bc); a value moving from one forwarded header/cookie to another one which is absent): " +
		"the sequences A,B,A and B,A,B are executed with the recording in-memory cache and with the no-op cache; outcome (error kind, subject, outputs, upstream headers) must be equal per step. " +
		"A pair is non-trivial when the cache-off outcomes of A and B differ (a wrong reuse is visible); a determinism case is non-trivial when a value was stored and looked up again. " +
		"The remote systems answer with numbers, nested objects and lists (announced as JSON and as YAML) which rule level expressions calculate with; the outcome includes the kinds " +
		"(string / float64 / int / list / object) of subject attributes and pipeline outputs, the JOSE header of issued JWTs and the key material their signature verifies with. " +
		"Introspection / jwt authenticators also discover their endpoints through a metadata document, with trusted issuers absent, equal to, different from and a superset of the " +
		"metadata issuer, and issuers narrowed on rule level; jwt finalizers use signer key stores with the same key material under different key ids, different material under the same id, " +
		"several keys selected by key_id, and different signer names. Values of the remote authorizer / generic contextualizer (catalogue level and rule level) rendered from " +
		"request attributes (header, cookie, path, method) and used in the endpoint URL, an endpoint header resp. the payload; generic authenticators on one endpoint differing in the payload " +
		"template resp. in having a session_lifespan (credentials whose session is inactive / expired); jwt authenticators on one JWKS endpoint with and without JWK certificate validation " +
		"(certificates of an untrusted CA / with the wrong key usage).")
	r.Assume("test servers answer as a pure function of the received request (method, URI, Authorization/Cookie/Content-Type/Accept/X-* headers, body)",
		"JWTs issued by the jwt finalizer are compared by their JOSE header, their claims without iat/nbf/exp/jti and the key their signature verifies with",
		"Authorization values differing only in what RFC 9110 declares insignificant (case of the scheme, number of blanks) are never paired with each other: a cache may treat them as equal",
		"two values of different kinds (float64 / int / string as json.Number) are different values for the pipeline even if they render to the same JSON text: CEL has no overloads across them")

	dir := os.Getenv("VERIF_RUNDIR")
	if dir == "" {
		dir = t.TempDir()
	}
	e := &env{r: r, dir: dir, srv: ck.NewServers(), be: newBackends()}
	defer e.srv.Close()
	defer e.be.Close()
	var err error
	if e.pki, err = ck.NewPKI(dir); err != nil {
		r.Inconclusive("pki: " + err.Error())
		r.End()
	}
	if e.pki2, err = ck.NewPKI(dir); err != nil {
		r.Inconclusive("pki: " + err.Error())
		r.End()
	}
	if err = e.writeTrustBoth(dir); err != nil {
		r.Inconclusive("trust store: " + err.Error())
		r.End()
	}
	if e.signer, err = ck.WriteSignerKeyStore(dir); err != nil {
		r.Inconclusive("signer key store: " + err.Error())
		r.End()
	}
	if err = e.writeKeyStores(dir); err != nil {
		r.Inconclusive("signer key stores: " + err.Error())
		r.End()
	}
	e.a, err = app.New(app.Options{Mutate: func(c *config.Configuration) { e.prototypes(c) }})
	if err != nil {
		r.Inconclusive("app: " + err.Error())
		r.End()
	}
	defer e.a.Stop()

	e.determinism()
	e.pairs()
	e.concurrent()

	r.Require("determinism_cases_with_reuse", r.Counter("determinism_nontrivial"), 20)
	r.Require("nontrivial_pairs", r.Counter("pairs_nontrivial"), 60)
	r.Require("cache_hits", r.Counter("cache_hits"), 500)
	r.Require("issued_jwts_signature_checked", r.Counter("issued_jwts_signature_checked"), 100)
	r.Require("outcomes_with_value_kinds_compared", r.Counter("outcomes_with_value_kinds_compared"), 200)
	r.Require("concurrent_overlapping_pairs", r.Counter("concurrent_overlapping"), 100)
	r.Require("concurrent_overlapping_pairs_with_different_outcomes", r.Counter("concurrent_nontrivial"), 50)
	r.Require("http_cache_authorization_shape_pairs_nontrivial", r.Counter("authorization_shape_pairs_nontrivial"), 40)
	r.Require("trust_store_pairs_nontrivial", r.Counter("trust_store_pairs_nontrivial"), 20)
	r.Require("silent_answer_expression_pairs_nontrivial", r.Counter("silent_answer_pairs_nontrivial"), 20)
	r.Require("keyset_caller_pairs_nontrivial", r.Counter("keyset_caller_pairs_nontrivial"), 10)
	r.Require("jwt_formatted_access_token_pairs_nontrivial", r.Counter("jwt_formatted_access_token_pairs_nontrivial"), 10)
	r.End()
}

// ---------------------------------------------------------------------------------------------
// (1) determinism

type detRec struct {
	Mechanism   string   `json:"mechanism"`
	Config      any      `json:"mechanism_config"`
	Step        mstep    `json:"step"`
	Iterations  int      `json:"iterations"`
	FirstKeys   []string `json:"cache_keys_of_first_evaluation"`
	AllKeys     []string `json:"distinct_cache_keys"`
	FirstCalls  int      `json:"remote_calls_of_first_evaluation"`
	TotalCalls  int      `json:"remote_calls_total"`
	Sets        int      `json:"cache_sets"`
	Hits        int      `json:"cache_hits"`
	Outcomes    int      `json:"distinct_outcomes"`
	FirstResult string   `json:"first_outcome"`
}

func (e *env) determinism() {
	const iterations = 60
	for _, dc := range e.det {
		for _, ms := range dc.steps(e) {
			c := ck.NewMemory()
			s0 := e.srv.All()
			rec := detRec{Mechanism: dc.Mech, Config: dc.Config, Step: ms, Iterations: iterations}
			outcomes := map[string]bool{}
			for i := 0; i < iterations; i++ {
				out := e.exec(ms, c)
				outcomes[out.Comparable()] = true
				if i == 0 {
					rec.FirstKeys = ck.Keys(c.Events())
					rec.FirstCalls = e.srv.All() - s0
					rec.FirstResult = out.Err + " " + out.ErrText
				}
			}
			ev := c.Events()
			rec.AllKeys = ck.Keys(ev)
			rec.TotalCalls = e.srv.All() - s0
			_, rec.Hits, rec.Sets = ck.Summary(ev)
			rec.Outcomes = len(outcomes)
			nontrivial := rec.Sets > 0 && (rec.Hits > 0 || len(rec.AllKeys) > 1) && !strings.HasPrefix(rec.FirstResult, "create")
			if os.Getenv("VERIF_DEBUG") != "" {
				fmt.Printf("DEBUG det %s nontrivial=%v %s\n", dc.Mech, nontrivial, core.JSON(rec))
			}
			e.r.Case("det|"+dc.Mech+"|"+core.Hash(dc.Config)+"|"+core.Hash(ms), nontrivial)
			e.r.Count("cache_hits", rec.Hits)
			e.r.Count("cache_sets", rec.Sets)
			e.r.Count("determinism_cases:"+dc.Mech, 1)
			if nontrivial {
				e.r.Count("determinism_nontrivial", 1)
			}
			if strings.HasPrefix(rec.FirstResult, "create") {
				e.r.Inconclusive("determinism: cannot create " + dc.Mech + ": " + rec.FirstResult)
				continue
			}
			switch {
			case len(rec.AllKeys) > len(rec.FirstKeys):
				e.r.Violation("nondeterministic-cache-key:"+dc.Mech, fmt.Sprintf("%s: %d distinct cache keys for %d identical requests (first evaluation used %d), %d remote calls instead of %d",
					dc.Mech, len(rec.AllKeys), iterations, len(rec.FirstKeys), rec.TotalCalls, rec.FirstCalls), rec)
			case rec.Sets > 0 && rec.TotalCalls > rec.FirstCalls:
				e.r.Violation("identical-request-not-served-from-cache:"+dc.Mech, fmt.Sprintf("%s: %d remote calls for %d identical requests within the TTL (first evaluation needed %d)",
					dc.Mech, rec.TotalCalls, iterations, rec.FirstCalls), rec)
			case rec.Outcomes != 1:
				e.r.Violation("identical-requests-different-outcomes:"+dc.Mech, fmt.Sprintf("%s: %d distinct outcomes for identical requests", dc.Mech, rec.Outcomes), rec)
			default:
				e.r.Sample(map[string]any{"part": "determinism", "mechanism": dc.Mech, "iterations": iterations, "keys": len(rec.AllKeys), "remote_calls": rec.TotalCalls, "hits": rec.Hits})
			}
		}
	}
}

// ---------------------------------------------------------------------------------------------
// (2)+(3) pairs, cache-on == cache-off

type pairCase struct {
	Mechanism string `json:"mechanism"`
	Component string `json:"differing_component"`
	Class     string `json:"class"` // one-component | boundary-shift
	A         mstep  `json:"a"`
	B         mstep  `json:"b"`
}

type stepCmp struct {
	Which    string     `json:"which"`
	CacheOn  ck.Outcome `json:"cache_on"`
	CacheOff ck.Outcome `json:"cache_off"`
	Equal    bool       `json:"equal"`
	Hit      bool       `json:"answered_with_cache_hit"`
}

type pairRec struct {
	pairCase
	Order  string     `json:"order"`
	Steps  []stepCmp  `json:"steps"`
	Events []ck.Event `json:"cache_events"`
}

func (e *env) runPair(pc pairCase) {
	for _, order := range []string{"ABA", "BAB"} {
		seq := make([]mstep, 0, 3)
		for _, ch := range order {
			if ch == 'A' {
				seq = append(seq, pc.A)
			} else {
				seq = append(seq, pc.B)
			}
		}
		on, off := ck.NewMemory(), ck.NewNoop()
		rec := pairRec{pairCase: pc, Order: order}
		var offA, offB string
		firstBad := -1
		for i, ms := range seq {
			n0 := on.Len()
			oOn := e.exec(ms, on)
			_, hits, _ := ck.Summary(on.EventsSince(n0))
			oOff := e.exec(ms, off)
			eq := oOn.Comparable() == oOff.Comparable()
			if oOn.Types != "" && oOff.Types != "" {
				e.r.Count("outcomes_with_value_kinds_compared", 1)
			}
			rec.Steps = append(rec.Steps, stepCmp{Which: string(order[i]), CacheOn: oOn, CacheOff: oOff, Equal: eq, Hit: hits > 0})
			if !eq && firstBad < 0 {
				firstBad = i
			}
			if order[i] == 'A' {
				offA = oOff.Comparable()
			} else {
				offB = oOff.Comparable()
			}
			if oOn.Err == "create" || oOff.Err == "create" {
				e.r.Inconclusive(fmt.Sprintf("pair %s/%s: cannot create mechanism: %s", pc.Mechanism, pc.Component, oOn.ErrText))
				return
			}
		}
		rec.Events = on.Events()
		_, hits, sets := ck.Summary(rec.Events)
		nontrivial := offA != offB
		e.r.Case("pair|"+pc.Mechanism+"|"+pc.Component+"|"+order+"|"+core.Hash(pc), nontrivial)
		e.r.Count("cache_hits", hits)
		e.r.Count("cache_sets", sets)
		e.r.Count("pairs:"+pc.Mechanism, 1)
		e.r.Count("pairs_class:"+pc.Class, 1)
		if nontrivial {
			e.r.Count("pairs_nontrivial", 1)
			e.r.Count("pairs_nontrivial_component:"+pc.Mechanism+"/"+pc.Component, 1)
			switch comp, _, _ := strings.Cut(pc.Component, ":"); comp {
			case "http-authorization-shape":
				e.r.Count("authorization_shape_pairs_nontrivial", 1)
			case "trust-store-of-other-prototype":
				e.r.Count("trust_store_pairs_nontrivial", 1)
			case "rule-level-expressions":
				if strings.HasPrefix(pc.Component, "rule-level-expressions:answer-") {
					e.r.Count("silent_answer_pairs_nontrivial", 1)
				}
			case "jwks-endpoint-caller-of-other-prototype":
				e.r.Count("keyset_caller_pairs_nontrivial", 1)
			case "credential-jwt":
				e.r.Count("jwt_formatted_access_token_pairs_nontrivial", 1)
			}
		}
		if os.Getenv("VERIF_DEBUG") != "" {
			fmt.Printf("DEBUG pair %s/%s %s nontrivial=%v hits=%d: %s\n", pc.Mechanism, pc.Component, order, nontrivial, hits, core.JSON(rec.Steps))
		}
		if firstBad < 0 {
			if nontrivial && hits > 0 {
				e.r.Sample(map[string]any{"part": "pairs", "mechanism": pc.Mechanism, "component": pc.Component, "order": order, "hits": hits, "sets": sets})
			}
			continue
		}
		bad := rec.Steps[firstBad]
		sOn, sOff := brief(bad.CacheOn), brief(bad.CacheOff)
		if onlyTypesDiffer(bad) {
			sOn, sOff = "value kinds "+typeDiff(bad.CacheOn.Types, bad.CacheOff.Types), "value kinds "+typeDiff(bad.CacheOff.Types, bad.CacheOn.Types)
		}
		e.r.Violation(pairSignature(pc, bad), fmt.Sprintf("%s, pair differing in %s, order %s step %d (%s): cache on => %s, cache off => %s",
			pc.Mechanism, pc.Component, order, firstBad+1, bad.Which, sOn, sOff), rec)
	}
}

func brief(o ck.Outcome) string {
	if o.Err != "" {
		return "error:" + o.Err
	}
	s := "ok " + o.Subject + o.Outputs + o.Upstream
	if o.Notes != "" {
		s = "ok [" + o.Notes + "] " + o.Subject + o.Outputs + o.Upstream
	}
	if len(s) > 160 {
		s = s[:160] + "..."
	}
	return s
}

// onlyTypesDiffer: both evaluations succeeded with the same subject and upstream headers, but the kinds of the values the
// pipeline continues with are not the same (which may show in the rendering of the values as well: precision of large numbers).
func onlyTypesDiffer(bad stepCmp) bool {
	a, b := bad.CacheOn, bad.CacheOff
	return a.Err == b.Err && a.Subject == b.Subject && a.Upstream == b.Upstream && a.Notes == b.Notes && a.Types != b.Types
}

// firstKinds returns the kinds at the first position at which the shapes differ.
func firstKinds(on, off string) (string, string) {
	i := 0
	for i < len(on) && i < len(off) && on[i] == off[i] {
		i++
	}
	word := func(s string) string {
		from := strings.LastIndexAny(s[:i], ":,{[") + 1
		to := len(s)
		if j := strings.IndexAny(s[i:], ",}]"); j >= 0 {
			to = i + j
		}
		w := s[from:to]
		if k := strings.IndexAny(w, ":{["); k >= 0 {
			w = "structure"
		}
		return w
	}
	return word(on), word(off)
}

// typeDiff shows the surroundings of the first position at which shape a differs from shape b.
func typeDiff(a, b string) string {
	i := 0
	for i < len(a) && i < len(b) && a[i] == b[i] {
		i++
	}
	return "..." + a[max(i-50, 0):min(i+20, len(a))] + "..."
}

// pairSignature classifies a disagreement from the failing case: which component differed, and how the decision changed.
func pairSignature(pc pairCase, bad stepCmp) string {
	m := pc.Mechanism
	comp, format, _ := strings.Cut(pc.Component, ":")
	policyBypass := bad.CacheOn.Err == "" && (bad.CacheOff.Err == "authorization" || bad.CacheOff.Err == "authentication") && bad.Hit
	switch comp {
	case "rule-level-expressions", "rule-level-assertions", "other-prototype-assertions":
		if policyBypass {
			return "cache-hit-skips-rule-assertions:" + m
		}
	case "forwarded-header-value", "forwarded-cookie-value":
		if bad.Hit {
			return "forwarded-value-not-in-cache-key:" + m
		}
	case "pipeline-output-in-endpoint-template":
		if bad.Hit {
			return "outputs-in-endpoint-template-not-in-cache-key:" + m
		}
	case "http-request-body":
		if bad.Hit {
			return "httpcache-key-ignores-request-body"
		}
	case "subject-id-unused-by-templates":
		if bad.Hit {
			return "subject-id-not-in-cache-key:" + m
		}
	case "url-unparsable-query-from-subject", "url-unparsable-query-from-value":
		if bad.Hit {
			return "rendered-url-query-not-in-cache-key:" + m
		}
	case "request-attribute-in-value":
		if bad.Hit {
			return "request-derived-value-not-in-cache-key:" + m
		}
	case "payload-of-other-prototype":
		if bad.Hit {
			return "payload-not-in-cache-key:" + m
		}
	case "session-lifespan-of-other-prototype":
		if bad.Hit && bad.CacheOn.Err == "" && bad.CacheOff.Err == "authentication" {
			return "cache-hit-skips-session-lifespan-check:" + m
		}
	case "jwk-validation-of-other-prototype":
		if bad.Hit && bad.CacheOn.Err == "" && bad.CacheOff.Err == "authentication" {
			return "cached-jwk-not-validated:" + m
		}
	case "http-vary-header":
		if bad.Hit {
			return "httpcache-ignores-vary"
		}
	case "trust-store-of-other-prototype":
		if bad.Hit && bad.CacheOn.Err == "" && bad.CacheOff.Err == "authentication" {
			return "cached-jwk-validated-with-other-trust-store:" + m
		}
	case "http-authorization-shape":
		if bad.Hit {
			return "httpcache-entry-shared-across-authorization-values:" + format
		}
	case "jwks-endpoint-caller-of-other-prototype":
		if bad.Hit {
			return "jwk-fetched-by-other-caller-reused:" + m
		}
	case "credential-jwt":
		if bad.Hit {
			return "result-of-other-credential-reused:" + m
		}
	case "response-number-in-expression", "rule-level-numeric-expression", "response-list-and-object-in-expression":
		if bad.Hit && bad.CacheOn.Err != bad.CacheOff.Err {
			return "cache-hit-changes-expression-verdict:" + m + ":" + format + "-answer"
		}
	case "token-issuer-with-metadata", "rule-level-issuers-with-metadata", "other-prototype-issuers-with-metadata":
		if bad.Hit && bad.CacheOn.Err != bad.CacheOff.Err {
			return "cache-hit-validated-with-other-trusted-issuers:" + m
		}
	case "signer-key-id-same-material", "signer-material-same-key-id", "signer-selected-key-of-store", "signer-name":
		if bad.Hit {
			return "signer-identity-not-in-cache-key:" + m + ":" + pc.Component
		}
	}
	// the same values in another representation: a leaf of the subject attributes / outputs changes its kind on a cache hit
	if bad.Hit && onlyTypesDiffer(bad) {
		if kOn, kOff := firstKinds(bad.CacheOn.Types, bad.CacheOff.Types); kOn != "structure" && kOff != "structure" {
			return "cache-hit-changes-value-kinds:" + m + ":" + kOff + "-becomes-" + kOn
		}
	}
	if pc.Class == "boundary-shift" && bad.Hit {
		return "cache-key-boundary-collision:" + m + ":" + pc.Component
	}
	return "cache-changes-outcome:" + m
}
