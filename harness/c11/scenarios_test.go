package c11

import (
	"crypto/x509"
	"encoding/json"
	"fmt"
	"math/rand/v2"
	"sort"
	"time"

	"github.com/dadrus/heimdall/internal/config"
	ck "github.com/dadrus/heimdall/internal/verif/cachekit"
)

func mech(id, typ string, cfg map[string]any) config.Mechanism {
	return config.Mechanism{ID: id, Type: typ, Config: config.MechanismConfig(cfg)}
}

const hexd = "0123456789abcdef"

func rstr(rng *rand.Rand, n int) string {
	b := make([]byte, n)
	for i := range b {
		b[i] = hexd[rng.IntN(16)]
	}
	return string(b)
}

// randHeaders returns n endpoint headers (constant values and templates valid for every mechanism kind).
func randHeaders(rng *rand.Rand, n int) map[string]any {
	out := map[string]any{}
	for len(out) < n {
		out["X-H"+rstr(rng, 3)] = "v" + rstr(rng, 1+rng.IntN(6))
	}
	return out
}

func randValues(rng *rand.Rand, n int) map[string]any {
	out := map[string]any{}
	tpls := []string{"{{ .Subject.ID }}", `{{ .Request.Header "X-Tenant" }}`, "{{ .Request.Method }}", "{{ .Subject.Attributes.a0 }}"}
	for len(out) < n {
		if rng.IntN(3) == 0 {
			out["k"+rstr(rng, 3)] = tpls[rng.IntN(len(tpls))]
		} else {
			out["k"+rstr(rng, 3)] = "c" + rstr(rng, 1+rng.IntN(5))
		}
	}
	return out
}

func randAttrs(rng *rand.Rand, n int) map[string]any {
	out := map[string]any{"a0": "z" + rstr(rng, 3)}
	for len(out) < n {
		out["a"+rstr(rng, 3)] = "w" + rstr(rng, 1+rng.IntN(5))
	}
	return out
}

// detConfig is one randomly configured mechanism for the determinism part.
type detConfig struct {
	Mech   string
	Config map[string]any
	mk     func(e *env) []mstep
}

func (d detConfig) steps(e *env) []mstep { return d.mk(e) }

const longTTL = "1h"

// publicIssuer is an issuer name differing from the one announced by the metadata document (an IdP which heimdall reaches
// through an internal address while its tokens carry the public name).
const publicIssuer = "https://idp.public.example"

// metadataIssuer is the issuer announced by (and matching the URL of) the metadata document /doc/idp-a/.well-known/...
func (e *env) metadataIssuer() string { return e.srv.URL + "/doc/idp-a" }

func (e *env) metadataURL() string {
	return e.srv.URL + "/doc/idp-a/.well-known/oauth-authorization-server"
}

// numericExpressions look at numbers, lists and nested objects of the remote system's answer, with integral and with
// fractional literals (which one is evaluable depends on how the answer was decoded; a pair whose expression is not evaluable on
// a fresh evaluation is trivial).
var numericExpressions = []string{
	"Payload.req.level >= 2.0",
	"Payload.req.level >= 2",
	"Payload.req.level * 2.0 >= 4.0",
	"Payload.req.level * 2 >= 4",
	"Payload.req.level + Payload.stats.limits.window.burst > 3.0 && Payload.stats.big > 0.0",
	"Payload.req.level + Payload.stats.limits.window.sec > 62 && Payload.stats.big > 0",
}

var structuredExpressions = []string{
	"size(Payload.req.tags) == 2 && Payload.req.tags[1] > Payload.req.tags[0] && Payload.req.tags[0] == Payload.req.level",
	"Payload.req.tags.exists(t, t == Payload.req.level) && Payload.req.n.q > 2.0 && Payload.req.n.list[1].k == 7.0",
	"Payload.req.tags.exists(t, t == Payload.req.level) && Payload.req.n.q > 2.0 && Payload.req.n.list[1].k == 7",
	"Payload.stats.items[2].k == Payload.stats.count + 1.0 && Payload.req.level >= 2.0",
	"Payload.stats.items[2].k == Payload.stats.count + 1 && Payload.req.level >= 2",
}

// numPayload renders numbers, a list and nested objects from the subject; the test servers send the decoded payload back.
const numPayload = `{"level": {{ .Subject.Attributes.level }}, "tags": [{{ .Subject.Attributes.level }}, 9], "n": {"q": 2.5, "big": 1234567890123456789, "list": ["x", {"k": 7}]}}`

// storeLabels returns the labels of the signer key stores in a fixed order.
func (e *env) storeLabels() []string {
	out := make([]string, 0, len(e.stores))
	for l := range e.stores {
		out = append(out, l)
	}
	sort.Strings(out)
	return out
}

func (e *env) prototypes(c *config.Configuration) {
	S := e.srv.URL
	p := c.Prototypes
	if p == nil {
		p = &config.MechanismPrototypes{}
		c.Prototypes = p
	}
	addAuthn := func(id, typ string, cfg map[string]any) {
		p.Authenticators = append(p.Authenticators, mech(id, typ, cfg))
	}
	addAuthz := func(id string, cfg map[string]any) { p.Authorizers = append(p.Authorizers, mech(id, "remote", cfg)) }
	addCtx := func(id string, cfg map[string]any) {
		p.Contextualizers = append(p.Contextualizers, mech(id, "generic", cfg))
	}
	addFin := func(id, typ string, cfg map[string]any) { p.Finalizers = append(p.Finalizers, mech(id, typ, cfg)) }

	md, _ := json.Marshal(map[string]any{"issuer": e.metadataIssuer(), "introspection_endpoint": S + "/introspect", "jwks_uri": S + "/jwks/idp-a"})
	e.srv.RegisterDoc("idp-a/.well-known/oauth-authorization-server", md)
	stores := e.storeLabels()

	// ---- (1) determinism: random configurations -------------------------------------------------
	rng := e.r.Stream("det-configs")
	n := e.r.Pick(8, 100)
	for i := 0; i < n; i++ {
		nh, nv, na := 3+rng.IntN(4), 3+rng.IntN(4), 3+rng.IntN(4)
		attrs := randAttrs(rng, na)
		outputs := randAttrs(rng, 3+rng.IntN(4))
		sub := &ck.SubjectSpec{ID: "u" + rstr(rng, 4), Attributes: attrs}
		tenant := "t" + rstr(rng, 3)

		id := fmt.Sprintf("det-ra-%d", i)
		cfg := map[string]any{"endpoint": map[string]any{"url": S + "/authz", "headers": randHeaders(rng, nh)}, "values": randValues(rng, nv),
			"payload": `{"s": {{ quote .Subject.ID }} }`, "cache_ttl": longTTL,
			// the answer contains numbers, nested objects and lists, which the expressions calculate with
			"expressions": []any{map[string]any{"expression": "Payload.stats.count >= 0.0 && Payload.stats.limits.window.sec == 60.0 && Payload.stats.items[3][1] * 2.0 == 5.0"}},
			// header names are case-insensitive: every second configuration spells the forwarded name the yaml way
			"forward_response_headers_to_upstream": []string{[]string{"X-Authz-Echo", "x-authz-echo", "X-AUTHZ-echo"}[i%3]}}
		addAuthz(id, cfg)
		st := mstep{Kind: "authz", Proto: id, Step: ck.Step{Subject: sub, Outputs: outputs, Req: ck.Req{Headers: map[string]string{"X-Tenant": tenant}}}}
		e.det = append(e.det, detConfig{"remote_authorizer", cfg, func(*env) []mstep { return []mstep{st} }})

		id = fmt.Sprintf("det-cx-%d", i)
		cfg = map[string]any{"endpoint": map[string]any{"url": S + "/ctx", "headers": randHeaders(rng, nh)}, "values": randValues(rng, nv),
			"payload": `{"s": {{ quote .Subject.ID }} }`, "cache_ttl": longTTL, "forward_headers": []string{"X-Tenant"}}
		addCtx(id, cfg)
		st2 := mstep{Kind: "ctx", Proto: id, Step: st.Step}
		e.det = append(e.det, detConfig{"generic_contextualizer", cfg, func(*env) []mstep { return []mstep{st2} }})

		id = fmt.Sprintf("det-ga-%d", i)
		hd := randHeaders(rng, nh)
		hd["X-Credential"] = "{{ .AuthenticationData }}"
		cfg = map[string]any{"identity_info_endpoint": map[string]any{"url": S + "/identity", "method": "GET", "headers": hd},
			"authentication_data_source": []any{map[string]any{"header": "X-Session"}}, "subject": map[string]any{"id": "sub"}, "cache_ttl": longTTL}
		addAuthn(id, "generic", cfg)
		cred := ck.Opaque{Sub: sub.ID, Nonce: rstr(rng, 6)}.Token()
		st3 := mstep{Kind: "authn", Proto: id, Step: ck.Step{Req: ck.Req{Headers: map[string]string{"X-Session": cred}}}}
		e.det = append(e.det, detConfig{"generic_authenticator", cfg, func(*env) []mstep { return []mstep{st3} }})

		id = fmt.Sprintf("det-in-%d", i)
		cfg = map[string]any{"introspection_endpoint": map[string]any{"url": S + "/introspect", "headers": randHeaders(rng, nh)},
			"assertions": map[string]any{"issuers": []string{"verif-issuer"}}, "subject": map[string]any{"id": "sub"}, "cache_ttl": longTTL}
		addAuthn(id, "oauth2_introspection", cfg)
		st4 := mstep{Kind: "authn", Proto: id, Step: ck.Step{Req: ck.Req{Headers: map[string]string{"Authorization": "Bearer " + cred}}}}
		e.det = append(e.det, detConfig{"oauth2_introspection", cfg, func(*env) []mstep { return []mstep{st4} }})

		// endpoint discovered through the metadata document; trusted issuers from the metadata / configured (differing from it)
		id = fmt.Sprintf("det-im-%d", i)
		cfg = map[string]any{"metadata_endpoint": map[string]any{"url": e.metadataURL(), "headers": randHeaders(rng, nh)}, "subject": map[string]any{"id": "sub"}, "cache_ttl": longTTL}
		tokIss := e.metadataIssuer()
		switch i % 3 {
		case 1:
			cfg["assertions"] = map[string]any{"issuers": []string{publicIssuer}}
			tokIss = publicIssuer
		case 2:
			cfg["assertions"] = map[string]any{"issuers": []string{e.metadataIssuer(), publicIssuer}}
			tokIss = publicIssuer
		}
		addAuthn(id, "oauth2_introspection", cfg)
		credIss := ck.Opaque{Sub: sub.ID, Iss: tokIss, Nonce: rstr(rng, 6)}.Token()
		st4m := mstep{Kind: "authn", Proto: id, Step: ck.Step{Req: ck.Req{Headers: map[string]string{"Authorization": "Bearer " + credIss}}}}
		e.det = append(e.det, detConfig{"oauth2_introspection_metadata", cfg, func(*env) []mstep { return []mstep{st4m} }})

		id = fmt.Sprintf("det-jw-%d", i)
		iss := fmt.Sprintf("det-iss-%d", i)
		cfg = map[string]any{"jwks_endpoint": map[string]any{"url": S + "/jwks/" + iss, "headers": randHeaders(rng, nh)},
			"assertions": map[string]any{"issuers": []string{iss}}, "cache_ttl": longTTL}
		addAuthn(id, "jwt", cfg)
		protoID := id
		e.det = append(e.det, detConfig{"jwt_authenticator", cfg, func(e *env) []mstep {
			key, err := e.pki.NewKey("kid-"+iss, nil)
			if err != nil {
				return nil
			}
			e.srv.RegisterJWKS(iss, ck.JWKS(key))
			now := time.Now()
			tok, _ := key.SignJWT(map[string]any{"iss": iss, "sub": "jw-user", "exp": now.Add(2 * time.Hour).Unix(), "iat": now.Add(-30 * time.Second).Unix()})
			return []mstep{{Kind: "authn", Proto: protoID, Step: ck.Step{Req: ck.Req{Headers: map[string]string{"Authorization": "Bearer " + tok}}}}}
		}})

		id = fmt.Sprintf("det-jf-%d", i)
		cfg = map[string]any{"signer": map[string]any{"key_store": map[string]any{"path": e.stores[stores[i%len(stores)]]}}, "ttl": "10m",
			"claims": `{"who": {{ quote .Subject.ID }}, "a0": {{ quote .Subject.Attributes.a0 }} }`}
		addFin(id, "jwt", cfg)
		st5 := mstep{Kind: "fin", Proto: id, Step: ck.Step{Subject: sub, Outputs: outputs}}
		e.det = append(e.det, detConfig{"jwt_finalizer", cfg, func(*env) []mstep { return []mstep{st5} }})

		id = fmt.Sprintf("det-cc-%d", i)
		scopes := []string{}
		for j := 0; j < 1+rng.IntN(4); j++ {
			scopes = append(scopes, "s"+rstr(rng, 2))
		}
		cfg = map[string]any{"token_url": S + "/token?expires_in=3600", "client_id": "c" + rstr(rng, 4), "client_secret": "s" + rstr(rng, 6), "scopes": scopes}
		addFin(id, "oauth2_client_credentials", cfg)
		st6 := mstep{Kind: "fin", Proto: id, Step: ck.Step{Subject: sub}}
		e.det = append(e.det, detConfig{"client_credentials", cfg, func(*env) []mstep { return []mstep{st6} }})

		// contextualizer whose endpoint is protected by client credentials and answered through the HTTP cache
		id = fmt.Sprintf("det-hx-%d", i)
		cfg = map[string]any{"endpoint": map[string]any{"url": S + "/ctx?cc=max-age%3D600&i=" + fmt.Sprint(i), "headers": randHeaders(rng, nh),
			"http_cache": map[string]any{"enabled": true}}, "values": randValues(rng, nv), "payload": `{"s": {{ quote .Subject.ID }} }`, "cache_ttl": "0s"}
		addCtx(id, cfg)
		st7 := mstep{Kind: "ctx", Proto: id, Step: st.Step}
		e.det = append(e.det, detConfig{"http_cache", cfg, func(*env) []mstep { return []mstep{st7} }})
	}

	// ---- (2)+(3) pairs: fixed prototypes ----------------------------------------------------------
	// NOTE: the pair prototypes carry at most one endpoint header and one value each, so that their cache keys do not
	// depend on map iteration order (that defect is decided by part (1)); every pair therefore is decided reproducibly.
	addAuthz("ra-main", map[string]any{
		"endpoint":                             map[string]any{"url": S + "/authz"},
		"payload":                              `{"role": {{ quote .Subject.Attributes.role }}, "tenant": {{ quote .Values.v2 }} }`,
		"values":                               map[string]any{"v2": `{{ .Request.Header "X-Tenant" }}`},
		"forward_response_headers_to_upstream": []string{"X-Authz-Echo"}, "cache_ttl": longTTL})
	addAuthz("ra-sub", map[string]any{
		"endpoint": map[string]any{"url": S + "/authz", "headers": map[string]any{"X-Sub": "{{ .Subject.ID }}"}},
		"payload":  `{"fixed": true}`, "cache_ttl": longTTL})
	addAuthz("ra-val", map[string]any{
		"endpoint": map[string]any{"url": S + "/authz", "headers": map[string]any{"X-Val": "{{ .Values.v1 }}"}},
		"values":   map[string]any{"v1": "one"},
		"payload":  `{"fixed": true}`, "cache_ttl": longTTL})
	addAuthz("ra-out", map[string]any{
		"endpoint": map[string]any{"url": S + "/authz", "headers": map[string]any{"X-Out": "{{ .Outputs.o1 }}"}},
		"payload":  `{"fixed": true}`, "cache_ttl": longTTL})
	addAuthz("ra-vals", map[string]any{
		"endpoint": map[string]any{"url": S + "/authz", "headers": map[string]any{"X-All": "{{ .Values }}"}},
		"payload":  `{"fixed": true}`, "cache_ttl": longTTL})
	addCtx("cx-main", map[string]any{
		"endpoint":        map[string]any{"url": S + "/ctx"},
		"payload":         `{"role": {{ quote .Subject.Attributes.role }} }`,
		"forward_headers": []string{"X-Tenant"}, "forward_cookies": []string{"trk"}, "cache_ttl": longTTL})
	addCtx("cx-sub", map[string]any{
		"endpoint": map[string]any{"url": S + "/ctx", "headers": map[string]any{"X-Sub": "{{ .Subject.ID }}"}},
		"payload":  `{"fixed": true}`, "cache_ttl": longTTL})
	addCtx("cx-val", map[string]any{
		"endpoint": map[string]any{"url": S + "/ctx", "headers": map[string]any{"X-Val": "{{ .Values.v1 }}"}},
		"values":   map[string]any{"v1": "one"},
		"payload":  `{"fixed": true}`, "cache_ttl": longTTL})
	addCtx("cx-out", map[string]any{
		"endpoint": map[string]any{"url": S + "/ctx", "headers": map[string]any{"X-Out": "{{ .Outputs.o1 }}"}},
		"payload":  `{"fixed": true}`, "cache_ttl": longTTL})
	addCtx("cx-vals", map[string]any{
		"endpoint": map[string]any{"url": S + "/ctx", "headers": map[string]any{"X-All": "{{ .Values }}"}},
		"payload":  `{"fixed": true}`, "cache_ttl": longTTL})
	addAuthn("ga-main", "generic", map[string]any{
		"identity_info_endpoint":     map[string]any{"url": S + "/identity", "method": "GET", "headers": map[string]any{"X-Credential": "{{ .AuthenticationData }}"}},
		"authentication_data_source": []any{map[string]any{"header": "X-Session"}},
		"forward_headers":            []string{"X-Tenant"}, "forward_cookies": []string{"trk"},
		"subject": map[string]any{"id": "sub"}, "cache_ttl": longTTL})
	// two mechanisms on the same endpoint URL which differ only in the VALUE of an endpoint header whose NAME is
	// spelled non-canonically (lower case, as usual in YAML): their results must never be shared
	for _, tn := range []string{"a", "b"} {
		addAuthn("ga-ten-"+tn, "generic", map[string]any{
			"identity_info_endpoint":     map[string]any{"url": S + "/identity", "method": "GET", "headers": map[string]any{"X-Credential": "{{ .AuthenticationData }}", "x-tenant": "tenant-" + tn}},
			"authentication_data_source": []any{map[string]any{"header": "X-Session"}},
			"subject":                    map[string]any{"id": "sub"}, "cache_ttl": longTTL})
		addAuthz("ra-low-"+tn, map[string]any{
			"endpoint": map[string]any{"url": S + "/authz", "headers": map[string]any{"x-api-tenant": "tenant-" + tn}},
			"payload":  `{"fixed": true}`, "forward_response_headers_to_upstream": []string{"X-Authz-Echo"}, "cache_ttl": longTTL})
		addCtx("cx-low-"+tn, map[string]any{
			"endpoint": map[string]any{"url": S + "/ctx", "headers": map[string]any{"x-api-tenant": "tenant-" + tn}},
			"payload":  `{"fixed": true}`, "cache_ttl": longTTL})
	}
	addAuthn("ga-payload", "generic", map[string]any{
		"identity_info_endpoint":     map[string]any{"url": S + "/identity", "method": "POST", "headers": map[string]any{"Content-Type": "application/json"}},
		"payload":                    `{"cred": {{ quote .AuthenticationData }} }`,
		"authentication_data_source": []any{map[string]any{"cookie": "app-session"}},
		"subject":                    map[string]any{"id": "sub"}, "cache_ttl": longTTL})
	for _, x := range []struct {
		id         string
		assertions map[string]any
	}{
		{"in-main", map[string]any{"issuers": []string{"verif-issuer"}}},
		{"in-strict", map[string]any{"issuers": []string{"verif-issuer"}, "scopes": []any{"admin"}}},
		{"in-aud", map[string]any{"issuers": []string{"verif-issuer"}, "audience": []string{"payments"}}},
	} {
		addAuthn(x.id, "oauth2_introspection", map[string]any{"introspection_endpoint": map[string]any{"url": S + "/introspect"},
			"assertions": x.assertions, "subject": map[string]any{"id": "sub"}, "cache_ttl": longTTL})
	}
	addAuthn("jw-main", "jwt", map[string]any{"jwks_endpoint": map[string]any{"url": S + "/jwks/{{ .TokenIssuer }}"},
		"assertions": map[string]any{"issuers": []string{"iss-one", "iss-two", "ab", "a"}}, "cache_ttl": longTTL})
	addFin("jf-main", "jwt", map[string]any{"signer": map[string]any{"key_store": map[string]any{"path": e.signer}}, "ttl": "10m",
		"claims": `{"who": {{ quote .Subject.ID }}, "role": {{ quote .Subject.Attributes.role }}, "o1": {{ quote .Outputs.o1 }} }`})
	for _, x := range []struct{ id, cid, secret, path string }{
		{"cc-base", "client-1", "secret-1", "/token"}, {"cc-secret", "client-1", "secret-2", "/token"}, {"cc-id", "client-2", "secret-1", "/token"},
		{"cc-url", "client-1", "secret-1", "/token/other"}, {"cc-ab-c", "ab", "c", "/token"}, {"cc-a-bc", "a", "bc", "/token"},
		{"cc-sec-url-1", "client-1", "sec", "/token"}, // secret + url adjacent: ("sec", "http://..") cannot be shifted into a valid URL; kept for id/secret only
	} {
		addFin(x.id, "oauth2_client_credentials", map[string]any{"token_url": S + x.path + "?expires_in=3600", "client_id": x.cid, "client_secret": x.secret, "scopes": []string{"s1", "s2"}})
		addCtx("cs-"+x.id, map[string]any{"endpoint": map[string]any{"url": S + "/echo", "method": "GET",
			"auth": map[string]any{"type": "oauth2_client_credentials", "config": map[string]any{"token_url": S + x.path + "?expires_in=3600", "client_id": x.cid, "client_secret": x.secret}}},
			"cache_ttl": longTTL})
	}
	addCtx("hx-body", map[string]any{"endpoint": map[string]any{"url": S + "/ctx?cc=max-age%3D600&p=body", "http_cache": map[string]any{"enabled": true}},
		"payload": `{"who": {{ quote .Subject.ID }} }`, "cache_ttl": "0s"})
	addCtx("hx-vary", map[string]any{"endpoint": map[string]any{"url": S + "/ctx?cc=max-age%3D600&vary=X-Sub&p=vary", "method": "GET", "headers": map[string]any{"X-Sub": "{{ .Subject.ID }}"},
		"http_cache": map[string]any{"enabled": true}}, "cache_ttl": "0s"})
	// several forwarded names: a value can move from one name to another one (header -> header, header -> cookie,
	// cookie -> cookie) while the other name is absent from the request
	addCtx("cx-fwd", map[string]any{
		"endpoint":        map[string]any{"url": S + "/ctx"},
		"payload":         `{"role": {{ quote .Subject.Attributes.role }} }`,
		"forward_headers": []string{"X-Tenant", "X-Role"}, "forward_cookies": []string{"trk", "pref"}, "cache_ttl": longTTL})
	addAuthn("ga-fwd", "generic", map[string]any{
		"identity_info_endpoint":     map[string]any{"url": S + "/identity", "method": "GET", "headers": map[string]any{"X-Credential": "{{ .AuthenticationData }}"}},
		"authentication_data_source": []any{map[string]any{"header": "X-Session"}},
		"forward_headers":            []string{"X-Tenant", "X-Role"}, "forward_cookies": []string{"trk", "pref"},
		"subject": map[string]any{"id": "sub"}, "cache_ttl": longTTL})
	// endpoint URLs whose query is rendered from subject/values WITHOUT urlenc: the remote system receives the raw query,
	// including pairs net/url cannot parse (";" separated parameters, stray "%")
	for _, x := range []struct {
		id, ttl string
		hc      bool
	}{{"hx-rawq", "0s", true}, {"cx-rawq", longTTL, false}} {
		addCtx(x.id+"-sub", map[string]any{"endpoint": map[string]any{"url": S + "/ctx?cc=max-age%3D600&p=" + x.id + "&user={{ .Subject.ID }};action=read", "method": "GET",
			"http_cache": map[string]any{"enabled": x.hc}}, "cache_ttl": x.ttl})
		addCtx(x.id+"-val", map[string]any{"endpoint": map[string]any{"url": S + "/ctx?cc=max-age%3D600&p=" + x.id + "&{{ .Values.q }}", "method": "GET",
			"http_cache": map[string]any{"enabled": x.hc}}, "values": map[string]any{"q": "a=1"}, "cache_ttl": x.ttl})
	}
	// claims which do not look at the subject id (the issued token carries it nevertheless: "sub")
	addFin("jf-attr", "jwt", map[string]any{"signer": map[string]any{"key_store": map[string]any{"path": e.signer}}, "ttl": "10m",
		"claims": `{"grp": {{ quote .Subject.Attributes.role }} }`})
	addFin("jf-out", "jwt", map[string]any{"signer": map[string]any{"key_store": map[string]any{"path": e.signer}}, "ttl": "10m",
		"claims": `{"o1": {{ quote .Outputs.o1 }} }`})
	addFin("jf-const", "jwt", map[string]any{"signer": map[string]any{"key_store": map[string]any{"path": e.signer}}, "ttl": "10m",
		"claims": `{"aud": "upstream"}`})
	addCtx("hx-url", map[string]any{"endpoint": map[string]any{"url": S + "/ctx?cc=max-age%3D600&who={{ .Subject.ID | urlenc }}", "method": "GET",
		"http_cache": map[string]any{"enabled": true}}, "cache_ttl": "0s"})

	// values rendered from attributes of the request (catalogue level: "rq"; "st" holds a constant the rule level replaces),
	// used in the endpoint URL, in an endpoint header resp. in the payload
	for ai, tpl := range requestAttrTemplates {
		for _, where := range []string{"url", "hdr", "pay"} {
			for _, lvl := range []string{"rq", "st"} {
				val := tpl
				if lvl == "st" {
					if ai > 0 {
						continue
					}
					val = "static"
				}
				ep := map[string]any{"url": S + "/ctx"}
				pay := `{"fixed": true}`
				switch where {
				case "url":
					ep["url"] = S + "/ctx/t-{{ .Values.t | urlenc }}"
				case "hdr":
					ep["headers"] = map[string]any{"X-Val": "{{ .Values.t }}"}
				case "pay":
					pay = `{"t": {{ quote .Values.t }} }`
				}
				id := fmt.Sprintf("-%s-%s-%d", lvl, where, ai)
				addCtx("cx"+id, map[string]any{"endpoint": ep, "values": map[string]any{"t": val}, "payload": pay, "cache_ttl": longTTL})
				epz := map[string]any{}
				for k, v := range ep {
					epz[k] = v
				}
				if where == "url" {
					epz["url"] = S + "/authz/t-{{ .Values.t | urlenc }}"
				} else {
					epz["url"] = S + "/authz"
				}
				addAuthz("ra"+id, map[string]any{"endpoint": epz, "values": map[string]any{"t": val}, "payload": pay,
					"forward_response_headers_to_upstream": []string{"X-Authz-Echo"}, "cache_ttl": longTTL})
			}
		}
	}
	// generic authenticators sharing one identity endpoint: other payload template; with / without session_lifespan
	for _, realm := range []string{"a", "b"} {
		addAuthn("ga-realm-"+realm, "generic", map[string]any{
			"identity_info_endpoint":     map[string]any{"url": S + "/identity", "method": "POST", "headers": map[string]any{"X-Credential": "{{ .AuthenticationData }}"}},
			"payload":                    "realm-" + realm + ":{{ .AuthenticationData }}",
			"authentication_data_source": []any{map[string]any{"header": "X-Session"}},
			"subject":                    map[string]any{"id": "sub"}, "cache_ttl": longTTL})
	}
	for id, lifespan := range map[string]map[string]any{"ga-nolife": nil, "ga-life": {"active": "active", "not_after": "exp"}} {
		cfg := map[string]any{
			"identity_info_endpoint":     map[string]any{"url": S + "/identity/sessions", "method": "GET", "headers": map[string]any{"X-Credential": "{{ .AuthenticationData }}"}},
			"authentication_data_source": []any{map[string]any{"header": "X-Session"}},
			"subject":                    map[string]any{"id": "sub"}, "cache_ttl": longTTL}
		if lifespan != nil {
			cfg["session_lifespan"] = lifespan
		}
		addAuthn(id, "generic", cfg)
	}
	// jwt authenticators sharing one JWKS endpoint: the certificate of a JWK is validated (against the trust store) or not
	addAuthn("jw-lax", "jwt", map[string]any{"jwks_endpoint": map[string]any{"url": S + "/jwks/{{ .TokenIssuer }}"},
		"assertions": map[string]any{"issuers": []string{"iss-certs"}}, "validate_jwk": false, "cache_ttl": longTTL})
	addAuthn("jw-strict", "jwt", map[string]any{"jwks_endpoint": map[string]any{"url": S + "/jwks/{{ .TokenIssuer }}"},
		"assertions": map[string]any{"issuers": []string{"iss-certs"}}, "validate_jwk": true, "trust_store": e.pki.TrustStorePath, "cache_ttl": longTTL})
	// ... all validating, differing in the trust store only: the other root CA, both root CAs, none configured (system trust store)
	for id, ts := range map[string]string{"jw-strict-b": e.pki2.TrustStorePath, "jw-strict-both": e.trustBoth, "jw-strict-sys": ""} {
		cfg := map[string]any{"jwks_endpoint": map[string]any{"url": S + "/jwks/{{ .TokenIssuer }}"},
			"assertions": map[string]any{"issuers": []string{"iss-certs"}}, "validate_jwk": true, "cache_ttl": longTTL}
		if ts != "" {
			cfg["trust_store"] = ts
		}
		addAuthn(id, "jwt", cfg)
	}
	// ... not validating the JWK, differing in exactly one assertion: allowed algorithms, audience, validity leeway
	for id, as := range map[string]map[string]any{
		"jw-alg-es": {"allowed_algorithms": []string{"ES256"}}, "jw-alg-ps": {"allowed_algorithms": []string{"PS256", "RS256"}},
		"jw-aud": {"audience": []string{"payments"}}, "jw-leeway": {"validity_leeway": "30m"},
	} {
		as["issuers"] = []string{"iss-certs"}
		addAuthn(id, "jwt", map[string]any{"jwks_endpoint": map[string]any{"url": S + "/jwks/{{ .TokenIssuer }}"},
			"assertions": as, "validate_jwk": false, "cache_ttl": longTTL})
	}
	addAuthn("in-leeway", "oauth2_introspection", map[string]any{"introspection_endpoint": map[string]any{"url": S + "/introspect"},
		"assertions": map[string]any{"issuers": []string{"verif-issuer"}, "validity_leeway": "30m"}, "subject": map[string]any{"id": "sub"}, "cache_ttl": longTTL})

	// endpoints answered through the HTTP cache by a remote system which declares its answers to authenticated requests as
	// cacheable ("public"): the Authorization header is rendered from the subject resp. the presented credential (whatever
	// shape that has: with, without a scheme), is a static API token of the catalogue entry, or is absent
	pub := "?cc=public%2C+max-age%3D600&p=shape"
	hc := map[string]any{"enabled": true}
	addCtx("hx-auth", map[string]any{"endpoint": map[string]any{"url": S + "/ctx" + pub, "method": "GET",
		"headers": map[string]any{"Authorization": "{{ .Subject.Attributes.token }}"}, "http_cache": hc}, "cache_ttl": "0s"})
	addCtx("hx-noauth", map[string]any{"endpoint": map[string]any{"url": S + "/ctx" + pub, "method": "GET", "http_cache": hc}, "cache_ttl": "0s"})
	for _, k := range []string{"a", "b"} {
		addCtx("hx-key-"+k, map[string]any{"endpoint": map[string]any{"url": S + "/ctx" + pub, "method": "GET",
			"headers": map[string]any{"Authorization": "api-token-" + k}, "http_cache": hc}, "cache_ttl": "0s"})
	}
	addAuthz("ra-hx-auth", map[string]any{"endpoint": map[string]any{"url": S + "/authz" + pub, "method": "GET",
		"headers": map[string]any{"Authorization": "{{ .Subject.Attributes.token }}"}, "http_cache": hc},
		"forward_response_headers_to_upstream": []string{"X-Authz-Echo"}, "cache_ttl": "0s"})
	addAuthn("ga-hx-auth", "generic", map[string]any{
		"identity_info_endpoint":     map[string]any{"url": S + "/identity" + pub, "method": "GET", "headers": map[string]any{"Authorization": "{{ .AuthenticationData }}"}, "http_cache": hc},
		"authentication_data_source": []any{map[string]any{"header": "X-Session"}},
		"subject":                    map[string]any{"id": "sub"}, "cache_ttl": "0s"})

	// answers with numbers, lists and nested objects (announced as JSON and as YAML), which expressions and later steps look at
	for _, f := range [][2]string{{"json", ""}, {"yaml", "?ct=application%2Fyaml"}} {
		addAuthz("ra-num-"+f[0], map[string]any{"endpoint": map[string]any{"url": S + "/authz" + f[1]}, "payload": numPayload, "cache_ttl": longTTL})
		addCtx("cx-num-"+f[0], map[string]any{"endpoint": map[string]any{"url": S + "/ctx" + f[1]}, "payload": numPayload, "cache_ttl": longTTL})
	}

	// introspection / jwt authenticators which discover their endpoints through a metadata document; the configured
	// trusted issuers are absent (metadata issuer applies), equal to, different from, or a superset of the metadata issuer
	for _, x := range []struct {
		id      string
		issuers []string
	}{{"md", nil}, {"md-same", []string{e.metadataIssuer()}}, {"md-pub", []string{publicIssuer}}, {"md-both", []string{e.metadataIssuer(), publicIssuer}}} {
		in := map[string]any{"metadata_endpoint": map[string]any{"url": e.metadataURL()}, "subject": map[string]any{"id": "sub"}, "cache_ttl": longTTL}
		jw := map[string]any{"metadata_endpoint": map[string]any{"url": e.metadataURL()}, "cache_ttl": longTTL}
		if x.issuers != nil {
			in["assertions"] = map[string]any{"issuers": x.issuers}
			jw["assertions"] = map[string]any{"issuers": x.issuers}
		}
		addAuthn("in-"+x.id, "oauth2_introspection", in)
		addAuthn("jw-"+x.id, "jwt", jw)
	}

	// jwt finalizers whose signers differ in the key store only: same key material under different key ids, different
	// material under the same key id, one of several keys of a store selected by key_id, another signer name
	jfKS := func(id string, signer map[string]any) {
		addFin(id, "jwt", map[string]any{"signer": signer, "ttl": "10m", "claims": `{"grp": {{ quote .Subject.Attributes.role }} }`})
	}
	for _, l := range stores {
		jfKS("jf-ks-"+l, map[string]any{"key_store": map[string]any{"path": e.stores[l]}})
		if l == "a-k1-b-k2" || l == "b-k1-a-k2" {
			for _, kid := range []string{"k1", "k2"} {
				jfKS("jf-ks-"+l+"-"+kid, map[string]any{"key_store": map[string]any{"path": e.stores[l]}, "key_id": kid})
			}
		}
	}
	jfKS("jf-ks-a-as-k1-named", map[string]any{"key_store": map[string]any{"path": e.stores["a-as-k1"]}, "name": "other-signer"})

	// remote systems of the second server: answers without payload, key sets per caller, JWT formatted access tokens
	e.backendPrototypes(addAuthn, addAuthz)
}

// ---------------------------------------------------------------------------------------------

// requestAttrTemplates render attributes of the client request; requestAttr makes two requests differing in exactly that one.
var requestAttrTemplates = []string{`{{ .Request.Header "X-Tenant" }}`, `{{ .Request.Cookie "trk" }}`, `{{ .Request.URL.Path }}`, `{{ .Request.Method }}`}

func requestAttr(ai int, x string) (ck.Req, ck.Req) {
	switch ai {
	case 0:
		return ck.Req{Headers: hdr("X-Tenant", "ta"+x)}, ck.Req{Headers: hdr("X-Tenant", "tb"+x)}
	case 1:
		return ck.Req{Cookies: hdr("trk", "ka"+x)}, ck.Req{Cookies: hdr("trk", "kb"+x)}
	case 2:
		return ck.Req{Path: "/res/a" + x}, ck.Req{Path: "/res/b" + x}
	}
	return ck.Req{Method: "GET"}, ck.Req{Method: "DELETE"}
}

func sub(id, role string) *ck.SubjectSpec {
	return &ck.SubjectSpec{ID: id, Attributes: map[string]any{"role": role, "a0": "x"}}
}

// subL is a subject with a numeric attribute.
func subL(id, role string, level int) *ck.SubjectSpec {
	return &ck.SubjectSpec{ID: id, Attributes: map[string]any{"role": role, "a0": "x", "level": level}}
}

func hdr(kv ...string) map[string]string {
	out := map[string]string{}
	for i := 0; i+1 < len(kv); i += 2 {
		out[kv[i]] = kv[i+1]
	}
	return out
}

func (e *env) pairs() {
	rng := e.r.Stream("pairs")
	reps := e.r.Pick(5, 60)
	var all []pairCase
	add := func(mechanism, component, class string, a, b mstep) {
		all = append(all, pairCase{Mechanism: mechanism, Component: component, Class: class, A: a, B: b})
	}
	one := "one-component"
	shift := "boundary-shift"

	concRounds, concEnd := e.r.Pick(1, 4), 0
	for i := 0; i < reps; i++ {
		if i == concRounds {
			concEnd = len(all)
		}
		u1, u2 := "u"+rstr(rng, 5), "u"+rstr(rng, 5)
		r1, r2 := "r"+rstr(rng, 3), "r"+rstr(rng, 3)
		t1, t2 := "t"+rstr(rng, 3), "t"+rstr(rng, 3)
		o1, o2 := "o"+rstr(rng, 3), "o"+rstr(rng, 3)
		x := rstr(rng, 4)

		// ---- remote authorizer
		raStep := func(s *ck.SubjectSpec, tenant string) ck.Step {
			return ck.Step{Subject: s, Req: ck.Req{Headers: hdr("X-Tenant", tenant)}}
		}
		raP := func(proto string, st ck.Step, ov map[string]any) mstep {
			return mstep{Kind: "authz", Proto: proto, Override: ov, Step: st}
		}
		ra := func(st ck.Step, ov map[string]any) mstep { return raP("ra-main", st, ov) }
		add("remote_authorizer", "subject-id", one, raP("ra-sub", raStep(sub(u1, r1), t1), nil), raP("ra-sub", raStep(sub(u2, r1), t1), nil))
		add("remote_authorizer", "subject-attribute", one, ra(raStep(sub(u1, r1), t1), nil), ra(raStep(sub(u1, r2), t1), nil))
		add("remote_authorizer", "request-header-rendered-into-value", one, ra(raStep(sub(u1, r1), t1), nil), ra(raStep(sub(u1, r1), t2), nil))
		add("remote_authorizer", "rule-level-value", one, raP("ra-val", raStep(sub(u1, r1), t1), map[string]any{"values": map[string]any{"v1": "A" + x}}),
			raP("ra-val", raStep(sub(u1, r1), t1), map[string]any{"values": map[string]any{"v1": "B" + x}}))
		add("remote_authorizer", "rule-level-payload", one, ra(raStep(sub(u1, r1), t1), map[string]any{"payload": `{"p": "A` + x + `"}`}),
			ra(raStep(sub(u1, r1), t1), map[string]any{"payload": `{"p": "B` + x + `"}`}))
		add("remote_authorizer", "rule-level-forwarded-response-headers", one, ra(raStep(sub(u1, r1), t1), nil),
			ra(raStep(sub(u1, r1), t1), map[string]any{"forward_response_headers_to_upstream": []string{"X-Authz-Other"}}))
		add("remote_authorizer", "rule-level-expressions", one,
			ra(raStep(sub(u1, r1), t1), map[string]any{"expressions": []any{map[string]any{"expression": "true"}}}),
			ra(raStep(sub(u1, r1), t1), map[string]any{"expressions": []any{map[string]any{"expression": "Payload.req.role == 'nobody-" + x + "'"}}}))
		raOut := func(o string) mstep {
			return mstep{Kind: "authz", Proto: "ra-out", Step: ck.Step{Subject: sub(u1, r1), Outputs: map[string]any{"o1": o}}}
		}
		add("remote_authorizer", "pipeline-output-in-endpoint-template", one, raOut(o1), raOut(o2))
		raVals := func(v map[string]any) mstep {
			return mstep{Kind: "authz", Proto: "ra-vals", Override: map[string]any{"values": v}, Step: ck.Step{Subject: sub(u1, r1)}}
		}
		add("remote_authorizer", "values-key-value", shift, raVals(map[string]any{"ab" + x: "c"}), raVals(map[string]any{"a": "b" + x + "c"}))
		add("remote_authorizer", "forwarded-response-headers-payload", shift,
			ra(raStep(sub(u1, r1), t1), map[string]any{"forward_response_headers_to_upstream": []string{"X-Authz-Echo", "X-Authz-Other"}, "payload": `{"p":"` + x + `"}`}),
			ra(raStep(sub(u1, r1), t1), map[string]any{"forward_response_headers_to_upstream": []string{"X-Authz-Echo"}, "payload": `,X-Authz-Other{"p":"` + x + `"}`}))

		// numbers, lists and nested objects of the answer in expressions: the subject's level decides (A: 3, B: 1), or the
		// rule level expression does (same answer, other threshold); outputs are compared including the kinds of their values
		for _, f := range []string{"json", "yaml"} {
			num := func(s *ck.SubjectSpec, expr string) mstep {
				return raP("ra-num-"+f, ck.Step{Subject: s}, map[string]any{"expressions": []any{map[string]any{"expression": expr}}})
			}
			for _, ex := range numericExpressions {
				add("remote_authorizer", "response-number-in-expression:"+f, one, num(subL(u1, r1, 3), ex), num(subL(u1, r1, 1), ex))
			}
			for _, ex := range structuredExpressions {
				add("remote_authorizer", "response-list-and-object-in-expression:"+f, one, num(subL(u1, r1, 3), ex), num(subL(u1, r1, 1), ex))
			}
			add("remote_authorizer", "rule-level-numeric-expression:"+f, one, num(subL(u1, r1, 3), "Payload.req.level >= 2.0"), num(subL(u1, r1, 3), "Payload.req.level >= 5.0"))
			add("remote_authorizer", "rule-level-numeric-expression:"+f, one, num(subL(u1, r1, 3), "Payload.req.level >= 2"), num(subL(u1, r1, 3), "Payload.req.level >= 5"))
			add("remote_authorizer", "subject-numeric-attribute:"+f, one, raP("ra-num-"+f, ck.Step{Subject: subL(u1, r1, 3)}, nil), raP("ra-num-"+f, ck.Step{Subject: subL(u1, r1, 4)}, nil))
			add("generic_contextualizer", "subject-numeric-attribute:"+f, one, mstep{Kind: "ctx", Proto: "cx-num-" + f, Step: ck.Step{Subject: subL(u1, r1, 3)}},
				mstep{Kind: "ctx", Proto: "cx-num-" + f, Step: ck.Step{Subject: subL(u1, r1, 4)}})
		}

		// ---- generic contextualizer
		cxStep := func(s *ck.SubjectSpec, tenant, trk string) ck.Step {
			return ck.Step{Subject: s, Req: ck.Req{Headers: hdr("X-Tenant", tenant), Cookies: hdr("trk", trk)}}
		}
		cxP := func(proto string, st ck.Step, ov map[string]any) mstep {
			return mstep{Kind: "ctx", Proto: proto, Override: ov, Step: st}
		}
		cx := func(st ck.Step, ov map[string]any) mstep { return cxP("cx-main", st, ov) }
		add("generic_contextualizer", "subject-id", one, cxP("cx-sub", cxStep(sub(u1, r1), t1, "k"), nil), cxP("cx-sub", cxStep(sub(u2, r1), t1, "k"), nil))
		add("generic_contextualizer", "subject-attribute", one, cx(cxStep(sub(u1, r1), t1, "k"), nil), cx(cxStep(sub(u1, r2), t1, "k"), nil))
		add("generic_contextualizer", "rule-level-value", one, cxP("cx-val", cxStep(sub(u1, r1), t1, "k"), map[string]any{"values": map[string]any{"v1": "A" + x}}),
			cxP("cx-val", cxStep(sub(u1, r1), t1, "k"), map[string]any{"values": map[string]any{"v1": "B" + x}}))
		add("generic_contextualizer", "rule-level-payload", one, cx(cxStep(sub(u1, r1), t1, "k"), map[string]any{"payload": `{"p": "A` + x + `"}`}),
			cx(cxStep(sub(u1, r1), t1, "k"), map[string]any{"payload": `{"p": "B` + x + `"}`}))
		add("generic_contextualizer", "forwarded-header-value", one, cx(cxStep(sub(u1, r1), t1, "k"), nil), cx(cxStep(sub(u1, r1), t2, "k"), nil))
		add("generic_contextualizer", "forwarded-cookie-value", one, cx(cxStep(sub(u1, r1), t1, "k1"+x), nil), cx(cxStep(sub(u1, r1), t1, "k2"+x), nil))
		cxOut := func(o string) mstep {
			return mstep{Kind: "ctx", Proto: "cx-out", Step: ck.Step{Subject: sub(u1, r1), Outputs: map[string]any{"o1": o}}}
		}
		add("generic_contextualizer", "pipeline-output-in-endpoint-template", one, cxOut(o1), cxOut(o2))
		cxVals := func(v map[string]any) mstep {
			return mstep{Kind: "ctx", Proto: "cx-vals", Override: map[string]any{"values": v}, Step: ck.Step{Subject: sub(u1, r1)}}
		}
		add("generic_contextualizer", "values-key-value", shift, cxVals(map[string]any{"ab" + x: "c"}), cxVals(map[string]any{"a": "b" + x + "c"}))

		// a value moving from one forwarded name to another one, the other one being absent
		fv := "v" + x
		fwdReqs := []struct {
			comp string
			a, b ck.Req
		}{
			{"forwarded-value-header-to-other-header", ck.Req{Headers: hdr("X-Tenant", fv)}, ck.Req{Headers: hdr("X-Role", fv)}},
			{"forwarded-value-header-to-cookie", ck.Req{Headers: hdr("X-Role", fv)}, ck.Req{Cookies: hdr("trk", fv)}},
			{"forwarded-value-cookie-to-other-cookie", ck.Req{Cookies: hdr("trk", fv)}, ck.Req{Cookies: hdr("pref", fv)}},
			{"forwarded-values-split", ck.Req{Headers: hdr("X-Tenant", "ab"+x, "X-Role", "c")}, ck.Req{Headers: hdr("X-Tenant", "a", "X-Role", "b"+x+"c")}},
		}
		for _, f := range fwdReqs {
			add("generic_contextualizer", f.comp, shift, cxP("cx-fwd", ck.Step{Subject: sub(u1, r1), Req: f.a}, nil), cxP("cx-fwd", ck.Step{Subject: sub(u1, r1), Req: f.b}, nil))
		}
		// endpoint URL rendered with values net/url cannot parse as query
		for _, p := range []string{"cx-rawq", "hx-rawq"} {
			m := map[string]string{"cx-rawq": "generic_contextualizer", "hx-rawq": "http_cache"}[p]
			add(m, "url-unparsable-query-from-subject", one, cxP(p+"-sub", ck.Step{Subject: sub(u1, r1)}, nil), cxP(p+"-sub", ck.Step{Subject: sub(u2, r1)}, nil))
			for _, q := range [][2]string{
				{"user=A" + x + ";action=read", "user=B" + x + ";action=read"},
				{"discount=100%&user=" + x, "discount=5%&user=" + x},
				{"user=" + x + "&dn=cn=" + x + ";ou=admins", "user=" + x + "&dn=cn=" + x + ";ou=guests"},
				{"f=%zz" + x + "1", "f=%zz" + x + "2"},
			} {
				add(m, "url-unparsable-query-from-value", one, cxP(p+"-val", ck.Step{Subject: sub(u1, r1)}, map[string]any{"values": map[string]any{"q": q[0]}}),
					cxP(p+"-val", ck.Step{Subject: sub(u1, r1)}, map[string]any{"values": map[string]any{"q": q[1]}}))
			}
		}

		// ---- values rendered from a request attribute (which one rotates with the round), catalogue level and rule level,
		// used in the endpoint URL / an endpoint header / the payload: same subject, requests differing in that attribute only
		ai := i % len(requestAttrTemplates)
		rqA, rqB := requestAttr(ai, x)
		for _, where := range []string{"url", "hdr", "pay"} {
			for _, k := range [][2]string{{"ctx", "cx"}, {"authz", "ra"}} {
				m := map[string]string{"ctx": "generic_contextualizer", "authz": "remote_authorizer"}[k[0]]
				cat := fmt.Sprintf("%s-rq-%s-%d", k[1], where, ai)
				add(m, "request-attribute-in-value:catalogue-level:used-in-"+where, one,
					mstep{Kind: k[0], Proto: cat, Step: ck.Step{Subject: sub(u1, r1), Req: rqA}}, mstep{Kind: k[0], Proto: cat, Step: ck.Step{Subject: sub(u1, r1), Req: rqB}})
				rule := fmt.Sprintf("%s-st-%s-0", k[1], where)
				ov := map[string]any{"values": map[string]any{"t": requestAttrTemplates[ai]}}
				add(m, "request-attribute-in-value:rule-level:used-in-"+where, one,
					mstep{Kind: k[0], Proto: rule, Override: ov, Step: ck.Step{Subject: sub(u1, r1), Req: rqA}}, mstep{Kind: k[0], Proto: rule, Override: ov, Step: ck.Step{Subject: sub(u1, r1), Req: rqB}})
			}
		}

		// ---- generic authenticator
		c1 := ck.Opaque{Sub: u1, Nonce: x}.Token()
		c2 := ck.Opaque{Sub: u2, Nonce: x}.Token()
		ga := func(cred, tenant, trk string) mstep {
			return mstep{Kind: "authn", Proto: "ga-main", Step: ck.Step{Req: ck.Req{Headers: hdr("X-Session", cred, "X-Tenant", tenant), Cookies: hdr("trk", trk)}}}
		}
		add("generic_authenticator", "credential", one, ga(c1, t1, "k"), ga(c2, t1, "k"))
		add("generic_authenticator", "forwarded-header-value", one, ga(c1, t1, "k"), ga(c1, t2, "k"))
		add("generic_authenticator", "forwarded-cookie-value", one, ga(c1, t1, "k1"+x), ga(c1, t1, "k2"+x))
		for _, f := range fwdReqs {
			ra, rb := f.a, f.b
			ra.Headers, rb.Headers = hdr("X-Session", c1), hdr("X-Session", c1)
			for k, v := range f.a.Headers {
				ra.Headers[k] = v
			}
			for k, v := range f.b.Headers {
				rb.Headers[k] = v
			}
			add("generic_authenticator", f.comp, shift, mstep{Kind: "authn", Proto: "ga-fwd", Step: ck.Step{Req: ra}}, mstep{Kind: "authn", Proto: "ga-fwd", Step: ck.Step{Req: rb}})
		}
		gt := func(proto, cred string) mstep {
			return mstep{Kind: "authn", Proto: proto, Step: ck.Step{Req: ck.Req{Headers: hdr("X-Session", cred)}}}
		}
		add("generic_authenticator", "endpoint-header-value-of-other-prototype", one, gt("ga-ten-a", c1), gt("ga-ten-b", c1))
		add("remote_authorizer", "endpoint-header-value-of-other-prototype", one, raP("ra-low-a", ck.Step{Subject: sub(u1, r1)}, nil), raP("ra-low-b", ck.Step{Subject: sub(u1, r1)}, nil))
		add("generic_contextualizer", "endpoint-header-value-of-other-prototype", one, cxP("cx-low-a", ck.Step{Subject: sub(u1, r1)}, nil), cxP("cx-low-b", ck.Step{Subject: sub(u1, r1)}, nil))
		// two catalogue entries on one identity endpoint: another payload template; session_lifespan absent / present with a
		// credential whose session is inactive resp. expired
		add("generic_authenticator", "payload-of-other-prototype", one, gt("ga-realm-a", c1), gt("ga-realm-b", c1))
		inactive, past, tenMinAgo := false, time.Now().Add(-time.Hour).Unix(), time.Now().Add(-10*time.Minute).Unix()
		for _, cred := range []string{ck.Opaque{Sub: u1, Active: &inactive, Nonce: x}.Token(), ck.Opaque{Sub: u1, Exp: &past, Nonce: x}.Token()} {
			add("generic_authenticator", "session-lifespan-of-other-prototype", one, gt("ga-nolife", cred), gt("ga-life", cred))
		}
		gp := func(cred string) mstep {
			return mstep{Kind: "authn", Proto: "ga-payload", Step: ck.Step{Req: ck.Req{Cookies: hdr("app-session", cred)}}}
		}
		add("generic_authenticator", "credential-in-payload", one, gp(c1), gp(c2))

		// ---- oauth2 introspection
		tokRead := ck.Opaque{Sub: u1, Scope: "read", Aud: "reports", Nonce: x}.Token()
		tokRead2 := ck.Opaque{Sub: u2, Scope: "read", Aud: "reports", Nonce: x}.Token()
		in := func(proto, tok string, ov map[string]any) mstep {
			return mstep{Kind: "authn", Proto: proto, Override: ov, Step: ck.Step{Req: ck.Req{Headers: hdr("Authorization", "Bearer "+tok)}}}
		}
		add("oauth2_introspection", "credential", one, in("in-main", tokRead, nil), in("in-main", tokRead2, nil))
		add("oauth2_introspection", "rule-level-assertions", one, in("in-main", tokRead, nil),
			in("in-main", tokRead, map[string]any{"assertions": map[string]any{"scopes": []any{"admin"}}}))
		add("oauth2_introspection", "rule-level-assertions", one, in("in-main", tokRead, nil),
			in("in-main", tokRead, map[string]any{"assertions": map[string]any{"audience": []string{"payments"}}}))
		add("oauth2_introspection", "other-prototype-assertions", one, in("in-main", tokRead, nil), in("in-strict", tokRead, nil))
		add("oauth2_introspection", "other-prototype-assertions", one, in("in-main", tokRead, nil), in("in-aud", tokRead, nil))
		// a token which expired ten minutes ago, for prototypes without and with a generous validity leeway
		tokOld := ck.Opaque{Sub: u1, Scope: "read", Exp: &tenMinAgo, Nonce: x}.Token()
		add("oauth2_introspection", "other-prototype-validity-leeway", one, in("in-main", tokOld, nil), in("in-leeway", tokOld, nil))

		// endpoint discovered through metadata: tokens of the metadata issuer, of the public issuer and of a third one, for
		// prototypes trusting the metadata issuer only (by default / explicitly), the public one only, or both; rule level issuers
		mi := e.metadataIssuer()
		tokBy := map[string]string{}
		for _, is := range []string{mi, publicIssuer, "https://third.example"} {
			tokBy[is] = ck.Opaque{Sub: u1, Scope: "read", Iss: is, Nonce: x}.Token()
		}
		for _, pr := range []string{"in-md", "in-md-same", "in-md-pub", "in-md-both"} {
			add("oauth2_introspection", "token-issuer-with-metadata", one, in(pr, tokBy[mi], nil), in(pr, tokBy[publicIssuer], nil))
			add("oauth2_introspection", "token-issuer-with-metadata", one, in(pr, tokBy[publicIssuer], nil), in(pr, tokBy["https://third.example"], nil))
			for _, is := range []string{mi, publicIssuer} {
				add("oauth2_introspection", "rule-level-issuers-with-metadata", one, in(pr, tokBy[is], nil),
					in(pr, tokBy[is], map[string]any{"assertions": map[string]any{"issuers": []string{publicIssuer}}}))
				add("oauth2_introspection", "rule-level-issuers-with-metadata", one, in(pr, tokBy[is], nil),
					in(pr, tokBy[is], map[string]any{"assertions": map[string]any{"issuers": []string{mi}}}))
			}
		}
		for _, is := range []string{mi, publicIssuer} {
			add("oauth2_introspection", "other-prototype-issuers-with-metadata", one, in("in-md", tokBy[is], nil), in("in-md-pub", tokBy[is], nil))
			add("oauth2_introspection", "other-prototype-issuers-with-metadata", one, in("in-md-same", tokBy[is], nil), in("in-md-both", tokBy[is], nil))
			add("oauth2_introspection", "other-prototype-issuers-with-metadata", one, in("in-md-pub", tokBy[is], nil), in("in-md-both", tokBy[is], nil))
		}

		// ---- jwt authenticator (registers keys as a side effect; JWKS documents are static per issuer)
		e.jwtPairs(add, u1, u2, x, i)

		// ---- jwt finalizer
		jf := func(s *ck.SubjectSpec, o string, ov map[string]any) mstep {
			return mstep{Kind: "fin", Proto: "jf-main", Override: ov, Step: ck.Step{Subject: s, Outputs: map[string]any{"o1": o}}}
		}
		add("jwt_finalizer", "subject-id", one, jf(sub(u1, r1), o1, nil), jf(sub(u2, r1), o1, nil))
		add("jwt_finalizer", "subject-attribute", one, jf(sub(u1, r1), o1, nil), jf(sub(u1, r2), o1, nil))
		add("jwt_finalizer", "pipeline-output", one, jf(sub(u1, r1), o1, nil), jf(sub(u1, r1), o2, nil))
		add("jwt_finalizer", "rule-level-claims", one, jf(sub(u1, r1), o1, map[string]any{"claims": `{"c": "A` + x + `"}`}), jf(sub(u1, r1), o1, map[string]any{"claims": `{"c": "B` + x + `"}`}))

		// subjects differing in the id only, everything the claims template looks at being equal
		jfP := func(proto string, s *ck.SubjectSpec) mstep {
			return mstep{Kind: "fin", Proto: proto, Step: ck.Step{Subject: s, Outputs: map[string]any{"o1": o1}}}
		}
		for _, p := range []string{"jf-attr", "jf-out", "jf-const"} {
			add("jwt_finalizer", "subject-id-unused-by-templates", one, jfP(p, sub(u1, r1)), jfP(p, sub(u2, r1)))
		}
		add("jwt_finalizer", "subject-id-unused-by-templates", one, jf(sub(u1, r1), o1, map[string]any{"claims": `{"c": "` + x + `"}`}), jf(sub(u2, r1), o1, map[string]any{"claims": `{"c": "` + x + `"}`}))

		// signers which differ in the key store only (the issued token names the key id, verifiers look the key up by it)
		ks := func(l string) mstep { return jfP("jf-ks-"+l, sub(u1, r1)) }
		add("jwt_finalizer", "signer-key-id-same-material", one, ks("a-as-k1"), ks("a-as-k2"))
		add("jwt_finalizer", "signer-key-id-same-material", one, ks("b-as-k2"), ks("b-as-k1"))
		add("jwt_finalizer", "signer-key-id-same-material", one, ks("a-k1-b-k2-k1"), ks("b-k1-a-k2-k2"))
		add("jwt_finalizer", "signer-key-id-same-material", one, ks("a-k1-b-k2"), ks("a-as-k2"))
		add("jwt_finalizer", "signer-material-same-key-id", one, ks("a-as-k1"), ks("b-as-k1"))
		add("jwt_finalizer", "signer-material-same-key-id", one, ks("a-k1-b-k2-k1"), ks("b-k1-a-k2-k1"))
		add("jwt_finalizer", "signer-material-same-key-id", one, ks("a-k1-b-k2"), ks("b-k1-a-k2"))
		add("jwt_finalizer", "signer-selected-key-of-store", one, ks("a-k1-b-k2-k1"), ks("a-k1-b-k2-k2"))
		add("jwt_finalizer", "signer-selected-key-of-store", one, ks("b-k1-a-k2"), ks("b-k1-a-k2-k2"))
		add("jwt_finalizer", "signer-name", one, ks("a-as-k1"), ks("a-as-k1-named"))

		// ---- client credentials (finalizer and endpoint auth strategy)
		cc := func(proto string, ov map[string]any) mstep {
			return mstep{Kind: "fin", Proto: proto, Override: ov, Step: ck.Step{Subject: sub(u1, r1)}}
		}
		add("client_credentials", "client-secret", one, cc("cc-base", nil), cc("cc-secret", nil))
		add("client_credentials", "client-id", one, cc("cc-base", nil), cc("cc-id", nil))
		add("client_credentials", "token-url", one, cc("cc-base", nil), cc("cc-url", nil))
		add("client_credentials", "rule-level-scopes", one, cc("cc-base", map[string]any{"scopes": []string{"A" + x}}), cc("cc-base", map[string]any{"scopes": []string{"B" + x}}))
		add("client_credentials", "client-id-secret", shift, cc("cc-ab-c", nil), cc("cc-a-bc", nil))
		add("client_credentials", "scopes", shift, cc("cc-base", map[string]any{"scopes": []string{"ab" + x, "c"}}), cc("cc-base", map[string]any{"scopes": []string{"a", "b" + x + "c"}}))
		cs := func(proto string) mstep {
			return mstep{Kind: "ctx", Proto: "cs-" + proto, Step: ck.Step{Subject: sub(u1, r1)}}
		}
		add("client_credentials", "endpoint-auth-client-secret", one, cs("cc-base"), cs("cc-secret"))
		add("client_credentials", "endpoint-auth-client-id-secret", shift, cs("cc-ab-c"), cs("cc-a-bc"))

		// ---- HTTP cache
		hx := func(proto string, s *ck.SubjectSpec) mstep {
			return mstep{Kind: "ctx", Proto: proto, Step: ck.Step{Subject: s}}
		}
		add("http_cache", "http-request-body", one, hx("hx-body", sub(u1, r1)), hx("hx-body", sub(u2, r1)))
		add("http_cache", "http-vary-header", one, hx("hx-vary", sub(u1, r1)), hx("hx-vary", sub(u2, r1)))
		add("http_cache", "http-url", one, hx("hx-url", sub(u1, r1)), hx("hx-url", sub(u2, r1)))

		// shapes of the Authorization header sent to an endpoint whose (public cacheable) answers go through the HTTP cache:
		// the two requests of a pair present different credentials in the same shape, or differ in the scheme / in having one
		ta, tb := "A"+rstr(rng, 8), "B"+rstr(rng, 8)
		tokSub := func(tok string) *ck.SubjectSpec {
			return &ck.SubjectSpec{ID: u1, Attributes: map[string]any{"role": r1, "a0": "x", "token": tok}}
		}
		for _, sh := range authorizationShapes(ta, tb) {
			cls := one
			if sh.name == "scheme-credentials-boundary" {
				cls = shift
			}
			add("http_cache", "http-authorization-shape:"+sh.name, cls, hx("hx-auth", tokSub(sh.a)), hx("hx-auth", tokSub(sh.b)))
			add("http_cache", "http-authorization-shape:"+sh.name, cls, raP("ra-hx-auth", ck.Step{Subject: tokSub(sh.a)}, nil), raP("ra-hx-auth", ck.Step{Subject: tokSub(sh.b)}, nil))
		}
		add("http_cache", "http-authorization-shape:absent-vs-no-scheme", one, hx("hx-noauth", sub(u1, r1)), hx("hx-auth", tokSub(tb)))
		add("http_cache", "http-authorization-shape:absent-vs-bearer", one, hx("hx-noauth", sub(u1, r1)), hx("hx-auth", tokSub("Bearer "+tb)))
		add("http_cache", "http-authorization-shape:static-token-of-other-prototype", one, hx("hx-key-a", sub(u1, r1)), hx("hx-key-b", sub(u1, r1)))
		add("http_cache", "http-authorization-shape:static-token-vs-absent", one, hx("hx-key-a", sub(u1, r1)), hx("hx-noauth", sub(u1, r1)))
		// the credential presented by the client, forwarded as it is resp. with the scheme the client used
		add("http_cache", "http-authorization-shape:presented-credential-no-scheme", one, gt("ga-hx-auth", c1), gt("ga-hx-auth", c2))
		add("http_cache", "http-authorization-shape:presented-credential-bearer", one, gt("ga-hx-auth", "Bearer "+c1), gt("ga-hx-auth", "Bearer "+c2))
	}
	if concEnd == 0 {
		concEnd = len(all)
	}
	e.conc = append(e.conc, all[:concEnd]...)
	// pairs against the second server (own random stream: the pairs above stay what they were)
	rngBE := e.r.Stream("backend-pairs")
	for i := 0; i < reps; i++ {
		e.backendPairs(add, rngBE, i)
	}
	for _, pc := range all {
		e.runPair(pc)
	}
}

// authShape is a pair of Authorization header values.
type authShape struct{ name, a, b string }

// authorizationShapes: the credentials ta / tb in the shapes an Authorization value takes in practice. Values which differ
// only in what RFC 9110 declares insignificant (case of the scheme, number of blanks) are never paired with each other.
func authorizationShapes(ta, tb string) []authShape {
	return []authShape{
		{"no-scheme", ta, tb},
		{"bearer", "Bearer " + ta, "Bearer " + tb},
		{"lower-case-scheme", "bearer " + ta, "bearer " + tb},
		{"upper-case-scheme", "BEARER " + ta, "BEARER " + tb},
		{"several-blanks", "Bearer   " + ta, "Bearer   " + tb},
		{"tab", "Bearer\t" + ta, "Bearer\t" + tb},
		{"leading-blank", " " + ta, " " + tb},
		{"trailing-blank", ta + " ", tb + " "},
		{"empty-vs-no-scheme", "", tb},
		{"empty-vs-bearer", "", "Bearer " + tb},
		{"other-scheme", "Bearer " + ta, "Basic " + ta},
		{"scheme-vs-no-scheme", "Bearer " + ta, ta},
		{"scheme-only", "Negotiate", "NTLM"},
		{"credentials-with-parameters", "Digest username=" + ta + ", nc=1", "Digest username=" + ta + ", nc=2"},
		{"scheme-credentials-boundary", "ab" + ta + " c", "a b" + ta + "c"},
		{"scheme-credentials-boundary", "ab " + ta, "a b" + ta},
	}
}

func (e *env) jwtPairs(add func(mechanism, component, class string, a, b mstep), u1, u2, x string, round int) {
	now := time.Now()
	mk := func(iss, kid, subj string, key *ck.SigningKey) mstep {
		tok, _ := key.SignJWT(map[string]any{"iss": iss, "sub": subj, "exp": now.Add(2 * time.Hour).Unix(), "iat": now.Add(-30 * time.Second).Unix()})
		return mstep{Kind: "authn", Proto: "jw-main", Step: ck.Step{Req: ck.Req{Headers: hdr("Authorization", "Bearer "+tok)}}}
	}
	if round == 0 {
		// static JWKS documents: iss-one has two keys, iss-two reuses the kid "k1" with another key; "ab"/"a" for the shift
		k1, _ := e.pki.NewKey("k1", nil)
		k2, _ := e.pki.NewKey("k2", nil)
		k1b, _ := e.pki.NewKey("k1", nil)
		kc, _ := e.pki.NewKey("c", nil)
		kbc, _ := e.pki.NewKey("bc", nil)
		e.srv.RegisterJWKS("iss-one", ck.JWKS(k1, k2))
		e.srv.RegisterJWKS("iss-two", ck.JWKS(k1b))
		e.srv.RegisterJWKS("ab", ck.JWKS(kc))
		e.srv.RegisterJWKS("a", ck.JWKS(kbc))
		kmd, _ := e.pki.NewKey("md1", nil)
		e.srv.RegisterJWKS("idp-a", ck.JWKS(kmd))
		e.jwtKeys = map[string]*ck.SigningKey{"k1": k1, "k2": k2, "k1b": k1b, "c": kc, "bc": kbc, "md1": kmd}
	}
	if round == 0 {
		// keys whose certificate a validating authenticator rejects: issued by a CA which is not in the trust store,
		// issued by the trusted CA for another key usage; and one it accepts
		end := now.Add(24 * time.Hour)
		// ("untrusted": by the first root CA; it is the second root CA which issued it)
		e.jwtKeys["untrusted"], _ = e.pki2.NewKey("untrusted", &end)
		e.jwtKeys["usage"], _ = e.pki.NewKeyWithUsage("usage", &end, x509.KeyUsageKeyEncipherment)
		e.jwtKeys["trusted"], _ = e.pki.NewKey("trusted", &end)
		// certificates issued by an intermediate CA of the first resp. the second root CA (x5c: leaf, intermediate)
		e.jwtKeys["via-first"], _ = e.pki.NewKeyVia("via-first", end, end)
		e.jwtKeys["via-second"], _ = e.pki2.NewKeyVia("via-second", end, end)
		var ks []*ck.SigningKey
		for _, n := range []string{"untrusted", "usage", "trusted", "via-first", "via-second"} {
			if e.jwtKeys[n] != nil {
				ks = append(ks, e.jwtKeys[n])
			}
		}
		e.srv.RegisterJWKS("iss-certs", ck.JWKS(ks...))
	}
	k := e.jwtKeys
	for _, n := range []string{"untrusted", "usage", "trusted"} {
		if k[n] == nil {
			continue
		}
		lax, strict := mk("iss-certs", n, u1, k[n]), mk("iss-certs", n, u1, k[n])
		lax.Proto, strict.Proto = "jw-lax", "jw-strict"
		add("jwt_authenticator", "jwk-validation-of-other-prototype:"+n+"-certificate", "one-component", lax, strict)
	}
	// validating authenticators on one JWKS endpoint which differ in the trust store only
	for _, n := range []string{"trusted", "untrusted", "via-first", "via-second"} {
		if k[n] == nil {
			continue
		}
		for _, pp := range [][2]string{{"jw-strict", "jw-strict-b"}, {"jw-strict", "jw-strict-both"}, {"jw-strict-b", "jw-strict-both"},
			{"jw-strict", "jw-strict-sys"}, {"jw-strict-both", "jw-strict-sys"}} {
			ma, mb := mk("iss-certs", n, u1, k[n]), mk("iss-certs", n, u1, k[n])
			ma.Proto, mb.Proto = pp[0], pp[1]
			add("jwt_authenticator", "trust-store-of-other-prototype:"+n+"-certificate:"+pp[0]+"/"+pp[1], "one-component", ma, mb)
		}
	}
	// not validating authenticators on one JWKS endpoint which differ in one assertion only (assertions are evaluated per request)
	if k["trusted"] != nil {
		with := func(proto string, m mstep) mstep { m.Proto = proto; return m }
		tok := mk("iss-certs", "trusted", u1, k["trusted"])
		add("jwt_authenticator", "other-prototype-allowed-algorithms", "one-component", with("jw-alg-es", tok), with("jw-alg-ps", tok))
		add("jwt_authenticator", "other-prototype-audience", "one-component", with("jw-lax", tok), with("jw-aud", tok))
		old, _ := k["trusted"].SignJWT(map[string]any{"iss": "iss-certs", "sub": u1, "exp": now.Add(-10 * time.Minute).Unix(), "iat": now.Add(-20 * time.Minute).Unix()})
		expired := mstep{Kind: "authn", Step: ck.Step{Req: ck.Req{Headers: hdr("Authorization", "Bearer "+old)}}}
		add("jwt_authenticator", "other-prototype-validity-leeway", "one-component", with("jw-lax", expired), with("jw-leeway", expired))
	}
	// keys discovered through the metadata document: issuers trusted by default (metadata), explicitly, on rule level
	mi := e.metadataIssuer()
	md := func(proto, iss string, ov map[string]any) mstep {
		m := mk(iss, "md1", u1, k["md1"])
		m.Proto, m.Override = proto, ov
		return m
	}
	for _, pr := range []string{"jw-md", "jw-md-same", "jw-md-pub", "jw-md-both"} {
		add("jwt_authenticator", "token-issuer-with-metadata", "one-component", md(pr, mi, nil), md(pr, publicIssuer, nil))
		for _, is := range []string{mi, publicIssuer} {
			add("jwt_authenticator", "rule-level-issuers-with-metadata", "one-component", md(pr, is, nil),
				md(pr, is, map[string]any{"assertions": map[string]any{"issuers": []string{publicIssuer}}}))
		}
	}
	for _, is := range []string{mi, publicIssuer} {
		add("jwt_authenticator", "other-prototype-issuers-with-metadata", "one-component", md("jw-md", is, nil), md("jw-md-pub", is, nil))
	}
	add("jwt_authenticator", "key-id", "one-component", mk("iss-one", "k1", u1, k["k1"]), mk("iss-one", "k2", u1, k["k2"]))
	add("jwt_authenticator", "subject", "one-component", mk("iss-one", "k1", u1, k["k1"]), mk("iss-one", "k1", u2, k["k1"]))
	add("jwt_authenticator", "issuer-same-kid", "one-component", mk("iss-one", "k1", u1, k["k1"]), mk("iss-two", "k1", u1, k["k1b"]))
	add("jwt_authenticator", "jwks-url-kid", "boundary-shift", mk("ab", "c", u1, k["c"]), mk("a", "bc", u1, k["bc"]))
	// rule level assertions are evaluated on every request (only keys are cached)
	a := mk("iss-one", "k1", u1, k["k1"])
	b := mk("iss-one", "k1", u1, k["k1"])
	b.Override = map[string]any{"assertions": map[string]any{"audience": []string{"nobody-" + x}}}
	add("jwt_authenticator", "rule-level-assertions", "one-component", a, b)
}
