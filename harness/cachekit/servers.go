package cachekit

import (
	"crypto/sha256"
	"encoding/base64"
	"encoding/hex"
	"encoding/json"
	"fmt"
	"io"
	"net/http"
	"net/http/httptest"
	"net/url"
	"sort"
	"strconv"
	"strings"
	"sync"
	"time"
)

// Servers is one loopback HTTP server offering all remote systems the mechanisms talk to. Every
// answer is a pure function of the received request (method, request URI, selected headers, body)
// and static registered content; never of call counts. Calls are counted per canonical request.
//
//	/introspect[/x]   RFC 7662 style: form field token=<opaque credential>
//	/identity[/x]     identity info for the generic authenticator (credential in Authorization / cookie "sid" / body)
//	/authz[/x]        remote authorizer endpoint (403 when the request contains "deny")
//	/ctx[/x]          contextualizer endpoint
//	                  both answer with the echoed request (JSON payloads decoded: numbers, objects, lists come back as such) and
//	                  "stats" (numbers, a nested object and a list derived from the request); ?ct=<media type> announces the
//	                  (JSON, hence also YAML) body with another Content-Type
//	/doc/<name>       registered static JSON documents (e.g. OAuth2 server metadata under <name>/.well-known/...)
//	/token[/x]?expires_in=N   OAuth2 token endpoint (client credentials)
//	/jwks/<name>      registered JWKS documents
//	/cc?cc=..&expires=..&date=..&age=..   Cache-Control controlled endpoint
//	/echo[/x]         plain echo (protected resources)
type Servers struct {
	Srv *httptest.Server
	URL string

	mu     sync.Mutex
	calls  map[string]int // canonical request -> count
	byPath map[string]int // path -> count
	log    []Call
	jwks   map[string][]byte
	docs   map[string][]byte
	gate   *Gate
}

// Call is one request that reached the server.
type Call struct {
	Seq   int    `json:"seq"`
	Path  string `json:"path"`
	Canon string `json:"canon"`
	Echo  string `json:"echo"`
}

// Opaque is the content of an opaque credential understood by the test servers: the servers answer
// with what the credential says (so a token's expiry is a function of the token only).
type Opaque struct {
	Sub    string `json:"sub"`
	Exp    *int64 `json:"exp,omitempty"` // unix seconds; nil: no expiry information
	Scope  string `json:"scope,omitempty"`
	Aud    string `json:"aud,omitempty"`
	Iss    string `json:"iss,omitempty"`
	Active *bool  `json:"active,omitempty"`
	Nonce  string `json:"n,omitempty"`
}

// Token renders the credential ("opq." + base64url(JSON)).
func (o Opaque) Token() string {
	b, _ := json.Marshal(o)
	return "opq." + base64.RawURLEncoding.EncodeToString(b)
}

func parseOpaque(s string) (Opaque, bool) {
	var o Opaque
	rest, ok := strings.CutPrefix(s, "opq.")
	if !ok {
		return o, false
	}
	b, err := base64.RawURLEncoding.DecodeString(rest)
	if err != nil || json.Unmarshal(b, &o) != nil {
		return o, false
	}
	return o, true
}

var echoedHeaders = []string{"Authorization", "Cookie", "Content-Type", "Accept"}

// canonical renders what the answer may depend on.
func canonical(r *http.Request, body []byte) string {
	var sb strings.Builder
	fmt.Fprintf(&sb, "%s %s\n", r.Method, r.RequestURI)
	names := make([]string, 0, len(r.Header))
	for k := range r.Header {
		if strings.HasPrefix(k, "X-") {
			names = append(names, k)
		}
	}
	for _, k := range echoedHeaders {
		if _, ok := r.Header[k]; ok {
			names = append(names, k)
		}
	}
	sort.Strings(names)
	for _, k := range names {
		fmt.Fprintf(&sb, "%s: %s\n", k, strings.Join(r.Header[k], "|"))
	}
	fmt.Fprintf(&sb, "\n%d:%s", len(body), body)
	return sb.String()
}

func digest(parts ...string) string {
	h := sha256.New()
	for _, p := range parts {
		fmt.Fprintf(h, "%d:%s,", len(p), p)
	}
	return hex.EncodeToString(h.Sum(nil))[:20]
}

func NewServers() *Servers {
	s := &Servers{calls: map[string]int{}, byPath: map[string]int{}, jwks: map[string][]byte{}, docs: map[string][]byte{}}
	s.Srv = httptest.NewServer(http.HandlerFunc(s.handle))
	s.URL = s.Srv.URL
	return s
}

func (s *Servers) Close() { s.Srv.Close() }

// RegisterJWKS publishes a static JWKS document under /jwks/<name>.
func (s *Servers) RegisterJWKS(name string, doc []byte) {
	s.mu.Lock()
	s.jwks[name] = doc
	s.mu.Unlock()
}

// RegisterDoc publishes a static JSON document under /doc/<name> (name may contain slashes).
func (s *Servers) RegisterDoc(name string, doc []byte) {
	s.mu.Lock()
	s.docs[name] = doc
	s.mu.Unlock()
}

// Total returns the number of calls whose path starts with prefix.
func (s *Servers) Total(prefix string) int {
	s.mu.Lock()
	defer s.mu.Unlock()
	n := 0
	for p, c := range s.byPath {
		if strings.HasPrefix(p, prefix) {
			n += c
		}
	}
	return n
}

// All returns the number of all calls.
func (s *Servers) All() int {
	s.mu.Lock()
	defer s.mu.Unlock()
	return len(s.log)
}

// CallsSince returns the calls with sequence number >= n.
func (s *Servers) CallsSince(n int) []Call {
	s.mu.Lock()
	defer s.mu.Unlock()
	if n > len(s.log) {
		n = len(s.log)
	}
	return append([]Call(nil), s.log[n:]...)
}

// MaxPerCanonical returns the highest call count of one canonical request among calls since n.
func MaxPerCanonical(calls []Call) int {
	m := map[string]int{}
	max := 0
	for _, c := range calls {
		m[c.Canon]++
		if m[c.Canon] > max {
			max = m[c.Canon]
		}
	}
	return max
}

// Gate makes the remote systems slow in a controlled way: from Hold on, every request whose path starts with one of the
// prefixes (all requests if there are none) is registered (counted, logged) and then kept inside the server until Release
// is called. Answers stay a pure function of the request. Arrived tells the harness that a request is being held, so that
// overlapping executions are produced by waiting for events, not by sleeping.
type Gate struct {
	s        *Servers
	prefixes []string
	arrived  chan string
	open     chan struct{}
	once     sync.Once
}

// maxHold bounds the time a request is kept if the gate is never released (a harness error; never part of a verdict).
const maxHold = 20 * time.Second

// Hold installs a gate (replacing a previous one, which is released).
func (s *Servers) Hold(prefixes ...string) *Gate {
	g := &Gate{s: s, prefixes: prefixes, arrived: make(chan string, 256), open: make(chan struct{})}
	s.mu.Lock()
	old := s.gate
	s.gate = g
	s.mu.Unlock()
	if old != nil {
		old.Release()
	}
	return g
}

// Arrived delivers the path of every request that reached the gate.
func (g *Gate) Arrived() <-chan string { return g.arrived }

// Release lets all held requests continue and removes the gate.
func (g *Gate) Release() {
	g.once.Do(func() {
		g.s.mu.Lock()
		if g.s.gate == g {
			g.s.gate = nil
		}
		g.s.mu.Unlock()
		close(g.open)
	})
}

func (g *Gate) hold(r *http.Request) {
	match := len(g.prefixes) == 0
	for _, p := range g.prefixes {
		match = match || strings.HasPrefix(r.URL.Path, p)
	}
	if !match {
		return
	}
	select {
	case g.arrived <- r.URL.Path:
	default:
	}
	select {
	case <-g.open:
	case <-r.Context().Done():
	case <-time.After(maxHold):
	}
}

func writeJSON(w http.ResponseWriter, status int, v any) {
	b, _ := json.Marshal(v)
	w.Header().Set("Content-Type", "application/json")
	w.Header().Set("Content-Length", strconv.Itoa(len(b)))
	w.WriteHeader(status)
	_, _ = w.Write(b)
}

// writeAs is writeJSON with the Content-Type taken from the query parameter "ct" if present (a JSON document is a YAML
// document as well).
func writeAs(w http.ResponseWriter, r *http.Request, status int, v any) {
	b, _ := json.Marshal(v)
	ct := r.URL.Query().Get("ct")
	if ct == "" {
		ct = "application/json"
	}
	w.Header().Set("Content-Type", ct)
	w.Header().Set("Content-Length", strconv.Itoa(len(b)))
	w.WriteHeader(status)
	_, _ = w.Write(b)
}

// stats is a pure function of the request digest: integral and fractional numbers, a number above 2^53, a nested object and
// a mixed list, i.e. what expressions and templates of later pipeline steps calculate with.
func stats(echo string) map[string]any {
	n, _ := strconv.ParseInt(echo[:2], 16, 64)
	return map[string]any{
		"count": n, "ratio": float64(n) / 4, "big": int64(1234567890123456789), "flag": n%2 == 0,
		"limits": map[string]any{"max": n + 10, "window": map[string]any{"sec": 60, "burst": 1.5}},
		"items":  []any{n, "s" + echo[:3], map[string]any{"k": n + 1}, []any{1, 2.5}, nil, true},
	}
}

func xHeaders(r *http.Request) map[string]string {
	out := map[string]string{}
	for k, v := range r.Header {
		if strings.HasPrefix(k, "X-") {
			out[k] = strings.Join(v, "|")
		}
	}
	return out
}

func (s *Servers) handle(w http.ResponseWriter, r *http.Request) {
	body, _ := io.ReadAll(r.Body)
	canon := canonical(r, body)
	echo := digest(canon)
	s.mu.Lock()
	s.calls[canon]++
	s.byPath[r.URL.Path]++
	s.log = append(s.log, Call{Seq: len(s.log), Path: r.URL.Path, Canon: canon, Echo: echo})
	g := s.gate
	s.mu.Unlock()
	if g != nil {
		g.hold(r)
	}

	if q := r.URL.Query(); q.Has("cc") || q.Has("expires") || q.Has("age") || q.Has("vary") {
		s.cacheHeaders(w, r)
	}
	seg := strings.SplitN(strings.TrimPrefix(r.URL.Path, "/"), "/", 2)
	switch seg[0] {
	case "introspect":
		s.introspect(w, r, body, echo)
	case "identity":
		s.identity(w, r, body, echo)
	case "authz":
		if strings.Contains(canon, "deny") {
			writeJSON(w, http.StatusForbidden, map[string]any{"echo": echo})
			return
		}
		w.Header().Set("X-Authz-Echo", echo)
		w.Header().Set("X-Authz-Other", "o-"+echo[:6])
		writeAs(w, r, http.StatusOK, map[string]any{"echo": echo, "req": parsedBody(body), "hdr": xHeaders(r), "stats": stats(echo)})
	case "ctx":
		writeAs(w, r, http.StatusOK, map[string]any{"echo": echo, "req": parsedBody(body), "hdr": xHeaders(r), "stats": stats(echo)})
	case "doc":
		name := ""
		if len(seg) > 1 {
			name = seg[1]
		}
		s.mu.Lock()
		doc, ok := s.docs[name]
		s.mu.Unlock()
		if !ok {
			http.NotFound(w, r)
			return
		}
		w.Header().Set("Content-Type", "application/json")
		w.Header().Set("Content-Length", strconv.Itoa(len(doc)))
		_, _ = w.Write(doc)
	case "token":
		s.token(w, r, body)
	case "jwks":
		name := ""
		if len(seg) > 1 {
			name = seg[1]
		}
		s.mu.Lock()
		doc, ok := s.jwks[name]
		s.mu.Unlock()
		if !ok {
			http.NotFound(w, r)
			return
		}
		s.cacheHeaders(w, r)
		w.Header().Set("Content-Type", "application/json")
		_, _ = w.Write(doc)
	case "cc":
		s.cacheHeaders(w, r)
		writeJSON(w, http.StatusOK, map[string]any{"echo": echo})
	case "echo":
		writeJSON(w, http.StatusOK, map[string]any{"echo": echo, "hdr": xHeaders(r), "authorization": r.Header.Get("Authorization")})
	default:
		http.NotFound(w, r)
	}
}

func parsedBody(body []byte) any {
	var v any
	if json.Unmarshal(body, &v) == nil {
		return v
	}
	return string(body)
}

func (s *Servers) introspect(w http.ResponseWriter, r *http.Request, body []byte, echo string) {
	form, _ := url.ParseQuery(string(body))
	o, ok := parseOpaque(form.Get("token"))
	if !ok {
		writeJSON(w, http.StatusOK, map[string]any{"active": false})
		return
	}
	resp := map[string]any{"active": true, "sub": o.Sub, "iss": "verif-issuer", "token_type": "access_token", "echo": echo}
	if o.Active != nil {
		resp["active"] = *o.Active
	}
	if o.Iss != "" {
		resp["iss"] = o.Iss
	}
	if o.Exp != nil {
		resp["exp"] = *o.Exp
	}
	if o.Scope != "" {
		resp["scope"] = o.Scope
	}
	if o.Aud != "" {
		resp["aud"] = o.Aud
	}
	writeJSON(w, http.StatusOK, resp)
}

func (s *Servers) identity(w http.ResponseWriter, r *http.Request, body []byte, echo string) {
	cred := strings.TrimPrefix(r.Header.Get("Authorization"), "Bearer ")
	if cred == "" {
		if c, err := r.Cookie("sid"); err == nil {
			cred = c.Value
		}
	}
	if cred == "" {
		cred = r.Header.Get("X-Credential")
	}
	if cred == "" {
		var m map[string]any
		if json.Unmarshal(body, &m) == nil {
			cred, _ = m["cred"].(string)
		}
	}
	o, ok := parseOpaque(cred)
	if !ok {
		writeJSON(w, http.StatusUnauthorized, map[string]any{"error": "no credential"})
		return
	}
	resp := map[string]any{"sub": o.Sub, "active": true, "echo": echo, "hdr": xHeaders(r)}
	if o.Active != nil {
		resp["active"] = *o.Active
	}
	if o.Exp != nil {
		resp["exp"] = *o.Exp
	}
	writeJSON(w, http.StatusOK, resp)
}

func (s *Servers) token(w http.ResponseWriter, r *http.Request, body []byte) {
	form, _ := url.ParseQuery(string(body))
	id, secret, ok := r.BasicAuth()
	how := "basic"
	if ok {
		id, _ = url.QueryUnescape(id)
		secret, _ = url.QueryUnescape(secret)
	} else {
		id, secret, how = form.Get("client_id"), form.Get("client_secret"), "body"
	}
	if id == "" || form.Get("grant_type") != "client_credentials" {
		writeJSON(w, http.StatusBadRequest, map[string]any{"error": "invalid_client"})
		return
	}
	resp := map[string]any{
		"access_token": "at-" + digest(how, id, secret, form.Get("scope"), r.URL.Path, r.URL.RawQuery),
		"token_type":   "Bearer",
	}
	if v := r.URL.Query().Get("expires_in"); v != "" {
		n, _ := strconv.ParseInt(v, 10, 64)
		resp["expires_in"] = n
	}
	if sc := form.Get("scope"); sc != "" {
		resp["scope"] = sc
	}
	writeJSON(w, http.StatusOK, resp)
}

// cacheHeaders sets response headers from query parameters:
// cc=<Cache-Control value> (repeated: one header line each), expires=<seconds relative to now | raw:<literal>>, date=<seconds relative to now | none>,
// age=<seconds>, vary=<header names>.
func (s *Servers) cacheHeaders(w http.ResponseWriter, r *http.Request) {
	q := r.URL.Query()
	now := time.Now()
	// several cc parameters: several Cache-Control header lines
	if q.Has("cc") {
		w.Header().Del("Cache-Control")
	}
	for _, v := range q["cc"] {
		if v != "" {
			w.Header().Add("Cache-Control", v)
		}
	}
	if v := q.Get("date"); v == "none" {
		w.Header()["Date"] = nil
	} else if v != "" {
		n, _ := strconv.Atoi(v)
		w.Header().Set("Date", now.Add(time.Duration(n)*time.Second).UTC().Format(http.TimeFormat))
	} else {
		w.Header().Set("Date", now.UTC().Format(http.TimeFormat))
	}
	if v := q.Get("expires"); v != "" {
		if raw, ok := strings.CutPrefix(v, "raw:"); ok {
			w.Header().Set("Expires", raw)
		} else {
			n, _ := strconv.Atoi(v)
			w.Header().Set("Expires", now.Add(time.Duration(n)*time.Second).UTC().Format(http.TimeFormat))
		}
	}
	if v := q.Get("age"); v != "" {
		w.Header().Set("Age", v)
	}
	if v := q.Get("vary"); v != "" {
		w.Header().Set("Vary", v)
	}
}
