// Package cachekit is the shared observation kit of the cache properties C10 and C11: a recording
// cache.Cache around heimdall's real cache implementations, hash-echo test servers and helpers to
// run real mechanisms (created by the real mechanism factory) against them.
package cachekit

import (
	"context"
	"fmt"
	"sync"
	"time"

	"github.com/alicebob/miniredis/v2"

	"github.com/dadrus/heimdall/internal/cache"
	"github.com/dadrus/heimdall/internal/cache/memory"
	"github.com/dadrus/heimdall/internal/cache/noop"
	"github.com/dadrus/heimdall/internal/cache/redis"
)

const (
	BackendMemory = "memory"
	BackendRedis  = "redis"
	BackendNoop   = "noop"
)

// Event is one observed cache operation. T0/T1 bracket the call into the real cache (wall clock),
// Virt is the virtual time (sum of FastForward) added to the cache's clock when the call happened.
type Event struct {
	Seq   int           `json:"seq"`
	Op    string        `json:"op"` // get | set
	Key   string        `json:"key"`
	Hit   bool          `json:"hit,omitempty"`
	Len   int           `json:"len,omitempty"`
	TTL   time.Duration `json:"ttl_ns,omitempty"`
	TTLs  string        `json:"ttl,omitempty"`
	Err   string        `json:"err,omitempty"`
	T0    time.Time     `json:"t0"`
	T1    time.Time     `json:"t1"`
	Virt  time.Duration `json:"virtual_offset_ns,omitempty"`
	Phase string        `json:"phase,omitempty"`
}

// RecCache implements heimdall's cache.Cache; every call is delegated to the wrapped real cache.
type RecCache struct {
	Backend string
	inner   cache.Cache
	mr      *miniredis.Miniredis

	mu     sync.Mutex
	events []Event
	virt   time.Duration
	phase  string
}

var _ cache.Cache = (*RecCache)(nil)

// NewMemory wraps heimdall's real in-memory cache.
func NewMemory() *RecCache {
	c, err := memory.NewCache(nil, nil, nil)
	if err != nil {
		panic(err)
	}
	return &RecCache{Backend: BackendMemory, inner: c}
}

// NewNoop wraps heimdall's no-op cache (what cache.Ctx falls back to when no cache is configured).
func NewNoop() *RecCache { return &RecCache{Backend: BackendNoop, inner: &noop.Cache{}} }

// Redis is a miniredis instance plus heimdall's real redis client against it.
type Redis struct {
	MR    *miniredis.Miniredis
	inner cache.Cache
}

func NewRedisServer() (*Redis, error) {
	mr, err := miniredis.Run()
	if err != nil {
		return nil, err
	}
	c, err := redis.NewStandaloneCache(map[string]any{
		"address":      mr.Addr(),
		"client_cache": map[string]any{"disabled": true},
		"tls":          map[string]any{"disabled": true},
	}, nil, nil)
	if err != nil {
		mr.Close()
		return nil, fmt.Errorf("redis client: %w", err)
	}
	return &Redis{MR: mr, inner: c}, nil
}

func (r *Redis) Close() {
	_ = r.inner.Stop(context.Background())
	r.MR.Close()
}

// Fresh returns a recording cache on an emptied database of this server.
func (r *Redis) Fresh() *RecCache {
	r.MR.FlushAll()
	return &RecCache{Backend: BackendRedis, inner: r.inner, mr: r.MR}
}

func (c *RecCache) Start(ctx context.Context) error { return nil }
func (c *RecCache) Stop(ctx context.Context) error  { return nil }

func (c *RecCache) Get(ctx context.Context, key string) ([]byte, error) {
	t0 := time.Now()
	v, err := c.inner.Get(ctx, key)
	t1 := time.Now()
	c.mu.Lock()
	c.events = append(c.events, Event{Seq: len(c.events), Op: "get", Key: key, Hit: err == nil, Len: len(v), T0: t0, T1: t1, Virt: c.virt, Phase: c.phase})
	c.mu.Unlock()
	return v, err
}

func (c *RecCache) Set(ctx context.Context, key string, value []byte, ttl time.Duration) error {
	t0 := time.Now()
	err := c.inner.Set(ctx, key, value, ttl)
	t1 := time.Now()
	e := Event{Seq: 0, Op: "set", Key: key, Len: len(value), TTL: ttl, TTLs: ttl.String(), T0: t0, T1: t1, Phase: c.phase}
	if err != nil {
		e.Err = err.Error()
	}
	c.mu.Lock()
	e.Seq = len(c.events)
	e.Virt = c.virt
	c.events = append(c.events, e)
	c.mu.Unlock()
	return err
}

// SetPhase labels subsequent events (e.g. "r1", "r2", "after-advance").
func (c *RecCache) SetPhase(p string) {
	c.mu.Lock()
	c.phase = p
	c.mu.Unlock()
}

// Advance moves the cache's clock: virtual (miniredis FastForward) for redis, a real sleep for the
// in-memory cache (callers only do that in the thorough tier).
func (c *RecCache) Advance(d time.Duration) {
	switch c.Backend {
	case BackendRedis:
		c.mr.FastForward(d)
		c.mu.Lock()
		c.virt += d
		c.mu.Unlock()
	case BackendMemory:
		time.Sleep(d)
	}
}

// Virtual reports whether Advance is virtual (no real time passes).
func (c *RecCache) Virtual() bool { return c.Backend == BackendRedis }

func (c *RecCache) Events() []Event {
	c.mu.Lock()
	defer c.mu.Unlock()
	return append([]Event(nil), c.events...)
}

func (c *RecCache) EventsSince(n int) []Event {
	c.mu.Lock()
	defer c.mu.Unlock()
	if n > len(c.events) {
		n = len(c.events)
	}
	return append([]Event(nil), c.events[n:]...)
}

func (c *RecCache) Len() int {
	c.mu.Lock()
	defer c.mu.Unlock()
	return len(c.events)
}

// Summary counts events.
func Summary(ev []Event) (gets, hits, sets int) {
	for _, e := range ev {
		switch {
		case e.Op == "get":
			gets++
			if e.Hit {
				hits++
			}
		case e.Op == "set":
			sets++
		}
	}
	return
}

// Keys returns the distinct keys used by the given events.
func Keys(ev []Event) []string {
	seen := map[string]bool{}
	var out []string
	for _, e := range ev {
		if !seen[e.Key] {
			seen[e.Key] = true
			out = append(out, e.Key)
		}
	}
	return out
}
