package cachekit

import (
	"context"
	"crypto/ecdsa"
	"crypto/elliptic"
	"crypto/rand"
	"crypto/x509"
	"crypto/x509/pkix"
	"encoding/base64"
	"encoding/json"
	"errors"
	"fmt"
	"net/http"
	"net/http/httptest"
	"os"
	"path/filepath"
	"reflect"
	"sort"
	"strings"
	"time"

	"github.com/go-jose/go-jose/v4"
	"github.com/go-jose/go-jose/v4/jwt"
	"github.com/rs/zerolog"

	"github.com/dadrus/heimdall/internal/cache"
	"github.com/dadrus/heimdall/internal/handler/requestcontext"
	"github.com/dadrus/heimdall/internal/heimdall"
	"github.com/dadrus/heimdall/internal/rules/mechanisms/subject"
	"github.com/dadrus/heimdall/internal/x/pkix/pemx"
	"github.com/dadrus/heimdall/internal/x/testsupport"
)

// Req describes the client request a mechanism sees.
type Req struct {
	Method  string            `json:"method,omitempty"`
	Path    string            `json:"path,omitempty"`
	Headers map[string]string `json:"headers,omitempty"`
	Cookies map[string]string `json:"cookies,omitempty"`
	Body    string            `json:"body,omitempty"`
}

// NewCtx builds a real heimdall request context whose application context carries the cache.
func NewCtx(rq Req, c cache.Cache) *requestcontext.RequestContext {
	method := rq.Method
	if method == "" {
		method = http.MethodGet
	}
	path := rq.Path
	if path == "" {
		path = "/resource"
	}
	var body *strings.Reader
	if rq.Body != "" {
		body = strings.NewReader(rq.Body)
	}
	var req *http.Request
	if body != nil {
		req = httptest.NewRequest(method, "http://client.test"+path, body)
	} else {
		req = httptest.NewRequest(method, "http://client.test"+path, nil)
	}
	// deterministic header order is irrelevant: http.Header is a map
	for k, v := range rq.Headers {
		req.Header.Set(k, v)
	}
	names := make([]string, 0, len(rq.Cookies))
	for k := range rq.Cookies {
		names = append(names, k)
	}
	sort.Strings(names)
	for _, k := range names {
		req.AddCookie(&http.Cookie{Name: k, Value: rq.Cookies[k]})
	}
	ctx := zerolog.Nop().WithContext(context.Background())
	if c != nil {
		ctx = cache.WithContext(ctx, c)
	}
	return requestcontext.New(req.WithContext(ctx))
}

// Outcome is everything a mechanism execution produced that a later stage or the upstream could see.
type Outcome struct {
	Err      string `json:"err,omitempty"` // error kind, "" on success
	ErrText  string `json:"err_text,omitempty"`
	Subject  string `json:"subject,omitempty"`  // JSON of the subject (authenticators)
	Outputs  string `json:"outputs,omitempty"`  // JSON of ctx.Outputs()
	Upstream string `json:"upstream,omitempty"` // JSON of the upstream headers (JWTs normalised)
	// Types is the shape of subject attributes and pipeline outputs as later expressions / templates see it
	// (kinds of the leaves: a float64 is not a json.Number, which is a string; an int is not a float64)
	Types string `json:"types,omitempty"`
	// Notes holds further observations of the harness which must not depend on the cache either
	Notes string `json:"notes,omitempty"`
}

// Comparable is the part of an outcome that must not depend on whether a cache is used.
func (o Outcome) Comparable() string {
	return o.Err + "\x00" + o.Subject + "\x00" + o.Outputs + "\x00" + o.Upstream + "\x00" + o.Types + "\x00" + o.Notes
}

// Shape renders the kinds of the values of a decoded document: maps with sorted keys, lists element-wise, leaves by
// their reflect.Kind. Two documents with equal JSON renderings but different shapes are told apart by CEL expressions
// and templates ("no such overload" for a string where a number is expected).
func Shape(v any) string {
	var sb strings.Builder
	shape(&sb, reflect.ValueOf(v), 0)
	return sb.String()
}

func shape(sb *strings.Builder, v reflect.Value, depth int) {
	for v.IsValid() && (v.Kind() == reflect.Interface || v.Kind() == reflect.Pointer) {
		if v.IsNil() {
			sb.WriteString("nil")
			return
		}
		v = v.Elem()
	}
	if !v.IsValid() {
		sb.WriteString("nil")
		return
	}
	if depth > 12 {
		sb.WriteString("...")
		return
	}
	switch v.Kind() {
	case reflect.Map:
		keys := make([]string, 0, v.Len())
		vals := map[string]reflect.Value{}
		for it := v.MapRange(); it.Next(); {
			k := fmt.Sprint(it.Key().Interface())
			keys = append(keys, k)
			vals[k] = it.Value()
		}
		sort.Strings(keys)
		sb.WriteString("{")
		for i, k := range keys {
			if i > 0 {
				sb.WriteString(",")
			}
			sb.WriteString(k + ":")
			shape(sb, vals[k], depth+1)
		}
		sb.WriteString("}")
	case reflect.Slice, reflect.Array:
		sb.WriteString("[")
		for i := 0; i < v.Len(); i++ {
			if i > 0 {
				sb.WriteString(",")
			}
			shape(sb, v.Index(i), depth+1)
		}
		sb.WriteString("]")
	case reflect.Struct:
		sb.WriteString("struct")
	default:
		sb.WriteString(v.Kind().String())
	}
}

// ErrKind classifies an error by heimdall's error kinds.
func ErrKind(err error) string {
	switch {
	case err == nil:
		return ""
	case errors.Is(err, heimdall.ErrAuthentication):
		return "authentication"
	case errors.Is(err, heimdall.ErrAuthorization):
		return "authorization"
	case errors.Is(err, heimdall.ErrCommunicationTimeout):
		return "communication_timeout"
	case errors.Is(err, heimdall.ErrCommunication):
		return "communication"
	case errors.Is(err, heimdall.ErrArgument):
		return "argument"
	case errors.Is(err, heimdall.ErrConfiguration):
		return "configuration"
	case errors.Is(err, heimdall.ErrInternal):
		return "internal"
	default:
		return "other"
	}
}

// Capture renders the outcome of one execution.
func Capture(ctx *requestcontext.RequestContext, sub *subject.Subject, err error) Outcome {
	o := Outcome{Err: ErrKind(err)}
	if err != nil {
		o.ErrText = err.Error()
		if len(o.ErrText) > 300 {
			o.ErrText = o.ErrText[:300]
		}
	}
	if sub != nil {
		b, _ := json.Marshal(sub) // encoding/json: sorted map keys
		o.Subject = string(b)
	}
	if sub != nil && len(sub.Attributes) > 0 {
		o.Types = "subject:" + Shape(sub.Attributes)
	}
	if out := ctx.Outputs(); len(out) > 0 {
		b, _ := json.Marshal(out)
		o.Outputs = string(b)
		o.Types += "outputs:" + Shape(out)
	}
	if h := ctx.UpstreamHeaders(); len(h) > 0 {
		norm := map[string][]string{}
		for k, vs := range h {
			for _, v := range vs {
				norm[k] = append(norm[k], NormaliseJWT(v))
			}
		}
		b, _ := json.Marshal(norm)
		o.Upstream = string(b)
	}
	return o
}

// NormaliseJWT replaces a "<scheme> <jwt>" header value by its JOSE header (alg, kid, typ, ...) and its claims without
// the per-issuance claims (iat, nbf, exp, jti), so that two tokens issued for the same input by the same signer compare equal.
func NormaliseJWT(v string) string {
	scheme, tok, ok := strings.Cut(v, " ")
	if !ok {
		tok, scheme = v, ""
	}
	claims, ok := JWTClaims(tok)
	if !ok {
		return v
	}
	for _, k := range []string{"iat", "nbf", "exp", "jti"} {
		delete(claims, k)
	}
	b, _ := json.Marshal(claims)
	hb := []byte("{}")
	if hdr, ok := JWTHeader(tok); ok {
		hb, _ = json.Marshal(hdr)
	}
	return scheme + " jwt:" + string(hb) + "." + string(b)
}

// JWTHeader decodes the protected header of a compact JWS without verifying it.
func JWTHeader(tok string) (map[string]any, bool) {
	parts := strings.Split(tok, ".")
	if len(parts) != 3 {
		return nil, false
	}
	b, err := base64.RawURLEncoding.DecodeString(parts[0])
	if err != nil {
		return nil, false
	}
	var m map[string]any
	if json.Unmarshal(b, &m) != nil {
		return nil, false
	}
	return m, true
}

// JWTClaims decodes the payload of a compact JWS without verifying it.
func JWTClaims(tok string) (map[string]any, bool) {
	parts := strings.Split(tok, ".")
	if len(parts) != 3 {
		return nil, false
	}
	b, err := base64.RawURLEncoding.DecodeString(parts[1])
	if err != nil {
		return nil, false
	}
	var m map[string]any
	if json.Unmarshal(b, &m) != nil {
		return nil, false
	}
	return m, true
}

// ---------------------------------------------------------------------------------------------
// PKI / JWT helpers

// PKI is a root CA whose certificate is written to a trust store file.
type PKI struct {
	CA             *testsupport.CA
	TrustStorePath string
}

func NewPKI(dir string) (*PKI, error) {
	ca, err := testsupport.NewRootCA("verif root", 48*time.Hour)
	if err != nil {
		return nil, err
	}
	pem, err := pemx.BuildPEM(pemx.WithX509Certificate(ca.Certificate))
	if err != nil {
		return nil, err
	}
	p := filepath.Join(dir, fmt.Sprintf("trust-%d.pem", time.Now().UnixNano()))
	if err := os.WriteFile(p, pem, 0o600); err != nil {
		return nil, err
	}
	return &PKI{CA: ca, TrustStorePath: p}, nil
}

// SigningKey is an ES256 key, optionally with a certificate issued by the PKI.
type SigningKey struct {
	KID  string
	Priv *ecdsa.PrivateKey
	Cert *x509.Certificate
	// Chain holds further certificates published with the key (x5c: leaf first, then its issuers)
	Chain []*x509.Certificate
}

// NewKey creates a key; with notAfter != nil a certificate valid from one hour ago until notAfter.
func (p *PKI) NewKey(kid string, notAfter *time.Time) (*SigningKey, error) {
	return p.NewKeyWithUsage(kid, notAfter, x509.KeyUsageDigitalSignature)
}

// NewKeyWithUsage is NewKey with another key usage of the certificate.
func (p *PKI) NewKeyWithUsage(kid string, notAfter *time.Time, usage x509.KeyUsage) (*SigningKey, error) {
	priv, err := ecdsa.GenerateKey(elliptic.P256(), rand.Reader)
	if err != nil {
		return nil, err
	}
	k := &SigningKey{KID: kid, Priv: priv}
	if notAfter != nil {
		nb := time.Now().Add(-2 * time.Hour)
		if notAfter.Before(nb) {
			nb = notAfter.Add(-2 * time.Hour)
		}
		k.Cert, err = p.CA.IssueCertificate(
			testsupport.WithSubject(pkix.Name{CommonName: "verif ee " + kid, Organization: []string{"Test"}, Country: []string{"EU"}}),
			testsupport.WithValidity(nb, notAfter.Sub(nb)),
			testsupport.WithSubjectPubKey(&priv.PublicKey, x509.ECDSAWithSHA256),
			testsupport.WithKeyUsage(usage),
		)
		if err != nil {
			return nil, err
		}
	}
	return k, nil
}

// NewKeyVia creates a key whose certificate (valid until leafEnd) is issued by a new intermediate CA of the PKI (valid
// until caEnd); Chain holds the intermediate certificate, so the published x5c is leaf, intermediate.
func (p *PKI) NewKeyVia(kid string, leafEnd, caEnd time.Time) (*SigningKey, error) {
	validFrom := func(end time.Time) time.Time {
		nb := time.Now().Add(-2 * time.Hour)
		if end.Before(nb) {
			nb = end.Add(-2 * time.Hour)
		}
		return nb
	}
	caPriv, err := ecdsa.GenerateKey(elliptic.P256(), rand.Reader)
	if err != nil {
		return nil, err
	}
	nb := validFrom(caEnd)
	caCert, err := p.CA.IssueCertificate(
		testsupport.WithSubject(pkix.Name{CommonName: "verif intermediate " + kid, Organization: []string{"Test"}, Country: []string{"EU"}}),
		testsupport.WithIsCA(),
		testsupport.WithValidity(nb, caEnd.Sub(nb)),
		testsupport.WithSubjectPubKey(&caPriv.PublicKey, x509.ECDSAWithSHA384),
	)
	if err != nil {
		return nil, err
	}
	priv, err := ecdsa.GenerateKey(elliptic.P256(), rand.Reader)
	if err != nil {
		return nil, err
	}
	nb = validFrom(leafEnd)
	cert, err := testsupport.NewCA(caPriv, caCert).IssueCertificate(
		testsupport.WithSubject(pkix.Name{CommonName: "verif ee " + kid, Organization: []string{"Test"}, Country: []string{"EU"}}),
		testsupport.WithValidity(nb, leafEnd.Sub(nb)),
		testsupport.WithSubjectPubKey(&priv.PublicKey, x509.ECDSAWithSHA256),
		testsupport.WithKeyUsage(x509.KeyUsageDigitalSignature),
	)
	if err != nil {
		return nil, err
	}
	return &SigningKey{KID: kid, Priv: priv, Cert: cert, Chain: []*x509.Certificate{caCert}}, nil
}

// JWKS renders a key set document of the given keys.
func JWKS(keys ...*SigningKey) []byte {
	set := jose.JSONWebKeySet{}
	for _, k := range keys {
		j := jose.JSONWebKey{Key: &k.Priv.PublicKey, KeyID: k.KID, Algorithm: "ES256", Use: "sig"}
		if k.Cert != nil {
			j.Certificates = append([]*x509.Certificate{k.Cert}, k.Chain...)
		}
		set.Keys = append(set.Keys, j)
	}
	b, _ := json.Marshal(set)
	return b
}

// SignJWT issues a compact JWT with the given claims.
func (k *SigningKey) SignJWT(claims map[string]any) (string, error) {
	opts := (&jose.SignerOptions{}).WithType("JWT").WithHeader("kid", k.KID)
	signer, err := jose.NewSigner(jose.SigningKey{Algorithm: jose.ES256, Key: k.Priv}, opts)
	if err != nil {
		return "", err
	}
	return jwt.Signed(signer).Claims(claims).Serialize()
}

// WriteSignerKeyStore writes a PEM key store usable by the jwt finalizer's signer.
func WriteSignerKeyStore(dir string) (string, error) {
	priv, err := ecdsa.GenerateKey(elliptic.P256(), rand.Reader)
	if err != nil {
		return "", err
	}
	pem, err := pemx.BuildPEM(pemx.WithECDSAPrivateKey(priv, pemx.WithHeader("X-Key-ID", "verif-signer")))
	if err != nil {
		return "", err
	}
	p := filepath.Join(dir, fmt.Sprintf("signer-%d.pem", time.Now().UnixNano()))
	return p, os.WriteFile(p, pem, 0o600)
}

// ---------------------------------------------------------------------------------------------
// running mechanisms

// Step is one mechanism execution: which client request, subject and pipeline outputs it sees.
type Step struct {
	Req     Req            `json:"req"`
	Subject *SubjectSpec   `json:"subject,omitempty"`
	Outputs map[string]any `json:"outputs,omitempty"`
}

type SubjectSpec struct {
	ID         string         `json:"id"`
	Attributes map[string]any `json:"attributes,omitempty"`
}

func (s *SubjectSpec) build() *subject.Subject {
	if s == nil {
		return &subject.Subject{ID: "anon", Attributes: map[string]any{}}
	}
	attrs := map[string]any{}
	for k, v := range s.Attributes {
		attrs[k] = v
	}
	return &subject.Subject{ID: s.ID, Attributes: attrs}
}

func (st Step) ctx(c cache.Cache) *requestcontext.RequestContext {
	ctx := NewCtx(st.Req, c)
	for k, v := range st.Outputs {
		ctx.Outputs()[k] = v
	}
	return ctx
}

// Executable is the common shape of authorizers, contextualizers and finalizers.
type Executable interface {
	Execute(ctx heimdall.Context, sub *subject.Subject) error
}

// Authn is the shape of authenticators.
type Authn interface {
	Execute(ctx heimdall.Context) (*subject.Subject, error)
}

func safely(f func() error) (err error) {
	defer func() {
		if p := recover(); p != nil {
			err = fmt.Errorf("panic: %v", p)
		}
	}()
	return f()
}

// RunAuthn executes an authenticator for the step with the given cache.
func RunAuthn(a Authn, st Step, c cache.Cache) Outcome {
	ctx := st.ctx(c)
	var sub *subject.Subject
	err := safely(func() error {
		var e error
		sub, e = a.Execute(ctx)
		return e
	})
	return Capture(ctx, sub, err)
}

// RunExec executes an authorizer / contextualizer / finalizer.
func RunExec(m Executable, st Step, c cache.Cache) Outcome {
	ctx := st.ctx(c)
	sub := st.Subject.build()
	err := safely(func() error { return m.Execute(ctx, sub) })
	return Capture(ctx, nil, err)
}

// RawUpstream returns the un-normalised upstream header value of a fresh execution (used to look
// into issued tokens).
func RunExecRaw(m Executable, st Step, c cache.Cache) (Outcome, http.Header) {
	ctx := st.ctx(c)
	sub := st.Subject.build()
	err := safely(func() error { return m.Execute(ctx, sub) })
	return Capture(ctx, nil, err), ctx.UpstreamHeaders()
}
