ENGINES = [
    {"name": "go-harness", "path": "/verif/harness", "serves_properties": [], "kind_free_text":
     "Go test binaries compiled inside the heimdall module through a build overlay; they run the real code (fx-assembled apps, real repository/tree/mechanisms) under generated workloads and decide with monitors: reference models, differential/metamorphic oracles, porcupine history checks, race detector"},
]
NOTES = ("Runtime monitoring only. Every verdict is 'held on the executions driven and observed'; evidence files list what the monitors saw. "
         "Exit 2 + INCONCLUSIVE line = undecided (harness build failure, watchdog, too few observations), never a violation.")
NOT_APPLICABLE = {}
CHECKS = {
    "C02": {
        "level": "exploration",
        "technique": "runtime monitoring: reference-model oracle over exhaustive small-scope + seeded random lookups on the real radix tree and repository",
        "text": "Every lookup on the real radix tree / repository is compared with an independent executable reference of the documented path-expression semantics; exhaustive for all sets of <=2 expressions from a pool (both orders, all backtracking flags, condition states, all pool paths), sampled for larger sets, insertion orders and rule-set layouts. Held on the cases executed, not a proof for all sets.",
        "note": "Trusts the reference model core/pathref (about 150 lines) as the reading of the statement; rules sharing one expression carry equal backtracking flags; expressions of equal shape (differing only in wildcard names) are treated as one expression.",
    },
}
