ENGINES = [
    {"name": "go-harness", "path": "/verif/harness", "serves_properties": [], "kind_free_text":
     "Go test binaries compiled inside the heimdall module through a build overlay; they run the real code (fx-assembled apps, real repository/tree/mechanisms) under generated workloads and decide with monitors: reference models, differential/metamorphic oracles, porcupine history checks, race detector"},
]
NOTES = ("Runtime monitoring only. Every verdict is 'held on the executions driven and observed'; evidence files list what the monitors saw. "
         "Exit 2 + INCONCLUSIVE line = undecided (harness build failure, watchdog, too few observations), never a violation.")
NOT_APPLICABLE = {}
CHECKS = {
    "C02": {
        "level": "exploration",
        "technique": "runtime monitoring: reference-model oracle over exhaustive small-scope + seeded random lookups on the real radix tree and repository",
        "text": "Every lookup on the real radix tree / repository is compared with an independent executable reference of the documented path-expression semantics; exhaustive for all sets of <=2 expressions from a pool (both orders, all backtracking flags, condition states, all pool paths), sampled for larger sets, insertion orders and rule-set layouts. Held on the cases executed, not a proof for all sets.",
        "note": "Trusts the reference model core/pathref (about 150 lines) as the reading of the statement; rules sharing one expression carry equal backtracking flags; expressions of equal shape (differing only in wildcard names) are treated as one expression.",
    },
    "C06": {
        "level": "exploration",
        "technique": "runtime monitoring: differential oracle (live instance vs fresh instance of the same code) + reference-model oracle after every operation of seeded random rule-set histories",
        "text": "Random create/update/delete histories over three sources are applied to the real repository through the real rule-set processor; after every operation ~430 probe lookups are compared with an independent reference lookup over the model's current versions, rejected operations must leave all answers unchanged, and at the end of each history (plus one random prefix) with a fresh real instance loaded once with the current versions in two load orders. Held on the histories executed.",
        "note": "Histories respect the provider contract (no double create, no update/delete of unknown sources); reference model core/pathref; rejection is only predicted for the two reasons named in the statement (expression pool uses consistent wildcard names).",
    },
    "C07": {
        "level": "exploration",
        "technique": "runtime monitoring: porcupine linearizability check of client-boundary histories + Go race detector + lock-order monitor on lock-shimmed build, child process per batch",
        "text": "Concurrent writers (one per source) and readers run against the real repository compiled with -race and with scheduler-perturbing lock shims; every recorded history is checked for linearizability against a register-per-source model, a quiescent final-state check detects lost/partial updates, lock-order inversions are detected from the shim's acquisition graph, and crashes/race reports are taken from the child process. Held on the interleavings produced (overlap counts in evidence).",
        "note": "Each source has a single writer (as providers do). Race freedom only on interleavings produced. Lock shims are a mechanical textual replacement of sync.Mutex/RWMutex in the current repository_impl.go; if the file no longer declares such locks the run is un-instrumented (recorded in evidence).",
    },
    "C01": {
        "level": "exploration",
        "technique": "runtime monitoring: probe-mechanism trace (ground truth per step) + independent pipeline model over the three assembled services; upstream hit counter",
        "text": "Generated pipelines (probe and real mechanisms, `if` conditions driven to true/false/evaluation error, continue-on-error, fallback, 11 error-pipeline shapes, default rule, partial rules) run in fx-assembled decision, Envoy gRPC and proxy services; for each rule all-ok, every single deviating step x outcome x condition state, failing step x error-pipeline state and random plans are sent. A positive answer must be justified by the recorded step trace and by an independent pipeline model; non-positive answers must have a non-2xx status and no upstream hit. Held on the requests executed.",
        "note": "Trusts the probe/recording wrappers at the exported MechanismFactory seam and the ~60-line pipeline model; probe error handlers honour the error-handler contract. A request the model expects to pass but which is denied makes the run inconclusive (exit 2), not a violation.",
    },
    "C09": {
        "level": "exploration",
        "technique": "runtime monitoring: differential oracle (same request with vs without forwarded headers) on the real handler chain with arbitrary peer addresses + small override model for trusted peers",
        "text": "In-package harnesses drive the real decision and proxy handler chains (newService(...).Handler with the real rule executor) with generated trusted_proxies lists, peer addresses (in-process arbitrary RemoteAddr, real loopback and link-local sockets) and every subset of forwarded headers; an untrusted peer's request must be observably identical to the same request without those headers, and nothing client supplied may reach the upstream; trusted peers override exactly their component. Held on the requests executed.",
        "note": "Trust is decided by the oracle's own net/netip reading; reading-dependent peers (IPv4-mapped, zoned, missing port) accept either behaviour; X-Forwarded-Path overrides nothing (support was removed upstream). In-package files use unexported identifiers (newService); a build failure is reported as inconclusive.",
    },
    "C14": {
        "level": "exploration",
        "technique": "runtime monitoring: exhaustive small-scope enumeration of default-rule x rule definitions, probe trace of executed mechanisms vs stage-wise inheritance model",
        "text": "All 17 default-rule shapes x 2 modes x every subset of the four stages (also defined only by a conditional step) x backtracking {unset,true,false} x forward_to {present,absent}, every ordering of <=4 step kinds, unknown ids, bad overrides and malformed conditions are loaded one rule per rule set through the real processor/factory; accepted rules are executed through the real executor and the probe trace is compared with the stage-wise model, backtracking is observed against a less specific companion rule. Exhaustive for the enumerated space.",
        "note": "Empty execute lists are not generated (rejected earlier by rule-set validation). Probes stand in for real mechanisms; only ids/order of executed mechanisms are compared.",
    },
    "C03": {
        "level": "exploration",
        "technique": "runtime monitoring: reference-predicate oracle over generated matcher definitions and requests executed by the real rule executor; captures echoed by a header finalizer",
        "text": "Generated rules (scheme, method lists with ALL/negation/duplicates, 0-3 hosts of each type, 10 route shapes with named/unnamed single and free wildcards, path_params of each type on single and free wildcards, all encoded-slash settings, decoy rules forcing backtracking out of a static branch) are loaded through the real factory; requests derived from each rule (every condition independently met/unmet, arbitrary percent-encoding of captured segments) are executed by the real executor and the matched rule id and .Request.URL.Captures, echoed by a header finalizer, are compared with a reference predicate. Held on the pairs executed.",
        "note": "glob/regex pattern semantics are delegated to the same libraries; negations are generated only together with ALL; encoded slashes under `off` and lower-case %2f belong to C08; requests use the executor directly (scheme via X-Forwarded-Proto as a trusted proxy would set it).",
    },
}
