ENGINES = [
    {"name": "go-harness", "path": "/verif/harness", "serves_properties": [], "kind_free_text":
     "Go test binaries compiled inside the heimdall module through a build overlay; they run the real code (fx-assembled apps, real repository/tree/mechanisms) under generated workloads and decide with monitors: reference models, differential/metamorphic oracles, porcupine history checks, race detector"},
]
NOTES = ("Runtime monitoring only. Every verdict is 'held on the executions driven and observed'; evidence files list what the monitors saw. "
         "Exit 2 + INCONCLUSIVE line = undecided (harness build failure, watchdog, too few observations), never a violation.")
NOT_APPLICABLE = {}
CHECKS = {
    "C02": {
        "level": "exploration",
        "technique": "runtime monitoring: reference-model oracle over exhaustive small-scope + seeded random lookups on the real radix tree and repository",
        "text": "Every lookup on the real radix tree / repository is compared with an independent executable reference of the documented path-expression semantics; exhaustive for all sets of <=2 expressions from a pool (both orders, all backtracking flags, condition states, all pool paths), sampled for larger sets, insertion orders and rule-set layouts. Held on the cases executed, not a proof for all sets.",
        "note": "Trusts the reference model core/pathref (about 150 lines) as the reading of the statement; rules sharing one expression carry equal backtracking flags; expressions of equal shape (differing only in wildcard names) are treated as one expression.",
    },
    "C06": {
        "level": "exploration",
        "technique": "runtime monitoring: differential oracle (live instance vs fresh instance of the same code) + reference-model oracle after every operation of seeded random rule-set histories",
        "text": "Random create/update/delete histories over three sources are applied to the real repository through the real rule-set processor; after every operation ~430 probe lookups are compared with an independent reference lookup over the model's current versions, rejected operations must leave all answers unchanged, and at the end of each history (plus one random prefix) with a fresh real instance loaded once with the current versions in two load orders. Held on the histories executed.",
        "note": "Histories respect the provider contract (no double create, no update/delete of unknown sources); reference model core/pathref; rejection is only predicted for the two reasons named in the statement (expression pool uses consistent wildcard names).",
    },
    "C07": {
        "level": "exploration",
        "technique": "runtime monitoring: porcupine linearizability check of client-boundary histories + Go race detector + lock-order monitor on lock-shimmed build, child process per batch",
        "text": "Concurrent writers (one per source) and readers run against the real repository compiled with -race and with scheduler-perturbing lock shims; every recorded history is checked for linearizability against a register-per-source model, a quiescent final-state check detects lost/partial updates, lock-order inversions are detected from the shim's acquisition graph, and crashes/race reports are taken from the child process. Held on the interleavings produced (overlap counts in evidence).",
        "note": "Each source has a single writer (as providers do). Race freedom only on interleavings produced. Lock shims are a mechanical textual replacement of sync.Mutex/RWMutex in the current repository_impl.go; if the file no longer declares such locks the run is un-instrumented (recorded in evidence).",
    },
}
