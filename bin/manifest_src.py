ENGINES = [
    {"name": "go-harness", "path": "/verif/harness", "serves_properties": [], "kind_free_text":
     "Go test binaries compiled inside the heimdall module through a build overlay; they run the real code (fx-assembled apps, real repository/tree/mechanisms) under generated workloads and decide with monitors: reference models, differential/metamorphic oracles, porcupine history checks, race detector"},
]
NOTES = ("Runtime monitoring only. Every verdict is 'held on the executions driven and observed'; evidence files list what the monitors saw. "
         "Exit 2 + INCONCLUSIVE line = undecided (harness build failure, watchdog, too few observations), never a violation.")
NOT_APPLICABLE = {}
CHECKS = {
    "C02": {
        "level": "exploration",
        "technique": "runtime monitoring: reference-model oracle over exhaustive small-scope + seeded random lookups on the real radix tree and repository",
        "text": "Every lookup on the real radix tree / repository is compared with an independent executable reference of the documented path-expression semantics; exhaustive for all sets of <=2 expressions from a pool (both orders, all backtracking flags, condition states, all pool paths), sampled for larger sets, insertion orders and rule-set layouts. Held on the cases executed, not a proof for all sets.",
        "note": "Trusts the reference model core/pathref (about 150 lines) as the reading of the statement; rules sharing one expression carry equal backtracking flags; expressions of equal shape (differing only in wildcard names) are treated as one expression.",
    },
    "C06": {
        "level": "exploration",
        "technique": "runtime monitoring: differential oracle (live instance vs fresh instance of the same code) + reference-model oracle after every operation of seeded random rule-set histories",
        "text": "Random create/update/delete histories over three sources are applied to the real repository through the real rule-set processor; after every operation ~430 probe lookups are compared with an independent reference lookup over the model's current versions, rejected operations must leave all answers unchanged, and at the end of each history (plus one random prefix) with a fresh real instance loaded once with the current versions in two load orders. Held on the histories executed.",
        "note": "Histories respect the provider contract (no double create, no update/delete of unknown sources); reference model core/pathref; rejection is only predicted for the two reasons named in the statement (expression pool uses consistent wildcard names).",
    },
    "C07": {
        "level": "exploration",
        "technique": "runtime monitoring: porcupine linearizability check of client-boundary histories + Go race detector + lock-order monitor on lock-shimmed build, child process per batch",
        "text": "Concurrent writers (one per source) and readers run against the real repository compiled with -race and with scheduler-perturbing lock shims; every recorded history is checked for linearizability against a register-per-source model, a quiescent final-state check detects lost/partial updates, lock-order inversions are detected from the shim's acquisition graph, and crashes/race reports are taken from the child process. Held on the interleavings produced (overlap counts in evidence).",
        "note": "Each source has a single writer (as providers do). Race freedom only on interleavings produced. Lock shims are a mechanical textual replacement of sync.Mutex/RWMutex in the current repository_impl.go; if the file no longer declares such locks the run is un-instrumented (recorded in evidence).",
    },
    "C01": {
        "level": "exploration",
        "technique": "runtime monitoring: probe-mechanism trace (ground truth per step) + independent pipeline model over the three assembled services; upstream hit counter",
        "text": "Generated pipelines (probe and real mechanisms, `if` conditions driven to true/false/evaluation error, continue-on-error, fallback, 13 error-pipeline shapes, default rule, partial rules) run in fx-assembled decision, Envoy gRPC and proxy services (three service variants: without / with default rule, and verbose responses with trace logging and OpenTelemetry tracing enabled - SDK tracer provider, recording spans, no exporter); for each rule all-ok, every single deviating step x outcome x condition state, failing step x error-pipeline state and random plans are sent. A positive answer must be justified by the recorded step trace and by an independent pipeline model; non-positive answers must have a non-2xx status and no upstream hit. Held on the requests executed.",
        "note": "Trusts the probe/recording wrappers at the exported MechanismFactory seam and the ~60-line pipeline model; probe error handlers honour the error-handler contract. A request the model expects to pass but which is denied makes the run inconclusive (exit 2), not a violation.",
    },
    "C09": {
        "level": "exploration",
        "technique": "runtime monitoring: differential oracle (same request with vs without forwarded headers) on the real handler chain with arbitrary peer addresses + small override model for trusted peers",
        "text": "In-package harnesses drive the real decision and proxy handler chains (newService(...).Handler with the real rule executor) with generated trusted_proxies lists, peer addresses (in-process arbitrary RemoteAddr, real loopback and link-local sockets) and every subset of forwarded headers; an untrusted peer's request must be observably identical to the same request without those headers, and nothing client supplied may reach the upstream; trusted peers override exactly their component. Held on the requests executed.",
        "note": "Trust is decided by the oracle's own net/netip reading; reading-dependent peers (IPv4-mapped, zoned, missing port) accept either behaviour; X-Forwarded-Path overrides nothing (support was removed upstream). In-package files use unexported identifiers (newService); a build failure is reported as inconclusive.",
    },
    "C14": {
        "level": "exploration",
        "technique": "runtime monitoring: exhaustive small-scope enumeration of default-rule x rule definitions, probe trace of executed mechanisms vs stage-wise inheritance model",
        "text": "All 17 default-rule shapes x 2 modes x every subset of the four stages (also defined only by a conditional step) x backtracking {unset,true,false} x forward_to {present,absent}, every ordering of <=4 step kinds, unknown ids, bad overrides and malformed conditions are loaded one rule per rule set through the real processor/factory; accepted rules are executed through the real executor and the probe trace is compared with the stage-wise model, backtracking is observed against a less specific companion rule. Exhaustive for the enumerated space.",
        "note": "Empty execute lists are not generated (rejected earlier by rule-set validation). Probes stand in for real mechanisms; only ids/order of executed mechanisms are compared.",
    },
    "C03": {
        "level": "exploration",
        "technique": "runtime monitoring: reference-predicate oracle over generated matcher definitions and requests executed by the real rule executor; captures echoed by a header finalizer",
        "text": "Generated rules (scheme, method lists with ALL/negation/duplicates, 0-3 hosts of each type, 10 route shapes with named/unnamed single and free wildcards, path_params of each type on single and free wildcards, all encoded-slash settings, decoy rules forcing backtracking out of a static branch) are loaded through the real factory; requests derived from each rule (every condition independently met/unmet, arbitrary percent-encoding of captured segments) are executed by the real executor and the matched rule id and .Request.URL.Captures, echoed by a header finalizer, are compared with a reference predicate. Held on the pairs executed.",
        "note": "glob/regex pattern semantics are delegated to the same libraries; negations are generated only together with ALL; encoded slashes under `off` and lower-case %2f belong to C08; requests use the executor directly (scheme via X-Forwarded-Proto as a trusted proxy would set it).",
    },
    "C04": {
        "level": "exploration",
        "technique": "runtime monitoring: 3-way credential classification model vs assembled decision service with real authenticators; recording-wrapper trace of which authenticators ran",
        "text": "All 258 type-level chains (length <=3 over anonymous, unauthorized, basic_auth, jwt, generic, oauth2_introspection; fallback unset/false/true at prototype and rule level) are loaded as rules of an fx-assembled decision service; requests from a credential catalogue (none, foreign scheme, valid, each kind of well-formed-invalid, failing endpoints, malformed, alternative locations, two credentials at once) are sent and status, echoed subject and the recorded order of executed authenticators are compared with a model written from the documentation. Held on the chains x requests executed.",
        "note": "Credential shapes whose class the statement leaves open (undecodable Basic value, Bearer non-JWT for jwt, blank values) are only asserted never to yield a subject. 'Authentication fails' = non-200. Local httptest servers stand in for JWKS/introspection/identity endpoints.",
    },
    "C05": {
        "level": "exploration",
        "technique": "runtime monitoring: independent reference JWT verifier (stdlib crypto only) vs real jwt authenticator over attack catalogue + byte-level mutation of valid tokens",
        "text": "33 real jwt authenticator instances (prototypes and rule-level variants: issuers, audiences, scopes, algorithms, leeway, key validation, metadata endpoint) run against local key-set servers (13 algorithms, kid/no kid/duplicate kid, alg absent/mismatching, x5c chains); ~66k (quick) / ~1M (thorough) tokens: valid baselines, attack catalogue (alg none, HMAC with public material, kid swap, embedded jwk/jku/x5c, re-sign, stale signature, time/issuer/audience/scope grids, segment counts) and substitution/deletion/duplication at every byte of sampled valid tokens. Asserted: observed accept => reference accept (every token); reference accept => observed accept for canonical tokens; subject id/attributes equal verified claims.",
        "note": "Time-dependent tokens within 3 s of a boundary are 'either'; go-jose may be stricter on non-canonical encodings (counted, not alarmed); a kid carried by several keys is 'either'; hierarchic scope semantics follow code+unit tests (docs example disagrees).",
    },
    "C10": {
        "level": "exploration",
        "technique": "runtime monitoring: conservation oracle over recorded cache events (Set ttl / hit / miss) with virtual time (miniredis FastForward) and bracketed instants; remote call counters",
        "text": "Real mechanisms (introspection, generic and jwt authenticators, jwt finalizer, client credentials, remote authorizer, contextualizer, httpcache round tripper) run with a recording cache around the real in-memory cache and the real redis client on miniredis against hash-echo servers; expiry deltas x configured TTLs x Cache-Control/Expires/Age combinations x request/repeat/advance-time/repeat sequences. Every Set must have ttl>0, end within validity (+leeway where the statement allows), not exceed the configured TTL, and nothing is stored or hit when TTL is 0 or the freshness lifetime is non-positive; no hit after validity passed.",
        "note": "No wall-clock verdicts: expiries are >=3 s away from decision boundaries and only monotone-safe facts are asserted; in-memory expiry over long lifetimes is checked through TTL arguments (real sleeps only in thorough, <=5 s). miniredis stands in for Redis.",
    },
    "C11": {
        "level": "exploration",
        "technique": "runtime monitoring: metamorphic oracle cache-on == cache-off against hash-echo servers + key determinism over repeated evaluations (recorded cache keys, remote call counts)",
        "text": "For 8 mechanisms: (1) the same request evaluated 60x with freshly created mechanisms must use one cache key and one remote call; (2) pairs of requests differing in exactly one component (subject, payload, value, credential, forwarded value, rule-level policy) and (3) boundary-shifted pairs are run in A,B,A / B,A,B order once with the recording in-memory cache and once with a no-op cache; per step the error kind, subject, outputs and upstream headers must be equal.",
        "note": "Servers answer as pure functions of the request. JWTs are compared by claims minus iat/nbf/exp/jti. Four open known findings with narrow signatures (`.Outputs` used in endpoint templates not in the key of remote authorizer / contextualizer; httpcache key ignoring the request body and Vary); everything else found was repaired (known_findings.json).",
    },
    "C12": {
        "level": "exploration",
        "technique": "runtime monitoring: precedence-model oracle over generated error chains on the real HTTP and gRPC error translators (differential HTTP vs gRPC) + e2e through the three assembled services",
        "text": "Error values are built from description trees (16 atoms x 10 constructors, exhaustive to depth 2, sampled at depth 3) and fed to the real HTTP error handler and gRPC interceptor configured like the services (verbose on/off, status overrides, 48 Accept headers); status vs a ~25-line precedence model, never 2xx/OK, HTTP==gRPC, body only when verbose and in an acceptable, parseable type. E2E: redirect => code+Location, www-authenticate => 401+WWW-Authenticate(realm), panics => 5xx, on decision, proxy and Envoy gRPC.",
        "note": "The oracle reads only the error description, never the error value. html bodies are only checked for valid UTF-8. One open known finding (gRPC sends text/html when nothing acceptable; pinned by an existing unit test).",
    },
    "C17": {
        "level": "exploration",
        "technique": "runtime monitoring: Go race detector (child processes) + reflective deep fingerprint of prototypes/variants + behavioural differential against isolated instances",
        "text": "23 mechanism prototypes and 110 override sets are created through the real factory in seeded orders; 16 goroutines released by a barrier hit each mechanism on first use (cold rounds) in -race children; fingerprints (unexported fields, canonical maps, pointer identity for library objects) of every prototype and earlier variant must be unchanged after creating variants and after executions; behaviour of each object equals the same object in an instance where nothing else exists; variant == fresh prototype with overlaid config; zero race reports.",
        "note": "Only sync primitives and lock shims are excluded from fingerprints; closure-captured endpoints are covered by behaviour and race detector only. A sync.Once style lazy init would be reported (strict reading of 'does not change the mechanism'). Race freedom only on interleavings produced.",
    },
    "C20": {
        "level": "exploration",
        "technique": "runtime monitoring: metamorphic oracle over related loads of the real configuration loader (all-file == all-env == every split; env wins per leaf; permutation invariance) + schema/loader equivalence table",
        "text": "Configurations generated from a grammar of the documented tree (nested lists in lists, every mechanism type/option) are loaded by config.NewConfiguration from a file, from per-leaf environment variables in several orders, and from random splits with conflicting assignments; canonicalised results must be equal, the environment must win exactly on conflicting leaves, defaults elsewhere; 234 table entries (each mechanism type, auth type, option) are given once by file and once by environment: usable(file) <=> usable(env).",
        "note": "Scalars are generated with schema types; free-form map keys lower case, no `$` in values. Undocumented spellings are outside the quantifier. Five open known findings (environment values typed by a YAML parse; mechanism decoders not weakly typed; schema applied to the file before merging; http_message_signatures missing in schema; metadata_endpoint string form).",
    },
    "C08": {
        "level": "exploration",
        "technique": "runtime monitoring: metamorphic oracle (re-encodings of unreserved octets must not change rule/captures/decision) + encoded-slash policy assertions on the three assembled services and the upstream echo server",
        "text": "A rule set mixing literal, single-wildcard, free-wildcard and path_params expressions for the same paths under each encoded-slash setting plus a default rule runs in the decision, proxy and Envoy gRPC services; every base path is sent canonically and in none/all/random re-encodings of its unreserved octets (either hex case) and with %2F / %2f inserted at several positions of the last segment; matched rule, echoed captures, accept/deny and the request line received by the upstream are compared with the canonical spelling and with the per-setting rules of the statement. Held on the spellings executed.",
        "note": "The kit's Envoy client sends every second request target the way Envoy does (path and query together in `path`, `query` empty) and every other one split (as the repository's tests do). Which rule an encoded-slash path should match is taken from the canonical path's rule family.",
    },
    "C13": {
        "level": "exploration",
        "technique": "runtime monitoring: differential oracle across the three assembled entry points for the same logical request (decision, echoed request view, upstream-side headers and cookies)",
        "text": "Seeded logical requests (methods, hosts, percent-encoded paths with captures, repeated/encoded query parameters, multi-valued and non-ASCII headers, quoted cookies, JSON/form/YAML/text/invalid bodies in both Envoy body encodings) are sent to the HTTP decision, Envoy gRPC and proxy services loaded with the same rules, whose CEL authorizers, `if` conditions and header/cookie finalizer templates read method, URL parts, captures, headers in three name casings, cookies and the decoded body; decisions, every echoed view value and every header/cookie produced for the upstream side must be pairwise equal. Held on the requests executed.",
        "note": "Mapping of a logical request to an Envoy CheckRequest: lower-case header keys; the request target alternately in Envoy's own form (path and query in `path`) and split into `path`/`query` as the repository's tests do. One open known finding (multi-valued pipeline header: first value on HTTP, joined on gRPC; both pinned by existing unit tests).",
    },
    "C19": {
        "level": "fault_enumeration",
        "technique": "runtime monitoring: crash monitor over child processes (journal-before-apply, exit status / panic text), sentinel-based liveness of watchers, previous-state probes",
        "text": "Each child process runs one fx-assembled decision app with secrets reload, watched file-system rule provider, jwt finalizer / TLS / http_message_signatures key stores, trust store, jwt/introspection/generic authenticators, remote authorizer and contextualizer against a scripted server; the parent enumerates inputs per kind (valid corpus, truncation sweeps, bit flips, empty/cert-only/key-only/unsupported/encrypted/mismatched/cyclic-chain key stores, type-confused rule sets for every field, malformed remote documents, malformed tokens and raw TCP garbage), each journaled with fsync before it is applied. Verdicts: child death or panic text (signature = panic site), watcher stopped (four unanswered valid sentinel writes in a row), previous state lost after a rejected reload, no error response for a malformed token.",
        "note": "fsnotify reloads are asynchronous: a single missed reaction is re-nudged and never a verdict. The trust store is only loaded at start-up in this tree (panic caught on a harness goroutine). Real S3/Kubernetes/Redis are not part of this check. Three open known findings (one per key-store kind): an encrypted key entry with an excessive PBKDF2 iteration count keeps the reload of that file busy for days; the lanes wait a 22 s horizon for it, which is the larger part of the quick tier's wall time.",
    },
    "C15": {
        "level": "exploration",
        "technique": "runtime monitoring: reference rewrite model vs request line/headers/body recorded by an upstream echo server behind the fx-assembled proxy (byte-exact raw client) + direct Backend.CreateURL differential",
        "text": "Two proxy instances (peer untrusted / trusted) with 10 rules covering every rewrite option receive seeded requests written byte-exact on the socket: pchar paths with arbitrary percent-encoding, queries with repeated/encoded/valueless parameters, all methods, bodies up to 1 MiB, client headers colliding with pipeline headers in random casing/repetition, forwarding headers. The upstream's request line must equal add(strip(client escaped path)) byte for byte, the query must be byte-identical (or equal as multimap minus removed parameters), method/body/Host as required, pipeline headers win, X-Forwarded-Method/-Uri/-Path never arrive, X-Forwarded-For/Forwarded end with the peer address and extend trusted values. Scheme rewrite is checked on Backend.CreateURL.",
        "note": "Paths use RFC 3986 pchar characters, plus segments with characters net/url does not accept unescaped (|, ^, {, \", <): those bytes may reach the upstream escaped, so both sides of the path comparison escape exactly them and compare everything else as sent; with removed parameters the query is compared as multimap with per-key order; with allow_encoded_slashes: on the path is compared after decoding. A trusted peer's X-Forwarded-Method/-Uri/-Host/-Proto carry the actual values (their overriding effect is C09's subject).",
    },
    "C16": {
        "level": "exploration",
        "technique": "runtime monitoring: porcupine linearizability check (register = current key generation) + per-token/JWKS oracles with stdlib crypto + Go race detector on a lock-shimmed build, child processes; e2e monotonicity through decision and management endpoints",
        "text": "Signer level: the real jwt finalizer (created through the real factory code with a capturing watcher and key-holder registry) is driven by token goroutines, JWKS readers and a reloader that atomically replaces the PEM key store (RSA 2048-4096, EC P-256/384/521, with/without certificates and key ids, 1-3 entries, unique key per generation, hostile claims templates); every token must name kid/alg of one generation and verify with that generation's public key, carry sub/iss/iat=nbf/exp=iat+ttl/jti undisturbed by custom claims; every JWKS read is exactly one generation's public set without private members; histories are checked with porcupine; rejected reloads must leave keys and published set untouched. E2E: fx app with secrets reload, tokens via the decision service and JWKS via the management endpoint while the key store file is rewritten (real fsnotify): real-time monotonicity of generations. Race reports, crashes and lock-order inversions are violations.",
        "note": "Oracle verifies with Go stdlib crypto only. E2E reload intervals are open-ended (asynchronous), so only monotone-safe facts are asserted there. Race freedom only on interleavings produced; lock shims are a textual replacement of sync.(RW)Mutex in the current jwt_signer.go / watcher_impl.go.",
    },
    "C18": {
        "level": "fault_enumeration",
        "technique": "runtime monitoring: exhaustive event/fetch-outcome sequences driven into the providers' own decision functions (in-package) with a recording rule-set processor; model of last applied content per source; real fsnotify / scheduler / informer loops with logical quiescence",
        "text": "For each provider (file_system, http_endpoint, cloud_blob, kubernetes) all sequences up to length 4 (quick) / 5 (thorough) over 11-13 symbols per source (appear, change, same content, empty, invalid, unsupported type, disappear, rename, 404/500, refused, timeout, processor failure, second source, watch outage with replace/delete) are applied to the real provider code against a real temp directory, a scripted loopback server, gofakes3 and a fake Kubernetes API with the real client-go informer; the recorded OnCreated/OnUpdated/OnDeleted calls are compared per step with a model driven by the actual source state (exactly-once, no spurious reload, invalid keeps previous, failed call leaves state) and at the end the active rule sets must equal the latest valid content of the existing sources.",
        "note": "In-module fakes stand in for S3 and the Kubernetes API. HTTP 500 and unsupported content type are generated but not asserted (statement and docs disagree). Quiescence of asynchronous modes is logical (sentinel file, request gate), a watchdog is inconclusive. Two open known findings (pinned by existing unit tests).",
    },
}
